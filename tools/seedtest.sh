#!/bin/bash
# usage: [SUF=2] seedtest.sh <PID> <a|b> [check-props...]   (confirm a seeded change in its scratch worktree, then run our checks on it)
PID=$1; X=$2; shift 2; CHECKS=${@:-$PID}
W=/tmp/seed/$PID
OUT=/verif/seeded/$PID-$X${SUF:-}
mkdir -p $OUT
HEAD=$(git -C /repo rev-parse HEAD)
cd $W || exit 1
git checkout -q -- . ; git checkout -q --detach $HEAD 2>/dev/null
# sources: the kept copy under /verif/seeded if there is one, else the author's out/ directory
if [ -f $OUT/patch.diff ]; then PATCH=$OUT/patch.diff; DEMO=$OUT/demo.rs; else PATCH=$W/out/$X.diff; DEMO=$W/out/demo_$X.rs; fi
cp $DEMO tests/demo_$X.rs
echo "== demo on unchanged tree"; cargo test --offline --test demo_$X 2>&1 | grep -E "^test result|error\[" | head -3 > $OUT/demo_before.txt; cat $OUT/demo_before.txt
if ! git apply --check $PATCH 2>/dev/null; then echo "PATCH DOES NOT APPLY to $HEAD"; exit 3; fi
git apply $PATCH
echo "== build + suite with the change"; cargo build --offline 2>&1 | grep -E "^error" | head -3
cargo nextest run --workspace --no-fail-fast --offline --test-threads 8 -E 'not binary(/demo_/)' 2>&1 | grep -E "Summary|FAIL|SIGABRT" | head -5 > $OUT/suite_with_change.txt; cat $OUT/suite_with_change.txt
echo "== demo with the change"; cargo test --offline --test demo_$X 2>&1 | grep -E "^test result|error\[" | head -3 > $OUT/demo_after.txt; cat $OUT/demo_after.txt
git checkout -q -- .
[ "$PATCH" = "$OUT/patch.diff" ] || { cp $PATCH $OUT/patch.diff; cp $DEMO $OUT/demo.rs; cp $W/out/notes.md $OUT/notes.md; }
rm -f tests/demo_$X.rs
echo "== our checks"
for C in $CHECKS; do
  flock /tmp/repo.lock bash -c "cd /repo && git status --short | grep -q '^ M' && { echo REPO-DIRTY; exit 9; }; git apply $OUT/patch.diff && cd /verif && ./check $C > $OUT/check_$C.txt 2>&1; echo rc=\$? >> $OUT/check_$C.txt; git -C /repo checkout -- ."
  tail -4 $OUT/check_$C.txt
  for r in $(grep -o 'replay=[^ ]*' $OUT/check_$C.txt | cut -d= -f2 | head -3); do cp $r $OUT/ 2>/dev/null; done
done
