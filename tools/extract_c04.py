#!/usr/bin/env python3
"""Translator part of C04: re-read /repo/src/lib.rs and regenerate
lean/NoulithModel/Generated/C04Tables.lean = the builtin registration table of `initialize`
(name, Rust struct family, alias, how it was inserted) plus, per `impl Builtin for X` block, which
of the entry points run1 / run2 the struct overrides.

Deliberately dumb (comment stripping + balanced-parenthesis scanning + regular expressions) and
fails closed: a registration whose struct or name cannot be determined is emitted with family
`unknown` / name `?<n>`, which no theorem covers, so `all_registered_builtins_covered` fails.
"""
import os, re, sys

REPO = os.environ.get("NOULITH_REPO", "/repo")
ROOT = os.path.dirname(os.path.dirname(os.path.abspath(__file__)))
OUT = os.path.join(ROOT, "lean", "NoulithModel", "Generated", "C04Tables.lean")


def strip_comments(src):
    """remove // and /* */ comments (nested), keeping string / char literals intact"""
    out, i, n = [], 0, len(src)
    while i < n:
        c = src[i]
        if src.startswith("//", i):
            while i < n and src[i] != "\n":
                i += 1
        elif src.startswith("/*", i):
            depth = 1
            i += 2
            while i < n and depth:
                if src.startswith("/*", i):
                    depth += 1
                    i += 2
                elif src.startswith("*/", i):
                    depth -= 1
                    i += 2
                else:
                    if src[i] == "\n":
                        out.append("\n")
                    i += 1
        elif c == '"':
            j = i + 1
            while j < n and src[j] != '"':
                j += 2 if src[j] == "\\" else 1
            out.append(src[i:j + 1])
            i = j + 1
        elif c == "r" and re.match(r'r#*"', src[i:i + 8]) and (i == 0 or not (src[i - 1].isalnum() or src[i - 1] == "_")):
            m = re.match(r'r(#*)"', src[i:])
            close = '"' + m.group(1)
            j = src.find(close, i + len(m.group(0)))
            j = n if j < 0 else j + len(close)
            out.append(src[i:j])
            i = j
        elif c == "'":
            # char literal ('x', '\n', '\u{..}') or lifetime ('a)
            m = re.match(r"'(\\u\{[0-9a-fA-F]+\}|\\.|[^\\'])'", src[i:])
            if m:
                out.append(m.group(0))
                i += len(m.group(0))
            else:
                out.append(c)
                i += 1
        else:
            out.append(c)
            i += 1
    return "".join(out)


def balanced(src, i, open_ch, close_ch):
    """src[i] == open_ch; return index just after the matching close (strings respected)"""
    assert src[i] == open_ch
    depth, n = 0, len(src)
    while i < n:
        c = src[i]
        if c == '"':
            j = i + 1
            while j < n and src[j] != '"':
                j += 2 if src[j] == "\\" else 1
            i = j + 1
            continue
        if c == "'":
            m = re.match(r"'(\\u\{[0-9a-fA-F]+\}|\\.|[^\\'])'", src[i:])
            if m:
                i += len(m.group(0))
                continue
        if c == open_ch:
            depth += 1
        elif c == close_ch:
            depth -= 1
            if depth == 0:
                return i + 1
        i += 1
    return n


def split_top_commas(s):
    parts, depth, cur, i, n = [], 0, [], 0, len(s)
    while i < n:
        c = s[i]
        if c == '"':
            j = i + 1
            while j < n and s[j] != '"':
                j += 2 if s[j] == "\\" else 1
            cur.append(s[i:j + 1])
            i = j + 1
            continue
        if c == "'":
            m = re.match(r"'(\\u\{[0-9a-fA-F]+\}|\\.|[^\\'])'", s[i:])
            if m:
                cur.append(m.group(0))
                i += len(m.group(0))
                continue
        if c in "([{":
            depth += 1
        elif c in ")]}":
            depth -= 1
        if c == "," and depth == 0:
            parts.append("".join(cur))
            cur = []
        else:
            cur.append(c)
        i += 1
    if "".join(cur).strip():
        parts.append("".join(cur))
    return parts


def rust_str(lit):
    """value of a simple Rust string literal token, or None"""
    m = re.fullmatch(r'\s*"((?:[^"\\]|\\.)*)"\s*', lit, re.S)
    if not m:
        return None
    s = m.group(1)
    s = s.replace('\\"', '"').replace("\\\\", "\\").replace("\\'", "'")
    return s


def impl_blocks(src):
    """struct name -> (has_run1, has_run2, builtin_name literal or None, cfg_wasm)"""
    res = {}
    for m in re.finditer(r"impl\s+Builtin\s+for\s+(\w+)\s*\{", src):
        start = m.end() - 1
        end = balanced(src, start, "{", "}")
        body = src[start:end]
        pre = src[max(0, m.start() - 80):m.start()]
        wasm = "target_arch" in pre
        name = None
        bm = re.search(r"fn\s+builtin_name\s*\(\s*&self\s*\)\s*->\s*&str\s*\{", body)
        if bm:
            bs = bm.end() - 1
            be = balanced(body, bs, "{", "}")
            inner = body[bs + 1:be - 1].strip()
            name = rust_str(inner)
        res[m.group(1)] = (bool(re.search(r"\bfn\s+run1\s*\(", body)), bool(re.search(r"\bfn\s+run2\s*\(", body)), name, wasm)
    return res


INSERT = re.compile(r"\benv\s*\.\s*(insert_builtin_with_precedence|insert_builtin_with_alias|insert_rassoc_builtin_with_alias|insert_rassoc_builtin|insert_builtin|insert_type)\s*\(")


def classify(how, argtext, impls, counter):
    """-> dict(name, family, alias, how)"""
    args = split_top_commas(argtext)
    first = args[0].strip() if args else ""
    alias = None
    if how.endswith("_with_alias"):
        alias = rust_str(args[-1]) if len(args) >= 2 else None
        if alias is None:
            alias = "?alias"
    if how == "insert_type":
        m = re.fullmatch(r"ObjType::(\w+)", first)
        if m:
            return dict(name="type:" + m.group(1), family="Type", alias=None, how=how)
        counter[0] += 1
        return dict(name=f"?{counter[0]}", family="unknown", alias=None, how=how)
    m = re.match(r"([A-Z]\w*)", first)
    fam = m.group(1) if m else "unknown"
    name = None
    rest = first[len(fam):].strip() if m else ""
    if fam != "unknown" and fam not in impls:
        fam = "unknown"
    if rest == "":
        # unit struct: name from the impl block
        name = impls.get(fam, (0, 0, None, 0))[2]
    elif rest.startswith("{"):
        nm = re.search(r"\bname\s*:\s*((?:\"(?:[^\"\\]|\\.)*\")|stringify!\(\s*(\w+)\s*\))\s*\.\s*to_string\s*\(\s*\)", rest)
        if nm:
            name = nm.group(2) if nm.group(2) else rust_str(nm.group(1))
        elif fam == "Group":
            sm = re.search(r"\bstrict\s*:\s*(true|false)", rest)
            if sm:
                name = "group'" if sm.group(1) == "true" else "group"
    elif rest.startswith("::of("):
        inner = rest[len("::of("):]
        a0 = split_top_commas(inner[:balanced("(" + inner, 0, "(", ")") - 2])[0]
        name = rust_str(a0)
    elif rest.startswith("("):
        inner = rest[1:balanced(rest, 0, "(", ")") - 1]
        a0 = split_top_commas(inner)[0]
        nm = re.fullmatch(r"\s*(\"(?:[^\"\\]|\\.)*\")\s*\.\s*to_string\s*\(\s*\)\s*", a0)
        if nm:
            name = rust_str(nm.group(1))
    if name is None:
        counter[0] += 1
        name = f"?{counter[0]}"
        fam = "unknown"
    return dict(name=name, family=fam, alias=alias, how=how)


def extract(lib_src):
    src = strip_comments(lib_src)
    impls = impl_blocks(src)
    m = re.search(r"pub\s+fn\s+initialize\s*\(\s*env\s*:\s*&mut\s+Env\s*\)\s*\{", src)
    if not m:
        raise SystemExit("extract_c04: cannot find `pub fn initialize(env: &mut Env)`")
    bstart = m.end() - 1
    bend = balanced(src, bstart, "{", "}")
    body = src[bstart + 1:bend - 1]
    # local macros that register builtins: expand their invocations textually
    macros = {}
    spans = []
    for mm in re.finditer(r"macro_rules!\s*(\w+)\s*\{", body):
        ms = mm.end() - 1
        me = balanced(body, ms, "{", "}")
        mbody = body[ms + 1:me - 1]
        rule = re.match(r"\s*\(([^)]*)\)\s*=>\s*\{", mbody)
        if not rule:
            continue
        params = re.findall(r"\$(\w+)\s*:\s*\w+", rule.group(1))
        ts = rule.end() - 1
        te = balanced(mbody, ts, "{", "}")
        macros[mm.group(1)] = (params, mbody[ts + 1:te - 1])
        spans.append((mm.start(), me))
    # cut macro definitions out, then expand invocations
    cut = []
    last = 0
    for s, e in sorted(spans):
        cut.append(body[last:s])
        last = e
    cut.append(body[last:])
    body2 = "".join(cut)
    for name, (params, templ) in macros.items():
        def expand(mo):
            inner = mo.group(1)
            vals = [v.strip() for v in split_top_commas(inner)]
            t = templ
            for p, v in zip(params, vals):
                t = re.sub(r"\$" + p + r"\b", lambda _m, v=v: v, t)
            return t
        body2 = re.sub(r"\b" + name + r"!\s*\(([^;]*?)\)\s*;", expand, body2)
    regs = []
    counter = [0]
    for mo in INSERT.finditer(body2):
        ps = mo.end() - 1
        pe = balanced(body2, ps, "(", ")")
        regs.append(classify(mo.group(1), body2[ps + 1:pe - 1], impls, counter))
    # any `insert_*` call shape we did not recognise at all (fail closed)
    total = len(re.findall(r"\benv\s*\.\s*insert_\w+\s*\(", body2))
    for _ in range(total - len(regs)):
        counter[0] += 1
        regs.append(dict(name=f"?{counter[0]}", family="unknown", alias=None, how="unrecognised"))
    return regs, impls


def lean_str(s):
    out = []
    for ch in s:
        if ch == '"':
            out.append('\\"')
        elif ch == "\\":
            out.append("\\\\")
        elif ord(ch) < 32:
            out.append("\\x%02x" % ord(ch))
        else:
            out.append(ch)
    return '"' + "".join(out) + '"'


def render(regs, impls):
    lines = [
        "/- GENERATED by tools/extract_c04.py from /repo/src/lib.rs on every `./check C04` — do not edit.",
        "   The builtin registration table of `initialize` and the entry-point overrides of every",
        "   `impl Builtin for X` block. -/",
        "namespace Noulith.C04Tables",
        "",
        "/-- one `env.insert_*(…)` call of `initialize` -/",
        "structure Reg where",
        "  name : String",
        "  family : String",
        "  alias : Option String",
        "  how : String",
        "  deriving Repr, DecidableEq",
        "",
        "def registrations : List Reg := [",
    ]
    items = []
    for r in regs:
        al = "none" if r["alias"] is None else f"some {lean_str(r['alias'])}"
        items.append(f"  ⟨{lean_str(r['name'])}, {lean_str(r['family'])}, {al}, {lean_str(r['how'])}⟩")
    lines.append(",\n".join(items))
    lines.append("]")
    lines.append("")
    lines.append("/-- (struct, overrides run1, overrides run2) for every non-wasm `impl Builtin for` block of lib.rs -/")
    lines.append("def structOverrides : List (String × Bool × Bool) := [")
    its = []
    for k in sorted(impls):
        r1, r2, _nm, wasm = impls[k]
        if wasm:
            continue
        its.append(f"  ({lean_str(k)}, {'true' if r1 else 'false'}, {'true' if r2 else 'false'})")
    lines.append(",\n".join(its))
    lines.append("]")
    lines.append("")
    lines.append("end Noulith.C04Tables")
    return "\n".join(lines) + "\n"


def main():
    lib = open(os.path.join(REPO, "src", "lib.rs"), encoding="utf-8").read()
    regs, impls = extract(lib)
    text = render(regs, impls)
    os.makedirs(os.path.dirname(OUT), exist_ok=True)
    old = open(OUT, encoding="utf-8").read() if os.path.exists(OUT) else None
    if old != text:
        with open(OUT, "w", encoding="utf-8") as f:
            f.write(text)
    if "--print" in sys.argv:
        fams = {}
        for r in regs:
            fams[r["family"]] = fams.get(r["family"], 0) + 1
        for k in sorted(fams):
            print(f"{fams[k]:4d} {k}")
        print(len(regs), "registrations;", sum(1 for r in regs if r["family"] == "unknown"), "unknown")


if __name__ == "__main__":
    main()
