import json,sys
from collections import Counter
r=json.load(open(sys.argv[1]))
print(r['evaluations'],r['distinct_nontrivial'],r['outcomes'],r['notes'])
c=Counter((d['kind'],d['key']) for d in r['disagreements'])
for k,v in c.most_common(40): print(k,v)
seen=set()
for d in r['disagreements']:
    if (d['kind'],d['key']) in seen: continue
    seen.add((d['kind'],d['key'])); print(d)
print(r['fidelity'][:5])
