#!/usr/bin/env python3
"""Translator part of C05 / C17: re-read /repo/src/lib.rs and core.rs and regenerate
lean/NoulithModel/Generated/C05Tables.lean with

  * (name, Rust struct family) of every builtin registration (reuses the C04 extractor),
  * which `impl Builtin for X` blocks implement `catamorphism()` and with which `Cata…` struct,
  * the `bias` of every `Extremum` registration and the identity / fold body of every
    `SeqAndMappedFoldBuiltin` registration,
  * the names of the types registered with `insert_type` (through `ObjType::name`).

Theorems/C05Tables.lean then checks, by kernel evaluation over the whole table, that the hand-written
vocabulary of Impl/CoreEval.lean (`builtinNames`, `typeNames`, `cataOfBuiltin`) is what the Rust source
registers.  FAILS CLOSED: anything unparsable aborts with exit status 1.
"""
import os, re, sys

sys.path.insert(0, os.path.dirname(os.path.abspath(__file__)))
import extract_c04 as c04

REPO = os.environ.get("NOULITH_REPO", "/repo")
ROOT = os.path.dirname(os.path.dirname(os.path.abspath(__file__)))
OUT = os.path.join(ROOT, "lean", "NoulithModel", "Generated", "C05Tables.lean")


def die(msg):
    sys.stderr.write("extract_c05: " + msg + "\n")
    sys.exit(1)


def cata_impls(src):
    """struct -> Cata struct named in its `fn catamorphism` (impl Builtin for X blocks)"""
    res = {}
    for m in re.finditer(r"\bimpl\s+Builtin\s+for\s+(\w+)\s*\{", src):
        end = c04.balanced(src, m.end() - 1, "{", "}")
        body = src[m.end():end]
        cm = re.search(r"\bfn\s+catamorphism\s*\(", body)
        if not cm:
            continue
        bs = body.index("{", cm.end())
        be = c04.balanced(body, bs, "{", "}")
        inner = body[bs:be]
        sm = re.search(r"Some\s*\(\s*Box::new\s*\(\s*(Cata\w+)", inner)
        if not sm:
            die(f"cannot read the catamorphism of {m.group(1)}")
        res[m.group(1)] = sm.group(1)
    return res


def struct_regs(src, fam):
    """the `Fam { … }` struct literals passed to env.insert_builtin, as field dicts"""
    out = []
    for m in re.finditer(r"\benv\s*\.\s*insert_builtin\s*\(\s*" + fam + r"\s*\{", src):
        bs = m.end() - 1
        be = c04.balanced(src, bs, "{", "}")
        inner = src[bs + 1:be - 1]
        # field starts: `ident:` at brace/paren depth 0 (a closure's parameter list contains commas, so
        # splitting on commas is not enough)
        starts, depth = [], 0
        for fm in re.finditer(r"[(\[{]|[)\]}]|(?:(?<=[\s,{])|^)([a-z_]\w*)\s*:(?!:)", inner):
            t = fm.group(0)
            if t in "([{":
                depth += 1
            elif t in ")]}":
                depth -= 1
            elif depth == 0 and fm.group(1):
                starts.append((fm.group(1), fm.start(), fm.end()))
        fields = {}
        for k, (nm, _s, e) in enumerate(starts):
            stop = starts[k + 1][1] if k + 1 < len(starts) else len(inner)
            fields[nm] = " ".join(inner[e:stop].split()).rstrip(",").strip()
        out.append(fields)
    return out


def type_names(core_src):
    m = re.search(r"impl\s+ObjType\s*\{\s*pub\s+fn\s+name\s*\(\s*&self\s*\)\s*->\s*String\s*\{", core_src)
    if not m:
        die("cannot find ObjType::name")
    be = c04.balanced(core_src, m.end() - 1, "{", "}")
    body = core_src[m.end():be]
    return dict(re.findall(r"ObjType::(\w+)\s*=>\s*\"([^\"]*)\"", body))


def lean_str(s):
    return c04.lean_str(s)


def main():
    lib = c04.strip_comments(open(os.path.join(REPO, "src", "lib.rs"), encoding="utf-8").read())
    core = c04.strip_comments(open(os.path.join(REPO, "src", "core.rs"), encoding="utf-8").read())
    regs, _impls = c04.extract(open(os.path.join(REPO, "src", "lib.rs"), encoding="utf-8").read())
    catas = cata_impls(lib)
    if not catas:
        die("no catamorphism implementors found")
    tnames = type_names(core)
    rows, types = [], []
    for r in regs:
        if r["family"] == "Type":
            v = r["name"].split(":", 1)[1]
            if v not in tnames:
                die(f"insert_type(ObjType::{v}) has no name in ObjType::name")
            types.append(tnames[v])
        else:
            rows.append((r["name"], r["family"]))
            if r["alias"]:
                rows.append((r["alias"], r["family"]))
    extremum = []
    for f in struct_regs(lib, "Extremum"):
        nm = c04.rust_str(f.get("name", "").split(".")[0])
        bm = re.fullmatch(r"Ordering::(\w+)", f.get("bias", ""))
        if nm is None or not bm:
            die("cannot read an Extremum registration")
        extremum.append((nm, bm.group(1)))
    folds = []
    for f in struct_regs(lib, "SeqAndMappedFoldBuiltin"):
        nm = c04.rust_str(f.get("name", "").split(".")[0])
        if nm is None:
            die("cannot read a SeqAndMappedFoldBuiltin registration")
        body = f.get("body", "?")
        om = re.search(r"\|a, b\| a ([-+*/]) b", body)
        brk = re.search(r"NErr::Break", body)
        folds.append((nm, f.get("identity", "?"), ("a " + om.group(1) + " b") if om and not brk else ("break" if brk else "?")))
    L = []
    L.append("/- GENERATED by tools/extract_c05.py from /repo/src/lib.rs and core.rs on every `./check C05|C17|C14` — do not edit.")
    L.append("   The registered builtins with their Rust struct family, the catamorphism implementors, the")
    L.append("   Extremum / SeqAndMappedFoldBuiltin registrations and the registered type names. -/")
    L.append("namespace Noulith.C05Tables\n")
    L.append("/-- (registered name, Rust struct family); aliases are separate rows -/")
    L.append("def registered : List (String × String) := [")
    L.append(",\n".join(f"  ({lean_str(n)}, {lean_str(f)})" for n, f in rows))
    L.append("]\n")
    L.append("/-- (struct family, `Cata…` struct its `catamorphism()` returns) -/")
    L.append("def cataFamilies : List (String × String) := [")
    L.append(",\n".join(f"  ({lean_str(k)}, {lean_str(v)})" for k, v in sorted(catas.items())))
    L.append("]\n")
    L.append("/-- (name, bias) of every `Extremum` registration -/")
    L.append("def extremumBias : List (String × String) := [")
    L.append(",\n".join(f"  ({lean_str(n)}, {lean_str(b)})" for n, b in extremum))
    L.append("]\n")
    L.append("/-- (name, identity expression, fold step: `a op b` for a vectorised numeric fold, `break` for a short-circuiting one) of every `SeqAndMappedFoldBuiltin` registration -/")
    L.append("def mappedFolds : List (String × String × String) := [")
    L.append(",\n".join(f"  ({lean_str(n)}, {lean_str(i)}, {lean_str(b)})" for n, i, b in folds))
    L.append("]\n")
    L.append("/-- names of the types registered with `insert_type` -/")
    L.append("def typeNames : List String := [" + ", ".join(lean_str(t) for t in types) + "]\n")
    L.append("end Noulith.C05Tables")
    text = "\n".join(L) + "\n"
    os.makedirs(os.path.dirname(OUT), exist_ok=True)
    old = open(OUT, encoding="utf-8").read() if os.path.exists(OUT) else None
    if old != text:
        open(OUT, "w", encoding="utf-8").write(text)
    print(f"extract_c05: {len(rows)} names, {len(catas)} catamorphism families, {len(types)} types, {len(folds)} folds")


if __name__ == "__main__":
    main()
