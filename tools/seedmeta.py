#!/usr/bin/env python3
"""Write seeded/<id>/meta.json for round-2 seed directories from what tools/seedtest.sh left there."""
import json, os, re, sys
ROOT = os.path.dirname(os.path.dirname(os.path.abspath(__file__)))
HIST = {
 "C02-a2": "MISSED by the check as it stood; caught after: 15 workload families with user-defined closures that mutate their parameter used as op-assign operators",
 "C02-b2": "MISSED by the check as it stood; caught after: 9 push/pop families placed exactly at power-of-two capacities, realloc request accounting",
 "C04-b2": "first caught only by C01 and C05; C04 itself caught it after: self-referential op-assign forms added to the C04 generator",
 "C05-a2": "MISSED by the check as it stood; caught after: generator strengthening (yield-item impure values, splat-then-default lambdas)",
 "C05-b2": "MISSED by the check as it stood; caught after: generator strengthening (yield-item impure values, splat-then-default lambdas)",
 "C06-b2": "MISSED by the check as it stood; caught after: unary operators swept over small values in both representations",
 "C08-b2": "first caught only by C06; C08 itself caught it after: Small/Big twins of every integer in the C08/C09 pools",
 "C10-a2": "MISSED by the check as it stood; caught after: boundary-byte string pool (continuation bytes 7F/80/81/BE/BF, lead bytes C2..F4) indexed at every byte by every access form; theorems byteItem_eq, str_index_eq_unit_slice",
 "C11-a2": "MISSED by the check as it stood; caught after: observations (len, truthiness, only, unpack) of streams DERIVED from a variable already observed; theorems coherent_drop_of_family, *_drop_len",
 "C12-b2": "MISSED by the check as it stood; caught after: operator patterns mixing precedence levels (new model Impl/PatternChain.lean, theorems resolveChain_eq_spec, mixed_times_plus_sound)",
 "C13-a2": "MISSED by the check as it stood; caught after: chained infix forms of zip / ziplongest / ** (model of try_chain merging, theorem evalChain_merge)",
 "C13-b2": "MISSED by the check as it stood; caught after: positioned (partially consumed) wrapped-list streams as inputs of the force-based builtins (Val.wrapped, theorem wrapped_views_agree)",
 "C14-a2": "MISSED by the check as it stood; caught after: pool gained containers with an unhashable value nested inside, statement templates building keys from pool values",
 "C14-b2": "MISSED by the check as it stood (and hung its in-process sections); caught after: pool gained finite streams whose production raises part-way; ALL source-program sections now run in watchdogged child processes",
 "C17-a2": "MISSED by the check as it stood; caught after: type-annotated lambda parameters added to the core-language model, freeze model, generator and theorems",
 "C17-b2": "MISSED by the check as it stood; caught after: generator produces try bodies that declare a local which the handler reads / assigns",
 "C02-a3": "MISSED by the check as it stood; caught after: pop / remove / consume workload families through default dicts, struct fields and nested lists",
 "C02-b3": "MISSED by the check as it stood; caught after: every container-merging builtin used as an op-assign operator on a large left operand",
 "C03-b3": "MISSED by the check as it stood; caught after: stateful model of the chain arm (one operator lookup per position, interleaved with operand evaluation), chains whose operands reassign the chain's own operators / precedences; theorems each_operator_looked_up_at_its_position, lookup_order_is_source_order",
 "C04-b3": "MISSED by the check as it stood; caught after: call sections with a callee slot (model form calleeMix, theorem callee_slot_section_agrees, 28 slot patterns over every registered builtin)",
 "C05-a3": "MISSED by the check as it stood; caught after: generator form try-rethrow-unmatched (inner refutable catch pattern that does not match, outer handler computes from the caught value)",
 "C06-a3": "MISSED by the check as it stood; caught after: all four combinations of machine-word / big production on the boundary grid x every operator",
 "C08-a3": "MISSED by the check as it stood; caught after: incomparable pairs hidden behind an equal prefix at non-adjacent positions, judged strictly (sort must raise whenever any pair is incomparable)",
 "C09-a3": "MISSED by the check as it stood; caught after: complex keys with a negative-zero imaginary part (and their real twins) in the key pool; theorem complex_zero_im_hash",
 "C10-b3": "MISSED by the check as it stood; caught after: every write form also run under try/catch with the variable and an alias observed afterwards; theorems failed_write_preserves, failed_string_write_preserves",
 "C12-a3": "MISSED by the check as it stood; caught after: multi-slot comparison patterns against sequences of length slots-1 .. slots+2; theorem comparison_destructure_length_exact",
 "C13-a3": "MISSED by the check as it stood; caught after: join with bytes separators and empty pieces at every position; theorem joinE_eq",
 "C13-b3": "MISSED by the check as it stood; caught after: floats and rationals in the value model (ties between ==-equal, distinguishable numbers); theorems max_first_of_ties, min_eq_head_sort",
 "C14-a3": "MISSED by the check as it stood; caught after: advanced list-backed streams in the pool",
 "C14-b3": "MISSED by the check as it stood; caught after: generator puts continue / break into for-header clauses (guards, iteratees) of loops nested in loops (also caught by C05 now)",
 "C16-a3": "MISSED by the check as it stood; caught after: incompressible and low-entropy gzip inputs from 61441 bytes to 1 MiB in the quick tier",
 "C16-b3": "MISSED by the check as it stood; caught after: every format-string case also evaluated inside freeze (two forms); theorem fmtSlots_flags_value_only",
 "C17-a3": "MISSED by the check as it stood; caught after: generator form recursive-local-function (optionally shadowing an outer function of the same name)",
 "C17-b3": "MISSED by the check as it stood; caught after: generator form while-cond-declares (a name declared by the while condition and used in the body, optionally shadowing an outer variable)",
 "C01-a4": "MISSED by the check as it stood; caught after: annotated variables with rejected whole-variable writes of every statement form in the reference semantics (keys ref:typed-*)",
 "C01-b4": "MISSED by the check as it stood; caught after: the with-default op-assign form with side-effecting / raising defaults on present and absent keys",
 "C02-a4": "the families cond_switch / cond_switch_pop were added from the author's description before the first run; caught",
 "C02-b4": "the families concat_shared_rhs / concat_rows_flatten were added from the author's description before the first run; caught",
 "C03-b4": "MISSED by the check as it stood; caught after: precedence op-assignments (succeeding, failing under try, with an operator function that evaluates a chain) among the operand effects; theorem failed_precedence_opassign_preserves",
 "C04-b4": "MISSED by C04 as it stood (C17's handwritten minus-call-form case catches it); caught by C04 after: every application form also evaluated inside freeze (frozen-params / frozen-consts); this sweep found and led to the fix 1d7356e",
 "C05-a4": "MISSED by the check as it stood; caught after: generator form call-order (argument reassigns the callee variable, callee and argument both print, undeclared callee raises before the argument runs)",
 "C06-a4": "MISSED by C06 as it stood (C07 catches it); caught by C06 after: vectorised forms (vec-scalar, scalar-vec, vec-vec) against their elementwise reference",
 "C06-b4": "MISSED by the check as it stood; caught after: unary - and ~ on every operand also evaluated under freeze (also C17's construct corpus)",
 "C08-a4": "MISSED by the check as it stood; caught after: comparison operators in call form with 0-5 operands and splats; theorem call_form_is_neighbour_conjunction",
 "C08-b4": "MISSED by the check as it stood; caught after: min / max in every form incl. the catamorphism forms; theorem foldExtremum_eq",
 "C09-b4": "MISSED by the check as it stood; caught after: dict == / != on the same variable, aliases, un-shared copies and separately built dicts with NaN among the values; theorem dict_eq_not_reflexive_with_nan_value",
 "C11-b4": "MISSED by the check as it stood; caught after: function-driven streams with step functions that stop or raise after k steps (element-error layer of the model); theorem iterate_yields_before_step",
 "C12-a4": "MISSED by the check as it stood; caught after: for-clause patterns whose annotation / callee depends on loop-carried state (Impl/PatternFor.lean, Spec/MatchFor.lean); theorem for_eq_spec",
 "C13-a4": "MISSED by the check as it stood; caught after: six call forms for every two-argument builtin and call-counting predicates; theorems any_short_circuits, all_short_circuits",
 "C14-a4": "MISSED by the check as it stood; caught after: lazy streams nested inside containers in the pool and two-level index-assignment templates",
 "C14-b4": "MISSED by the check as it stood; caught after: templates with two struct definitions of the same name and different arity",
 "C16-a4": "MISSED by C16 as it stood (C14 catches the panic); caught by C16 after: unary-minus production and the machine-word boundaries in all productions through every integer codec",
 "C16-b4": "MISSED by the check as it stood; caught after: nasty-character list at every position through every text codec and a 2000-scalar sweep",
 "C17-a4": "MISSED by the check as it stood; caught after: the construct corpus (frozen vs unfrozen on one or more lambdas per syntactic construct)",
 "C17-b4": "MISSED by the check as it stood; caught after: the construct corpus (nested freeze entries)",
 "C01-a5": "MISSED by the check as it stood; caught after: struct-instance family in the reference semantics (eight structs per history, foreign and same-named accessors in every write / extract form)",
 "C01-b5": "MISSED by the check as it stood; caught after: the same struct-instance family (same-named structs declared in separate scopes)",
 "C02-a5": "MISSED by the check as it stood; caught after: with-default op-assign targets with the key present (8 workload families)",
 "C02-b5": "MISSED by the check as it stood; caught after: `and` op-assign targets (5 workload families)",
 "C04-a5": "MISSED by the check as it stood; caught after: sequences of two or three application forms of one closure with captures in one frame, evaluated as written and after optimize_expr",
 "C04-b5": "MISSED by the check as it stood; caught after: op-assign agreement with f(x, b) for every target shape (index paths on asymmetric data, with-default targets, struct fields)",
 "C05-a5": "MISSED by the check as it stood; caught after: generator form late-declared-captured (closures created in a nested scope before the enclosing, still empty scope receives the declaration they use)",
 "C05-b5": "MISSED by the check as it stood; caught after: generator form yield-item-break-value",
 "C06-b5": "MISSED by the check as it stood; caught after: hash-container probes (machine word vs big representation as one key of a set / dict)",
 "C07-a5": "MISSED by the check as it stood; caught after: every binary case in nine sharing configurations (variable / literal / temporary / copy kept alive)",
 "C07-b5": "MISSED by the check as it stood; caught after: `^` with exponents at the 2^15 / 2^16 / 2^31 / 2^32 / 2^63 / 2^64 boundaries for cheap bases at every level; theorems intPow_eq, ratPow_eq",
 "C09-a5": "MISSED by the check as it stood; caught after: dictionaries carrying a default as keys at depth 0-2; theorem key_eq_ignores_default",
 "C09-b5": "MISSED by the check as it stood; caught after: memoize keyed on the argument tuple (model, nine call shapes); theorem memo_tuples_collide_iff",
 "C10-a5": "MISSED by the check as it stood; caught after: advanced list-backed streams as a sequence kind in the whole read / slice / accessor / write grid",
 "C10-b5": "MISSED by the check as it stood; caught after: two- and three-level writes where the outer value is a stream of sequences",
 "C12-a5": "MISSED by the check as it stood; caught after: switch arm bodies that log / raise (Impl/PatternSwitch.lean); theorem switch_body_error_propagates",
 "C12-b5": "MISSED by the check as it stood; caught after: advanced list-backed streams as a value kind for every pattern generator",
 "C13-a5": "MISSED by the check as it stood; caught after: long inputs (33-200 elements) with ==-equal, distinguishable ties for every order-sensitive function",
 "C13-b5": "MISSED by the check as it stood; caught after: the Unicode White_Space table in the model and a text generator over every whitespace character; theorem words_pieces",
 "C14-a5": "MISSED by the check as it stood; caught after: statement templates with op-assignment to struct patterns (too few / too many sub-patterns)",
 "C14-b5": "MISSED by the check as it stood; caught after: texts of the builtins' mini-languages (axis specs, regular expressions) in the pool",
 "C15-a5": "MISSED by the check as it stood; caught after: source texts with sequences of 2-4 literals of different kinds (lexer state between tokens); theorem lex_tokens_independent",
 "C16-b5": "MISSED by the check as it stood; caught after: text-driven JSON-shaped inputs with repeated keys read as a literal and through json_decode; theorem dictLiteral_last_wins",
 "C17-b5": "MISSED by the check as it stood; caught after: all-constant list / dict entries of every literal kind in the construct corpus",
 "C01-a6": "MISSED by the check as it stood; caught after: assignments whose target index expression and right-hand side interfere (ref:assign-order)",
 "C01-b6": "MISSED by the check as it stood; caught after: closures created in loop bodies and called after the loop (ref:loop-closure)",
 "C02-a6": "MISSED by the check as it stood; caught after: `++=` on full vector and bytes buffers at exact power-of-two sizes (vpp_* / bpp_* families)",
 "C02-b6": "MISSED by the check as it stood; caught after: a `::field` twin of every struct-field workload family (sym_*)",
 "C04-a6": "MISSED by the check as it stood; caught after: chain sections with 2-3 operators of different precedence and the slot in every operand position, against the direct chain",
 "C04-b6": "MISSED by the check as it stood; caught after: n-ary application forms (3-5 arguments) of the variadic builtins against the infix chain",
 "C05-a6": "MISSED by the check as it stood; caught after: generator form short-circuit-values (null / empty string / empty list on the left of and / or / coalesce, value observed)",
 "C06-a6": "MISSED by the check as it stood; caught after: is_prime / factorize exhaustively on 0..3000 and on the squares and neighbouring products of the primes below 1000",
 "C09-b6": "MISSED by the check as it stood; caught after: op-assign statements whose right-hand side reads the entry being updated (model DictOps.opAssignRhs); theorem opAssignRhs_refines",
 "C14-a6": "MISSED by the check as it stood; caught after: templates with several try / catch statements of one scope sharing the catch name, judged must-evaluate",
 "C14-b6": "MISSED by the check as it stood; caught after: control flow escaping from a builtin is judged in the statement sweep; infix / partial-application / op-assign forms of the folding builtins",
}
def main():
    for d in sorted(os.listdir(os.path.join(ROOT, "seeded"))):
        p = os.path.join(ROOT, "seeded", d)
        if not (d.endswith("2") or d.endswith("3") or d.endswith("4") or d.endswith("5") or d.endswith("6")) or not os.path.isdir(p):
            continue
        rnd = int(d[-1])
        prop = d.split("-")[0]
        notes = open(os.path.join(p, "notes.md")).read() if os.path.exists(os.path.join(p, "notes.md")) else ""
        letter = d.split("-")[1][0].upper()
        # the author's section for this change
        m = re.search(r"(##[^\n]*[Cc]hange %s\b.*?)(?=\n## |\Z)" % letter, notes, re.S)
        says = (m.group(1) if m else notes)[:1800]
        checks = {}
        for f in sorted(os.listdir(p)):
            mm = re.match(r"check_(C\d\d)\.txt", f)
            if mm:
                t = open(os.path.join(p, f)).read()
                checks[mm.group(1)] = {
                    "violation_lines": [l for l in t.splitlines() if l.startswith("VIOLATION")][:4],
                    "summary": [l for l in t.splitlines() if l.startswith("check C")],
                    "rc": "1" if any(l.startswith("VIOLATION") for l in t.splitlines()) else "0",
                }
        def rd(n):
            fp = os.path.join(p, n)
            return [l for l in open(fp).read().splitlines() if l.strip()] if os.path.exists(fp) else []
        suite = [l for l in rd("suite_with_change.txt") if "FAIL" in l or "SIGABRT" in l or "Summary" in l][:4]
        before = [l for l in rd("demo_before.txt") if l.startswith("test result")]
        after = [l for l in rd("demo_after.txt") if l.startswith("test result")]
        meta = {
            "property": prop, "id": d, "round": rnd,
            "what_the_author_says": says,
            "needs_to_manifest": "see notes.md (a specific boundary value / representation / multi-step sequence; ordinary use does not expose it)",
            "detected_by": sorted(k for k, v in checks.items() if v["rc"] == "1"),
            "detection_history": HIST.get(d, "caught by the check as it stood"),
            "confirmed_by_coordinator": {"existing_suite_with_change": suite, "demo_on_unchanged_tree": " | ".join(before), "demo_with_change": " | ".join(after)},
            "what_was_run": "SUF=<round> tools/seedtest.sh <prop> <a|b>: scratch worktree at /repo's HEAD: demo test (passes), git apply patch, cargo build, cargo nextest existing suite (49 pass, demos aborts as in the baseline), demo test (fails), git checkout; then under flock: git -C /repo apply patch.diff; ./check <prop>; git -C /repo checkout -- .",
            "check_results": checks,
            "author": "independent sub-agent given only the property text, its own scratch worktree and the one-line descriptions of the earlier rounds' changes to avoid",
        }
        json.dump(meta, open(os.path.join(p, "meta.json"), "w"), indent=1)
        print(d, meta["detected_by"], "|", before[:1], "|", after[:1], "|", suite[:2])
main()
