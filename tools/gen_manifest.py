#!/usr/bin/env python3
"""Regenerate MANIFEST.json from tools/props.py (claimed checks) + the not-yet-claimed list."""
import json, os, sys
ROOT = os.path.dirname(os.path.dirname(os.path.abspath(__file__)))
sys.path.insert(0, os.path.join(ROOT, "tools"))
from props import PROPS
ALL = ["C%02d" % i for i in range(1, 18)]
PENDING_REASON = "not claimed yet: the Lean model / harness for this property is still under construction in this round (see DESIGN.md section 9 build order); technique will be Lean 4 proof + differential correspondence"
checks = []
for pid in ALL:
    if pid not in PROPS:
        continue
    c = PROPS[pid]
    checks.append({
        "property_id": pid,
        "quick_cmd": f"./check {pid} --tier quick",
        "thorough_cmd": f"./check {pid} --tier thorough",
        "evidence_file": f"/verif/evidence/{pid}.json",
        "replay_cmd_template": f"./check {pid} --replay {{path}}",
        "engine": "lean4-proof+correspondence",
        "level_claimed": {"category": c.get("level", "proof"), "text": c["level_text"], "design_ref": f"DESIGN.md section 5, {pid}"},
        "level_note": c["level_note"],
        "technique": c.get("technique", "Lean 4 machine-checked proof about a hand-written model, tied to the source by a differential correspondence check (Rust vs Impl model vs Spec)"),
    })
m = {
    "version": 1,
    "setup_cmd": "./setup.sh",
    "hooks": {
        "guard": "--cfg betaveros_noulith_verif",
        "enable": "the harness crate's .cargo/config.toml passes RUSTFLAGS=--cfg betaveros_noulith_verif to every build of /repo as a path dependency",
        "baseline_off_cmd": "cd /repo && cargo nextest run --workspace --no-fail-fast --offline --test-threads 8",
        "source_commits": ["149af0e"],
        "add_only": True,
    },
    "engines": [{
        "name": "lean4-proof+correspondence",
        "path": "/verif/check",
        "serves_properties": [c["property_id"] for c in checks],
        "kind_free_text": "Lean 4 theorems (lake project /verif/lean) about Impl models and Specs; Rust harness (/verif/harness) runs the real interpreter in-process and the compiled Lean driver on the same inputs and diffs them; tools/extract_c03.py / extract_c04.py / extract_c05.py regenerate the tabular parts of the model from /repo/src on every run",
    }],
    "checks": checks,
    "notes": "Genuine defects repaired by fix: commits in /repo are listed in known_findings.txt (fixed: ...). exit 2 from ./check means the machinery could not build (e.g. /repo does not compile).",
    "not_applicable": [{"property_id": p, "reason": PENDING_REASON} for p in ALL if p not in PROPS],
}
json.dump(m, open(os.path.join(ROOT, "MANIFEST.json"), "w"), indent=1)
print("claimed:", [c["property_id"] for c in checks])
