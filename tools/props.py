"""Per-property configuration of the orchestrator (./check)."""

COMMON_TB = [
    "correspondence harness (/verif/harness: generators, canonicaliser, differ) and the Lean line-protocol driver; "
    "compiled Lean code agreeing with the kernel's view of the same definitions",
    "every Impl model is a hand transcription of the Rust it names (modelled, not verified); it is tied to /repo only by the "
    "differential run of this check",
]

PROPS = {
    "C06": {
        "bin": "c06",
        "driver": "driver_c06",
        "theorem_modules": ["NoulithModel.Theorems.C06"],
        "level": "proof",
        "level_text": "Lean theorems: for every operator name and every pair of well-formed integers in either representation "
                      "(i64 fast path / BigInt, incl. small values held in BigInt) the Impl model of nint.rs/nnum.rs/lib.rs returns the "
                      "Spec's exact Int result (binop_refines, unop_refines), never panics (binop_no_panic), equality/ordering/hash depend "
                      "only on the value, floor/trunc identities and sign laws, bit operators characterised bit-by-bit on the infinite "
                      "two's-complement expansion. The model is tied to /repo by running the real interpreter on ~13k (quick) / 150k "
                      "(thorough) operand pairs produced by 6 different methods and diffing against model and spec.",
        "level_note": "Trusted: Lean kernel; num-bigint operations modelled as exact Int operations; i64 checked_* modelled as 'fits i64'; "
                      "the harness. is_prime/factorize are modelled and differentially tested but their correctness theorems are not proved yet.",
        "trusted_base": COMMON_TB + [
            "num-bigint BigInt + - * / % div_floor mod_floor pow gcd lcm sqrt & | ^ ! << >> to_i64: modelled as the exact "
            "operation on Lean Int (two's-complement bit operators defined in Impl/NInt.lean and characterised bit-by-bit)",
            "Rust i64 checked_add/sub/mul/div/rem/abs: modelled as 'Some iff the exact result fits i64'",
        ],
        "assumptions": [
            "operands are well-formed NInt values (Small holds an i64) - proved preserved by every operator",
            "`^` exponents are limited to |e| <= 300 and `<<` to shifts <= 5000 in the differential run (memory), not in the theorems",
        ],
        "unproved": ["is_prime_correct / factorize_correct: lazy_is_prime and lazy_factorize are modelled and compared "
                     "differentially against a trial-division spec (n <= 3e6), not yet proved"],
    },
}
