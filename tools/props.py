"""Per-property configuration of the orchestrator: one JSON file per claimed property in tools/props.d/."""
import json, os, glob
_D = os.path.join(os.path.dirname(os.path.abspath(__file__)), "props.d")
COMMON_TB = [
    "correspondence harness (/verif/harness: generators, canonicaliser, differ) and the Lean line-protocol driver; "
    "compiled Lean code agreeing with the kernel's view of the same definitions",
    "every Impl model is a hand transcription of the Rust it names (modelled, not verified); it is tied to /repo only by the "
    "differential run of this check",
]
PROPS = {}
for _f in sorted(glob.glob(os.path.join(_D, "C*.json"))):
    _c = json.load(open(_f))
    _pid = os.path.basename(_f)[:-5]
    _c.setdefault("trusted_base", [])
    _c["trusted_base"] = COMMON_TB + [t for t in _c["trusted_base"] if t not in COMMON_TB]
    PROPS[_pid] = _c
