#!/usr/bin/env python3
"""Translator part of C03: re-read /repo/src/lib.rs and core.rs and regenerate
lean/NoulithModel/Generated/C03Tables.lean with

  * the builtin registration table: (name, associativity, explicit precedence if any) for every
    `env.insert_builtin* / insert_rassoc_builtin*` call (aliases are separate rows),
  * the `default_precedence` character table and the *_PRECEDENCE constants (core.rs),
  * which builtins implement `try_chain` and which arriving builtin names they accept.

Deliberately dumb (regular expressions, balanced parentheses) and FAILS CLOSED: a registration it
cannot classify becomes a row with `known := false`, an unparsable default_precedence or try_chain
body aborts with exit status 1; the theorems over the table then do not check.
"""
import os, re, sys

REPO = os.environ.get("NOULITH_REPO", "/repo")
ROOT = os.path.dirname(os.path.dirname(os.path.abspath(__file__)))
OUT = os.path.join(ROOT, "lean", "NoulithModel", "Generated", "C03Tables.lean")


def die(msg):
    sys.stderr.write("extract_c03: " + msg + "\n")
    sys.exit(1)


def strip_comments(src):
    """remove // and /* */ comments, keep string and char literals intact"""
    out, i, n = [], 0, len(src)
    while i < n:
        c = src[i]
        if src.startswith("//", i):
            while i < n and src[i] != "\n":
                i += 1
        elif src.startswith("/*", i):
            depth, i = 1, i + 2
            while i < n and depth:
                if src.startswith("/*", i):
                    depth += 1
                    i += 2
                elif src.startswith("*/", i):
                    depth -= 1
                    i += 2
                else:
                    if src[i] == "\n":
                        out.append("\n")
                    i += 1
        elif c == '"':
            j = i + 1
            while j < n and src[j] != '"':
                j += 2 if src[j] == "\\" else 1
            out.append(src[i:j + 1])
            i = j + 1
        elif c == "'" and i + 2 < n and (src[i + 2] == "'" or (src[i + 1] == "\\" and "'" in src[i + 2:i + 12])):
            # char literal (not a lifetime)
            j = i + 1
            while j < n and src[j] != "'":
                j += 2 if src[j] == "\\" else 1
            out.append(src[i:j + 1])
            i = j + 1
        else:
            out.append(c)
            i += 1
    return "".join(out)


def balanced(src, open_idx, op="(", cl=")"):
    """index just past the delimiter matching src[open_idx]; string/char literals skipped"""
    assert src[open_idx] == op
    depth, i, n = 0, open_idx, len(src)
    while i < n:
        c = src[i]
        if c == '"':
            i += 1
            while i < n and src[i] != '"':
                i += 2 if src[i] == "\\" else 1
        elif c == "'" and i + 2 < n and (src[i + 2] == "'" or src[i + 1] == "\\"):
            i += 1
            while i < n and src[i] != "'":
                i += 2 if src[i] == "\\" else 1
        elif c == op:
            depth += 1
        elif c == cl:
            depth -= 1
            if depth == 0:
                return i + 1
        i += 1
    die("unbalanced delimiter at offset %d" % open_idx)


def split_top(args):
    """split on top-level commas"""
    parts, depth, cur, i, n = [], 0, [], 0, len(args)
    while i < n:
        c = args[i]
        if c == '"':
            j = i + 1
            while j < n and args[j] != '"':
                j += 2 if args[j] == "\\" else 1
            cur.append(args[i:j + 1])
            i = j + 1
            continue
        if c in "([{":
            depth += 1
        elif c in ")]}":
            depth -= 1
        if c == "," and depth == 0:
            parts.append("".join(cur).strip())
            cur = []
        else:
            cur.append(c)
        i += 1
    if "".join(cur).strip():
        parts.append("".join(cur).strip())
    return parts


def rust_str(lit):
    """decode a simple Rust string literal"""
    m = re.fullmatch(r'"((?:[^"\\]|\\.)*)"', lit.strip(), re.S)
    if not m:
        return None
    body = m.group(1)
    body = re.sub(r"\\u\{([0-9a-fA-F]+)\}", lambda k: chr(int(k.group(1), 16)), body)
    body = body.replace('\\"', '"').replace("\\'", "'").replace("\\\\", "\\")
    if "\\" in body:
        return None
    return body


def lean_str(s):
    out = []
    for ch in s:
        if ch == '"' or ch == "\\":
            out.append("\\" + ch)
        else:
            out.append(ch)
    return '"' + "".join(out) + '"'


def lean_char(ch):
    if ch == "'":
        return "'\\''"
    if ch == "\\":
        return "'\\\\'"
    return "'" + ch + "'"


def main():
    lib = strip_comments(open(os.path.join(REPO, "src", "lib.rs"), encoding="utf-8").read())
    core = strip_comments(open(os.path.join(REPO, "src", "core.rs"), encoding="utf-8").read())

    # ---- constants -----------------------------------------------------------------------------
    consts = {}
    for m in re.finditer(r"pub const (\w+_PRECEDENCE): f64 = ([0-9.]+);", core):
        v = float(m.group(2))
        if v != int(v):
            die("non-integral precedence constant " + m.group(0))
        consts[m.group(1)] = int(v)
    need = ["DEFAULT", "COMPARISON", "STRING", "OR", "PLUS", "MULTIPLY", "EXPONENT", "INDEX", "DOT"]
    for k in need:
        if k + "_PRECEDENCE" not in consts:
            die("constant %s_PRECEDENCE not found" % k)

    # ---- default_precedence --------------------------------------------------------------------
    m = re.search(r"pub fn default_precedence\(name: &str\) -> f64 \{", core)
    if not m:
        die("default_precedence not found")
    body = core[m.end() - 1:balanced(core, m.end() - 1, "{", "}")]
    if not re.search(r"if c\.is_alphanumeric\(\) \|\| c == '_' \{\s*DEFAULT_PRECEDENCE\s*\}", body):
        die("default_precedence: alphanumeric arm not recognised")
    if not re.search(r"\.reduce\(f64::min\)\s*\.unwrap_or\(0\.0\)", body):
        die("default_precedence: reduce(min).unwrap_or(0.0) not recognised")
    mm = re.search(r"match c \{", body)
    if not mm:
        die("default_precedence: match c not found")
    mbody = body[mm.end() - 1:balanced(body, mm.end() - 1, "{", "}")][1:-1]
    char_table, dflt = [], None
    pos = 0
    arm_re = re.compile(r"\s*((?:'(?:[^'\\]|\\.)+'\s*\|?\s*)+|_)\s*=>\s*(?:\{\s*(\w+)\s*\}|(\w+))\s*,?", re.S)
    while pos < len(mbody):
        if not mbody[pos:].strip():
            break
        a = arm_re.match(mbody, pos)
        if not a:
            die("default_precedence: cannot parse match arm near: " + mbody[pos:pos + 60].strip())
        cname = a.group(2) or a.group(3)
        if cname not in consts:
            die("default_precedence: unknown constant " + cname)
        if a.group(1).strip() == "_":
            dflt = consts[cname]
        else:
            for ch in re.findall(r"'((?:[^'\\]|\\.)+)'", a.group(1)):
                if ch.startswith("\\"):
                    if ch in ("\\'", "\\\\"):
                        ch = ch[1]
                    else:
                        die("default_precedence: escape not supported " + ch)
                if len(ch) != 1:
                    die("default_precedence: bad char literal " + ch)
                char_table.append((ch, consts[cname]))
        pos = a.end()
    if dflt is None:
        die("default_precedence: no `_ =>` arm")

    # ---- struct -> builtin_name, struct -> try_chain accept list ----------------------------------
    struct_name, struct_chain, struct_cond = {}, {}, {}
    struct_tuple = set()
    for m in re.finditer(r"impl Builtin for (\w+) \{", lib):
        blk = lib[m.end() - 1:balanced(lib, m.end() - 1, "{", "}")]
        sname = m.group(1)
        bn = re.search(r"fn builtin_name\(&self\) -> &str \{\s*(\"(?:[^\"\\]|\\.)*\"|&self\.name|&self\.0)\s*\}", blk)
        cond = re.search(r"fn builtin_name\(&self\) -> &str \{\s*if self\.(\w+) \{\s*(\"[^\"]*\")\s*\} else \{\s*(\"[^\"]*\")\s*\}\s*\}", blk)
        if cond:
            struct_cond[sname] = (cond.group(1), rust_str(cond.group(2)), rust_str(cond.group(3)))
            struct_name[sname] = None
        elif not bn:
            die("impl Builtin for %s: builtin_name not recognised" % sname)
        else:
            struct_name[sname] = None if bn.group(1).startswith("&self.") else rust_str(bn.group(1))
            if bn.group(1) == "&self.0":
                struct_tuple.add(sname)
        tc = re.search(r"fn try_chain\(&self, (\w+): &Func\) -> Option<Func> \{", blk)
        if not tc:
            continue
        tbody = blk[tc.end() - 1:balanced(blk, tc.end() - 1, "{", "}")]
        if re.fullmatch(r"\{\s*None\s*\}", tbody):
            continue
        if "downcast_ref::<ComparisonOperator>" in tbody and sname == "ComparisonOperator":
            struct_chain[sname] = ("comparison", [])
            continue
        arm = re.search(r"match b\.builtin_name\(\) \{\s*((?:\"[^\"]*\"\s*\|?\s*)+)=> Some\(Func::Builtin\(Rc::new\(self\.clone\(\)\)\)\),\s*_ => None,\s*\}", tbody)
        if not arm:
            die("impl Builtin for %s: try_chain body not recognised" % sname)
        struct_chain[sname] = ("names", re.findall(r"\"([^\"]*)\"", arm.group(1)))

    # ---- registrations -----------------------------------------------------------------------------
    # `#[cfg(..)]` guards: the span of source each one governs (next statement, block or item)
    cfg_spans = []
    for cm in re.finditer(r"#\[cfg\(", lib):
        cend = balanced(lib, cm.end() - 1)
        cond = lib[cm.end():cend - 1].strip()
        i = lib.index("]", cend) + 1
        while True:
            mm2 = re.compile(r"[;{(]").search(lib, i)
            if not mm2:
                die("cfg attribute without a governed item")
            if mm2.group(0) == "(":
                i = balanced(lib, mm2.start())
            elif mm2.group(0) == "{":
                cfg_spans.append((cm.start(), balanced(lib, mm2.start(), "{", "}"), cond))
                break
            else:
                cfg_spans.append((cm.start(), mm2.end(), cond))
                break
    def cfg_of(pos):
        return " && ".join(c for a, b, c in cfg_spans if a <= pos < b)
    rows = []  # (name, assoc, explicit or None, struct, known, line, bname) ; cfg kept in row_cfg
    row_cfg = []
    # registrations written once inside a local `macro_rules!` and instantiated by `mac!(name, ..)`
    macro_spans = []  # (start, end, macro name)
    for mm in re.finditer(r"macro_rules!\s*(\w+)\s*\{", lib):
        macro_spans.append((mm.start(), balanced(lib, mm.end() - 1, "{", "}"), mm.group(1)))
    for m in re.finditer(r"\benv\s*\.\s*(insert_builtin_with_precedence|insert_rassoc_builtin_with_alias|insert_builtin_with_alias|insert_rassoc_builtin|insert_builtin)\s*\(", lib):
        kind = m.group(1)
        line = lib.count("\n", 0, m.start()) + 1
        end = balanced(lib, m.end() - 1)
        args = split_top(lib[m.end():end - 1])
        first = args[0] if args else ""
        sm = re.match(r"(\w+)", first)
        sname = sm.group(1) if sm else "?"
        name = None
        inmac = [mc for mc in macro_spans if mc[0] <= m.start() < mc[1]]
        if inmac:
            mac = inmac[0][2]
            ok = kind == "insert_builtin" and re.search(r"\bname:\s*(stringify!\(\$name\)|\$name)\s*\.to_string\(\)", first)
            uses = [u for u in re.finditer(r"\b%s!\s*\(" % mac, lib) if not any(a <= u.start() < b for a, b, _ in macro_spans)]
            if not ok or not uses:
                row_cfg.append(cfg_of(m.start())); rows.append(("?macro%d" % line, "left", None, sname, False, line, "?"))
                continue
            for u in uses:
                uargs = split_top(lib[u.end():balanced(lib, u.end() - 1) - 1])
                a0 = uargs[0].strip() if uargs else ""
                nm0 = rust_str(a0) if a0.startswith('"') else (a0 if re.fullmatch(r"\w+", a0) else None)
                uline = lib.count("\n", 0, u.start()) + 1
                row_cfg.append(cfg_of(u.start())); rows.append((nm0 or ("?line%d" % uline), "left", None, sname, nm0 is not None, uline, nm0 or "?"))
            continue
        nm = re.search(r"\bname:\s*(\"(?:[^\"\\]|\\.)*\")\s*\.to_string\(\)", first)
        if nm:
            name = rust_str(nm.group(1))
        elif re.match(r"ComparisonOperator::of\(", first):
            name = rust_str(split_top(first[first.index("(") + 1:balanced(first, first.index("(")) - 1])[0])
            sname = "ComparisonOperator"
        elif re.fullmatch(r"\w+", first) and struct_name.get(first):
            name = struct_name[first]
        elif sname in struct_tuple and re.fullmatch(r"\w+\(\s*(\"[^\"]*\")\.to_string\(\)\s*\)", first):
            name = rust_str(re.fullmatch(r"\w+\(\s*(\"[^\"]*\")\.to_string\(\)\s*\)", first).group(1))
        elif sname in struct_cond and re.search(r"\b%s:\s*(true|false)\b" % struct_cond[sname][0], first):
            fld, t, f = struct_cond[sname]
            name = t if re.search(r"\b%s:\s*true\b" % fld, first) else f
        elif re.match(r"\w+\s*\{", first) or re.match(r"\w+\s*\(", first):
            # struct with fields but a fixed builtin_name
            if struct_name.get(sname):
                name = struct_name[sname]
        assoc = "right" if "rassoc" in kind else "left"
        explicit = None
        known = name is not None
        if kind == "insert_builtin_with_precedence":
            pm = re.fullmatch(r"Precedence\(\s*(\w+)\s*,\s*Assoc::(Left|Right)\s*\)", args[1].strip()) if len(args) == 2 else None
            if pm and pm.group(1) in consts:
                explicit = consts[pm.group(1)]
                assoc = pm.group(2).lower()
            else:
                known = False
        row_cfg.append(cfg_of(m.start())); rows.append((name or ("?line%d" % line), assoc, explicit, sname, known, line, name or "?"))
        if kind.endswith("with_alias"):
            alias = rust_str(args[1]) if len(args) == 2 else None
            row_cfg.append(cfg_of(m.start())); rows.append((alias or ("?alias%d" % line), assoc, None, sname, known and alias is not None, line, name or "?"))
    if len(rows) < 200:
        die("only %d registrations found: the extractor no longer understands lib.rs" % len(rows))
    # registrations made outside the recognised call forms (would escape the table)
    others = len(re.findall(r"Func::Builtin\(Rc::new\(", lib.split("pub fn initialize")[1] if "pub fn initialize" in lib else ""))
    for (name, _, _, _, known, line, _b) in rows:
        if known:
            for ch in name:
                if ord(ch) >= 128 and ch.isalnum():
                    die("registered name %r (line %d) has a non-ASCII alphanumeric character: "
                        "char::is_alphanumeric is only modelled on ASCII" % (name, line))

    # ---- chain table: (registered name, accepted arriving builtin names | comparison) -----------------
    chain_rows = []
    for (name, assoc, explicit, sname, known, line, _b) in rows:
        if sname in struct_chain:
            kind, names = struct_chain[sname]
            # aliases share the struct, the builtin_name stays the primary one
            chain_rows.append((name, kind, names))
    # a struct with a try_chain that is never registered would be invisible: report it
    unregistered = sorted(s for s in struct_chain if not any(r[3] == s for r in rows))

    # ---- emit ------------------------------------------------------------------------------------------------
    L = []
    L.append("/- GENERATED by tools/extract_c03.py from /repo/src/lib.rs and core.rs -- do not edit. -/")
    L.append("import NoulithModel.Impl.Chain")
    L.append("namespace Noulith.Chain.Gen")
    L.append("")
    L.append("/-- one `env.insert_*builtin*` call (aliases are rows of their own); `explicit` is the")
    L.append("precedence given to `insert_builtin_with_precedence`, `none` = `default_precedence(name)`;\n`bname` is what `builtin_name()` answers (differs from `name` for an alias) -/")
    L.append("structure Reg where")
    L.append("  name : String")
    L.append("  rassoc : Bool")
    L.append("  explicit : Option Int")
    L.append("  bname : String")
    L.append("  struct : String")
    L.append("  known : Bool")
    L.append("  cfg : String   -- the #[cfg(..)] guard of the registration, \"\" = always compiled")
    L.append("  deriving Repr, DecidableEq")
    L.append("")
    for k in need:
        L.append("def %s_PRECEDENCE : Int := %d" % (k, consts[k + "_PRECEDENCE"]))
    L.append("")
    L.append("/-- the `match c` arms of `default_precedence` -/")
    L.append("def charTable : List (Char × Int) := [")
    L.append(",\n".join("  (%s, %d)" % (lean_char(c), p) for c, p in char_table))
    L.append("]")
    L.append("/-- its `_ =>` arm -/")
    L.append("def charDefault : Int := %d" % dflt)
    L.append("")
    L.append("def registrations : List Reg := [")
    L.append(",\n".join("  ⟨%s, %s, %s, %s, %s, %s, %s⟩" % (lean_str(n), "true" if a == "right" else "false",
                                                       "none" if e is None else "some %d" % e, lean_str(b), lean_str(s),
                                                       "true" if k else "false", lean_str(cf)) for ((n, a, e, s, k, _, b), cf) in zip(rows, row_cfg)))
    L.append("]")
    L.append("")
    L.append("/-- builtins whose `try_chain` is not the default `None`: (registered name, true = chains with")
    L.append("every ComparisonOperator, names of the arriving builtins it accepts) -/")
    L.append("def chainTable : List (String × Bool × List String) := [")
    L.append(",\n".join("  (%s, %s, [%s])" % (lean_str(n), "true" if k == "comparison" else "false",
                                              ", ".join(lean_str(x) for x in names)) for (n, k, names) in chain_rows))
    L.append("]")
    L.append("")
    L.append("/-- structs that implement `try_chain` but are never registered (must be empty) -/")
    L.append("def unregisteredChainStructs : List String := [%s]" % ", ".join(lean_str(s) for s in unregistered))
    L.append("/-- `Func::Builtin(Rc::new(` occurrences inside `initialize` outside the insert_* helpers (diagnostic) -/")
    L.append("def otherBuiltinConstructions : Nat := %d" % others)
    L.append("")
    L.append("end Noulith.Chain.Gen")
    text = "\n".join(L) + "\n"
    os.makedirs(os.path.dirname(OUT), exist_ok=True)
    old = open(OUT, encoding="utf-8").read() if os.path.exists(OUT) else None
    if old != text:
        with open(OUT, "w", encoding="utf-8") as f:
            f.write(text)
    print("extract_c03: %d registrations (%d unclassified), %d table chars, %d chaining builtins -> %s%s" % (
        len(rows), sum(1 for r in rows if not r[4]), len(char_table), len(chain_rows), OUT,
        "" if old != text else " (unchanged)"))


if __name__ == "__main__":
    main()
