import NoulithModel.Common
import NoulithModel.Theorems.C06
