import NoulithModel.Driver.Loop
import NoulithModel.Driver.C17
def main : IO Unit := Noulith.driverMain Noulith.DriverC17.handle
