import NoulithModel.Driver.Loop
import NoulithModel.Driver.C11
def main : IO Unit := Noulith.driverMain Noulith.DriverC11.handle
