import NoulithModel.Driver.Loop
import NoulithModel.Driver.C03
def main : IO Unit := Noulith.driverMain Noulith.DriverC03.handle
