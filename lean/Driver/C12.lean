import NoulithModel.Driver.Loop
import NoulithModel.Driver.C12
def main : IO Unit := Noulith.driverMain Noulith.DriverC12.handle
