import NoulithModel.Driver.Loop
import NoulithModel.Driver.C02
def main : IO Unit := Noulith.driverMain Noulith.DriverC02.handle
