import NoulithModel.Driver.Loop
import NoulithModel.Driver.C06
def main : IO Unit := Noulith.driverMain Noulith.DriverC06.handle
