import NoulithModel.Driver.Loop
import NoulithModel.Driver.C09
def main : IO Unit := Noulith.driverMain Noulith.DriverC09.handle
