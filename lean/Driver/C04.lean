import NoulithModel.Driver.Loop
import NoulithModel.Driver.C04
def main : IO Unit := Noulith.driverMain Noulith.DriverC04.handle
