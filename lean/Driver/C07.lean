import NoulithModel.Driver.Loop
import NoulithModel.Driver.C07
def main : IO Unit := Noulith.driverMain Noulith.DriverC07.handle
