import NoulithModel.Driver.Loop
import NoulithModel.Driver.C13
def main : IO Unit := Noulith.driverMain Noulith.DriverC13.handle
