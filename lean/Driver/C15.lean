import NoulithModel.Driver.Loop
import NoulithModel.Driver.C15
def main : IO Unit := Noulith.driverMain Noulith.DriverC15.handle
