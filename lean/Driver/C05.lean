import NoulithModel.Driver.Loop
import NoulithModel.Driver.C05
def main : IO Unit := Noulith.driverMain Noulith.DriverC05.handle
