import NoulithModel.Driver.Loop
import NoulithModel.Driver.C08
def main : IO Unit := Noulith.driverMain Noulith.DriverC08.handle
