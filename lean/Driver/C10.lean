import NoulithModel.Driver.Loop
import NoulithModel.Driver.C10
def main : IO Unit := Noulith.driverMain Noulith.DriverC10.handle
