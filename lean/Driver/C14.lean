import NoulithModel.Driver.Loop
import NoulithModel.Driver.C14
def main : IO Unit := Noulith.driverMain Noulith.DriverC14.handle
