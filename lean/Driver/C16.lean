import NoulithModel.Driver.Loop
import NoulithModel.Driver.C16
def main : IO Unit := Noulith.driverMain Noulith.DriverC16.handle
