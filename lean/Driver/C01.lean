import NoulithModel.Driver.Loop
import NoulithModel.Driver.C01
def main : IO Unit := Noulith.driverMain Noulith.DriverC01.handle
