/-
C11 Impl model: the lazy streams of /repo/src/streams.rs, the `Stream` trait defaults and
`WrappedVec` of /repo/src/core.rs, and the stream consumers of /repo/src/lib.rs / eval.rs.

Every Rust stream type is a state type `σ` plus a record `Ops σ β` of the trait methods
(`next`, `peek`, `len`, `force`, `pythonic_index_isize`, `pythonic_slice`, `reversed`) — the record
plays the role of the `dyn Stream` vtable; `Ops.build` fills in the trait defaults exactly where the
Rust type does not override them.  A `Box<dyn Stream>` is the existential package `Strm β`.

Conventions
* `next : σ → Option (β × σ)`: `none` = the iterator returned `None`.  (Rust's `next` at an
  exhausted adaptor also flips the adaptor to `Err(Break)`; since every inner stream is fused this
  is not observable and is not modelled.)  Element errors (`Some(Err e)`) cannot arise for the
  total functions the model and the harness use.
* `bound : σ → Option Nat` is model-only: an upper bound on the number of remaining elements
  (`none` = the stream is infinite).  It is the fuel of the unbounded `while let Some(..)` loops of
  the trait defaults; on an infinite stream those loops do not terminate in Rust and the model
  answers `R.diverge`.  Theorems/C11 proves the bound is sufficient for every finite stream.
* The model is written in the post-fix form for the defects F3, F4, F14, F15, F19, F21 and for
  `Combinations::peek` (DESIGN.md §6); `Theorems/C11.lean` keeps the pre-fix formulas with their
  refutations.
* machine words: the closed-form `len` functions compute in `usize`; an overflowing multiplication
  is `R.panic` (the `checked` profile of the harness), `NInt::to_usize` failing is `len = None`.

Core Lean only.
-/
import NoulithModel.Common

namespace Noulith.Stream
open Noulith

/-! ## values and outcomes -/

/-- Noulith values that occur as stream elements: integers and (nested) lists, lists as cons cells
so that the type is not nested and `DecidableEq` is derivable -/
inductive Val where
  | int (n : Int)
  | nil
  | cons (h t : Val)
  deriving DecidableEq, Repr, Inhabited

namespace Val
def ofList : List Val → Val
  | [] => .nil
  | x :: xs => .cons x (ofList xs)

/-- the elements of a list value (empty for an integer) -/
def elems : Val → List Val
  | .cons h t => h :: elems t
  | _ => []

def isList : Val → Bool
  | .int _ => false
  | _ => true

mutual
def render : Val → String
  | .int n => toString n
  | .nil => "[]"
  | .cons h t => "[" ++ h.render ++ t.renderTail ++ "]"
def renderTail : Val → String
  | .cons h t => "," ++ h.render ++ t.renderTail
  | _ => ""
end
end Val

universe u v
/-- outcome of a stream operation: value, catchable error, Rust panic, or non-termination -/
inductive R (α : Type u) where
  | ok (a : α)
  | throw
  | panic
  | diverge
  deriving Repr, DecidableEq

namespace R
def bind {α : Type u} {β : Type v} (x : R α) (f : α → R β) : R β :=
  match x with
  | ok a => f a
  | throw => throw
  | panic => panic
  | diverge => diverge
def map {α : Type u} {β : Type v} (f : α → β) (x : R α) : R β := x.bind fun a => ok (f a)
def render {α : Type u} (f : α → String) : R α → String
  | ok a => "ok " ++ f a
  | throw => "throw"
  | panic => "panic"
  | diverge => "diverge"
end R

def fact : Nat → Nat
  | 0 => 1
  | n + 1 => (n + 1) * fact n

/-- `NInt::to_usize` / a `usize` result: `None` when it does not fit -/
def toUsize (n : Int) : Option Nat :=
  if 0 ≤ n ∧ n ≤ 18446744073709551615 then some n.toNat else none

/-- checked `usize` multiplication (`overflow-checks = true`) -/
def mulUsize (a b : Nat) : R Nat :=
  if a * b ≤ 18446744073709551615 then .ok (a * b) else .panic
def addUsize (a b : Nat) : R Nat :=
  if a + b ≤ 18446744073709551615 then .ok (a + b) else .panic

/-! ## iteration over a step function -/
section Generic
variable {σ β : Type}

/-- `for _ in 0..n { if it.next().is_none() { break } }`: the state after at most `n` steps -/
def dropN (next : σ → Option (β × σ)) : Nat → σ → σ
  | 0, s => s
  | n + 1, s =>
    match next s with
    | none => s
    | some (_, s') => dropN next n s'

/-- `for _ in 0..n { match it.next() { Some(x) => v.push(x), None => break } }` -/
def takeN (next : σ → Option (β × σ)) : Nat → σ → List β
  | 0, _ => []
  | n + 1, s =>
    match next s with
    | none => []
    | some (v, s') => v :: takeN next n s'

/-- the loop of `pythonic_index_isize` for `i ≥ 0`: the `i`-th element produced, if any -/
def nth (next : σ → Option (β × σ)) : Nat → σ → Option β
  | i, s =>
    match next s with
    | none => none
    | some (v, s') =>
      match i with
      | 0 => some v
      | i + 1 => nth next i s'

/-- `it.collect()` with fuel: `none` = more than `fuel` elements -/
def collect (next : σ → Option (β × σ)) : Nat → σ → Option (List β)
  | fuel, s =>
    match next s with
    | none => some []
    | some (v, s') =>
      match fuel with
      | 0 => none
      | fuel + 1 => (collect next fuel s').map (v :: ·)

/-- `while let Some(_) = s.next() { ret += 1 }` with fuel -/
def count (next : σ → Option (β × σ)) : Nat → σ → Option Nat
  | fuel, s =>
    match next s with
    | none => some 0
    | some (_, s') =>
      match fuel with
      | 0 => none
      | fuel + 1 => (count next fuel s').map (· + 1)

/-- `for e in it { if e == a { return true } } false` with fuel -/
def memLoop [DecidableEq β] (next : σ → Option (β × σ)) (a : β) : Nat → σ → Option Bool
  | fuel, s =>
    match next s with
    | none => some false
    | some (v, s') =>
      if v = a then some true
      else match fuel with
        | 0 => none
        | fuel + 1 => memLoop next a fuel s'

/-- the relation "iterating `next` from `s` yields exactly `l` and then `None`" (the Spec's
`toList`, as a relation so that it does not depend on any fuel) -/
inductive Unfolds (next : σ → Option (β × σ)) : σ → List β → Prop where
  | done {s} : next s = none → Unfolds next s []
  | step {s v s' l} : next s = some (v, s') → Unfolds next s' l → Unfolds next s (v :: l)

/-! ### Python index / slice arithmetic (core.rs `clamped_pythonic_index`, `pythonic_slice`) -/

/-- `clamped_pythonic_index(xs, i)` for `xs.len() = len` -/
def clampIdx (len : Nat) (i : Int) : Nat :=
  if 0 ≤ i then min i.toNat len
  else
    let i2 := i + len
    if i2 < 0 then 0 else i2.toNat

/-- `pythonic_slice(xs, lo, hi)` -/
def pySlice (len : Nat) (lo hi : Option Int) : Nat × Nat :=
  let clo := match lo with
    | some lo => clampIdx len lo
    | none => 0
  let chi := match hi with
    | some hi => clampIdx len hi
    | none => len
  (clo, max chi clo)

/-- `xs[lo..hi]` -/
def sliceList {α} (l : List α) (lo hi : Nat) : List α := (l.drop lo).take (hi - lo)

/-! ### the trait defaults (core.rs `trait Stream`) -/

/-- result of `pythonic_slice` / `reversed`: a list or another stream of the same type -/
inductive SliceRes (σ β : Type) where
  | list (l : List β)
  | strm (s : σ)

def defaultLen (next : σ → Option (β × σ)) (bound : σ → Option Nat) (s : σ) : R (Option Nat) :=
  match bound s with
  | none => .diverge
  | some b =>
    match count next b s with
    | some n => .ok (some n)
    | none => .diverge

def defaultForce (next : σ → Option (β × σ)) (bound : σ → Option Nat) (s : σ) : R (List β) :=
  match bound s with
  | none => .diverge
  | some b =>
    match collect next b s with
    | some l => .ok l
    | none => .diverge

/-- `(i + v.len() as isize) as usize; if i2 < v.len() { v.swap_remove(i2) }`: a negative sum wraps
to a huge `usize` and fails the test -/
def negIndex (v : List β) (i : Int) : R β :=
  let i2 := i + v.length
  if 0 ≤ i2 ∧ i2 < v.length then
    match v[i2.toNat]? with
    | some x => .ok x
    | none => .throw
  else .throw

def defaultIndex (next : σ → Option (β × σ)) (force : σ → R (List β)) (s : σ) (i : Int) : R β :=
  if 0 ≤ i then
    match nth next i.toNat s with
    | some v => .ok v
    | none => .throw
  else (force s).bind fun v => negIndex v i

def defaultSlice (next : σ → Option (β × σ)) (force : σ → R (List β)) (s : σ)
    (lo hi : Option Int) : R (SliceRes σ β) :=
  let lo := lo.getD 0
  match hi with
  | none =>
    if 0 ≤ lo then .ok (.strm (dropN next lo.toNat s))
    else (force s).bind fun v =>
      let (a, b) := pySlice v.length (some lo) none
      .ok (.list (sliceList v a b))
  | some hi =>
    if 0 ≤ lo ∧ 0 ≤ hi then
      .ok (.list (takeN next (hi.toNat - lo.toNat) (dropN next lo.toNat s)))
    else (force s).bind fun v =>
      let (a, b) := pySlice v.length (some lo) (some hi)
      .ok (.list (sliceList v a b))

def defaultReversed (force : σ → R (List β)) (s : σ) : R (SliceRes σ β) :=
  (force s).bind fun v => .ok (.list v.reverse)

/-- the methods of `trait Stream` for one implementing type -/
structure Ops (σ β : Type) where
  next : σ → Option (β × σ)
  peek : σ → Option β
  /-- model-only fuel: an upper bound on the number of remaining elements, `none` = infinite -/
  bound : σ → Option Nat
  len : σ → R (Option Nat)
  force : σ → R (List β)
  index : σ → Int → R β
  slice : σ → Option Int → Option Int → R (SliceRes σ β)
  reversed : σ → R (SliceRes σ β)

/-- a type that overrides `len` and `force` (or neither: pass the defaults); index, slice and
`reversed` are the trait defaults, which call the type's own `force` -/
def Ops.build (next : σ → Option (β × σ)) (peek : σ → Option β) (bound : σ → Option Nat)
    (len : σ → R (Option Nat)) (force : σ → R (List β)) : Ops σ β :=
  { next, peek, bound, len, force
    index := defaultIndex next force
    slice := defaultSlice next force
    reversed := defaultReversed force }

/-- a type that overrides nothing -/
def Ops.plain (next : σ → Option (β × σ)) (peek : σ → Option β) (bound : σ → Option Nat) :
    Ops σ β :=
  Ops.build next peek bound (defaultLen next bound) (defaultForce next bound)

/-- a type that overrides `len` only -/
def Ops.withLen (next : σ → Option (β × σ)) (peek : σ → Option β) (bound : σ → Option Nat)
    (len : σ → R (Option Nat)) : Ops σ β :=
  Ops.build next peek bound len (defaultForce next bound)

end Generic

/-! ## Range (streams.rs 118-181; constructors lib.rs `til`, `to`, `by`, `iota`) -/

structure Range where
  start : Int
  stop : Option Int
  step : Int
  deriving Repr, DecidableEq

namespace Range
/-- `Range::empty` -/
def empty (r : Range) : Bool :=
  match r.stop with
  | none => false
  | some e => if r.step < 0 then decide (r.start ≤ e) else decide (r.start ≥ e)

def next (r : Range) : Option (Int × Range) :=
  if r.empty then none else some (r.start, { r with start := r.start + r.step })

def peek (r : Range) : Option Int :=
  if r.empty then none else some r.start

/-- `Range::len` (post-fix for F3: the `Sign::Minus` arm is
`(start - end - step - 1).max(0) / (-step)`); `NInt` division of a non-negative by a positive -/
def len (r : Range) : Option Nat :=
  match r.stop with
  | none => none
  | some e =>
    if r.step = 0 then (if r.start < e then none else some 0)
    else if r.step < 0 then toUsize (max (r.start - e - r.step - 1) 0 / (-r.step))
    else toUsize (max (e - r.start + r.step - 1) 0 / r.step)

/-- the `Sign::Minus` arm as it was before the fix (kept for the refutation theorem) -/
def lenPreFix (r : Range) : Option Nat :=
  match r.stop with
  | none => none
  | some e =>
    if r.step = 0 then (if r.start < e then none else some 0)
    else if r.step < 0 then toUsize (max (e - r.start - r.step + 1) 0 / (-r.step))
    else toUsize (max (e - r.start + r.step - 1) 0 / r.step)

/-- the exact number of remaining elements (`none` = infinite); equals `len` except that it is
not cut off at `usize::MAX` -/
def bound (r : Range) : Option Nat :=
  match r.stop with
  | none => none
  | some e =>
    if r.step = 0 then (if r.start < e then none else some 0)
    else if r.step < 0 then some (max (r.start - e - r.step - 1) 0 / (-r.step)).toNat
    else some (max (e - r.start + r.step - 1) 0 / r.step).toNat

def ops : Ops Range Int :=
  Ops.withLen next peek bound (fun r => .ok r.len)

/-- `a til b`, `a til b by c` -/
def til (a b c : Int) : Range := ⟨a, some b, c⟩
/-- `a to b` (`run2`: end + 1, step 1) and `a to b by c` (end - 1 for a negative step) -/
def to (a b c : Int) : Range := ⟨a, some (if c < 0 then b - 1 else b + 1), c⟩
def iota (a : Int) : Range := ⟨a, none, 1⟩
end Range

/-! ## WrappedVec (core.rs 434-483): `stream(seq)` -/

structure Wrapped (α : Type) where
  base : List α
  pos : Nat
  deriving Repr

namespace Wrapped
variable {α : Type}
def next (w : Wrapped α) : Option (α × Wrapped α) :=
  if w.pos ≥ w.base.length then none
  else match w.base[w.pos]? with
    | some x => some (x, { w with pos := w.pos + 1 })
    | none => none

def peek (w : Wrapped α) : Option α :=
  if w.pos ≥ w.base.length then none else w.base[w.pos]?

/-- post-fix for F4: `Some(self.0.len() - self.1)` -/
def len (w : Wrapped α) : Option Nat := some (w.base.length - w.pos)
/-- post-fix for F4: the remaining elements -/
def force (w : Wrapped α) : List α := w.base.drop w.pos

def ops : Ops (Wrapped α) α :=
  Ops.build next peek (fun w => some (w.base.length - w.pos)) (fun w => .ok w.len)
    (fun w => .ok w.force)
end Wrapped

/-! ## Repeat and Cycle (streams.rs 11-116) -/

namespace Repeat
variable {α : Type}
def next (x : α) : Option (α × α) := some (x, x)

/-- `Repeat::pythonic_slice`: the bi-infinite reading of negative bounds -/
def slice (x : α) (lo hi : Option Int) : R (SliceRes α α) :=
  let lo : Int := match lo with
    | some v => if v < 0 then v - 1 else v
    | none => 0
  let hi : Int := match hi with
    | some v => if v < 0 then v - 1 else v
    | none => -1
  match decide (lo < 0), decide (hi < 0) with
  | true, true | false, false => .ok (.list (List.replicate (max (hi - lo) 0).toNat x))
  | true, false => .ok (.list [])
  | false, true => .ok (.strm x)

def ops : Ops α α :=
  { next := next, peek := fun x => some x, bound := fun _ => none
    len := fun _ => .ok none
    force := fun _ => .throw
    index := fun x _ => .ok x
    slice := slice
    reversed := fun x => .ok (.strm x) }
end Repeat

structure Cycle (α : Type) where
  base : List α
  pos : Nat
  deriving Repr

namespace Cycle
variable {α : Type}
/-- `self.0[self.1]` panics on an empty base (unreachable after the F15 fix: `cycle` rejects an
empty argument) — modelled as the end of the stream, the constructor guards it -/
def next (c : Cycle α) : Option (α × Cycle α) :=
  match c.base[c.pos]? with
  | some x => some (x, { c with pos := (c.pos + 1) % c.base.length })
  | none => none

def peek (c : Cycle α) : Option α := c.base[c.pos]?

/-- `self.0[(self.1 as isize + i).rem_euclid(len) as usize]` -/
def index (c : Cycle α) (i : Int) : R α :=
  match c.base[(((c.pos : Int) + i) % (c.base.length : Int)).toNat]? with
  | some x => .ok x
  | none => .panic

def reversed (c : Cycle α) : R (SliceRes (Cycle α) α) :=
  .ok (.strm ⟨c.base.reverse, (c.base.length - c.pos) % c.base.length⟩)

def ops : Ops (Cycle α) α :=
  let force : Cycle α → R (List α) := fun _ => .throw
  { next := next, peek := peek, bound := fun _ => none
    len := fun _ => .ok none
    force := force
    index := index
    slice := defaultSlice next force
    reversed := reversed }
end Cycle

/-! ## Permutations (streams.rs 183-274) -/

structure Idx (α : Type) where
  base : List α
  idx : Option (List Nat)
  deriving Repr

/-- `v.iter().map(|i| self.0[*i].clone()).collect()` (an out-of-range index would panic; it cannot
occur for reachable states — see `Theorems/C11`) -/
def pickAll {α : Type} (base : List α) (v : List Nat) : List α :=
  v.filterMap fun i => base[i]?

namespace Perm
variable {α : Type}

/-- one iteration of the scan `for i in 0..(v.len() - 1)` -/
def scanStep (v : List Nat) (up : Option (Nat × Nat)) (i : Nat) : Option (Nat × Nat) :=
  if v.getD i 0 < v.getD (i + 1) 0 then some (i, i + 1)
  else match up with
    | some (inc, linc) => if v.getD (i + 1) 0 > v.getD inc 0 then some (inc, i + 1) else some (inc, linc)
    | none => none

/-- last ascent `inc` and the last index `linc` after it holding something larger than `v[inc]`
(post-fix for F14: the loop bound is `v.len().saturating_sub(1)`) -/
def scan (v : List Nat) : Option (Nat × Nat) :=
  (List.range (v.length - 1)).foldl (scanStep v) none

def swap (v : List Nat) (i j : Nat) : List Nat :=
  (v.set i (v.getD j 0)).set j (v.getD i 0)

/-- `v.swap(inc, linc); v[inc + 1..].reverse()` -/
def advance (v : List Nat) : Option (List Nat) :=
  match scan v with
  | some (inc, linc) =>
    let w := swap v inc linc
    some (w.take (inc + 1) ++ (w.drop (inc + 1)).reverse)
  | none => none

def next (p : Idx α) : Option (List α × Idx α) :=
  match p.idx with
  | none => none
  | some v => some (pickAll p.base v, { p with idx := advance v })

def peek (p : Idx α) : Option (List α) :=
  p.idx.map (pickAll p.base)

/-- `(v.len() - i..v.len()).filter(|j| v[*j] > v[v.len() - 1 - i]).count()` -/
def laterLarger (v : List Nat) (i : Nat) : Nat :=
  ((List.range' (v.length - i) i).filter fun j => v.getD j 0 > v.getD (v.length - 1 - i) 0).length

/-- the closed form without machine words: `1 + Σ_{i=1}^{n-1} i! · laterLarger v i` -/
def lenNat (v : List Nat) : Nat :=
  1 + ((List.range' 1 (v.length - 1)).map fun i => fact i * laterLarger v i).sum

/-- the loop of `Permutations::len` with `usize` arithmetic: state `(cur, sum)` -/
def lenLoop (v : List Nat) : List Nat → Nat → Nat → R Nat
  | [], _, sum => addUsize sum 1
  | i :: is, cur, sum =>
    (mulUsize cur i).bind fun cur' =>
    (mulUsize cur' (laterLarger v i)).bind fun term =>
    (addUsize sum term).bind fun sum' => lenLoop v is cur' sum'

def len (p : Idx α) : R (Option Nat) :=
  match p.idx with
  | none => .ok (some 0)
  | some v => (lenLoop v (List.range' 1 (v.length - 1)) 1 0).map some

def bound (p : Idx α) : Option Nat :=
  match p.idx with
  | none => some 0
  | some v => some (lenNat v)

def ops : Ops (Idx α) (List α) := Ops.withLen next peek bound len

/-- `permutations(a)` -/
def mk (base : List α) : Idx α := ⟨base, some (List.range base.length)⟩
end Perm

/-! ## Combinations (streams.rs 276-345) -/

namespace Comb
variable {α : Type}

/-- the loop `for i in (0..v.len()).rev()`, `i + 1` iterations left, `last` as in the code.
Result: the next index vector, or `none` when the loop falls through -/
def scan (v : List Nat) : Nat → Nat → Option (List Nat)
  | 0, _ => none
  | i + 1, last =>
    if v.getD i 0 + 1 < last then
      some (v.take i ++ List.range' (v.getD i 0 + 1) (v.length - i))
    else scan v i (last - 1)

def next (c : Idx α) : Option (List α × Idx α) :=
  match c.idx with
  | none => none
  | some v =>
    if v.length > c.base.length then none
    else some (pickAll c.base v, { c with idx := scan v v.length c.base.length })

/-- post-fix: `peek` has the same `v.len() > self.0.len()` guard as `next` (without it
`self.0[*i]` panics for a selection size larger than the base) -/
def peek (c : Idx α) : Option (List α) :=
  match c.idx with
  | none => none
  | some v => if v.length > c.base.length then none else some (pickAll c.base v)

/-- weight of an index vector as a base-`(n+1)` numeral of the digits `n - v[i]`; strictly
decreasing along `scan` — the termination measure -/
def weight (n : Nat) : List Nat → Nat
  | [] => 0
  | x :: xs => (n - x) * (n + 1) ^ xs.length + weight n xs

def bound (c : Idx α) : Option Nat :=
  match c.idx with
  | none => some 0
  | some v => some (weight c.base.length v + 1)

def ops : Ops (Idx α) (List α) := Ops.plain next peek bound

/-- `combinations(a, k)` -/
def mk (base : List α) (k : Nat) : Idx α := ⟨base, some (List.range k)⟩
end Comb

/-! ## Subsequences (streams.rs 347-427) -/

structure Mask (α : Type) where
  base : List α
  mask : Option (List Bool)
  deriving Repr

namespace Subseq
variable {α : Type}

/-- `v.iter().zip(self.0.iter()).filter_map(|(b, x)| if *b { Some(x) } else { None })` -/
def pick : List Bool → List α → List α
  | b :: bs, x :: xs => if b then x :: pick bs xs else pick bs xs
  | _, _ => []

/-- the loop `for i in (0..v.len()).rev() { if !v[i] { v[i] = true; v[i+1..] = false; return } }`
as a recursion from the left: the rightmost `false` is the one found first from the right.
`none` = the loop fell through (all `true`) -/
def inc : List Bool → Option (List Bool)
  | [] => none
  | b :: rest =>
    match inc rest with
    | some rest' => some (b :: rest')
    | none => if b then none else some (true :: rest.map fun _ => false)

def next (m : Mask α) : Option (List α × Mask α) :=
  match m.mask with
  | none => none
  | some v => some (pick v m.base, { m with mask := inc v })

def peek (m : Mask α) : Option (List α) := m.mask.map fun v => pick v m.base

/-- `Σ_{i from the right} (if !v[i] then cur else 0)`, `cur` doubling: without machine words -/
def lenNat : List Bool → Nat
  | [] => 1
  | b :: rest => (if b then 0 else 2 ^ rest.length) + lenNat rest

/-- the loop of `Subsequences::len`, from the right, `usize` arithmetic: state `(cur, sum)` -/
def lenLoop : List Bool → Nat → Nat → R Nat
  | [], _, sum => addUsize sum 1
  | b :: bs, cur, sum =>
    (addUsize sum (if b then 0 else cur)).bind fun sum' =>
    (mulUsize cur 2).bind fun cur' => lenLoop bs cur' sum'

def len (m : Mask α) : R (Option Nat) :=
  match m.mask with
  | none => .ok (some 0)
  | some v => (lenLoop v.reverse 1 0).map some

def bound (m : Mask α) : Option Nat :=
  match m.mask with
  | none => some 0
  | some v => some (lenNat v)

def ops : Ops (Mask α) (List α) := Ops.withLen next peek bound len

/-- `subsequences(a)` -/
def mk (base : List α) : Mask α := ⟨base, some (List.replicate base.length false)⟩
end Subseq

/-! ## CartesianPower (streams.rs 429-499; constructor `^^` lib.rs) -/

namespace CPow
variable {α : Type}

/-- the loop `for i in (0..v.len()).rev() { v[i] += 1; if v[i] == m { v[i] = 0 } else { return } }`
as a recursion from the left.  `none` = fell through (every digit wrapped) -/
def inc (m : Nat) : List Nat → Option (List Nat)
  | [] => none
  | d :: rest =>
    match inc m rest with
    | some rest' => some (d :: rest')
    | none => if d + 1 = m then none else some ((d + 1) :: rest.map fun _ => 0)

def next (c : Idx α) : Option (List α × Idx α) :=
  match c.idx with
  | none => none
  | some v => some (pickAll c.base v, { c with idx := inc c.base.length v })

def peek (c : Idx α) : Option (List α) := c.idx.map (pickAll c.base)

/-- `Σ_{i from the right} (m - 1 - v[i]) · cur`, `cur` multiplied by `m`: without machine words -/
def lenNat (m : Nat) : List Nat → Nat
  | [] => 1
  | d :: rest => (m - 1 - d) * m ^ rest.length + lenNat m rest

def lenLoop (m : Nat) : List Nat → Nat → Nat → R Nat
  | [], _, sum => addUsize sum 1
  | d :: ds, cur, sum =>
    (mulUsize (m - 1 - d) cur).bind fun term =>
    (addUsize sum term).bind fun sum' =>
    (mulUsize cur m).bind fun cur' => lenLoop m ds cur' sum'

def len (c : Idx α) : R (Option Nat) :=
  match c.idx with
  | none => .ok (some 0)
  | some v => (lenLoop c.base.length v.reverse 1 0).map some

def bound (c : Idx α) : Option Nat :=
  match c.idx with
  | none => some 0
  | some v => some (lenNat c.base.length v)

def ops : Ops (Idx α) (List α) := Ops.withLen next peek bound len

/-- `a ^^ k` (post-fix for F21: an empty base with exponent 0 still has the empty tuple) -/
def mk (base : List α) (k : Nat) : Idx α :=
  ⟨base, if base.isEmpty ∧ k > 0 then none else some (List.replicate k 0)⟩

/-- the constructor before the F21 fix -/
def mkPreFix (base : List α) (k : Nat) : Idx α :=
  ⟨base, if base.isEmpty then none else some (List.replicate k 0)⟩
end CPow

/-! ## Iterate, MappedStream, FilteredStream, ZippedStream (streams.rs 501-814) -/

namespace Iterate
variable {α : Type}
/-- `Iterate::next`: return the current value, eagerly compute the next one -/
def next (f : α → α) (x : α) : Option (α × α) := some (x, f x)
def ops (f : α → α) : Ops α α :=
  Ops.build (next f) (fun x => some x) (fun _ => none) (fun _ => .ok none)
    (defaultForce (next f) fun _ => none)
end Iterate

section Adaptors
variable {σ τ β γ : Type}

def mapNext (inner : σ → Option (β × σ)) (f : β → γ) (s : σ) : Option (γ × σ) :=
  match inner s with
  | none => none
  | some (v, s') => some (f v, s')

/-- `MappedStream`: overrides nothing -/
def mapOps (o : Ops σ β) (f : β → γ) : Ops σ γ :=
  Ops.plain (mapNext o.next f) (fun s => (o.peek s).map f) o.bound

/-- the `loop` of `FilteredStream::next` with fuel -/
def filterLoop (inner : σ → Option (β × σ)) (p : β → Bool) : Nat → σ → Option (Option (β × σ))
  | fuel, s =>
    match inner s with
    | none => some none
    | some (v, s') =>
      if p v then some (some (v, s'))
      else match fuel with
        | 0 => none
        | fuel + 1 => filterLoop inner p fuel s'

/-- fuel for loops over an inner stream: its bound, or a large constant for an infinite one
(a filter over an infinite stream whose predicate stays false does not terminate in Rust) -/
def fuelOf (b : Option Nat) : Nat := b.getD 100000

def filterNext (o : Ops σ β) (p : β → Bool) (s : σ) : Option (β × σ) :=
  (filterLoop o.next p (fuelOf (o.bound s)) s).getD none

/-- `FilteredStream`: `peek` is `self.clone().next()` -/
def filterOps (o : Ops σ β) (p : β → Bool) : Ops σ β :=
  Ops.plain (filterNext o p) (fun s => (filterNext o p s).map Prod.fst) o.bound

/-- one more stream in front of a `ZippedStream`: streams are advanced left to right and the
first `None` ends the zip -/
def zipNext (a : σ → Option (β × σ)) (b : τ → Option (List β × τ)) (s : σ × τ) :
    Option (List β × (σ × τ)) :=
  match a s.1 with
  | none => none
  | some (x, s1) =>
    match b s.2 with
    | none => none
    | some (xs, s2) => some (x :: xs, (s1, s2))

def zipBound : Option Nat → Option Nat → Option Nat
  | some a, some b => some (min a b)
  | some a, none => some a
  | none, b => b

/-- `ZippedStream` over `a :: rest`: `peek` collects the `peek`s (all must be `Some`) -/
def zipOps (a : Ops σ β) (b : Ops τ (List β)) : Ops (σ × τ) (List β) :=
  Ops.plain (zipNext a.next b.next)
    (fun s => match a.peek s.1, b.peek s.2 with
      | some x, some xs => some (x :: xs)
      | _, _ => none)
    (fun s => zipBound (a.bound s.1) (b.bound s.2))

/-- re-type the elements of a stream without touching which methods are overridden -/
def mapOut (f : β → γ) (o : Ops σ β) : Ops σ γ :=
  let sl : SliceRes σ β → SliceRes σ γ := fun
    | .list l => .list (l.map f)
    | .strm s => .strm s
  { next := mapNext o.next f
    peek := fun s => (o.peek s).map f
    bound := o.bound
    len := o.len
    force := fun s => (o.force s).map (List.map f)
    index := fun s i => (o.index s i).map f
    slice := fun s lo hi => (o.slice s lo hi).map sl
    reversed := fun s => (o.reversed s).map sl }

/-- a `ZippedStream` of a single stream: one-element argument lists -/
def zipOne (a : Ops σ β) : Ops σ (List β) := mapOps a fun x => [x]
end Adaptors

/-! ## `Box<dyn Stream>` and the consumers -/

/-- a boxed stream: state, vtable -/
structure Strm (β : Type) where
  σ : Type
  ops : Ops σ β
  st : σ

namespace Strm
variable {β : Type}

def ofSlice (s : Strm β) : SliceRes s.σ β → Sum (List β) (Strm β)
  | .list l => .inl l
  | .strm st => .inr { s with st := st }

/-- `Seq::len` -/
def len (s : Strm β) : R (Option Nat) := s.ops.len s.st
/-- `mut_obj_into_iter(..).collect()` / `seq_to_cloning_iter(..).collect()` (no `len` check) -/
def toList (s : Strm β) : R (List β) := defaultForce s.ops.next s.ops.bound s.st
def index (s : Strm β) (i : Int) : R β := s.ops.index s.st i
def slice (s : Strm β) (lo hi : Option Int) : R (Sum (List β) (Strm β)) :=
  (s.ops.slice s.st lo hi).map s.ofSlice
def reversed (s : Strm β) : R (Sum (List β) (Strm β)) := (s.ops.reversed s.st).map s.ofSlice
/-- `Seq::is_empty` negated: `x.len() == Some(0)` -/
def truthy (s : Strm β) : R Bool := s.len.map fun n => !(n == some 0)
/-- `only` (lib.rs): `Some(1)` → the element, any other length (or infinite) → index error -/
def only (s : Strm β) : R β :=
  s.len.bind fun n =>
    match n with
    | some 1 => s.index 0
    | _ => .throw
/-- `obj_in`: iterate and compare -/
def mem [DecidableEq β] (s : Strm β) (a : β) : R Bool :=
  match memLoop s.ops.next a (fuelOf (s.ops.bound s.st)) s.st with
  | some b => .ok b
  | none => .diverge

/-- `a1, …, ak := s` (eval.rs `assign`, `CommaSeq` arm, no splat): `seq.len()` decides, then the
elements are collected -/
def unpack (s : Strm β) (k : Nat) : R (List β) :=
  s.len.bind fun n =>
    match n with
    | none => .throw
    | some n =>
      if k = n then s.toList.bind fun l => if l.length = k then .ok l else .throw
      else .throw

/-- `a.., ...m, c.. := s` with `before` targets before and `after` targets after the splat; the
harness only generates `before + after ≤ ` the number of elements (F12 is C12's subject) -/
def unpackSplat (s : Strm β) (before after : Nat) : R (List β × List β × List β) :=
  s.len.bind fun n =>
    match n with
    | none => .throw
    | some _ =>
      s.toList.bind fun l =>
        if before + after ≤ l.length then
          .ok (l.take before, (l.drop before).take (l.length - before - after),
               l.drop (l.length - after))
        else .panic

/-- `take_while` (lib.rs), stream arm -/
def takeWhileLoop {σ : Type} (next : σ → Option (β × σ)) (p : β → Bool) : Nat → σ → Option (List β)
  | fuel, s =>
    match next s with
    | none => some []
    | some (v, s') =>
      if p v then
        match fuel with
        | 0 => none
        | fuel + 1 => (takeWhileLoop next p fuel s').map (v :: ·)
      else some []

def takeWhile (s : Strm β) (p : β → Bool) : R (List β) :=
  match takeWhileLoop s.ops.next p (fuelOf (s.ops.bound s.st)) s.st with
  | some l => .ok l
  | none => .diverge

/-- `drop_while` (lib.rs), stream arm, post-fix for F19 (`else { break }`):
`while let Some(x) = t.peek() { if f(x) { t.next(); } else { break } }` -/
def dropWhileLoop {σ : Type} (o : Ops σ β) (p : β → Bool) : Nat → σ → Option σ
  | fuel, s =>
    match o.peek s with
    | none => some s
    | some x =>
      if p x then
        let s' := match o.next s with
          | none => s
          | some (_, s') => s'
        match fuel with
        | 0 => none
        | fuel + 1 => dropWhileLoop o p fuel s'
      else some s

def dropWhile (s : Strm β) (p : β → Bool) : R (Strm β) :=
  match dropWhileLoop s.ops p (fuelOf (s.ops.bound s.st)) s.st with
  | some st => .ok { s with st := st }
  | none => .diverge

end Strm

/-! ## element errors: streams driven by a Noulith function that may stop or raise

`Iterate`, `MappedStream`, `FilteredStream`, `ZippedStream` (streams.rs 501-814) call a user
function while iterating.  Their items are `NRes<Obj>`: an item is a value or an error.  The model
of this layer keeps the same `Ops` record with elements `Item β`; the state machines below transcribe
what the Rust does when the function returns `Err`:
* `Iterate::next` yields the CURRENT element and only *records* a `break` / an error of the
  look-ahead call `f(cur)`; the failure surfaces when the next element is demanded (`break` = the
  stream ends, anything else = an error item, again and again);
* the adaptors yield the error item once and are dead afterwards (`self.0 = Err(e)`, then
  `self.0.as_mut().ok()?` is `None`).
Consumers propagate an error item with `?` at the moment they reach it, so an error in producing
element `k` does not affect an observation that only needs elements before `k`.
`bound` for this layer = an upper bound on the number of items up to and including the first error. -/

inductive Item (β : Type) where
  | ok (v : β)
  | err
  deriving DecidableEq, Repr, Inhabited

/-- result of calling a Noulith function inside a stream: a value, `break` (graceful stop), or a
raised error -/
inductive FnRes (β : Type) where
  | ok (v : β)
  | stop
  | fail
  deriving DecidableEq, Repr

/-- `it.collect::<NRes<Vec<Obj>>>()`: stops at the first error item -/
def collectE {σ β : Type} (next : σ → Option (Item β × σ)) : Nat → σ → Option (R (List (Item β)))
  | fuel, s =>
    match next s with
    | none => some (.ok [])
    | some (.err, _) => some .throw
    | some (.ok v, s') =>
      match fuel with
      | 0 => none
      | fuel + 1 => (collectE next fuel s').map (R.map (Item.ok v :: ·))

def defaultForceE {σ β : Type} (next : σ → Option (Item β × σ)) (bound : σ → Option Nat) (s : σ) :
    R (List (Item β)) :=
  match bound s with
  | none => .diverge
  | some b =>
    match collectE next b s with
    | some r => r
    | none => .diverge

/-- number of items up to the end, or up to and including the first error, searched with fuel
(model-only: the bound of an adaptor over an infinite inner stream whose function raises) -/
def itemsUntil {σ β : Type} (next : σ → Option (Item β × σ)) : Nat → σ → Option Nat
  | 0, _ => none
  | fuel + 1, s =>
    match next s with
    | none => some 0
    | some (.err, _) => some 1
    | some (.ok _, s') => (itemsUntil next fuel s').map (· + 1)

def boundOrSearch {σ β : Type} (b : Option Nat) (next : σ → Option (Item β × σ)) (s : σ) : Option Nat :=
  match b with
  | some b => some b
  | none => itemsUntil next 10000 s

/-- an item stream that overrides nothing -/
def Ops.plainE {σ β : Type} (next : σ → Option (Item β × σ)) (peek : σ → Option (Item β))
    (bound : σ → Option Nat) : Ops σ (Item β) :=
  Ops.build next peek bound (defaultLen next bound) (defaultForceE next bound)

namespace IterateE
variable {α : Type}

inductive St (α : Type) where
  | run (cur : α)
  | stopped
  | failed
  deriving Repr

/-- `Iterate::next` (streams.rs 515-535) -/
def next (f : α → FnRes α) : St α → Option (Item α × St α)
  | .run x =>
    match f x with
    | .ok y => some (.ok x, .run y)
    | .stop => some (.ok x, .stopped)
    | .fail => some (.ok x, .failed)
  | .stopped => none
  | .failed => some (.err, .failed)

/-- `Iterate::peek` -/
def peek : St α → Option (Item α)
  | .run x => some (.ok x)
  | .stopped => none
  | .failed => some .err

/-- number of items up to the end / the first error, searched with fuel (model-only) -/
def runLen (f : α → FnRes α) : Nat → α → Option Nat
  | 0, _ => none
  | fuel + 1, x =>
    match f x with
    | .ok y => (runLen f fuel y).map (· + 1)
    | .stop => some 1
    | .fail => some 2

def bound (f : α → FnRes α) : St α → Option Nat
  | .run x => runLen f 10000 x
  | .stopped => some 0
  | .failed => some 1

/-- `len` is overridden (`None`), everything else is the trait default -/
def ops (f : α → FnRes α) : Ops (St α) (Item α) :=
  Ops.build (next f) peek (bound f) (fun _ => .ok none) (defaultForceE (next f) (bound f))
end IterateE

section AdaptorsE
variable {σ τ β γ : Type}

/-- `MappedStream::next` with a function that may fail; `none` = the dead state `Err(e)` -/
def mapNextE (inner : σ → Option (Item β × σ)) (f : β → FnRes γ) :
    Option σ → Option (Item γ × Option σ)
  | none => none
  | some s =>
    match inner s with
    | none => none
    | some (.err, _) => some (.err, none)
    | some (.ok v, s') =>
      match f v with
      | .ok w => some (.ok w, some s')
      | _ => some (.err, none)

/-- `MappedStream::peek` -/
def mapPeekE (peek : σ → Option (Item β)) (f : β → FnRes γ) : Option σ → Option (Item γ)
  | none => none
  | some s =>
    match peek s with
    | none => none
    | some .err => some .err
    | some (.ok v) =>
      match f v with
      | .ok w => some (.ok w)
      | _ => some .err

def liftBound (b : σ → Option Nat) : Option σ → Option Nat
  | none => some 0
  | some s => b s

def mapOpsE (o : Ops σ (Item β)) (f : β → FnRes γ) : Ops (Option σ) (Item γ) :=
  Ops.plainE (mapNextE o.next f) (mapPeekE o.peek f)
    (fun s => boundOrSearch (liftBound o.bound s) (mapNextE o.next f) s)

/-- the loop of `FilteredStream::next` with a predicate that may fail -/
def filterLoopE (inner : σ → Option (Item β × σ)) (p : β → FnRes Bool) :
    Nat → σ → Option (Option (Item β × Option σ))
  | fuel, s =>
    match inner s with
    | none => some none
    | some (.err, _) => some (some (.err, none))
    | some (.ok v, s') =>
      match p v with
      | .ok true => some (some (.ok v, some s'))
      | .ok false =>
        match fuel with
        | 0 => none
        | fuel + 1 => filterLoopE inner p fuel s'
      | _ => some (some (.err, none))

def filterNextE (o : Ops σ (Item β)) (p : β → FnRes Bool) : Option σ → Option (Item β × Option σ)
  | none => none
  | some s => (filterLoopE o.next p (fuelOf (o.bound s)) s).getD none

def filterOpsE (o : Ops σ (Item β)) (p : β → FnRes Bool) : Ops (Option σ) (Item β) :=
  Ops.plainE (filterNextE o p) (fun s => (filterNextE o p s).map Prod.fst)
    (fun s => boundOrSearch (liftBound o.bound s) (filterNextE o p) s)

/-- one more stream in front of a `ZippedStream`; the first `None` / error from the left decides -/
def zipNextE (a : σ → Option (Item β × σ)) (b : τ → Option (Item (List β) × τ)) :
    Option (σ × τ) → Option (Item (List β) × Option (σ × τ))
  | none => none
  | some (s1, s2) =>
    match a s1 with
    | none => none
    | some (.err, _) => some (.err, none)
    | some (.ok x, s1') =>
      match b s2 with
      | none => none
      | some (.err, _) => some (.err, none)
      | some (.ok xs, s2') => some (.ok (x :: xs), some (s1', s2'))

def zipPeekE (a : σ → Option (Item β)) (b : τ → Option (Item (List β))) :
    Option (σ × τ) → Option (Item (List β))
  | none => none
  | some (s1, s2) =>
    match a s1 with
    | none => none
    | some .err => some .err
    | some (.ok x) =>
      match b s2 with
      | none => none
      | some .err => some .err
      | some (.ok xs) => some (.ok (x :: xs))

def zipOpsE (a : Ops σ (Item β)) (b : Ops τ (Item (List β))) : Ops (Option (σ × τ)) (Item (List β)) :=
  Ops.plainE (zipNextE a.next b.next) (zipPeekE a.peek b.peek)
    (fun s => boundOrSearch
      (match s with
        | none => some 0
        -- one more than the shorter side: an error item of `a` is passed on before `b` is asked
        | some (s1, s2) => (zipBound (a.bound s1) (b.bound s2)).map (· + 1))
      (zipNextE a.next b.next) s)

def zipOneE (a : Ops σ (Item β)) : Ops (Option σ) (Item (List β)) := mapOpsE a fun x => .ok [x]
end AdaptorsE

/-! ### the consumers on an item stream: an error item is raised when it is reached -/
namespace StrmE
variable {β : Type}

/-- `v.push(x?)`: the values of a window, an error if the window contains an error item -/
def unItems : List (Item β) → R (List β)
  | [] => .ok []
  | .ok v :: rest => (unItems rest).map (v :: ·)
  | .err :: _ => .throw

def unItem : Item β → R β
  | .ok v => .ok v
  | .err => .throw

def toList (s : Strm (Item β)) : R (List β) :=
  (defaultForceE s.ops.next s.ops.bound s.st).bind unItems
def index (s : Strm (Item β)) (i : Int) : R β := (s.index i).bind unItem
def slice (s : Strm (Item β)) (lo hi : Option Int) : R (Sum (List β) (Strm (Item β))) :=
  (s.slice lo hi).bind fun r =>
    match r with
    | .inl l => (unItems l).map .inl
    | .inr t => .ok (.inr t)
def reversed (s : Strm (Item β)) : R (Sum (List β) (Strm (Item β))) :=
  s.reversed.bind fun r =>
    match r with
    | .inl l => (unItems l).map .inl
    | .inr t => .ok (.inr t)
def only (s : Strm (Item β)) : R β :=
  s.len.bind fun n =>
    match n with
    | some 1 => index s 0
    | _ => .throw

/-- `obj_in`: `if e? == a` -/
def memLoopE {σ : Type} [DecidableEq β] (next : σ → Option (Item β × σ)) (a : β) : Nat → σ → Option (R Bool)
  | fuel, s =>
    match next s with
    | none => some (.ok false)
    | some (.err, _) => some .throw
    | some (.ok v, s') =>
      if v = a then some (.ok true)
      else match fuel with
        | 0 => none
        | fuel + 1 => memLoopE next a fuel s'

def mem [DecidableEq β] (s : Strm (Item β)) (a : β) : R Bool :=
  match memLoopE s.ops.next a (fuelOf (s.ops.bound s.st)) s.st with
  | some r => r
  | none => .diverge

def unpack (s : Strm (Item β)) (k : Nat) : R (List β) :=
  s.len.bind fun n =>
    match n with
    | none => .throw
    | some n =>
      if k = n then (toList s).bind fun l => if l.length = k then .ok l else .throw
      else .throw

/-- `take_while`, stream arm: `let x = x?;` -/
def takeWhileLoopE {σ : Type} (next : σ → Option (Item β × σ)) (p : β → FnRes Bool) :
    Nat → σ → Option (R (List β))
  | fuel, s =>
    match next s with
    | none => some (.ok [])
    | some (.err, _) => some .throw
    | some (.ok v, s') =>
      match p v with
      | .ok true =>
        match fuel with
        | 0 => none
        | fuel + 1 => (takeWhileLoopE next p fuel s').map (R.map (v :: ·))
      | .ok false => some (.ok [])
      | _ => some .throw

def takeWhile (s : Strm (Item β)) (p : β → FnRes Bool) : R (List β) :=
  match takeWhileLoopE s.ops.next p (fuelOf (s.ops.bound s.st)) s.st with
  | some r => r
  | none => .diverge

/-- `drop_while`, stream arm: `while let Some(x) = t.peek() { let x = x?; … }` -/
def dropWhileLoopE {σ : Type} (o : Ops σ (Item β)) (p : β → FnRes Bool) : Nat → σ → Option (R σ)
  | fuel, s =>
    match o.peek s with
    | none => some (.ok s)
    | some .err => some .throw
    | some (.ok x) =>
      match p x with
      | .ok true =>
        let s' := match o.next s with
          | none => s
          | some (_, s') => s'
        match fuel with
        | 0 => none
        | fuel + 1 => dropWhileLoopE o p fuel s'
      | .ok false => some (.ok s)
      | _ => some .throw

def dropWhile (s : Strm (Item β)) (p : β → FnRes Bool) : R (Strm (Item β)) :=
  match dropWhileLoopE s.ops p (fuelOf (s.ops.bound s.st)) s.st with
  | some r => r.map fun st => { s with st := st }
  | none => .diverge
end StrmE

end Noulith.Stream
