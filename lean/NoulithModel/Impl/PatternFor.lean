/-
Impl model for C12 — patterns in `for` clauses (eval.rs `evaluate_for`, `eval_lvalue`).

A pattern in the source is not yet a pattern the binder can use: its type annotations are
expressions (`x: ts[i]`, `x: t()`), and the callee of a call pattern (`f(a, b)`) is an expression
that has to denote a builtin or a struct.  `eval_lvalue` evaluates them, left to right, and yields
the `EvaluatedLvalue` (`Pat`) that `assign` consumes.  A `<-` / `<<-` clause does this **for every
element**, in a fresh child frame, in the state the loop body has produced so far; nothing of the
pattern is evaluated when the iteratee is empty.

Core Lean only.
-/
import NoulithModel.Impl.PatternStmt

namespace Noulith.C12

/-- the expressions that stand in annotation / callee position of the patterns the differential run
produces -/
inductive PExpr where
  /-- a constant (`int`, `S1`, `<`) -/
  | const (v : Val)
  /-- a variable: `tv` -/
  | var (x : Nat)
  /-- `xs[i]` with both names variables -/
  | index (xs i : Nat)
  /-- `t()` where `t := \ -> (c += 1; <e>)`: a call that counts its invocations -/
  | counted (c : Nat) (e : PExpr)
  deriving Inhabited

/-- a pattern as written (`Lvalue`), restricted to what a `for` clause admits (no literals) -/
inductive UPat where
  | underscore
  | ident (x : Nat)
  | anno (p : UPat) (t : PExpr)
  | seq (ps : List UPat) (delimited : Bool)
  | splat (p : UPat)
  /-- `f(p, …)`: `Lvalue::Destructure` -/
  | call (f : PExpr) (args : List UPat)
  deriving Inhabited

/-- `evaluate` on these expressions: the resulting environment (a counter may have moved) and the
value -/
def evalPE (e : Env) : PExpr → Env × Out Val
  | .const v => (e, .ok v)
  | .var x =>
    match e.get? x with
    | some c => (e, .ok c.val)
    | none => (e, .throw)                      -- "Undefined name"
  | .index xs i =>
    match e.get? xs, e.get? i with
    | some a, some b => (e, getIndex a.val [.idx b.val])
    | _, _ => (e, .throw)
  | .counted c inner =>
    match execStmt e (.opAssign (.ident c []) .plus (.int 1)) with
    | (e1, .ok ()) => evalPE e1 inner
    | (e1, .throw) => (e1, .throw)
    | (e1, .panic) => (e1, .panic)

/-- builtin function tokens of the differential run; `none`: a function that is not a builtin
(a closure) -/
def biOfTok : Nat → Option Bi
  | 0 => none
  | 10 => some .plus | 11 => some .minus | 12 => some .times | 13 => some .divide
  | 14 => some .append | 15 => some .prepend
  | 20 => some (.cmp [.lt]) | 21 => some (.cmp [.le]) | 22 => some (.cmp [.gt])
  | 23 => some (.cmp [.ge]) | 24 => some (.cmp [.eq]) | 25 => some (.cmp [.ne])
  | t => some (.other t)

/-- what the callee of a call pattern may denote: a builtin, or a struct type -/
def calleeOf : Val → Option (Bi ⊕ Nat)
  | .func t => (biOfTok t).map .inl
  | .type (.struct sid) => some (.inr sid)
  | _ => none                                  -- "destructure callee was not builtin or struct"

mutual
/-- `eval_lvalue` (eval.rs ~330): annotation after the annotated pattern, callee before the
arguments, items left to right -/
def evalU (e : Env) : UPat → Env × Out Pat
  | .underscore => (e, .ok .underscore)
  | .ident x => (e, .ok (.ident x []))
  | .anno p t =>
    match evalU e p with
    | (e1, .ok q) =>
      (match evalPE e1 t with
       | (e2, .ok v) => (e2, .ok (.anno q (some v)))
       | (e2, .throw) => (e2, .throw)
       | (e2, .panic) => (e2, .panic))
    | r => r
  | .seq ps d =>
    match evalUs e ps with
    | (e1, .ok qs) => (e1, .ok (.seq qs d))
    | (e1, .throw) => (e1, .throw)
    | (e1, .panic) => (e1, .panic)
  | .splat p =>
    match evalU e p with
    | (e1, .ok q) => (e1, .ok (.splat q))
    | r => r
  | .call f args =>
    match evalPE e f with
    | (e1, .ok fv) =>
      (match calleeOf fv with
       | some (.inl b) =>
         (match evalUs e1 args with
          | (e2, .ok qs) => (e2, .ok (.destr b qs))
          | (e2, .throw) => (e2, .throw)
          | (e2, .panic) => (e2, .panic))
       | some (.inr sid) =>
         (match evalUs e1 args with
          | (e2, .ok qs) => (e2, .ok (.destrStruct sid qs))
          | (e2, .throw) => (e2, .throw)
          | (e2, .panic) => (e2, .panic))
       | none => (e1, .throw))
    | (e1, .throw) => (e1, .throw)
    | (e1, .panic) => (e1, .panic)
def evalUs (e : Env) : List UPat → Env × Out (List Pat)
  | [] => (e, .ok [])
  | p :: ps =>
    match evalU e p with
    | (e1, .ok q) =>
      (match evalUs e1 ps with
       | (e2, .ok qs) => (e2, .ok (q :: qs))
       | r => r)
    | (e1, .throw) => (e1, .throw)
    | (e1, .panic) => (e1, .panic)
end

/-! ## The loop -/

/-- the iteratee of a clause -/
inductive IterE where
  | const (v : Val)
  | var (x : Nat)
  deriving Inhabited

def evalIter (e : Env) : IterE → Out Val
  | .const v => .ok v
  | .var x => match e.get? x with
    | some c => .ok c.val
    | none => .throw

def enumFrom (i : Nat) : List Val → List Val
  | [] => []
  | x :: xs => .list [.int i, x] :: enumFrom (i + 1) xs

def zipPairs : List Val → List Val → List Val
  | k :: ks, v :: vs => .list [k, v] :: zipPairs ks vs
  | _, _ => []

/-- what `mut_obj_into_iter_pairs` yields, each pair as the two-item list the clause binds -/
def iterPairs : Val → Option (List Val)
  | .dict ks vs => some (zipPairs ks vs)
  | .streamInf => none
  | v => (seqItems v).map (enumFrom 0)

/-- what the clause iterates over: `<-` the items, `<<-` the key/value pairs -/
def clauseItems (item : Bool) (v : Val) : Option (List Val) :=
  if item then iterPairs v else seqItems v

structure Clause where
  pat : UPat
  item : Bool
  iter : IterE
  deriving Inhabited

/-- the statements of a loop body -/
inductive BStmt where
  /-- a statement of `PatternStmt` (`i += 1`, `tv = str`, `cf = S0`, `x = 'b'`) -/
  | stmt (s : Stmt)
  /-- `r append= x` -/
  | log (r x : Nat)
  /-- `r append= (x is <t>)` -/
  | logIs (r x : Nat) (t : PExpr)
  deriving Inhabited

def appendTo (e : Env) (r : Nat) (v : Val) : Env × Out Unit :=
  execStmt e (.opAssign (.ident r []) .append v)

def execB (e : Env) : BStmt → Env × Out Unit
  | .stmt s => execStmt e s
  | .log r x =>
    match e.get? x with
    | some c => appendTo e r c.val
    | none => (e, .throw)
  | .logIs r x t =>
    match e.get? x with
    | some c =>
      (match evalPE e t with
       | (e1, .ok tv) =>
         (match toType tv with
          | .ok ty =>
            (match isType ty c.val with
             | .ok b => appendTo e1 r (.int (if b then 1 else 0))
             | .throw => (e1, .throw)
             | .panic => (e1, .panic))
          | .throw => (e1, .throw)
          | .panic => (e1, .panic))
       | (e1, .throw) => (e1, .throw)
       | (e1, .panic) => (e1, .panic))
    | none => (e, .throw)

def runBody (e : Env) : List BStmt → Env × Out Unit
  | [] => (e, .ok ())
  | s :: ss =>
    match execB e s with
    | (e1, .ok ()) => runBody e1 ss
    | r => r

/-- one element of a `<-` / `<<-` clause: a child frame, **the pattern evaluated in it**, the element
bound (declaring, type `anything`), the rest of the loop run, the child frame dropped -/
def forElement (k : Env → Env × Out Unit) (pat : UPat) (e : Env) (x : Val) : Env × Out Unit :=
  match evalU ([] :: e) pat with
  | (e1, .ok p) =>
    (match assign e1 p (some .any) x with
     | (e2, .ok ()) =>
       (match k e2 with
        | (e3, o) => (e3.tail, o))
     | (e2, o) => (e2.tail, o))
  | (e1, .throw) => (e1.tail, .throw)
  | (e1, .panic) => (e1.tail, .panic)

/-- the element loop of a clause -/
def forItems (k : Env → Env × Out Unit) (pat : UPat) (e : Env) : List Val → Env × Out Unit
  | [] => (e, .ok ())
  | x :: xs =>
    match forElement k pat e x with
    | (e1, .ok ()) => forItems k pat e1 xs
    | r => r

/-- `evaluate_for` (eval.rs ~410) over `<-` / `<<-` clauses: the iteratee is evaluated once, before
the first element -/
def forClauses (body : List BStmt) : List Clause → Env → Env × Out Unit
  | [], e => runBody e body
  | c :: cs, e =>
    match evalIter e c.iter with
    | .ok v =>
      (match clauseItems c.item v with
       | some items => forItems (fun e' => forClauses body cs e') c.pat e items
       | none => (e, .throw))                  -- "for iteration: not iterable"
    | .throw => (e, .throw)
    | .panic => (e, .panic)

/-! ### The hoisted form, for contrast

What a loop would do if the pattern were evaluated once, before the first element ("the pattern is
the same for every element").  `Theorems/C12For.lean` shows that it is a different function. -/

def forItemsHoisted (k : Env → Env × Out Unit) (p : Pat) (e : Env) : List Val → Env × Out Unit
  | [] => (e, .ok ())
  | x :: xs =>
    match assign ([] :: e) p (some .any) x with
    | (e2, .ok ()) =>
      (match k e2 with
       | (e3, .ok ()) => forItemsHoisted k p e3.tail xs
       | (e3, o) => (e3.tail, o))
    | (e2, o) => (e2.tail, o)

def forClauseHoisted (k : Env → Env × Out Unit) (pat : UPat) (e : Env) (items : List Val) : Env × Out Unit :=
  match evalU e pat with
  | (e1, .ok p) => forItemsHoisted k p e1 items
  | (e1, .throw) => (e1, .throw)
  | (e1, .panic) => (e1, .panic)

end Noulith.C12
