/-
Impl model of the Noulith lexer: `/repo/src/lex.rs` (`Lexer::lex`, `lex_simple_string_after_start`,
`lex_base_and_emit`, `lex_base_64_and_emit`, `try_emit_float`, `try_emit_imaginary_float`), over
`List Char`.  It mirrors the Rust: the same dispatch on the first character, the same inner loops
(`while let Some(cc) = self.peek().filter(p)` is `takeWhile p` / `dropWhile p`), the same order of
checks, the same tokens emitted in the error cases (`Invalid` *followed by* the partial literal) and
the same number of characters consumed after an error (`break` then `self.next()`).

Conventions
* a token stream is a `List Token`; source locations (`CodeLoc`) are not modelled (they are not
  observable through `parse`/`evaluate` results);
* places where the Rust could panic (`unwrap`, `to_digit` with a radix > 36, unchecked `u32`
  arithmetic) are explicit: the model emits the pseudo-token `Token.panic site` and stops.  Theorem
  `lex_no_panic` (Theorems/C15.lean) shows none is ever emitted;
* external functions are modelled, not verified: `str::parse::<BigInt>` of a digit string as
  positional decimal, `str::parse::<u32>` as the same with the range check, `str::parse::<f64>`
  only by *which texts it accepts* (`f64TextValid`) — the float value itself stays the text handed
  to the parser (`Token.floatLit text`), `char::is_alphabetic/is_numeric/is_uppercase/is_whitespace`
  by the tables of Impl/UnicodeTables.lean, `String::into_bytes` / `char::encode_utf8` as UTF-8 encoding.
Core Lean only.
-/
import NoulithModel.Common
import NoulithModel.Impl.UnicodeTables

namespace Noulith.Lex
open Noulith.Unicode

/-- the message classes of `Token::Invalid(String)` -/
inductive InvalidKind where
  | badHexEscape      -- "lexing: string literal: bad hex escape"
  | badUEnd           -- "lexing: string literal: bad u escape end: {}"
  | uTooBig           -- "lexing: string literal: u result too big: {}"
  | unknownEscape     -- "lexing: string literal: unknown escape {}"
  | escapeEof         -- "lexing: string literal: escape eof"
  | stringEof         -- "lexing: string literal hit eof"
  | runawayComment    -- "lexing: runaway range comment"
  | fmtNoQuote        -- "lexing: format string: no quote"
  | rawNoQuote        -- "lexing: raw string literal: no quote"
  | unrecognized      -- "lexing: unrecognized char: {}"
  | invalidFloat      -- "lexing: invalid float: {}"
  | invalidImag       -- "lexing: invalid imaginary float: {}"
  deriving Repr, DecidableEq, Inhabited

/-- `lex.rs` `enum Token`.  Integer payloads are `Nat` (the lexer never produces a negative
`BigInt`), a rational literal `Nq` is its numerator (denominator 1), float payloads are the text
handed to `str::parse::<f64>`. -/
inductive Token where
  | invalid (k : InvalidKind)
  | intLit (n : Nat)
  | ratLit (n : Nat)
  | floatLit (text : List Char)
  | imagLit (text : List Char)
  | stringLit (s : List Char)
  | bytesLit (bs : List Nat)
  | formatString (s : List Char)
  | ident (s : List Char)
  | leftParen | rightParen | leftBracket | bLeftBracket | rightBracket | leftBrace | rightBrace
  | backtick | null | and | or | coalesce | while | for | yield | into | if | else | switch | case
  | try | catch | break | continue | return | throw | bang | questionMark | colon | leftArrow
  | rightArrow | doubleLeftArrow | doubleColon | semicolon | ellipsis | lambda | lambdaEnd | comma
  | assign | consume | pop | remove | swap | every | struct | freeze | import | literally
  | underscore
  | internalFrame | internalPush | internalPop | internalPeek | internalPeekN (n : Nat)
  | internalWhile | internalFor | internalCall | internalLambda
  | comment (s : List Char)
  /-- not a token of the Rust: marks a place where the Rust would panic -/
  | panic (site : String)
  deriving Repr, DecidableEq, Inhabited

def Token.isPanic : Token → Bool
  | .panic _ => true
  | _ => false

/-! ### character helpers -/

/-- Rust `char::to_digit(radix)` for `2 ≤ radix ≤ 36` (it panics for a larger radix; the callers
guard, see `lexBaseTok`): ASCII digits, then ASCII letters of either case from 10. -/
def toDigit (c : Char) (radix : Nat) : Option Nat :=
  let n := c.toNat
  if 48 ≤ n ∧ n ≤ 57 then (if n - 48 < radix then some (n - 48) else none)
  else if radix > 10 then
    if 97 ≤ n ∧ n ≤ 122 then (if n - 87 < radix then some (n - 87) else none)
    else if 65 ≤ n ∧ n ≤ 90 then (if n - 55 < radix then some (n - 55) else none)
    else none
  else none

/-- `c.is_digit(10)` -/
def isDigit10 (c : Char) : Bool := (toDigit c 10).isSome
/-- `c.to_digit(16).is_some()` -/
def isHexDigit (c : Char) : Bool := (toDigit c 16).isSome

/-- positional value of a digit string that `toDigit · radix` accepts (most significant first),
continuing from `x`: the loop `x = base * x + cc` -/
def foldDigits (radix : Nat) (x : Nat) : List Char → Nat
  | [] => x
  | c :: cs => foldDigits radix (radix * x + (toDigit c radix).getD 0) cs

/-- `acc.parse::<BigInt>()` on a string of ASCII decimal digits (external: num-bigint `FromStr`,
modelled as positional decimal); `none` = `Err` (empty or non-digit), which the Rust `unwrap`s. -/
def parseBigInt (acc : List Char) : Option Nat :=
  if acc ≠ [] ∧ acc.all isDigit10 then some (foldDigits 10 0 acc) else none

/-- `acc.parse::<u32>()` on a string of ASCII decimal digits (`Err` on overflow) -/
def parseU32 (acc : List Char) : Option Nat :=
  match parseBigInt acc with
  | some v => if v ≤ 4294967295 then some v else none
  | none => none

/-- `char::from_u32`: the value is a Unicode scalar value -/
def validScalar (x : Nat) : Bool := x < 0xD800 || (0xE000 ≤ x && x ≤ 0x10FFFF)

/-- UTF-8 encoding of one scalar value (`String::into_bytes`), bytes as `Nat < 256` -/
def utf8Encode (c : Char) : List Nat :=
  let n := c.toNat
  if n < 0x80 then [n]
  else if n < 0x800 then [0xC0 + n / 64, 0x80 + n % 64]
  else if n < 0x10000 then [0xE0 + n / 4096, 0x80 + n / 64 % 64, 0x80 + n % 64]
  else [0xF0 + n / 262144, 0x80 + n / 4096 % 64, 0x80 + n / 64 % 64, 0x80 + n % 64]

def utf8Len (c : Char) : Nat := (utf8Encode c).length

/-- the bytes of a bytes literal: a character written as `\\xHH` is the single byte `HH`
(`c as u32 as u8`), every other character its UTF-8 encoding.  `hex` flags the `\\xHH` characters. -/
def bytesOf : List Char → List Bool → List Nat
  | c :: cs, h :: hs => (if h then [c.toNat % 256] else utf8Encode c) ++ bytesOf cs hs
  | c :: cs, [] => utf8Encode c ++ bytesOf cs []
  | [], _ => []

/-! ### `str::parse::<f64>` acceptance

Grammar of Rust's `dec2flt` for the texts the lexer can hand over (no sign, no `inf`/`nan`):
`Digit* [ '.' Digit* ] [ ('e'|'E') ['+'|'-'] Digit+ ]` with at least one digit before the exponent. -/
def f64TextValid (s : List Char) : Bool :=
  let ip := s.takeWhile isDigit10
  let r1 := s.dropWhile isDigit10
  let (fp, r2) := match r1 with
    | '.' :: r => (r.takeWhile isDigit10, r.dropWhile isDigit10)
    | _ => ([], r1)
  if ip.isEmpty && fp.isEmpty then false
  else match r2 with
    | [] => true
    | e :: r3 =>
      if e = 'e' ∨ e = 'E' then
        let r4 := match r3 with
          | '-' :: r => r
          | '+' :: r => r
          | _ => r3
        !r4.isEmpty && r4.all isDigit10
      else false

/-- `try_emit_float` -/
def emitFloat (acc : List Char) : Token :=
  if f64TextValid acc then .floatLit acc else .invalid .invalidFloat
/-- `try_emit_imaginary_float` -/
def emitImag (acc : List Char) : Token :=
  if f64TextValid acc then .imagLit acc else .invalid .invalidImag

/-! ### string literals: `lex_simple_string_after_start` -/

/-- what `lex_simple_string_after_start(end)` did: tokens emitted from inside it (`Invalid …`, at
most one), the accumulated string it returns, the input left after its final `self.next()` -/
structure StrRes where
  pre : List Token
  acc : List Char
  rest : List Char
  deriving Repr, DecidableEq, Inhabited

/-- `acc.push(c)` before the rest of the loop runs -/
def StrRes.push (c : Char) (r : StrRes) : StrRes := { r with acc := c :: r.acc }

/-- an error inside the literal: `self.emit(Token::Invalid(..)); break;` and then the
`self.next()` after the loop, which consumes one more character of `remaining` -/
def strFail (k : InvalidKind) (remaining : List Char) : StrRes :=
  ⟨[.invalid k], [], remaining.tail⟩

/-- the `\u` accumulator `x = 16 * x + cc` on a `u32`.  After the fix of F17 the Rust uses
`x.saturating_mul(16).saturating_add(cc)`; modelled literally. -/
def U32_MAX : Nat := 4294967295
def satStep (x d : Nat) : Nat := min (min (x * 16) U32_MAX + d) U32_MAX
def hexAccSat (x : Nat) : List Char → Nat
  | [] => x
  | c :: cs => hexAccSat (satStep x ((toDigit c 16).getD 0)) cs

/-- the optional opening bracket of a `\u` escape and the closing one it requires -/
def uBracket : List Char → Option Char × List Char
  | '{' :: r => (some '}', r)
  | '(' :: r => (some ')', r)
  | '[' :: r => (some ']', r)
  | '<' :: r => (some '>', r)
  | cs => (none, cs)

theorem length_dropWhile_le (p : Char → Bool) (l : List Char) : (l.dropWhile p).length ≤ l.length :=
  (List.dropWhile_suffix p).length_le

theorem uBracket_length (cs : List Char) : (uBracket cs).2.length ≤ cs.length := by
  unfold uBracket; split <;> simp

/-- after `\u`: the closing bracket required (if an opening one follows), the value of the hex
digit run accumulated in the saturating `u32`, and the input after the digit run -/
def uExpected (cs : List Char) : Option Char := (uBracket cs).1
def uValue (cs : List Char) : Nat := hexAccSat 0 ((uBracket cs).2.takeWhile isHexDigit)
def uAfter (cs : List Char) : List Char := (uBracket cs).2.dropWhile isHexDigit

theorem uAfter_length (cs : List Char) : (uAfter cs).length ≤ cs.length := by
  have h1 := length_dropWhile_le isHexDigit (uBracket cs).2
  have h2 := uBracket_length cs
  unfold uAfter; omega

/-- `lex_simple_string_after_start(end)` on the input after the opening quote -/
def lexStr (e : Char) : List Char → StrRes
  | [] => ⟨[.invalid .stringEof], [], []⟩
  | c :: cs =>
    if c = e then ⟨[], [], cs⟩
    else if c = '\\' then
      match cs with
      | [] => ⟨[.invalid .escapeEof], [], []⟩
      | c1 :: cs1 =>
        if c1 = 'n' then (lexStr e cs1).push '\n'
        else if c1 = 'r' then (lexStr e cs1).push '\r'
        else if c1 = 't' then (lexStr e cs1).push '\t'
        else if c1 = '0' then (lexStr e cs1).push (Char.ofNat 0)
        else if c1 = '\\' ∨ c1 = '\'' ∨ c1 = '"' then (lexStr e cs1).push c1
        else if c1 = 'x' then
          match cs1 with
          | [] => strFail .badHexEscape []
          | h1 :: cs2 =>
            match toDigit h1 16 with
            | none => strFail .badHexEscape cs2
            | some d1 =>
              match cs2 with
              | [] => strFail .badHexEscape []
              | h2 :: cs3 =>
                match toDigit h2 16 with
                | none => strFail .badHexEscape cs3
                | some d2 =>
                  -- `char::from_u32(d1 * 16 + d2).unwrap()`
                  if validScalar (d1 * 16 + d2) then (lexStr e cs3).push (Char.ofNat (d1 * 16 + d2))
                  else ⟨[.panic "from_u32.unwrap"], [], []⟩
        else if c1 = 'u' then
          match uExpected cs1 with
          | some close =>
            match _hafter : uAfter cs1 with
            | [] => strFail .badUEnd []
            | c2 :: cs3 =>
              if c2 = close then
                if validScalar (uValue cs1) then (lexStr e cs3).push (Char.ofNat (uValue cs1))
                else strFail .uTooBig cs3
              else strFail .badUEnd (c2 :: cs3)
          | none =>
            if validScalar (uValue cs1) then (lexStr e (uAfter cs1)).push (Char.ofNat (uValue cs1))
            else strFail .uTooBig (uAfter cs1)
        else strFail .unknownEscape cs1
    else (lexStr e cs).push c
termination_by cs => cs.length
decreasing_by
  all_goals simp_wf
  all_goals (try omega)
  · have h3 := uAfter_length cs1
    rw [_hafter] at h3; simp at h3; omega
  · have h3 := uAfter_length cs1
    omega

/-- the second result of `lex_simple_string_after_start_hex`: for every character of the returned
string, was it written as a `\xHH` escape?  (The Rust records the byte offsets of those characters
in `hex_at` in the same loop; a flag per character is the same information.  Same recursion as
`lexStr`, so the flags line up with `(lexStr e cs).acc`.) -/
def lexStrHex (e : Char) : List Char → List Bool
  | [] => []
  | c :: cs =>
    if c = e then []
    else if c = '\\' then
      match cs with
      | [] => []
      | c1 :: cs1 =>
        if c1 = 'n' then false :: lexStrHex e cs1
        else if c1 = 'r' then false :: lexStrHex e cs1
        else if c1 = 't' then false :: lexStrHex e cs1
        else if c1 = '0' then false :: lexStrHex e cs1
        else if c1 = '\\' ∨ c1 = '\'' ∨ c1 = '"' then false :: lexStrHex e cs1
        else if c1 = 'x' then
          match cs1 with
          | [] => []
          | h1 :: cs2 =>
            match toDigit h1 16 with
            | none => []
            | some d1 =>
              match cs2 with
              | [] => []
              | h2 :: cs3 =>
                match toDigit h2 16 with
                | none => []
                | some d2 =>
                  if validScalar (d1 * 16 + d2) then true :: lexStrHex e cs3 else []
        else if c1 = 'u' then
          match uExpected cs1 with
          | some close =>
            match _hafter : uAfter cs1 with
            | [] => []
            | c2 :: cs3 =>
              if c2 = close then
                if validScalar (uValue cs1) then false :: lexStrHex e cs3 else []
              else []
          | none =>
            if validScalar (uValue cs1) then false :: lexStrHex e (uAfter cs1) else []
        else []
    else false :: lexStrHex e cs
termination_by cs => cs.length
decreasing_by
  all_goals simp_wf
  all_goals (try omega)
  · have h3 := uAfter_length cs1
    rw [_hafter] at h3; simp at h3; omega
  · have h3 := uAfter_length cs1
    omega

/-! ### integer literals with a radix -/

/-- `lex_base_and_emit(base)`: value and the input left -/
def lexBase (base : Nat) (cs : List Char) : Nat × List Char :=
  (foldDigits base 0 (cs.takeWhile fun c => (toDigit c base).isSome),
   cs.dropWhile fun c => (toDigit c base).isSome)

/-- digit value in the base-64 alphabet of `lex_base_64_and_emit` -/
def b64Digit (c : Char) : Option Nat :=
  let n := c.toNat
  if 65 ≤ n ∧ n ≤ 90 then some (n - 65)
  else if 97 ≤ n ∧ n ≤ 122 then some (n - 97 + 26)
  else if 48 ≤ n ∧ n ≤ 57 then some (n - 48 + 52)
  else if c = '+' ∨ c = '-' then some 62
  else if c = '/' ∨ c = '_' then some 63
  else none

def foldB64 (x : Nat) : List Char → Nat
  | [] => x
  | c :: cs => foldB64 (64 * x + (b64Digit c).getD 0) cs

/-- `lex_base_64_and_emit` -/
def lexBase64 (cs : List Char) : Nat × List Char :=
  (foldB64 0 (cs.takeWhile fun c => (b64Digit c).isSome), cs.dropWhile fun c => (b64Digit c).isSome)

/-- result of lexing one token group: tokens emitted, input left, and whether `lex` returned
early (runaway range comment) or the Rust would have panicked -/
structure Step where
  toks : List Token
  rest : List Char
  stop : Bool := false
  deriving Repr, DecidableEq, Inhabited

/-- `lex_base_and_emit(radix)` with the `to_digit` radix assertion made explicit -/
def lexBaseTok (radix : Nat) (cs : List Char) : Step :=
  if 2 ≤ radix ∧ radix ≤ 36 then ⟨[.intLit (lexBase radix cs).1], (lexBase radix cs).2, false⟩
  else ⟨[.panic "to_digit: radix too large"], cs, true⟩

/-- `Token::IntLit(acc.parse::<BigInt>().unwrap())` -/
def intLitTok (acc : List Char) : Token :=
  match parseBigInt acc with
  | some n => .intLit n
  | none => .panic "parse::<BigInt>().unwrap()"

def ratLitTok (acc : List Char) : Token :=
  match parseBigInt acc with
  | some n => .ratLit n
  | none => .panic "parse::<BigInt>().unwrap()"

/-- the exponent part after `e`/`E` has been seen: `acc.push('e')`, optional `-`, digits -/
def lexExponent (acc : List Char) (cs : List Char) : Step :=
  match cs with
  | '-' :: r => ⟨[emitFloat (acc ++ 'e' :: '-' :: r.takeWhile isDigit10)], r.dropWhile isDigit10, false⟩
  | _ => ⟨[emitFloat (acc ++ 'e' :: cs.takeWhile isDigit10)], cs.dropWhile isDigit10, false⟩

/-- after `digits '.' digits` (= `acc2`): suffix or exponent; `cs3` is the input left -/
def lexAfterFraction (acc2 : List Char) (cs3 : List Char) : Step :=
  match cs3 with
  | [] => ⟨[emitFloat acc2], [], false⟩
  | d :: cs4 =>
    if d = 'i' ∨ d = 'I' ∨ d = 'j' ∨ d = 'J' then ⟨[emitImag acc2], cs4, false⟩
    else if d = 'e' ∨ d = 'E' then lexExponent acc2 cs4
    else if d = 'f' ∨ d = 'F' then ⟨[emitFloat acc2], cs4, false⟩
    else ⟨[emitFloat acc2], cs3, false⟩

/-- after the integer digits `acc` when no `.` follows; `d :: cs2` is the input left -/
def lexAfterInt (acc : List Char) (d : Char) (cs2 : List Char) : Step :=
  if acc = ['0'] ∧ (d = 'x' ∨ d = 'X') then lexBaseTok 16 cs2
  else if acc = ['0'] ∧ (d = 'b' ∨ d = 'B') then lexBaseTok 2 cs2
  else if acc = ['0'] ∧ (d = 'o' ∨ d = 'O') then lexBaseTok 8 cs2
  else if d = 'r' ∨ d = 'R' then
    match parseU32 acc with
    | some radix =>
      if 2 ≤ radix ∧ radix ≤ 36 then lexBaseTok radix cs2
      else if radix = 64 then ⟨[.intLit (lexBase64 cs2).1], (lexBase64 cs2).2, false⟩
      else ⟨[intLitTok acc], d :: cs2, false⟩
    | none => ⟨[intLitTok acc], d :: cs2, false⟩
  else if d = 'i' ∨ d = 'I' ∨ d = 'j' ∨ d = 'J' then ⟨[emitImag acc], cs2, false⟩
  else if d = 'q' ∨ d = 'Q' then ⟨[ratLitTok acc], cs2, false⟩
  else if d = 'f' ∨ d = 'F' then ⟨[emitFloat acc], cs2, false⟩
  else if d = 'e' ∨ d = 'E' then lexExponent acc cs2
  else ⟨[intLitTok acc], d :: cs2, false⟩

/-- the arm `c.is_digit(10)` of `lex`: `c` is the digit just consumed -/
def lexNumber (c : Char) (cs : List Char) : Step :=
  match cs.dropWhile isDigit10 with
  | '.' :: cs2 =>
    lexAfterFraction (c :: cs.takeWhile isDigit10 ++ '.' :: cs2.takeWhile isDigit10) (cs2.dropWhile isDigit10)
  | [] => ⟨[intLitTok (c :: cs.takeWhile isDigit10)], [], false⟩
  | d :: cs2 => lexAfterInt (c :: cs.takeWhile isDigit10) d cs2

/-! ### identifiers, keywords, prefixed strings -/

def keyword (acc : String) : Option Token :=
  match acc with
  | "if" => some .if | "else" => some .else | "while" => some .while | "for" => some .for
  | "yield" => some .yield | "into" => some .into | "switch" => some .switch | "case" => some .case
  | "null" => some .null | "and" => some .and | "or" => some .or | "coalesce" => some .coalesce
  | "break" => some .break | "try" => some .try | "catch" => some .catch | "throw" => some .throw
  | "continue" => some .continue | "return" => some .return | "consume" => some .consume
  | "pop" => some .pop | "remove" => some .remove | "swap" => some .swap | "every" => some .every
  | "struct" => some .struct | "freeze" => some .freeze | "import" => some .import
  | "literally" => some .literally | "_" => some .underscore
  | "__internal_frame" => some .internalFrame | "__internal_push" => some .internalPush
  | "__internal_pop" => some .internalPop | "__internal_peek" => some .internalPeek
  | "__internal_0" => some (.internalPeekN 0) | "__internal_1" => some (.internalPeekN 1)
  | "__internal_2" => some (.internalPeekN 2) | "__internal_3" => some (.internalPeekN 3)
  | "__internal_4" => some (.internalPeekN 4) | "__internal_5" => some (.internalPeekN 5)
  | "__internal_6" => some (.internalPeekN 6) | "__internal_7" => some (.internalPeekN 7)
  | "__internal_8" => some (.internalPeekN 8) | "__internal_9" => some (.internalPeekN 9)
  | "__internal_while" => some .internalWhile | "__internal_for" => some .internalFor
  | "__internal_call" => some .internalCall | "__internal_lambda" => some .internalLambda
  | _ => none

/-- continuation characters of an identifier -/
def isIdentCont (c : Char) : Bool := isAlphanumeric c || c = '_' || c = '\'' || c = '?'

def DRAGON : Char := Char.ofNat 0x1F409

/-- raw string body: everything up to the delimiter, no escapes.  `none` = hit end of input -/
def lexRaw (delim : Char) : List Char → Option (List Char × List Char)
  | [] => none
  | c :: cs =>
    if c = delim then some ([], cs)
    else match lexRaw delim cs with
      | some (acc, rest) => some (c :: acc, rest)
      | none => none

/-- the identifier loop: the accumulated name and the input left.
`c.is_uppercase() && acc.len() == 1 && *cc == '\''` can only hold on the first iteration
(`acc.len()` is the byte length): F' R' B' start strings -/
def identStopEarly (c : Char) (cs : List Char) : Bool :=
  match cs with
  | cc :: _ => cc = '\'' && isUppercase c && (if c = DRAGON then false else utf8Len c == 1)
  | [] => false

def identSplit (c : Char) (cs : List Char) : List Char × List Char :=
  let acc0 : List Char := if c = DRAGON then "__internal_".toList else [c]
  if identStopEarly c cs then (acc0, cs)
  else (acc0 ++ cs.takeWhile isIdentCont, cs.dropWhile isIdentCont)

/-- what is done with the accumulated name `acc`, `cs1` being the input after it -/
def lexIdentTail (acc : List Char) (cs1 : List Char) : Step :=
  if acc = ['B'] then
    match cs1 with
    | d :: cs2 =>
      if d = '\'' ∨ d = '"' then
        ⟨(lexStr d cs2).pre ++ [.bytesLit (bytesOf (lexStr d cs2).acc (lexStrHex d cs2))], (lexStr d cs2).rest, false⟩
      else if d = '[' then ⟨[.bLeftBracket], cs2, false⟩
      else ⟨[.ident acc], cs1, false⟩
    | [] => ⟨[.ident acc], cs1, false⟩
  else if acc = ['F'] then
    match cs1 with
    | d :: cs2 =>
      if d = '\'' ∨ d = '"' then
        ⟨(lexStr d cs2).pre ++ [.formatString (lexStr d cs2).acc], (lexStr d cs2).rest, false⟩
      else ⟨[.invalid .fmtNoQuote], cs2, false⟩
    | [] => ⟨[.invalid .fmtNoQuote], [], false⟩
  else if acc = ['R'] then
    match cs1 with
    | d :: cs2 =>
      if d = '\'' ∨ d = '"' then
        match lexRaw d cs2 with
        | some (s, rest) => ⟨[.stringLit s], rest, false⟩
        | none => ⟨[.invalid .stringEof, .stringLit cs2], [], false⟩
      else ⟨[.invalid .rawNoQuote], cs2, false⟩
    | [] => ⟨[.invalid .rawNoQuote], [], false⟩
  else
    match keyword (String.ofList acc) with
    | some t => ⟨[t], cs1, false⟩
    | none => ⟨[.ident acc], cs1, false⟩

/-- the arm `c.is_alphabetic() || c == '_' || c == '🐉'` -/
def lexIdent (c : Char) (cs : List Char) : Step :=
  lexIdentTail (identSplit c cs).1 (identSplit c cs).2

/-! ### operators -/

def OPERATOR_SYMBOLS : List Char := "!$%&*+-./<=>?@^|~×∈∉∋∌∘∧∨≠≤≥⊕⧺".toList
def isOpSym (c : Char) : Bool := OPERATOR_SYMBOLS.contains c

/-- the arm `OPERATOR_SYMBOLS.contains(&c) && c != '?'`: `run` = the whole maximal run of operator
symbols starting with `c`; `acc` = all but its last character, `last` = the last one -/
def lexOp (c : Char) (cs : List Char) : Step :=
  let run := c :: cs.takeWhile isOpSym
  let rest := cs.dropWhile isOpSym
  let acc := run.dropLast
  let last := run.getLast?.getD c
  if last = '=' then
    if acc = ['!'] ∨ acc = ['<'] ∨ acc = ['>'] ∨ acc = ['='] then ⟨[.ident run], rest, false⟩
    else if acc = [] then ⟨[.assign], rest, false⟩
    else ⟨[.ident acc, .assign], rest, false⟩
  else if run = ['!'] then ⟨[.bang], rest, false⟩
  else if run = ['.', '.', '.'] then ⟨[.ellipsis], rest, false⟩
  else if run = ['<', '-'] then ⟨[.leftArrow], rest, false⟩
  else if run = ['-', '>'] then ⟨[.rightArrow], rest, false⟩
  else if run = ['<', '<', '-'] then ⟨[.doubleLeftArrow], rest, false⟩
  else ⟨[.ident run], rest, false⟩

/-! ### comments -/

/-- `#( … )` with nesting; `none` = runaway.  `depth ≥ 1` is the number of open parentheses -/
def lexRangeComment : Nat → List Char → Option (List Char × List Char)
  | _, [] => none
  | depth, c :: cs =>
    if c = ')' ∧ depth ≤ 1 then some ([], cs)
    else
      let depth' := if c = '(' then depth + 1 else if c = ')' then depth - 1 else depth
      match lexRangeComment depth' cs with
      | some (acc, rest) => some (c :: acc, rest)
      | none => none

/-- the arm `'#'` -/
def lexComment (cs : List Char) : Step :=
  match cs with
  | [] => ⟨[.comment []], [], false⟩
  | c :: cs1 =>
    if c = '\n' then ⟨[.comment []], cs1, false⟩
    else if c = '(' then
      match lexRangeComment 1 cs1 with
      | some (acc, rest) => ⟨[.comment acc], rest, false⟩
      | none => ⟨[.invalid .runawayComment], [], true⟩
    else
      -- line comment: up to and including the newline (which is consumed)
      ⟨[.comment (c :: cs1.takeWhile (· ≠ '\n'))], (cs1.dropWhile (· ≠ '\n')).tail, false⟩

/-! ### the main loop -/

/-- the catch-all arm `c => { if c.is_whitespace() … }` of the `match c` in `Lexer::lex` -/
def lexOther (c : Char) (cs : List Char) : Step :=
  if isWhitespace c then ⟨[], cs, false⟩
  else if isDigit10 c then lexNumber c cs
  else if isAlphabetic c || c = '_' || c = DRAGON then lexIdent c cs
  else if isOpSym c && c ≠ '?' then lexOp c cs
  else ⟨[.invalid .unrecognized], cs, false⟩

/-- one iteration of `while let Some(c) = self.next()` in `Lexer::lex` -/
def lexStep (c : Char) (cs : List Char) : Step :=
  match c with
  | '(' => ⟨[.leftParen], cs, false⟩
  | ')' => ⟨[.rightParen], cs, false⟩
  | '[' => ⟨[.leftBracket], cs, false⟩
  | ']' => ⟨[.rightBracket], cs, false⟩
  | '{' => ⟨[.leftBrace], cs, false⟩
  | '}' => ⟨[.rightBrace], cs, false⟩
  | '`' => ⟨[.backtick], cs, false⟩
  | '\\' =>
    match cs with
    | '\\' :: cs1 => ⟨[.lambdaEnd], cs1, false⟩
    | _ => ⟨[.lambda], cs, false⟩
  | ',' => ⟨[.comma], cs, false⟩
  | ';' => ⟨[.semicolon], cs, false⟩
  | ':' =>
    match cs with
    | ':' :: cs1 => ⟨[.doubleColon], cs1, false⟩
    | _ => ⟨[.colon], cs, false⟩
  | ' ' => ⟨[], cs, false⟩
  | '\n' => ⟨[], cs, false⟩
  | '#' => lexComment cs
  | '\'' => ⟨(lexStr '\'' cs).pre ++ [.stringLit (lexStr '\'' cs).acc], (lexStr '\'' cs).rest, false⟩
  | '"' => ⟨(lexStr '"' cs).pre ++ [.stringLit (lexStr '"' cs).acc], (lexStr '"' cs).rest, false⟩
  | '∧' => ⟨[.and], cs, false⟩
  | '∨' => ⟨[.or], cs, false⟩
  | '?' => ⟨[.questionMark], cs, false⟩
  | c => lexOther c cs

/-! ### the lexer only moves forward: every sub-lexer returns a suffix of its input -/

theorem suffix_tail_of_suffix {a b : List Char} (h : a <:+ b) : a.tail <:+ b :=
  (List.tail_suffix a).trans h

theorem suffix_cons_of_suffix {a b : List Char} (c : Char) (h : a <:+ b) : a <:+ c :: b :=
  h.trans (List.suffix_cons c b)

theorem uBracket_suffix (cs : List Char) : (uBracket cs).2 <:+ cs := by
  unfold uBracket; split <;> simp [List.suffix_cons]

@[simp] theorem push_rest (c : Char) (r : StrRes) : (r.push c).rest = r.rest := rfl
@[simp] theorem push_pre (c : Char) (r : StrRes) : (r.push c).pre = r.pre := rfl
@[simp] theorem push_acc (c : Char) (r : StrRes) : (r.push c).acc = c :: r.acc := rfl

theorem uAfter_suffix (cs : List Char) : uAfter cs <:+ cs :=
  (List.dropWhile_suffix _).trans (uBracket_suffix cs)

theorem sfx2 {a b : List Char} (c d : Char) (h : a <:+ b) : a <:+ c :: d :: b :=
  suffix_cons_of_suffix c (suffix_cons_of_suffix d h)

theorem lexStr_suffix (e : Char) (cs : List Char) : (lexStr e cs).rest <:+ cs := by
  fun_induction lexStr e cs <;> simp_all [strFail]
  case case4 ih => exact sfx2 _ _ ih
  case case5 ih => exact sfx2 _ _ ih
  case case6 ih => exact sfx2 _ _ ih
  case case7 ih => exact sfx2 _ _ ih
  case case8 ih => exact sfx2 _ _ ih
  case case10 => exact sfx2 _ _ (suffix_cons_of_suffix _ (List.tail_suffix _))
  case case12 => exact sfx2 _ _ (sfx2 _ _ (List.tail_suffix _))
  case case13 ih => exact sfx2 _ _ (sfx2 _ _ ih)
  case case16 cs1 c2 cs3 hafter _ _ _ ih =>
    have h := uAfter_suffix cs1; rw [hafter] at h
    exact sfx2 _ _ (ih.trans ((List.suffix_cons c2 cs3).trans h))
  case case17 cs1 c2 cs3 hafter _ _ _ =>
    have h := uAfter_suffix cs1; rw [hafter] at h
    exact sfx2 _ _ ((List.tail_suffix _).trans ((List.suffix_cons c2 cs3).trans h))
  case case18 cs1 _ _ c2 cs3 hafter _ _ =>
    have h := uAfter_suffix cs1; rw [hafter] at h
    exact sfx2 _ _ ((List.suffix_cons c2 cs3).trans h)
  case case19 cs1 _ _ _ ih => exact sfx2 _ _ (ih.trans (uAfter_suffix cs1))
  case case20 cs1 _ _ _ => exact sfx2 _ _ ((List.tail_suffix _).trans (uAfter_suffix cs1))
  case case21 => exact sfx2 _ _ (List.tail_suffix _)
  case case22 ih => exact suffix_cons_of_suffix _ ih

theorem lexBaseTok_suffix (radix : Nat) (cs : List Char) : (lexBaseTok radix cs).rest <:+ cs := by
  unfold lexBaseTok lexBase; split
  · exact List.dropWhile_suffix _
  · exact List.suffix_refl _

theorem lexExponent_suffix (acc cs : List Char) : (lexExponent acc cs).rest <:+ cs := by
  unfold lexExponent; split
  · exact suffix_cons_of_suffix _ (List.dropWhile_suffix _)
  · exact List.dropWhile_suffix _

theorem lexAfterFraction_suffix (acc2 cs3 : List Char) : (lexAfterFraction acc2 cs3).rest <:+ cs3 := by
  unfold lexAfterFraction
  split
  · exact List.nil_suffix
  · repeat' split
    all_goals first
      | exact List.suffix_cons _ _
      | exact List.suffix_refl _
      | exact suffix_cons_of_suffix _ (lexExponent_suffix _ _)

theorem lexAfterInt_suffix (acc : List Char) (d : Char) (cs2 : List Char) :
    (lexAfterInt acc d cs2).rest <:+ d :: cs2 := by
  unfold lexAfterInt
  repeat' split
  all_goals first
    | exact List.suffix_cons _ _
    | exact List.suffix_refl _
    | exact suffix_cons_of_suffix _ (lexExponent_suffix _ _)
    | exact suffix_cons_of_suffix _ (lexBaseTok_suffix _ _)
    | exact suffix_cons_of_suffix _ (List.dropWhile_suffix _)

theorem lexNumber_suffix (c : Char) (cs : List Char) : (lexNumber c cs).rest <:+ cs := by
  have hd := List.dropWhile_suffix (l := cs) isDigit10
  unfold lexNumber
  split
  · rename_i cs2 h
    rw [h] at hd
    exact (lexAfterFraction_suffix _ _).trans ((List.dropWhile_suffix _).trans ((List.suffix_cons _ _).trans hd))
  · exact List.nil_suffix
  · rename_i d cs2 _ h
    rw [h] at hd
    exact (lexAfterInt_suffix _ _ _).trans hd

theorem lexRaw_suffix (d : Char) (cs s rest : List Char) (h : lexRaw d cs = some (s, rest)) :
    rest <:+ cs := by
  induction cs generalizing s rest with
  | nil => simp [lexRaw] at h
  | cons c cs ih =>
    unfold lexRaw at h
    split at h
    · simp at h; rw [← h.2]; exact List.suffix_cons _ _
    · split at h
      · rename_i acc r hr
        simp at h; rw [← h.2]; exact suffix_cons_of_suffix _ (ih _ _ hr)
      · simp at h

theorem lexRangeComment_suffix (depth : Nat) (cs s rest : List Char)
    (h : lexRangeComment depth cs = some (s, rest)) : rest <:+ cs := by
  induction cs generalizing s rest depth with
  | nil => simp [lexRangeComment] at h
  | cons c cs ih =>
    unfold lexRangeComment at h
    split at h
    · simp at h; rw [← h.2]; exact List.suffix_cons _ _
    · simp only at h
      split at h
      · rename_i acc r hr
        simp at h; rw [← h.2]; exact suffix_cons_of_suffix _ (ih _ _ _ hr)
      · simp at h

theorem lexComment_suffix (cs : List Char) : (lexComment cs).rest <:+ cs := by
  unfold lexComment
  split
  · exact List.nil_suffix
  · split
    · exact List.suffix_cons _ _
    · split
      · split
        · rename_i h; exact suffix_cons_of_suffix _ (lexRangeComment_suffix _ _ _ _ h)
        · exact List.nil_suffix
      · exact suffix_cons_of_suffix _ (suffix_tail_of_suffix (List.dropWhile_suffix _))

theorem lexOp_suffix (c : Char) (cs : List Char) : (lexOp c cs).rest <:+ cs := by
  unfold lexOp
  simp only
  repeat' split
  all_goals exact List.dropWhile_suffix _

theorem identSplit_suffix (c : Char) (cs : List Char) : (identSplit c cs).2 <:+ cs := by
  unfold identSplit
  simp only
  split
  · exact List.suffix_refl _
  · exact List.dropWhile_suffix _

theorem lexIdentTail_suffix (acc cs1 : List Char) : (lexIdentTail acc cs1).rest <:+ cs1 := by
  unfold lexIdentTail
  repeat' split
  all_goals first
    | exact List.suffix_cons _ _
    | exact List.suffix_refl _
    | exact List.nil_suffix
    | exact suffix_cons_of_suffix _ (lexStr_suffix _ _)
    | (rename_i h; exact suffix_cons_of_suffix _ (lexRaw_suffix _ _ _ _ h))

theorem lexIdent_suffix (c : Char) (cs : List Char) : (lexIdent c cs).rest <:+ cs :=
  (lexIdentTail_suffix _ _).trans (identSplit_suffix c cs)

theorem lexOther_suffix (c : Char) (cs : List Char) : (lexOther c cs).rest <:+ cs := by
  unfold lexOther
  repeat' split
  all_goals first
    | exact List.suffix_refl _
    | exact lexNumber_suffix _ _
    | exact lexIdent_suffix _ _
    | exact lexOp_suffix _ _

theorem lexStep_suffix (c : Char) (cs : List Char) : (lexStep c cs).rest <:+ cs := by
  unfold lexStep
  split
  all_goals (try split)
  all_goals first
    | exact List.suffix_refl _
    | exact List.suffix_cons _ _
    | exact lexComment_suffix _
    | exact lexStr_suffix _ _
    | exact lexOther_suffix _ _

/-- `Lexer::lex`: the token stream of a source text.  Total: every iteration consumes the
character `c` and continues on a suffix of what followed it (`lexStep_suffix`). -/
def lex : List Char → List Token
  | [] => []
  | c :: cs =>
    if (lexStep c cs).stop then (lexStep c cs).toks
    else (lexStep c cs).toks ++ lex (lexStep c cs).rest
termination_by cs => cs.length
decreasing_by
  simp_wf
  have := (lexStep_suffix c cs).length_le
  omega

/-- `strip_comments` (core.rs): the tokens the parser sees, and the comment texts -/
def stripComments (ts : List Token) : List Token × List (List Char) :=
  (ts.filter (fun t => match t with | .comment _ => false | _ => true),
   ts.filterMap (fun t => match t with | .comment s => some s | _ => none))

/-! ### format strings: `parse_format_string` (core.rs) — the brace scanner and the flag parser -/

inductive FmtBase where
  | decimal | binary | octal | lowerHex | upperHex
  deriving Repr, DecidableEq, Inhabited

inductive FmtAlign where
  | left | right | center
  deriving Repr, DecidableEq, Inhabited

/-- the fields of `MyFmtFlags` a format string can set (`MyFmtFlags::new()` is the default) -/
structure FmtFlags where
  base : FmtBase := .decimal
  pad : Char := ' '
  padLength : Nat := 0
  padAlign : FmtAlign := .right
  deriving Repr, DecidableEq, Inhabited

inductive FmtErr where
  | unmatchedRight   -- "format string: unmatched right brace"
  | unmatchedLeft    -- "format string: unmatched left brace"
  | emptyExpr        -- "format string: empty format expr"
  | padLength        -- "format string: pad length couldn't parse: {}"
  | lexPanic         -- (the nested lexer would have panicked)
  deriving Repr, DecidableEq, Inhabited

/-- one element of `Expr::FormatString`: a literal character, or an expression (here: its tokens,
comments stripped — the parser runs on them next) with its flags -/
inductive FmtPart where
  | lit (c : Char)
  | expr (toks : List Token) (flags : FmtFlags)
  deriving Repr, DecidableEq, Inhabited

/-- the flag characters of one comment: the `while let Some(c) = it.next()` loop -/
def fmtFlagsOfComment (fl : FmtFlags) : List Char → Except FmtErr FmtFlags
  | [] => .ok fl
  | c :: cs =>
    if c = 'x' then fmtFlagsOfComment { fl with base := .lowerHex } cs
    else if c = 'X' then fmtFlagsOfComment { fl with base := .upperHex } cs
    else if c = 'b' ∨ c = 'B' then fmtFlagsOfComment { fl with base := .binary } cs
    else if c = 'o' ∨ c = 'O' then fmtFlagsOfComment { fl with base := .octal } cs
    else if c = 'd' ∨ c = 'D' then fmtFlagsOfComment { fl with base := .decimal } cs
    else if c = '<' then fmtFlagsOfComment { fl with padAlign := .left } cs
    else if c = '>' then fmtFlagsOfComment { fl with padAlign := .right } cs
    else if c = '^' then fmtFlagsOfComment { fl with padAlign := .center } cs
    else if c = '0' then fmtFlagsOfComment { fl with pad := '0' } cs
    else if isDigit10 c then
      -- `acc.parse::<usize>()` of the digit run starting here
      let v := foldDigits 10 0 (c :: cs.takeWhile isDigit10)
      if v ≤ 18446744073709551615 then
        fmtFlagsOfComment { fl with padLength := v } (cs.dropWhile isDigit10)
      else .error .padLength
    else fmtFlagsOfComment fl cs
termination_by cs => cs.length
decreasing_by
  all_goals simp_wf
  all_goals (try omega)
  have := length_dropWhile_le isDigit10 cs
  omega

def fmtFlagsOfComments (fl : FmtFlags) : List (List Char) → Except FmtErr FmtFlags
  | [] => .ok fl
  | com :: rest =>
    match fmtFlagsOfComment fl com with
    | .ok fl' => fmtFlagsOfComments fl' rest
    | .error e => .error e

/-- what happens to the accumulated expression text at the closing brace (before the parser):
lex it, strip comments, refuse an empty token list, read the flags from the comments -/
def fmtExpr (exprAcc : List Char) : Except FmtErr FmtPart :=
  let ts := lex exprAcc
  if ts.any Token.isPanic then .error .lexPanic
  else
    let (tokens, comments) := stripComments ts
    if tokens.isEmpty then .error .emptyExpr
    else match fmtFlagsOfComments {} comments with
      | .ok fl => .ok (.expr tokens fl)
      | .error e => .error e

/-- the mutable state of the scanner loop -/
structure FmtState where
  level : Int := 0          -- `nesting_level` (an `i32` in the Rust)
  exprAcc : List Char := []
  ret : List FmtPart := []
  deriving Repr, DecidableEq, Inhabited

/-- `while let Some(c) = p.next() { match (nesting_level, c) { … } }` -/
def fmtLoop (st : FmtState) : List Char → Except FmtErr FmtState
  | [] => .ok st
  | c :: cs =>
    if st.level = 0 then
      if c = '{' then
        if cs.head? = some '{' then fmtLoop { st with ret := st.ret ++ [.lit '{'] } cs.tail
        else fmtLoop { st with level := st.level + 1 } cs
      else if c = '}' then
        if cs.head? = some '}' then fmtLoop { st with ret := st.ret ++ [.lit '}'] } cs.tail
        else .error .unmatchedRight
      else fmtLoop { st with ret := st.ret ++ [.lit c] } cs
    else if c = '{' then fmtLoop { st with level := st.level + 1, exprAcc := st.exprAcc ++ ['{'] } cs
    else if c = '}' then
      if st.level = 1 then
        match fmtExpr st.exprAcc with
        | .ok part => fmtLoop { level := st.level - 1, exprAcc := [], ret := st.ret ++ [part] } cs
        | .error e => .error e
      else fmtLoop { st with level := st.level - 1, exprAcc := st.exprAcc ++ ['}'] } cs
    else fmtLoop { st with exprAcc := st.exprAcc ++ [c] } cs
termination_by cs => cs.length
decreasing_by all_goals (simp_wf; try omega)

/-- `parse_format_string` up to (not including) the parsing of the embedded expressions -/
def fmtScan (s : List Char) : Except FmtErr (List FmtPart) :=
  match fmtLoop {} s with
  | .ok st => if st.level ≠ 0 then .error .unmatchedLeft else .ok st.ret
  | .error e => .error e

/-- the characters of a format string without embedded expressions -/
def fmtLiteralOnly : List FmtPart → Option (List Char)
  | [] => some []
  | .lit c :: ps => (fmtLiteralOnly ps).map (c :: ·)
  | .expr _ _ :: _ => none

/-! ### the literal arms of `Parser::atom` (core.rs) and of `evaluate` (eval.rs) -/

/-- the literal forms of `Expr` -/
inductive LitExpr where
  | intLit64 (n : Nat)     -- `Expr::IntLit64(i64)`: the token's value fits an `i64`
  | intLit (n : Nat)       -- `Expr::IntLit(BigInt)`
  | ratLit (n : Nat)
  | floatLit (text : List Char)
  | imagLit (text : List Char)
  | stringLit (s : List Char)
  | bytesLit (bs : List Nat)
  | formatLit (s : List Char)   -- `Expr::FormatString` all of whose parts are characters
  deriving Repr, DecidableEq

/-- `Parser::atom` on a literal token: `match n.to_i64() { Some(n) => IntLit64(n), None => IntLit(n) }` -/
def atomLit : Token → Option LitExpr
  | .intLit n => some (if n ≤ 9223372036854775807 then .intLit64 n else .intLit n)
  | .ratLit n => some (.ratLit n)
  | .floatLit t => some (.floatLit t)
  | .imagLit t => some (.imagLit t)
  | .stringLit s => some (.stringLit s)
  | .bytesLit b => some (.bytesLit b)
  | .formatString body =>
    match fmtScan body with
    | .ok parts => (fmtLiteralOnly parts).map .formatLit   -- (embedded expressions: not a literal)
    | .error _ => none
  | _ => none

/-- literal values: an integer with its representation (`NInt::Small` / `NInt::Big`), a rational
`n/1`, a float / imaginary number given by the decimal text converted, a string, bytes -/
inductive LitVal where
  | int (n : Nat) (small : Bool)
  | rat (n : Nat)
  | float (text : List Char)
  | imag (text : List Char)
  | str (s : List Char)
  | bytes (bs : List Nat)
  deriving Repr, DecidableEq

/-- the literal arms of `evaluate` -/
def evalLit : LitExpr → LitVal
  | .intLit64 n => .int n true
  | .intLit n => .int n false
  | .ratLit n => .rat n
  | .floatLit t => .float t
  | .imagLit t => .imag t
  | .stringLit s => .str s
  | .bytesLit b => .bytes b
  | .formatLit s => .str s

/-- `parse` followed by `evaluate` on a source text that consists of one literal token (plus
comments / blanks).  `throw` = parse error (or not a single literal). -/
def parseEvalLit (cs : List Char) : Out LitVal :=
  let ts := lex cs
  if ts.any Token.isPanic then .panic
  else match (stripComments ts).1 with
    | [t] => match atomLit t with
      | some e => .ok (evalLit e)
      | none => .throw
    | _ => .throw

end Noulith.Lex
