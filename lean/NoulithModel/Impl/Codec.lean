/-
Impl model for C16 (text and byte codecs).  Mirrors, function by function:

* src/nint.rs `forward_display!` (Display / LowerHex / UpperHex / Binary / Octal of `NInt`),
  src/core.rs `MyDisplay for NNum` (base flag + padding of format strings);
* num-bigint 0.4.6 `BigUint::from_str_radix` / `BigInt::from_str_radix` (radix 10, as used by
  `str::parse::<BigInt>()`), core `i32::from_str`;
* src/decimal.rs `apply_exp10`, `parse_decimal_exactly`, `parse_rational_exactly`;
* src/core.rs `call_type1` arms `int(str)`, `number(str)`, `rational(str)`, `str(int)`, `bytes(str)`;
* src/lib.rs `str_radix`, `int_radix`, `hex_encode`, `hex_decode`, `base64_encode`,
  `base64_decode` (crate base64 0.13.1, STANDARD config), `utf8_encode`, `utf8_decode`
  (`String::from_utf8`), `chr`, `ord`, `json_encode` / `json_decode` (the `Obj ↔ serde_json::Value`
  converters), `compress` / `decompress` (abstract).

Conventions: a Rust `String` is the list of its Unicode scalar values (`Str`), `as_bytes()` is
`utf8Encode`; a byte string is a list of naturals `< 256`.  Characters are written as code points
(`45` = '-', `43` = '+', `46` = '.', `47` = '/', `48` = '0', `95` = '_', `61` = '=').
Core Lean only.
-/
import NoulithModel.Impl.NInt

namespace Noulith.Codec
open Noulith

abbrev Str := List Nat
abbrev Bytes := List Nat

/-! ## 1. digits and positional notation -/

/-- `char::from_digit(d, base)` for `d < base ≤ 36` (lower case), also the digit alphabet of
`BigUint::to_str_radix` and of `{:x}` / `{:b}` / `{:o}` -/
def digitChar (d : Nat) : Nat := if d < 10 then 48 + d else 87 + d
/-- digit alphabet of `{:X}` -/
def digitCharUpper (d : Nat) : Nat := if d < 10 then 48 + d else 55 + d

/-- value of a character as a base-36 digit (`char::to_digit(36)`): `0-9`, `a-z`, `A-Z` -/
def charDigit36 (c : Nat) : Option Nat :=
  if 48 ≤ c ∧ c ≤ 57 then some (c - 48)
  else if 97 ≤ c ∧ c ≤ 122 then some (c - 87)
  else if 65 ≤ c ∧ c ≤ 90 then some (c - 55)
  else none

/-- `char::to_digit(base)` -/
def toDigit (c base : Nat) : Option Nat :=
  match charDigit36 c with
  | some d => if d < base then some d else none
  | none => none

/-- the digit loop `while a > 0 { push(a % base); a /= base }`: little-endian digits, `[]` for 0 -/
def digitsLE (b : Nat) (n : Nat) : List Nat :=
  if h : b < 2 ∨ n = 0 then [] else (n % b) :: digitsLE b (n / b)
termination_by n
decreasing_by exact Nat.div_lt_self (by omega) (by omega)

/-- `BigUint::to_str_radix` / unsigned `{:x}` etc.: most significant digit first, `"0"` for zero -/
def natRadix (upper : Bool) (b n : Nat) : Str :=
  if n = 0 then [48] else (digitsLE b n).reverse.map (if upper then digitCharUpper else digitChar)

/-! ## 2. Display of integers (nint.rs `forward_display!`, core.rs `MyDisplay for NNum`) -/

inductive FmtBase where
  | decimal | binary | octal | lowerHex | upperHex
  deriving Repr, DecidableEq, Inhabited

def FmtBase.radix : FmtBase → Nat
  | .decimal => 10 | .binary => 2 | .octal => 8 | .lowerHex => 16 | .upperHex => 16
def FmtBase.upper : FmtBase → Bool
  | .upperHex => true | _ => false

/-- core::fmt for `i64`: `Display` prints sign and magnitude; `{:x}` `{:X}` `{:b}` `{:o}` print the
64-bit two's complement of a negative number -/
def fmtI64 (base : FmtBase) (v : Int) : Str :=
  match base with
  | .decimal => if v < 0 then 45 :: natRadix false 10 v.natAbs else natRadix false 10 v.natAbs
  | b => natRadix b.upper b.radix (if v < 0 then (v + 18446744073709551616).toNat else v.toNat)

/-- num-bigint: every formatting trait is `pad_integral(non_negative, prefix, magnitude.to_str_radix)`:
sign and magnitude -/
def fmtBig (base : FmtBase) (v : Int) : Str :=
  if v < 0 then 45 :: natRadix base.upper base.radix v.natAbs else natRadix base.upper base.radix v.natAbs

/-- nint.rs `forward_display!`.  `Display` forwards to the representation's own `Display`; the
radix traits (after the fix of finding F8) format a negative `Small` through `BigInt`, so that
both representations print sign and magnitude. -/
def fmtNInt (base : FmtBase) : NInt → Str
  | .small v =>
    match base with
    | .decimal => fmtI64 .decimal v
    | b => if v < 0 then fmtBig b v else fmtI64 b v
  | .big v => fmtBig base v

inductive FmtAlign where
  | left | right | center
  deriving Repr, DecidableEq, Inhabited

/-- the part of `MyFmtFlags` a number looks at -/
structure Flags where
  base : FmtBase := .decimal
  pad : Nat := 32
  padLength : Nat := 0
  align : FmtAlign := .right
  deriving Repr, Inhabited

/-- core.rs `MyDisplay for NNum::fmt_with_mut` (non-repr, integer arm): render in the flag's base, then pad -/
def fmtNumWith (fl : Flags) (n : NInt) : Str :=
  let s := fmtNInt fl.base n
  let padAmt := if s.length < fl.padLength then fl.padLength - s.length else 0
  let (l, r) := match fl.align with
    | .left => (0, padAmt)
    | .right => (padAmt, 0)
    | .center => (padAmt / 2, padAmt - padAmt / 2)
  List.replicate l fl.pad ++ s ++ List.replicate r fl.pad

/-- `NNum::repr` of an integer (`n.to_string()`): what a list shows for its elements, whatever the
format flags say (core.rs `write_slice` switches `flags.repr` on) -/
def reprNInt (n : NInt) : Str := fmtNInt .decimal n

/-- core.rs `MyDisplay for Obj`, `Seq::List` arm on a list of integers: `[a, b, c]` with each
element in `repr` form (no budget: `str`, `$`, `print`, format strings pass `usize::MAX`) -/
def fmtIntList (xs : List NInt) : Str :=
  let rec go : List NInt → Str
    | [] => []
    | [x] => reprNInt x
    | x :: rest => reprNInt x ++ [44, 32] ++ go rest
  [91] ++ go xs ++ [93]

/-- core.rs `MyDisplay for Obj`, `Seq::Dict` arm on a one-entry dict with a (printable ASCII, no
quote / backslash) string key and an integer value: `{"k": v}`, key and value in `repr` form -/
def fmtDict1 (key : Str) (v : NInt) : Str :=
  [123, 34] ++ key ++ [34, 58, 32] ++ reprNInt v ++ [125]

/-- core.rs `parse_format_string` + the evaluation of `Expr::FormatString`: every `{expr #flags}`
gets its OWN fresh `MyFmtFlags::new()` (flags never carry over from one interpolation to the
next); the literal characters between interpolations are copied.  A slot here is (flags, value,
literal text that follows). -/
def fmtSlots : List (Flags × NInt × Str) → Str
  | [] => []
  | (fl, n, lit) :: rest => fmtNumWith fl n ++ lit ++ fmtSlots rest

/-- `str(n)`, `$n`, `print(n)`, `F"{n}"`: `format!("{}", n)` -/
def showNInt (n : NInt) : Str := fmtNInt .decimal n

/-! ## 3. integer parsers of the libraries -/

/-- positional value of big-endian decimal digits (`from_radix_digits_be`) -/
def ofDigitsBE (ds : List Nat) : Nat := ds.foldl (fun acc d => 10 * acc + d) 0

/-- the digit loop of `BigUint::from_str_radix` (radix 10): `_` is skipped, anything that is not a
decimal digit is an error -/
def bigDigits : Str → Option (List Nat)
  | [] => some []
  | c :: cs =>
    if c = 95 then bigDigits cs
    else if 48 ≤ c ∧ c ≤ 57 then (bigDigits cs).map ((c - 48) :: ·)
    else none

/-- `s.starts_with(c)` -/
def startsWith (c : Nat) (s : Str) : Bool := s.head? == some c

/-- `if let Some(tail) = s.strip_prefix('+') { if !tail.starts_with('+') { s = tail } }` -/
def stripPlus (s : Str) : Str :=
  match s with
  | [] => s
  | c :: tail => if c = 43 then (if startsWith 43 tail then s else tail) else s

/-- `BigUint::from_str_radix(s, 10)`: one optional `+` (not followed by another `+`), non-empty,
must not start with `_` -/
def parseBigUint (s : Str) : Option Nat :=
  let s := stripPlus s
  if s = [] then none
  else if startsWith 95 s then none
  else (bigDigits s).map ofDigitsBE

/-- `BigInt::from_str_radix(s, 10)` = `s.parse::<BigInt>()`: optional `-` (kept in place when a `+`
follows, which then fails in the unsigned parser) -/
def parseBigInt (s : Str) : Option Int :=
  match s with
  | [] => (parseBigUint s).map fun n => (n : Int)
  | c :: tail =>
    if c = 45 then
      let s' := if startsWith 43 tail then s else tail
      (parseBigUint s').map fun n => -(n : Int)
    else (parseBigUint s).map fun n => (n : Int)

def isAsciiDigit (c : Nat) : Bool := 48 ≤ c && c ≤ 57

/-- all characters are ASCII digits: their values -/
def asciiDigits : Str → Option (List Nat)
  | [] => some []
  | c :: cs => if isAsciiDigit c then (asciiDigits cs).map ((c - 48) :: ·) else none

/-- `str::parse::<i32>()`: optional sign, at least one digit, no underscores, range-checked -/
def parseI32 (s : Str) : Option Int :=
  match s with
  | [] => none
  | c :: rest =>
    if (c = 43 ∨ c = 45) ∧ rest = [] then none       -- "+" or "-" alone
    else
      let neg := c = 45
      let ds := if c = 43 ∨ c = 45 then rest else s
      match asciiDigits ds with
      | none => none
      | some d =>
        let v : Int := if neg then -(ofDigitsBE d : Int) else (ofDigitsBE d : Int)
        if inI32 v then some v else none

/-! ## 4. src/decimal.rs -/

/-- `apply_exp10`; `Ratio::new` reduces to lowest terms, as `Rat` does.  (`exponent.unsigned_abs()`
after the overflow fix: no negation overflow at `i32::MIN`.) -/
def applyExp10 (base : Int) (exponent : Int) : Rat :=
  if exponent ≥ 0 then ((base * 10 ^ exponent.toNat : Int) : Rat)
  else mkRat base (10 ^ (-exponent).toNat)

/-- `s.find(p)` followed by the two slices around the found character -/
def splitAtFirst (p : Nat → Bool) : Str → Option (Str × Str)
  | [] => none
  | c :: cs =>
    if p c then some ([], cs)
    else match splitAtFirst p cs with
      | some (a, b) => some (c :: a, b)
      | none => none

def isE (c : Nat) : Bool := c = 101 || c = 69

/-- first half of the body of `parse_decimal_exactly`: cut at the first `e` / `E`, the rest must
parse as an `i32` (`None` otherwise); no `e`: exponent 0 -/
def splitExponent (s : Str) : Option (Str × Int) :=
  match splitAtFirst isE s with
  | some (basePart, expPart) =>
    match parseI32 expPart with
    | some e => some (basePart, e)
    | none => none
  | none => some (s, 0)

/-- second half: the decimal point.  The integer part and the no-point case go through
`BigInt::parse` (so `_` separators are accepted there), the fractional part must be ASCII digits
only; `"."` alone is rejected. -/
def parseMantissa (baseStr : Str) (exponent : Int) : Option Rat :=
  match splitAtFirst (· = 46) baseStr with
  | some (ip, fp) =>
    if ip = [] ∧ fp = [] then none
    else if !fp.all isAsciiDigit then none
    else
      match (if ip = [] then some 0 else parseBigInt ip), (if fp = [] then some 0 else parseBigInt fp) with
      | some i, some f =>
        let dp := fp.length
        let baseValue := i * 10 ^ dp + f
        -- exponent.checked_sub(decimal_places as i32)?  (after the overflow fix)
        if inI32 (exponent - dp) then some (applyExp10 baseValue (exponent - dp)) else none
      | _, _ => none
  | none =>
    match parseBigInt baseStr with
    | some b => some (applyExp10 b exponent)
    | none => none

/-- the unsigned body of `parse_decimal_exactly` (scientific notation, then decimal point) -/
def parseUnsignedDecimal (s : Str) : Option Rat :=
  match splitExponent s with
  | none => none
  | some (baseStr, exponent) => parseMantissa baseStr exponent

/-- `parse_decimal_exactly` after the fix of finding F5: the sign is taken off first and applied to
the whole magnitude; a second sign is rejected. -/
def parseDecimalExactly (s : Str) : Option Rat :=
  let neg := startsWith 45 s
  let rest := if startsWith 45 s ∨ startsWith 43 s then s.tail else s
  if startsWith 43 rest ∨ startsWith 45 rest then none
  else (parseUnsignedDecimal rest).map fun m => if neg then -m else m

/-- `char::is_whitespace` (Unicode White_Space) -/
def isWhite (c : Nat) : Bool :=
  (9 ≤ c && c ≤ 13) || c = 32 || c = 133 || c = 160 || c = 5760 || (8192 ≤ c && c ≤ 8202)
    || c = 8232 || c = 8233 || c = 8239 || c = 8287 || c = 12288

def trimStart : Str → Str
  | [] => []
  | c :: cs => if isWhite c then trimStart cs else c :: cs
def trim (s : Str) : Str := (trimStart (trimStart s).reverse).reverse

/-- `parse_rational_exactly` -/
def parseRationalExactly (s : Str) : Option Rat :=
  let s := trim s
  match splitAtFirst (· = 47) s with
  | some (n, d) =>
    match parseDecimalExactly (trim n), parseDecimalExactly (trim d) with
    | some a, some b => if b = 0 then none else some (a / b)
    | _, _ => none
  | none => parseDecimalExactly s

/-! ## 5. core.rs `call_type1` string arms -/

/-- `int(s)`: `s.parse::<BigInt>()`, value error otherwise -/
def intOfStr (s : Str) : Out Int :=
  match parseBigInt s with
  | some v => .ok v
  | none => .throw

/-- `number(s)`: an integer if `parse::<BigInt>` succeeds, otherwise whatever `parse::<f64>` says
(external; `deferF64` = "the result of Rust's own `s.parse::<f64>()`") -/
inductive NumRes where
  | int (v : Int)
  | deferF64
  deriving Repr, DecidableEq
def numberOfStr (s : Str) : NumRes :=
  match parseBigInt s with
  | some v => .int v
  | none => .deferF64

/-- `rational(s)` -/
def rationalOfStr (s : Str) : Out Rat :=
  match parseRationalExactly s with
  | some r => .ok r
  | none => .throw

/-! ## 6. lib.rs `str_radix` / `int_radix` -/

/-- `str_radix(a, r)` on two integers.  `r.to_u32()` must succeed and be in 2..=36; the digit loop
produces the little-endian digits of `|a|`; (after the fix of finding F22) zero gives `"0"`. -/
def strRadix (a r : Int) : Out Str :=
  if inU32 r then
    if 2 ≤ r ∧ r ≤ 36 then
      let base := r.toNat
      let neg := a < 0
      let ret := (digitsLE base a.natAbs).map digitChar
      let ret := if ret.isEmpty then [48] else ret
      let ret := if neg then ret ++ [45] else ret
      .ok ret.reverse
    else .throw
  else .throw

/-- the accumulation loop of `int_radix` over the characters of a string (or the bytes of a byte
string, each read as a `char`) -/
def radixLoop (base : Nat) : Nat → Str → Option Nat
  | x, [] => some x
  | x, c :: cs =>
    match toDigit c base with
    | some d => radixLoop base (base * x + d) cs
    | none => none

def intRadix (s : Str) (r : Int) : Out Int :=
  if inU32 r then
    if 2 ≤ r ∧ r ≤ 36 then
      match radixLoop r.toNat 0 s with
      | some x => .ok x
      | none => .throw
    else .throw
  else .throw

/-! ## 7. hex -/

def hexNibble (n : Nat) : Nat := digitChar n      -- `{:02x}`

/-- `hex_encode` -/
def hexEncode : Bytes → Str
  | [] => []
  | b :: bs => hexNibble (b / 16) :: hexNibble (b % 16) :: hexEncode bs

/-- `val` inside `hex_decode` -/
def hexVal (c : Nat) : Option Nat :=
  if 65 ≤ c ∧ c ≤ 70 then some (c - 65 + 10)
  else if 97 ≤ c ∧ c ≤ 102 then some (c - 97 + 10)
  else if 48 ≤ c ∧ c ≤ 57 then some (c - 48)
  else none

def hexPairs : Bytes → Option Bytes
  | [] => some []
  | [_] => none       -- unreachable after the length check
  | a :: b :: rest =>
    match hexVal a, hexVal b with
    | some x, some y => (hexPairs rest).map ((x * 16 + y) :: ·)
    | _, _ => none

/-- `hex_decode` on the bytes of its argument (string: `as_bytes`; bytes: itself) -/
def hexDecode (s : Bytes) : Out Bytes :=
  if s.length % 2 = 0 then
    match hexPairs s with
    | some bs => .ok bs
    | none => .throw
  else .throw

/-! ## 8. base64 (crate base64 0.13.1, `STANDARD` config) -/

/-- STANDARD alphabet -/
def b64Char (n : Nat) : Nat :=
  if n < 26 then 65 + n else if n < 52 then 97 + (n - 26) else if n < 62 then 48 + (n - 52)
  else if n = 62 then 43 else 47

def b64Val (c : Nat) : Option Nat :=
  if 65 ≤ c ∧ c ≤ 90 then some (c - 65)
  else if 97 ≤ c ∧ c ≤ 122 then some (c - 97 + 26)
  else if 48 ≤ c ∧ c ≤ 57 then some (c - 48 + 52)
  else if c = 43 then some 62
  else if c = 47 then some 63
  else none

/-- `base64::encode` -/
def b64Encode : Bytes → Str
  | [] => []
  | [a] => [b64Char (a / 4), b64Char (a % 4 * 16), 61, 61]
  | [a, b] => [b64Char (a / 4), b64Char (a % 4 * 16 + b / 16), b64Char (b % 16 * 4), 61]
  | a :: b :: c :: rest =>
    b64Char (a / 4) :: b64Char (a % 4 * 16 + b / 16) :: b64Char (b % 16 * 4 + c / 64) :: b64Char (c % 64)
      :: b64Encode rest

/-- two symbols = one byte; the 4 unused bits must be zero (`decode_allow_trailing_bits = false`) -/
def b64Dec2 (a b : Nat) : Option Bytes :=
  match b64Val a, b64Val b with
  | some x, some y => if y % 16 = 0 then some [x * 4 + y / 16] else none
  | _, _ => none
/-- three symbols = two bytes; the 2 unused bits must be zero -/
def b64Dec3 (a b c : Nat) : Option Bytes :=
  match b64Val a, b64Val b, b64Val c with
  | some x, some y, some z => if z % 4 = 0 then some [x * 4 + y / 16, y % 16 * 16 + z / 4] else none
  | _, _, _ => none
/-- four symbols = three bytes -/
def b64Dec4 (a b c d : Nat) : Option Bytes :=
  match b64Val a, b64Val b, b64Val c, b64Val d with
  | some x, some y, some z, some w => some [x * 4 + y / 16, y % 16 * 16 + z / 4, z % 4 * 64 + w]
  | _, _, _, _ => none

/-- `base64::decode` as observed (0.13.1 is indifferent to missing padding), quad by quad: an input
length ≡ 1 (mod 4) is rejected; `=` may only close the last quad (after two symbols: one or two of
them, after three: one) and may be left out altogether; every other byte must be in the alphabet
(`=` is not); the last symbol must not carry non-zero trailing bits. -/
def b64Quads : Bytes → Option Bytes
  | [] => some []
  | [_] => none
  | [a, b] => b64Dec2 a b
  | [a, b, c] => if c = 61 then b64Dec2 a b else b64Dec3 a b c
  | a :: b :: c :: d :: rest =>
    if rest = [] then
      if d = 61 then (if c = 61 then b64Dec2 a b else b64Dec3 a b c) else b64Dec4 a b c d
    else
      match b64Dec4 a b c d, b64Quads rest with
      | some x, some r => some (x ++ r)
      | _, _ => none

/-- `base64_decode` on the bytes of its argument -/
def b64Decode (s : Bytes) : Out Bytes :=
  match b64Quads s with
  | some bs => .ok bs
  | none => .throw

/-! ## 9. UTF-8 (`String::as_bytes`, `String::from_utf8`), `chr`, `ord` -/

def isScalar (c : Nat) : Prop := c < 55296 ∨ (57344 ≤ c ∧ c ≤ 1114111)
instance (c : Nat) : Decidable (isScalar c) := by unfold isScalar; infer_instance

/-- UTF-8 encoding of one scalar value (`char::encode_utf8`) -/
def utf8EncodeChar (c : Nat) : Bytes :=
  if c < 128 then [c]
  else if c < 2048 then [192 + c / 64, 128 + c % 64]
  else if c < 65536 then [224 + c / 4096, 128 + c / 64 % 64, 128 + c % 64]
  else [240 + c / 262144, 128 + c / 4096 % 64, 128 + c / 64 % 64, 128 + c % 64]

/-- `String::as_bytes` / `utf8_encode` / `bytes(str)` -/
def utf8Encode : Str → Bytes
  | [] => []
  | c :: cs => utf8EncodeChar c ++ utf8Encode cs

def isCont (b : Nat) : Bool := 128 ≤ b && b ≤ 191

/-- allowed second byte of a three-byte sequence: E0 needs A0..BF (no overlong form), ED needs
80..9F (no surrogates), otherwise any continuation byte -/
def utf8Second3 (b0 b1 : Nat) : Bool :=
  if b0 = 224 then 160 ≤ b1 && b1 ≤ 191
  else if b0 = 237 then 128 ≤ b1 && b1 ≤ 159
  else isCont b1

/-- allowed second byte of a four-byte sequence: F0 needs 90..BF (no overlong form), F4 needs
80..8F (nothing above U+10FFFF), otherwise any continuation byte -/
def utf8Second4 (b0 b1 : Nat) : Bool :=
  if b0 = 240 then 144 ≤ b1 && b1 ≤ 191
  else if b0 = 244 then 128 ≤ b1 && b1 ≤ 143
  else isCont b1

/-- `core::str::from_utf8` validation (`run_utf8_validation`) with the decoded scalar values:
the second byte is range-restricted after E0 / ED / F0 / F4; C0, C1, F5..FF never start a sequence. -/
def utf8Decode : Bytes → Option Str
  | [] => some []
  | b0 :: rest =>
    if b0 < 128 then (utf8Decode rest).map (b0 :: ·)
    else if 194 ≤ b0 ∧ b0 ≤ 223 then
      match rest with
      | b1 :: rest' =>
        if isCont b1 then (utf8Decode rest').map (((b0 - 192) * 64 + (b1 - 128)) :: ·) else none
      | _ => none
    else if 224 ≤ b0 ∧ b0 ≤ 239 then
      match rest with
      | b1 :: b2 :: rest' =>
        if utf8Second3 b0 b1 && isCont b2 then
          (utf8Decode rest').map (((b0 - 224) * 4096 + (b1 - 128) * 64 + (b2 - 128)) :: ·)
        else none
      | _ => none
    else if 240 ≤ b0 ∧ b0 ≤ 244 then
      match rest with
      | b1 :: b2 :: b3 :: rest' =>
        if utf8Second4 b0 b1 && isCont b2 && isCont b3 then
          (utf8Decode rest').map
            (((b0 - 240) * 262144 + (b1 - 128) * 4096 + (b2 - 128) * 64 + (b3 - 128)) :: ·)
        else none
      | _ => none
    else none

/-- `utf8_decode(bytes)` -/
def utf8DecodeB (b : Bytes) : Out Str :=
  match utf8Decode b with
  | some s => .ok s
  | none => .throw

/-- `chr(n)` on an integer: `n.to_u32()` then `char::from_u32` -/
def chr (n : Int) : Out Str :=
  if inU32 n then
    if isScalar n.toNat then .ok [n.toNat] else .throw
  else .throw

/-- `ord(s)`: exactly one character -/
def ord (s : Str) : Out Int :=
  match s with
  | [c] => .ok c
  | _ => .throw

/-! ## 10. JSON value converters (lib.rs `json_encode` / `json_decode`) -/

/-- an f64: its bit pattern, or "the f64 nearest to this integer" (`BigInt::to_f64`, `u64 as f64`:
external conversions, never computed by the model) -/
inductive F64 where
  | bits (b : Nat)
  | ofInt (v : Int)
  deriving Repr, DecidableEq, Inhabited

/-- `f64::is_finite`; the conversion of an integer overflows to infinity from 2^1024 - 2^970 on -/
def F64.finite : F64 → Bool
  | .bits b => b / 4503599627370496 % 2048 != 2047
  | .ofInt v => v.natAbs < 2 ^ 1024 - 2 ^ 970

/-- the `Obj`s the converters are modelled on -/
inductive Val where
  | null
  | int (v : Int)
  | float (f : F64)
  | str (s : Str)
  | bytes (b : Bytes)
  | list (xs : List Val)
  | dict (kvs : List (Str × Val))      -- string keys; HashMap: order immaterial, keys distinct
  | func                               -- anything that is not data
  deriving Repr, Inhabited

/-- `serde_json::Number` (`N::PosInt(u64) | N::NegInt(i64) | N::Float(f64)`) -/
inductive JNum where
  | posInt (n : Nat)
  | negInt (v : Int)
  | float (f : F64)
  deriving Repr, DecidableEq, Inhabited

/-- `serde_json::Value` -/
inductive JV where
  | null
  | bool (b : Bool)
  | num (n : JNum)
  | str (s : Str)
  | arr (xs : List JV)
  | obj (kvs : List (Str × JV))
  deriving Repr, Inhabited

/-- `Value::from(f64)`: `Number::from_f64` is `None` for NaN / ±inf, which becomes `Null` -/
def jvOfF64 (f : F64) : JV := if f.finite then .num (.float f) else .null

mutual
/-- `json_encode` -/
def encodeV : Val → Out JV
  | .null => .ok .null
  | .int v =>
    if inI64 v then .ok (.num (if 0 ≤ v then .posInt v.toNat else .negInt v))   -- Value::from(i64)
    else .ok (jvOfF64 (.ofInt v))                                               -- Value::from(x.to_f64())
  | .float f => .ok (jvOfF64 f)
  | .str s => .ok (.str s)
  | .bytes b => .ok (.arr (b.map fun x => .num (.posInt x)))
  | .list xs => (encodeVs xs).map .arr
  | .dict kvs => (encodeKVs kvs).map .obj
  | .func => .throw
def encodeVs : List Val → Out (List JV)
  | [] => .ok []
  | x :: xs =>
    match encodeV x with
    | .ok j => (encodeVs xs).map (j :: ·)
    | .throw => .throw
    | .panic => .panic
def encodeKVs : List (Str × Val) → Out (List (Str × JV))
  | [] => .ok []
  | (k, x) :: xs =>
    match encodeV x with
    | .ok j => (encodeKVs xs).map ((k, j) :: ·)
    | .throw => .throw
    | .panic => .panic
end

mutual
/-- `json_decode`: `Number::as_i64` succeeds for `NegInt` and for `PosInt ≤ i64::MAX`; otherwise
`as_f64` (`n as f64` for a large `PosInt`) -/
def decodeV : JV → Val
  | .null => .null
  | .bool b => .int (if b then 1 else 0)
  | .num (.posInt n) => if (n : Int) ≤ I64_MAX then .int n else .float (.ofInt n)
  | .num (.negInt v) => .int v
  | .num (.float f) => .float f
  | .str s => .str s
  | .arr xs => .list (decodeVs xs)
  | .obj kvs => .dict (decodeKVs kvs)
def decodeVs : List JV → List Val
  | [] => []
  | x :: xs => decodeV x :: decodeVs xs
def decodeKVs : List (Str × JV) → List (Str × Val)
  | [] => []
  | (k, x) :: xs => (k, decodeV x) :: decodeKVs xs
end

/-! ## 11. gzip (`compress` / `decompress`, crate flate2): not modelled.  The only fact used is the
named hypothesis `Gzip.inverse` of Theorems/C16.lean. -/
structure Gzip where
  compress : Bytes → Bytes
  decompress : Bytes → Option Bytes     -- `None`: the reader returns an io error

/-- `decompress(b)` (after the fix of finding F16: an io error is a Noulith error, not a panic) -/
def decompressB (g : Gzip) (b : Bytes) : Out Bytes :=
  match g.decompress b with
  | some r => .ok r
  | none => .throw

end Noulith.Codec
