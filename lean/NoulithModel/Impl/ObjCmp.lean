/-
Impl model of object-level equality, ordering and key hashing (C08, used again by C09):

* src/core.rs: `PartialEq`/`PartialOrd for Obj` and `for Seq` (lexicographic `Vec` comparison,
  kinds that never compare), `total_eq_of_keys`, `total_eq_of_key_seqs`, `total_hash_of_key`,
  `check_if_valid_key`, `HashMap<ObjKey, Obj>` lookup / `==`.
* src/lib.rs: `ncmp`, the six `ComparisonOperator`s, `<=>`, `>=<`, `Extremum` (`min`/`max`),
  `sorted` (`sort`).

`Val` is the data model of `Obj` (functions / instances / streams are the opaque `func`).  Strings
are code-point lists; Rust compares their UTF-8 bytes, so does the model (`utf8`).
External code modelled, not verified: `Vec<T>`/slice `PartialEq`/`PartialOrd` (lexicographic, first
non-`Some(Equal)` element decides, then the lengths), `HashMap` (an entry is found iff the hasher
write sequences are equal and `Eq` holds — unequal write sequences land in different buckets),
SipHash (`sipFinish`: an unspecified function of the write sequence), `slice::sort_by` (the stable
sorted permutation, modelled by stable insertion sort).
Core Lean only.
-/
import NoulithModel.Impl.NNumCmp

namespace Noulith

inductive Val where
  | null
  | num (n : NNum)
  | str (cs : List Nat)                       -- Seq::String, as code points
  | bytes (bs : List Nat)                     -- Seq::Bytes
  | list (xs : List Val)                      -- Seq::List
  | vec (xs : List NNum)                      -- Seq::Vector
  | dict (kvs : List (Val × Val)) (dflt : Option Val)   -- Seq::Dict (entries in arbitrary order)
  | func (id : Nat)                           -- Obj::Func / Instance / Stream: opaque
  deriving Inhabited

/-! ### UTF-8 (Rust compares `String`s by their bytes) -/
def utf8Char (c : Nat) : List Nat :=
  if c < 0x80 then [c]
  else if c < 0x800 then [0xC0 + c / 64, 0x80 + c % 64]
  else if c < 0x10000 then [0xE0 + c / 4096, 0x80 + c / 64 % 64, 0x80 + c % 64]
  else [0xF0 + c / 262144, 0x80 + c / 4096 % 64, 0x80 + c / 64 % 64, 0x80 + c % 64]

def utf8 (cs : List Nat) : List Nat := cs.flatMap utf8Char

/-! ### lexicographic comparison of slices (`PartialOrd for [T]`) -/
def lexCmp {α : Type} (cmp : α → α → Option Ordering) : List α → List α → Option Ordering
  | [], [] => some .eq
  | [], _ :: _ => some .lt
  | _ :: _, [] => some .gt
  | x :: xs, y :: ys =>
    match cmp x y with
    | some .eq => lexCmp cmp xs ys
    | o => o

/-- `PartialEq for [T]`: equal lengths and element-wise `==` -/
def listEq {α : Type} (eq : α → α → Bool) : List α → List α → Bool
  | [], [] => true
  | x :: xs, y :: ys => eq x y && listEq eq xs ys
  | _, _ => false

def natCmp (a b : Nat) : Option Ordering := some (compare a b)

/-! ### hashing of keys: `total_hash_of_key` as the sequence of hasher writes -/

/-- `DefaultHasher::finish` of a write sequence (SipHash-1-3): an unspecified function.  The
theorems never unfold it (it is `opaque`), so they hold for every function; the executable driver
uses the polynomial below. -/
opaque sipFinish (ws : List HWrite) : Nat :=
  let enc : HWrite → List Nat := fun w => match w with
    | .u8 v => [1, v]
    | .usize v => [2, v]
    | .u64 v => [3, v]
    | .nint (.i64 v) => [4, v.toNat, (-v).toNat]
    | .nint (.bigint v) => [5, v.toNat, (-v).toNat]
    | .str cs => 6 :: cs.length :: cs
    | .bytes bs => 7 :: bs.length :: bs
  (ws.flatMap enc).foldl (fun h x => (h * 1000003 + x + 0x9E3779B97F4A7C15) % 18446744073709551616) 14695981039346656037

def U64 : Nat := 18446744073709551616

mutual
def writes : Val → List HWrite
  | .null => [.u8 0]
  | .num n => .u8 1 :: n.totalHash
  | .str cs => [.u8 2, .str cs]
  | .list xs => .u8 3 :: .usize xs.length :: writesList xs
  | .dict kvs _ =>
    let fs := entryHashes kvs
    [.u8 4, .u64 (fs.foldl (fun acc f => (acc + f) % U64) 0),
            .u64 (fs.foldl (fun acc f => (acc + (f * f) % U64) % U64) 0)]
  | .vec xs => .u8 5 :: .usize xs.length :: xs.flatMap NNum.totalHash
  | .bytes bs => [.u8 6, .bytes bs]
  | .func _ => []       -- the Rust panics; never reached for valid keys
def writesList : List Val → List HWrite
  | [] => []
  | x :: xs => writes x ++ writesList xs
/-- per-entry `DefaultHasher` results of the dict arm -/
def entryHashes : List (Val × Val) → List Nat
  | [] => []
  | (k, v) :: rest => sipFinish (writes k ++ writes v) :: entryHashes rest
end

/- `check_if_valid_key` (dict keys are keys already; only the values are checked) -/
mutual
def validKey : Val → Bool
  | .null => true
  | .num _ => true
  | .str _ => true
  | .bytes _ => true
  | .vec _ => true
  | .list xs => validKeys xs
  | .dict kvs _ => validEntries kvs
  | .func _ => false
def validKeys : List Val → Bool
  | [] => true
  | x :: xs => validKey x && validKeys xs
def validEntries : List (Val × Val) → Bool
  | [] => true
  | (k, v) :: rest => validKey k && validKey v && validEntries rest
end

def vecTotalEq : List NNum → List NNum → Bool := listEq NNum.totalEq

/- `total_eq_of_keys` / `total_eq_of_key_seqs`; the `Dict` arm looks every entry of `a` up in `b`
through the hash map (`HashMap::get`: same hasher writes and `Eq`) -/
mutual
def totalEq : Val → Val → Bool
  | .null, .null => true
  | .num a, .num b => a.totalEq b
  | .str a, .str b => a == b
  | .bytes a, .bytes b => a == b
  | .vec a, .vec b => vecTotalEq a b
  | .list a, .list b => totalEqList a b
  | .dict a _, .dict b _ => a.length == b.length && totalEqEntries a b
  | _, _ => false
def totalEqList : List Val → List Val → Bool
  | [], [] => true
  | x :: xs, y :: ys => totalEq x y && totalEqList xs ys
  | _, _ => false
def totalEqEntries : List (Val × Val) → List (Val × Val) → Bool
  | [], _ => true
  | (k, v) :: rest, b =>
    (match b.find? (fun e => decide (writes e.1 = writes k) && totalEq k e.1) with
     | some e => totalEq v e.2
     | none => false) && totalEqEntries rest b
end

/-- `impl Eq for ObjKey` + `impl Hash for ObjKey` as seen by `HashMap`: the stored key `k'` is hit
by the query `k` iff both hash to the same write sequence and are `total_eq` -/
def keyHit (k k' : Val) : Bool := decide (writes k' = writes k) && totalEq k k'

/-- `HashMap::get` -/
def hashLookup (kvs : List (Val × Val)) (k : Val) : Option Val :=
  (kvs.find? fun e => keyHit k e.1).map (·.2)

/-! ### `PartialEq for Obj` / `for Seq` (`==`) -/
mutual
def valEq : Val → Val → Bool
  | .null, .null => true
  | .num a, .num b => a.eq b
  | .str a, .str b => a == b
  | .bytes a, .bytes b => a == b
  | .vec a, .vec b => listEq NNum.eq a b
  | .list a, .list b => valEqList a b
  -- `HashMap == HashMap`: same length and every entry of `a` found in `b` with an `==` value
  | .dict a _, .dict b _ => a.length == b.length && valEqEntries a b
  | _, _ => false
def valEqList : List Val → List Val → Bool
  | [], [] => true
  | x :: xs, y :: ys => valEq x y && valEqList xs ys
  | _, _ => false
def valEqEntries : List (Val × Val) → List (Val × Val) → Bool
  | [], _ => true
  | (k, v) :: rest, b =>
    (match b.find? (fun e => keyHit k e.1) with
     | some e => valEq v e.2
     | none => false) && valEqEntries rest b
end

/-! ### `PartialOrd for Obj` / `for Seq` -/
mutual
def valCmp : Val → Val → Option Ordering
  | .null, .null => some .eq
  | .num a, .num b => a.partialCmp b
  | .str a, .str b => lexCmp natCmp (utf8 a) (utf8 b)
  | .bytes a, .bytes b => lexCmp natCmp a b
  | .vec a, .vec b => lexCmp NNum.partialCmp a b
  | .list a, .list b => valCmpList a b
  | _, _ => none
def valCmpList : List Val → List Val → Option Ordering
  | [], [] => some .eq
  | [], _ :: _ => some .lt
  | _ :: _, [] => some .gt
  | x :: xs, y :: ys =>
    match valCmp x y with
    | some .eq => valCmpList xs ys
    | o => o
end

def Val.isSeq : Val → Bool
  | .str _ => true
  | .bytes _ => true
  | .list _ => true
  | .vec _ => true
  | .dict _ _ => true
  | _ => false

/-- `ncmp`: numbers with numbers, sequences with sequences, everything else (also `null` with
`null`) is a type error -/
def ncmp (a b : Val) : Out Ordering :=
  match a, b with
  | .num x, .num y => match x.partialCmp y with
    | some o => .ok o
    | none => .throw
  | x, y =>
    if x.isSeq && y.isSeq then
      match valCmp x y with
      | some o => .ok o
      | none => .throw
    else .throw

def ofBool (b : Bool) : Val := .num (.int (.small (if b then 1 else 0)))

/-- the registrations of `== != < > <= >=`, `<=>`, `>=<` (two operands) -/
def cmpOp (op : String) (a b : Val) : Out Val :=
  match op with
  | "==" => .ok (ofBool (valEq a b))
  | "!=" => .ok (ofBool (!valEq a b))
  | "<" => (ncmp a b).map fun o => ofBool (o == .lt)
  | ">" => (ncmp a b).map fun o => ofBool (o == .gt)
  | "<=" => (ncmp a b).map fun o => ofBool (o != .gt)
  | ">=" => (ncmp a b).map fun o => ofBool (o != .lt)
  | "<=>" => (ncmp a b).map fun o => .num (.int (.small (match o with | .lt => -1 | .eq => 0 | .gt => 1)))
  | ">=<" => (ncmp a b).map fun o => .num (.int (.small (match o with | .lt => 1 | .eq => 0 | .gt => -1)))
  | _ => .throw

/-- the loop of `Extremum::run` (`bias` = `Less` for `min`, `Greater` for `max`): the running
result is replaced only by a strictly better element -/
def extremumLoop (bias : Ordering) : Option Val → List Val → Out (Option Val)
  | ret, [] => .ok ret
  | none, b :: rest => extremumLoop bias (some b) rest
  | some r, b :: rest =>
    match ncmp b r with
    | .ok o => extremumLoop bias (some (if o == bias then b else r)) rest
    | .throw => .throw
    | .panic => .panic

def extremum (bias : Ordering) (xs : List Val) : Out Val :=
  match extremumLoop bias none xs with
  | .ok (some r) => .ok r
  | .ok none => .throw          -- empty_error
  | .throw => .throw
  | .panic => .panic

/-! ### `sorted`: `sort_by` with the `partial_cmp` comparator, error if any comparison failed -/

def leOf (cmp : α → α → Option Ordering) (a b : α) : Bool :=
  match cmp a b with
  | some .gt => false
  | _ => true

/-- stable insertion sort (processing the input right to left keeps equal elements in order) -/
def sortWith {α : Type} (cmp : α → α → Option Ordering) : List α → List α
  | [] => []
  | x :: xs => insertFront cmp x (sortWith cmp xs)
where
  /-- insert `x`, which preceded everything in `l`, before the first element that is `≥ x` -/
  insertFront {α : Type} (cmp : α → α → Option Ordering) (x : α) : List α → List α
    | [] => [x]
    | y :: ys => if leOf cmp x y then x :: y :: ys else y :: insertFront cmp x ys

/-- all pairs of the list are comparable (then `sort_by` sees a total preorder) -/
def allComparable {α : Type} (cmp : α → α → Option Ordering) : List α → Bool
  | [] => true
  | x :: xs => xs.all (fun y => (cmp x y).isSome && (cmp y x).isSome) && allComparable cmp xs

/-- `sorted`: the stable sorted permutation; a failed comparison is a value error.  The real
`sort_by` raises when it COMPARES an incomparable pair; a comparison sort cannot certify its output
without comparing such a pair (two incomparable elements of a lexicographic order share an equal
prefix, nothing lies strictly between them), so the model raises whenever one exists — the
differential run checks exactly that, also with the pair hidden at non-adjacent positions. -/
def sorted {α : Type} (cmp : α → α → Option Ordering) (xs : List α) : Out (List α) :=
  if xs.length ≤ 1 then .ok xs
  else if allComparable cmp xs then .ok (sortWith cmp xs) else .throw

/-- `multi_sort` -/
def sortVal : Val → Out Val
  | .list xs => (sorted valCmp xs).map .list
  | .vec xs => (sorted NNum.partialCmp xs).map .vec
  | .bytes bs => (sorted natCmp bs).map .bytes
  | .str cs => (sorted natCmp cs).map .str          -- chars sorted by code point
  | .dict kvs _ => (sorted valCmp (kvs.map (·.1))).map .list
  | _ => .throw

/-! ### `sorted_by` / `sorted_on` (`sort(xs, f)`, `sort_on(xs, f)`): the function value is a parameter -/

/-- a comparison that may raise, as a partial comparison (`none` = raises) -/
def optOfOut (r : Out Ordering) : Option Ordering :=
  match r with
  | .ok o => some o
  | _ => none

/-- `sorted_on`, first pass: `(f(x), x)` for every element; the first error of `f` is raised -/
def mapKeys (f : Val → Out Val) : List Val → Out (List (Val × Val))
  | [] => .ok []
  | x :: xs =>
    match f x with
    | .ok k => (mapKeys f xs).map fun r => (k, x) :: r
    | .throw => .throw
    | .panic => .panic

/-- `sorted_on`: stable sort of the `(key, element)` pairs by `ncmp` of the keys (`nc`), then the
elements; an incomparable pair of keys is an error -/
def sortedOn (nc : Val → Val → Out Ordering) (f : Val → Out Val) (xs : List Val) : Out (List Val) :=
  (mapKeys f xs).bind fun w =>
    (sorted (fun p q : Val × Val => optOfOut (nc p.1 q.1)) w).map fun r => r.map (·.2)

def zeroVal : Val := .num (.int (.small 0))

/-- the comparator of `sorted_by`: `ncmp(f(a, b), 0)`; an error of `f` or a result that does not
compare with 0 is an error -/
def byCmp (nc : Val → Val → Out Ordering) (f : Val → Val → Out Val) (a b : Val) : Option Ordering :=
  match f a b with
  | .ok k => optOfOut (nc k zeroVal)
  | _ => none

/-- `sorted_by` -/
def sortedBy (nc : Val → Val → Out Ordering) (f : Val → Val → Out Val) (xs : List Val) : Out (List Val) :=
  sorted (byCmp nc f) xs

/-- what `multi!` iterates over and how it rebuilds the result: list → list, vector → vector (of
the same numbers), bytes → bytes, string → string (its characters as one-character strings), dict
→ list of its keys -/
def seqElems : Val → Option (List Val)
  | .list xs => some xs
  | .vec xs => some (xs.map .num)
  | .bytes bs => some (bs.map fun b => .num (.int (.small (Int.ofNat b))))
  | .str cs => some (cs.map fun c => .str [c])
  | .dict kvs _ => some (kvs.map (·.1))
  | _ => none

def rebuildLike (orig : Val) (r : List Val) : Val :=
  match orig with
  | .vec _ => .vec (r.filterMap fun v => match v with
      | .num n => some n
      | _ => none)
  | .bytes _ => .bytes (r.filterMap fun v => match v with
      | .num (.int n) => some n.val.toNat
      | _ => none)
  | .str _ => .str (r.flatMap fun v => match v with
      | .str cs => cs
      | _ => [])
  | _ => .list r

/-- `multi_sort_on` -/
def sortOnVal (nc : Val → Val → Out Ordering) (f : Val → Out Val) (v : Val) : Out Val :=
  match seqElems v with
  | some xs => (sortedOn nc f xs).map (rebuildLike v)
  | none => .throw
/-- `multi_sort_by` -/
def sortByVal (nc : Val → Val → Out Ordering) (f : Val → Val → Out Val) (v : Val) : Out Val :=
  match seqElems v with
  | some xs => (sortedBy nc f xs).map (rebuildLike v)
  | none => .throw

/-! #### the finite table of function values the differential run uses -/

def F64.neg : F64 → F64
  | .nan => .nan
  | .inf n => .inf (!n)
  | .fin m e => if m = 0 then .nzero else .fin (-m) e
  | .nzero => .fin 0 0
def F64.abs : F64 → F64
  | .nan => .nan
  | .inf _ => .inf false
  | .fin m e => .fin (if m < 0 then -m else m) e
  | .nzero => .fin 0 0

/-- unary minus on a number -/
def NNum.neg : NNum → NNum
  | .int a => .int (NInt.neg a)
  | .rat q => .rat (-q)
  | .float f => .float f.neg
  | .complex re im => .complex re.neg im.neg
/-- `abs` on a real number (complex magnitudes are float arithmetic: not modelled) -/
def NNum.abs? : NNum → Option NNum
  | .int a => some (.int (NInt.abs a))
  | .rat q => some (.rat (if q < 0 then -q else q))
  | .float f => some (.float f.abs)
  | .complex _ _ => none

def allSome {α : Type} : List (Option α) → Option (List α)
  | [] => some []
  | none :: _ => none
  | some x :: xs => (allSome xs).map (x :: ·)

/-- key functions: `id` = `\\x -> x`, `neg` = `\\x -> -x`, `abs`, `len`, `first`, `const0` = `\\x -> 0`,
`pair0` = `\\x -> [x, 0]`, anything else raises -/
def keyFn (name : String) (x : Val) : Out Val :=
  match name with
  | "id" => .ok x
  | "neg" => match x with
    | .num n => .ok (.num n.neg)
    | .vec ns => .ok (.vec (ns.map NNum.neg))
    | _ => .throw
  | "abs" => match x with
    | .num n => match n.abs? with
      | some r => .ok (.num r)
      | none => .panic       -- outside the modelled fragment (never generated)
    | .vec ns => match allSome (ns.map NNum.abs?) with
      | some rs => .ok (.vec rs)
      | none => .panic
    | _ => .throw
  | "len" => match x with
    | .list xs => .ok (.num (.int (.small xs.length)))
    | .vec xs => .ok (.num (.int (.small xs.length)))
    | .bytes bs => .ok (.num (.int (.small bs.length)))
    | .str cs => .ok (.num (.int (.small (utf8 cs).length)))
    | .dict kvs _ => .ok (.num (.int (.small kvs.length)))
    | _ => .throw
  | "first" => match x with
    | .list (y :: _) => .ok y
    | .vec (n :: _) => .ok (.num n)
    | .bytes (b :: _) => .ok (.num (.int (.small (Int.ofNat b))))
    | _ => .throw
  | "const0" => .ok zeroVal
  | "pair0" => .ok (.list [x, zeroVal])
  | _ => .throw

def ordVal (o : Ordering) : Val :=
  .num (.int (.small (match o with | .lt => -1 | .eq => 0 | .gt => 1)))

/-- comparators: `cmp` = `<=>`, `rcmp` = `\\a, b -> b <=> a`, `revop` = `>=<`, `half` =
`\\a, b -> (a <=> b) / 2` (a rational), `bylen` = `\\a, b -> len(a) <=> len(b)`, `const0`, `str` =
`\\a, b -> "x"` (does not compare with 0), anything else raises -/
def cmpFn (nc : Val → Val → Out Ordering) (name : String) (a b : Val) : Out Val :=
  match name with
  | "cmp" => (nc a b).map ordVal
  | "rcmp" => (nc b a).map ordVal
  | "revop" => (nc a b).map fun o => ordVal o.swap
  | "half" => (nc a b).map fun o => .num (.rat (match o with | .lt => -1/2 | .eq => 0 | .gt => 1/2))
  | "bylen" => (keyFn "len" a).bind fun la => (keyFn "len" b).bind fun lb => (nc la lb).map ordVal
  | "const0" => .ok zeroVal
  | "str" => .ok (.str [120])
  | _ => .throw

/-! ### call forms of the comparison operators, and every form that reaches an extremum -/

/-- `accept` of one `ComparisonOperator` on a neighbouring pair -/
def cmpAccept (op : String) (a b : Val) : Out Bool :=
  match op with
  | "==" => .ok (valEq a b)
  | "!=" => .ok (!valEq a b)
  | "<" => (ncmp a b).map fun o => o == .lt
  | ">" => (ncmp a b).map fun o => o == .gt
  | "<=" => (ncmp a b).map fun o => o != .gt
  | ">=" => (ncmp a b).map fun o => o != .lt
  | _ => .throw

/-- the neighbour loop of `ComparisonOperator::run` (`Few::Many`): left to right, the first false
pair answers false, the first raising pair raises -/
def cmpLoop (op : String) : List Val → Out Bool
  | a :: b :: rest =>
    match cmpAccept op a b with
    | .ok true => cmpLoop op (b :: rest)
    | .ok false => .ok false
    | .throw => .throw
    | .panic => .panic
  | _ => .ok true

/-- `op(args…)` (also `op(...xs)`): no operand is an argument error, one operand a partial
application (a function), two or more the neighbour loop -/
def cmpCall (op : String) (args : List Val) : Out Val :=
  match args with
  | [] => .throw
  | [_] => .ok (.func 0)
  | _ => (cmpLoop op args).map ofBool

/-- an infix chain `a op₁ b op₂ c …` (`try_chain`): `ops` has one operator per neighbouring pair -/
def cmpChain : List String → List Val → Out Bool
  | op :: ops, a :: b :: rest =>
    match cmpAccept op a b with
    | .ok true => cmpChain ops (b :: rest)
    | .ok false => .ok false
    | .throw => .throw
    | .panic => .panic
  | _, _ => .ok true

/-- `xs fold max` / `a max b` / `x max= y`: repeated two-operand `max(acc, y)` -/
def foldExtremum (bias : Ordering) : List Val → Out Val
  | [] => .throw
  | x :: rest => rest.foldl (fun acc y => acc.bind fun a => extremum bias [a, y]) (.ok x)

/-- `max(xs, f)` / `max(a, b, c, f)` with a comparator function: the running result is replaced
when `ncmp(f(b, r), 0)` is the bias; an error of `f` or a non-comparable result raises -/
def extremumByLoop (nc : Val → Val → Out Ordering) (f : Val → Val → Out Val) (bias : Ordering) :
    Option Val → List Val → Out (Option Val)
  | ret, [] => .ok ret
  | none, b :: rest => extremumByLoop nc f bias (some b) rest
  | some r, b :: rest =>
    match byCmp nc f b r with
    | some o => extremumByLoop nc f bias (some (if o == bias then b else r)) rest
    | none => .throw

def extremumBy (nc : Val → Val → Out Ordering) (f : Val → Val → Out Val) (bias : Ordering) (xs : List Val) : Out Val :=
  match extremumByLoop nc f bias none xs with
  | .ok (some r) => .ok r
  | _ => .throw

/-- `for (…) yield k: v into max`: one `CataExtremum` per key (keys through the hash map: the first
spelling of a key is kept), each fed the values in order -/
def cataExtremumDict (nc : Val → Val → Out Ordering) (hit : Val → Val → Bool) (bias : Ordering) :
    List (Val × Val) → List (Val × Val) → Out (List (Val × Val))
  | acc, [] => .ok acc
  | acc, (k, v) :: rest =>
    if !validKey k then .throw
    else
      match acc.find? (fun e => hit k e.1) with
      | none => cataExtremumDict nc hit bias (acc ++ [(k, v)]) rest
      | some e =>
        match nc v e.2 with
        | .ok o =>
          let acc' := acc.map fun e' => if hit k e'.1 then (e'.1, if o == bias then v else e'.2) else e'
          cataExtremumDict nc hit bias acc' rest
        | .throw => .throw
        | .panic => .panic

end Noulith
