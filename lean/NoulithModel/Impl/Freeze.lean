/-
Impl model of `freeze` / `freeze_lvalue` / `FreezeEnv` (src/core.rs ~2388-2942) for the core
vocabulary of `CoreAst`.  `bound` is the set of names bound so far (`FreezeEnv.bound`); `look` resolves
a free identifier in the environment the freeze happens in (`Env::try_borrow_get_var(&env.env, s)`);
resolved values are stored in a table and referenced by `Expr.frozen i` (`Expr::Frozen(v)`).

Scope discipline transcribed from the code (NOT from the evaluator — that the two agree is the
property): `For`, `While`, the `catch` clause and `Lambda` clone the environment (inner bindings do not
leak); `If`, `Sequence`, the `try` body and the operands of every other form share it; a declaration
binds its names BEFORE its right-hand side is frozen (known finding F20/F27); a `for` clause freezes its
iteratee before binding its names; an assignment / op-assignment to a name that is not bound is an
error; lambda parameter type annotations and defaults are frozen with the parameters bound (per
parameter: annotation, then default); the text inside `eval "…"` is not frozen.
-/
import NoulithModel.Impl.CoreAst

namespace Noulith.Core

/-- why a freeze fails -/
inductive FreezeErr where
  | unboundFree (x : String)     -- name error: free variable not found outside
  | assignOuter (x : String)     -- name error: "ident in lvalue not bound"
  deriving Repr, DecidableEq

def Pat.idents : Pat → List String
  | .ident x => [x]
  | .underscore => []
  | .lit _ => []
  | .seq ps => Pat.identsList ps
where
  Pat.identsList : List Pat → List String
    | [] => []
    | p :: ps => Pat.idents p ++ Pat.identsList ps

/-- the threaded state of a freeze: bound names and the table of resolved values -/
structure FState (V : Type) where
  bound : List String
  tab : List V

variable {V : Type}

mutual
  /-- `freeze`; returns the rewritten expression and the updated state (bindings made by
  declarations persist for what follows in the same scope) -/
  def freezeExpr (look : String → Option V) : FState V → Expr → Except FreezeErr (Expr × FState V)
    | s, .null => .ok (.null, s)
    | s, .int n => .ok (.int n, s)
    | s, .str t => .ok (.str t, s)
    | s, .frozen i => .ok (.frozen i, s)
    | s, .ident x =>
      if s.bound.contains x then .ok (.ident x, s)
      else match look x with
        | some v => .ok (.frozen s.tab.length, { s with tab := s.tab ++ [v] })
        | none => .error (.unboundFree x)
    | s, .list xs =>
      match freezeList look s xs with
      | .ok (xs', s) => .ok (.list xs', s)
      | .error e => .error e
    | s, .op name a b =>
      match freezeExpr look s a with
      | .error e => .error e
      | .ok (a', s) =>
        match freezeExpr look s b with
        | .error e => .error e
        | .ok (b', s) => .ok (.op name a' b', s)
    | s, .index a i =>
      match freezeExpr look s a with
      | .error e => .error e
      | .ok (a', s) =>
        match freezeExpr look s i with
        | .error e => .error e
        | .ok (i', s) => .ok (.index a' i', s)
    | s, .call f args =>
      match freezeExpr look s f with
      | .error e => .error e
      | .ok (f', s) =>
        match freezeList look s args with
        | .error e => .error e
        | .ok (args', s) => .ok (.call f' args', s)
    | s, .and_ a b =>
      match freezeExpr look s a with
      | .error e => .error e
      | .ok (a', s) =>
        match freezeExpr look s b with
        | .error e => .error e
        | .ok (b', s) => .ok (.and_ a' b', s)
    | s, .or_ a b =>
      match freezeExpr look s a with
      | .error e => .error e
      | .ok (a', s) =>
        match freezeExpr look s b with
        | .error e => .error e
        | .ok (b', s) => .ok (.or_ a' b', s)
    | s, .coalesce a b =>
      match freezeExpr look s a with
      | .error e => .error e
      | .ok (a', s) =>
        match freezeExpr look s b with
        | .error e => .error e
        | .ok (b', s) => .ok (.coalesce a' b', s)
    | s, .seq xs semi =>
      match freezeList look s xs with
      | .ok (xs', s) => .ok (.seq xs' semi, s)
      | .error e => .error e
    | s, .ite c t e =>
      match freezeExpr look s c with
      | .error e => .error e
      | .ok (c', s) =>
        match freezeExpr look s t with
        | .error e => .error e
        | .ok (t', s) =>
          match freezeOpt look s e with
          | .error e => .error e
          | .ok (e', s) => .ok (.ite c' t' e', s)
    | s, .while_ c b =>
      -- `let mut env2 = env.clone()`: bindings inside do not leak; the table does grow
      match freezeExpr look s c with
      | .error e => .error e
      | .ok (c', s2) =>
        match freezeExpr look s2 b with
        | .error e => .error e
        | .ok (b', s3) => .ok (.while_ c' b', { s with tab := s3.tab })
    | s, .for_ its body =>
      match freezeIts look s its with
      | .error e => .error e
      | .ok (its', s2) =>
        match freezeBody look s2 body with
        | .error e => .error e
        | .ok (body', s3) => .ok (.for_ its' body', { s with tab := s3.tab })
    | s, .declare p rhs =>
      -- bind first ("have to bind first so box_freeze_lvalue works; also recursive functions work")
      let s := { s with bound := s.bound ++ Pat.idents p }
      match freezeExpr look s rhs with
      | .error e => .error e
      | .ok (rhs', s) => .ok (.declare p rhs', s)
    | s, .assign x rhs =>
      if !s.bound.contains x then .error (.assignOuter x)
      else
        match freezeExpr look s rhs with
        | .error e => .error e
        | .ok (rhs', s) => .ok (.assign x rhs', s)
    | s, .opassign x opn rhs =>
      if !s.bound.contains x then .error (.assignOuter x)
      else
        match freezeExpr look s rhs with
        | .error e => .error e
        | .ok (rhs', s) => .ok (.opassign x opn rhs', s)
    | s, .lambda params body =>
      -- parameters are bound in a cloned env; since the `fix:` commit for F28 every parameter lvalue is
      -- re-frozen (in that env): its type annotation and its default; then the body
      let s2 := { s with bound := s.bound ++ params.map Param.name }
      match freezeParams look s2 params with
      | .error e => .error e
      | .ok (params', s2) =>
        match freezeExpr look s2 body with
        | .error e => .error e
        | .ok (body', s3) => .ok (.lambda params' body', { s with tab := s3.tab })
    | s, .brk n e =>
      match freezeOpt look s e with
      | .error e => .error e
      | .ok (e', s) => .ok (.brk n e', s)
    | s, .cont n => .ok (.cont n, s)
    | s, .ret e =>
      match freezeOpt look s e with
      | .error e => .error e
      | .ok (e', s) => .ok (.ret e', s)
    | s, .throw_ e =>
      match freezeExpr look s e with
      | .error e => .error e
      | .ok (e', s) => .ok (.throw_ e', s)
    | s, .try_ b p c =>
      match freezeExpr look s b with
      | .error e => .error e
      | .ok (b', s1) =>
        let s2 := { s1 with bound := s1.bound ++ Pat.idents p }
        match freezeExpr look s2 c with
        | .error e => .error e
        | .ok (c', s3) => .ok (.try_ b' p c', { s1 with tab := s3.tab })
    | s, .switch_ sc arms =>
      match freezeExpr look s sc with
      | .error e => .error e
      | .ok (sc', s1) =>
        match freezeArms look s1 arms with
        | .error e => .error e
        | .ok (arms', s2) => .ok (.switch_ sc' arms', { s1 with tab := s2.tab })
    | s, .evalSrc e => .ok (.evalSrc e, s)        -- only the callee `eval` is resolved; the text is data
    | s, .freeze e =>
      match freezeExpr look s e with
      | .error e => .error e
      | .ok (e', s) => .ok (.freeze e', s)

  def freezeList (look : String → Option V) : FState V → List Expr → Except FreezeErr (List Expr × FState V)
    | s, [] => .ok ([], s)
    | s, x :: xs =>
      match freezeExpr look s x with
      | .error e => .error e
      | .ok (x', s) =>
        match freezeList look s xs with
        | .error e => .error e
        | .ok (xs', s) => .ok (x' :: xs', s)

  def freezeOpt (look : String → Option V) : FState V → Option Expr → Except FreezeErr (Option Expr × FState V)
    | s, none => .ok (none, s)
    | s, some x =>
      match freezeExpr look s x with
      | .error e => .error e
      | .ok (x', s) => .ok (some x', s)

  /-- the `for` header: each clause binds its pattern's names, THEN freezes its expression -/
  def freezeIts (look : String → Option V) : FState V → List ForIt → Except FreezeErr (List ForIt × FState V)
    | s, [] => .ok ([], s)
    | s, .guard g :: rest =>
      match freezeExpr look s g with
      | .error e => .error e
      | .ok (g', s) =>
        match freezeIts look s rest with
        | .error e => .error e
        | .ok (rest', s) => .ok (.guard g' :: rest', s)
    | s, .iter kind p e :: rest =>
      -- since the `fix:` commit for F29 the iteratee is frozen BEFORE the clause binds its names
      match freezeExpr look s e with
      | .error e => .error e
      | .ok (e', s) =>
        let s := { s with bound := s.bound ++ Pat.idents p }
        match freezeIts look s rest with
        | .error e => .error e
        | .ok (rest', s) => .ok (.iter kind p e' :: rest', s)

  /-- `box_freeze_lvalue` over the parameter list.  A parameter is `WithDefault(Annotation(name, ann),
  dflt)` (the parser's nesting): `freeze_lvalue` first descends into the `Annotation` (the name, already
  bound, then `opt_rc_freeze` of the annotation expression), then `rc_freeze`s the default.  So per
  parameter: the type annotation, then the default; parameters left to right. -/
  def freezeParams (look : String → Option V) : FState V → List Param → Except FreezeErr (List Param × FState V)
    | s, [] => .ok ([], s)
    | s, .mk name dflt splat ann :: rest =>
      match freezeOpt look s ann with
      | .error e => .error e
      | .ok (ann', s) =>
        match freezeOpt look s dflt with
        | .error e => .error e
        | .ok (dflt', s) =>
          match freezeParams look s rest with
          | .error e => .error e
          | .ok (rest', s) => .ok (.mk name dflt' splat ann' :: rest', s)

  /-- switch arms: every arm clones the environment (`let mut env2 = env.clone()` inside the arm loop),
  binds its pattern's names, freezes its body; nothing an arm binds is visible to later arms -/
  def freezeArms (look : String → Option V) : FState V → List SwitchArm → Except FreezeErr (List SwitchArm × FState V)
    | s, [] => .ok ([], s)
    | s, .mk p body :: rest =>
      match freezeExpr look { s with bound := s.bound ++ Pat.idents p } body with
      | .error e => .error e
      | .ok (body', s2) =>
        match freezeArms look { s with tab := s2.tab } rest with
        | .error e => .error e
        | .ok (rest', s3) => .ok (.mk p body' :: rest', s3)

  def freezeBody (look : String → Option V) : FState V → ForBody → Except FreezeErr (ForBody × FState V)
    | s, .exec e =>
      match freezeExpr look s e with
      | .error e => .error e
      | .ok (e', s) => .ok (.exec e', s)
    | s, .yield e into =>
      match freezeExpr look s e with
      | .error e => .error e
      | .ok (e', s) =>
        match freezeOpt look s into with
        | .error e => .error e
        | .ok (into', s) => .ok (.yield e' into', s)
    | s, .yieldItem k v into =>
      match freezeExpr look s k with
      | .error e => .error e
      | .ok (k', s) =>
        match freezeExpr look s v with
        | .error e => .error e
        | .ok (v', s) =>
          match freezeOpt look s into with
          | .error e => .error e
          | .ok (into', s) => .ok (.yieldItem k' v' into', s)
end

end Noulith.Core
