/-
C01 / C02 Impl model: a REFERENCE-COUNTED heap that makes the sharing of `Rc<Vec<Obj>>` payloads
explicit, and the mutation statements of eval.rs transcribed onto it in handle-passing style.

What is mirrored (file:function of /repo/src):
* `Obj::clone` of a list                      → `dup`      (strong count + 1, payload shared)
* dropping an `Obj`                           → `dropVal`  (count − 1; at 0 the payload is freed and its
                                                            elements are dropped in turn)
* `Rc::make_mut`                              → `makeMut`  (count 1: same allocation; otherwise a fresh
                                                            copy with count 1, old count − 1, every element
                                                            cloned; the copy is charged to `copied`)
* core.rs `Env::try_borrow_get_var`           → `readVar`  (a variable read clones the handle)
* core.rs `pythonic_index_isize`              → `pyIndex`
* eval.rs `set_index` / `modify_existing_index` (list arms) → `walk`: `make_mut` at EVERY level of the
  index path *before* the bounds check, recursion into `&mut v[i]`, leaf action at the end
* eval.rs `index` / `eval_lvalue_as_obj`      → `readPath` (clones the element, drops the container handle)
* core.rs `Obj::try_pop`, `try_remove_index`, `mem::take` (consume) → `popLeaf`, `removeLeaf`, `takeLeaf`
* lib.rs `Append::run2`                       → `appendOp` (`make_mut` + `push`)
* eval.rs `Expr::Assign`, `Expr::OpAssign` hot path with `drop_lhs`, `Expr::Pop`, `Expr::Remove`,
  `Expr::Consume`, `Expr::Swap`, `Expr::Update` (`x{i = v}`: `set_index` on a clone of the handle), and
  a builtin call on a variable's value (`x append v`) → `step`

Dicts (`Seq::Dict` without default, integer keys) are allocations with a key list next to the value
payload: `set_index`'s dict arm (`make_mut`, then `insert` at the last level / `get_mut` above it),
`modify_existing_index`'s (`entry`: a missing key raises), `index` (`get`), `try_remove_index`
(`make_mut` + `remove`), and the type errors of `pop` / `append` on a dict are mirrored.

A `&mut Obj` slot is modelled by moving the value out of the slot (slot := null), transforming the
owned value, and moving the result back; no evaluation happens while a slot is borrowed in the Rust, so
this is unobservable.  The cost ledger (`copied`, `pushes`) is the C02 part of the model.
Core Lean only.
-/
import NoulithModel.Common

namespace Noulith.RcHeap

/-- a value: an atom (null / int) or a handle to a list allocation -/
inductive Val where
  | null
  | int (n : Int)
  | ref (id : Nat)
  deriving DecidableEq, Repr, Inhabited

/-- one `Rc<Vec<Obj>>` allocation: payload and strong count (`rc = 0`: freed) -/
structure Alloc where
  payload : List Val
  rc : Nat
  /-- `none`: a list (`Seq::List`); `some ks`: a dict (`Seq::Dict`, no default) whose i-th key is
  `ks[i]` and whose i-th value is `payload[i]` (insertion order; a `HashMap` has no order, every
  observation sorts by key) -/
  keys : Option (List Int)
  deriving Repr, Inhabited

/-- the heap: allocations by id (ids are never reused) and the C02 cost ledger -/
structure Heap where
  allocs : List Alloc
  /-- total number of elements copied by `make_mut` on a shared allocation -/
  copied : Nat
  /-- number of `Vec::push` / `insert` element moves -/
  pushes : Nat
  deriving Repr, Inhabited

def Heap.empty : Heap := ⟨[], 0, 0⟩

def rcOf (h : Heap) (id : Nat) : Nat :=
  match h.allocs[id]? with
  | some a => a.rc
  | none => 0

def payloadOf (h : Heap) (id : Nat) : List Val :=
  match h.allocs[id]? with
  | some a => a.payload
  | none => []

def keysOf (h : Heap) (id : Nat) : Option (List Int) :=
  match h.allocs[id]? with
  | some a => a.keys
  | none => none

def setAlloc (h : Heap) (id : Nat) (a : Alloc) : Heap :=
  { h with allocs := h.allocs.set id a }

def setPayload (h : Heap) (id : Nat) (p : List Val) : Heap :=
  setAlloc h id ⟨p, rcOf h id, keysOf h id⟩

/-- replace values and keys of a dict allocation (insert / remove a key) -/
def setEntries (h : Heap) (id : Nat) (p : List Val) (ks : List Int) : Heap :=
  setAlloc h id ⟨p, rcOf h id, some ks⟩

def setRc (h : Heap) (id : Nat) (n : Nat) : Heap :=
  setAlloc h id ⟨payloadOf h id, n, keysOf h id⟩

/-- `Obj::clone`: cloning a list handle bumps the strong count; atoms are copied -/
def dup (h : Heap) (v : Val) : Heap :=
  match v with
  | .ref id => setRc h id (rcOf h id + 1)
  | _ => h

/-- clone every element of a payload (what `Vec<Obj>::clone` does) -/
def bumpAll (h : Heap) (p : List Val) : Heap := p.foldl dup h

/-- dropping an owned value.  `fuel` bounds the depth of cascading frees (`drop` supplies the number
of allocations + 1, which is enough on an acyclic heap). -/
def dropVal : Nat → Heap → Val → Heap
  | 0, h, _ => h
  | f + 1, h, .ref id =>
    if rcOf h id ≤ 1 then
      (payloadOf h id).foldl (dropVal f) (setAlloc h id ⟨[], 0, none⟩)
    else setRc h id (rcOf h id - 1)
  | _ + 1, h, _ => h

def drop (h : Heap) (v : Val) : Heap := dropVal (h.allocs.length + 1) h v

/-- allocate a fresh list with strong count 1; returns the heap and the new id -/
def alloc (h : Heap) (p : List Val) : Heap × Nat :=
  ({ h with allocs := h.allocs ++ [⟨p, 1, none⟩] }, h.allocs.length)

/-- allocate a fresh dict with strong count 1 -/
def allocDict (h : Heap) (ks : List Int) (p : List Val) : Heap × Nat :=
  ({ h with allocs := h.allocs ++ [⟨p, 1, some ks⟩] }, h.allocs.length)

/-- `Rc::make_mut` on the allocation behind an owned handle: returns the id that the handle points to
afterwards, which has strong count 1. -/
def makeMut (h : Heap) (id : Nat) : Heap × Nat :=
  if rcOf h id ≤ 1 then (h, id)
  else
    let p := payloadOf h id
    let h1 := bumpAll (setRc h id (rcOf h id - 1)) p
    ({ allocs := h1.allocs ++ [⟨p, 1, keysOf h id⟩], copied := h1.copied + p.length, pushes := h1.pushes },
     h.allocs.length)

/-- core.rs `pythonic_index_isize` -/
def pyIndex (len : Nat) (i : Int) : Option Nat :=
  if 0 ≤ i ∧ i < len then some i.toNat
  else if i < 0 ∧ 0 ≤ i + len then some (i + len).toNat
  else none

/-- position of a key in a dict's key list -/
def keyPos : List Int → Int → Option Nat
  | [], _ => none
  | k :: ks, i => if k = i then some 0 else (keyPos ks i).map (· + 1)

/-- the payload position addressed by index / key `i` in allocation `id`: Python's index rule for a
list (`pythonic_index`), key lookup for a dict (`HashMap::get`) -/
def slotOf (h : Heap) (id : Nat) (i : Int) : Option Nat :=
  match keysOf h id with
  | none => pyIndex (payloadOf h id).length i
  | some ks =>
    match keyPos ks i with
    | some j => if j < (payloadOf h id).length then some j else none
    | none => none

/-- result of transforming a slot: new heap, new slot value, a result value handed to the caller
(popped / removed / consumed element), and whether the operation succeeded (`false` = it raised) -/
structure WalkRes where
  h : Heap
  v : Val
  r : Val
  ok : Bool

/-- a leaf action of `walk`: what happens to the addressed slot, and (for `set_index` only) the value
that is inserted when the LAST index is a dict key that is not present (`mut_d.insert(k, value)`) -/
structure Leaf where
  act : Heap → Val → WalkRes
  ins : Option Val

/-- the slot is missing (after `make_mut`): `set_index`'s dict arm inserts the key when it is the last
index (`mut_d.insert(k, value)`); every other case raises (index out of range, missing key) -/
def walkMissing (leaf : Leaf) (h0 : Heap) (id1 : Nat) (i : Int) (rest : List Int) : WalkRes :=
  match keysOf h0 id1, rest, leaf.ins with
  | some ks, [], some new => ⟨setEntries h0 id1 (payloadOf h0 id1 ++ [new]) (ks ++ [i]), .ref id1, .null, true⟩
  | _, _, _ => ⟨h0, .ref id1, .null, false⟩

/-- `set_index` / `modify_existing_index` on an owned slot value: at every level `Rc::make_mut(v)`
first, then the slot is located (`pythonic_mut` for a list — so a failing index still un-shares the
level — `get_mut` / `entry` for a dict), then recursion into the element slot.  `set_index`'s dict arm
inserts a missing key at the last level; everywhere else a missing key raises. -/
def walk (leaf : Leaf) : Heap → Val → List Int → WalkRes
  | h, v, [] => leaf.act h v
  | h, .ref id, i :: rest =>
    let m := makeMut h id
    let p := payloadOf m.1 m.2
    match slotOf m.1 m.2 i with
    | some j =>
      let c := p.getD j .null
      let h1 := setPayload m.1 m.2 (p.set j .null)
      let w := walk leaf h1 c rest
      ⟨setPayload w.h m.2 ((payloadOf w.h m.2).set j w.v), .ref m.2, w.r, w.ok⟩
    | none => walkMissing leaf m.1 m.2 i rest
  | h, v, _ :: _ => ⟨h, v, .null, false⟩

/-- leaf of `set_index(.., [], Some(value))`: `*lhs = value` (the old value is dropped) -/
def setLeaf (new : Val) : Leaf := ⟨fun h old => ⟨drop h old, new, .null, true⟩, some new⟩

/-- leaf of `Expr::Consume`: `mem::take` -/
def takeLeaf : Leaf := ⟨fun h old => ⟨h, .null, old, true⟩, none⟩

/-- `Obj::try_pop` = `Rc::make_mut(xs).pop()` on a list; any other kind (a dict too) raises -/
def popAct (h : Heap) (v : Val) : WalkRes :=
  match v with
  | .ref id =>
    match keysOf h id with
    | some _ => ⟨h, v, .null, false⟩
    | none =>
      let m := makeMut h id
      let p := payloadOf m.1 m.2
      match p.getLast? with
      | some x => ⟨setPayload m.1 m.2 p.dropLast, .ref m.2, x, true⟩
      | none => ⟨m.1, .ref m.2, .null, false⟩
  | _ => ⟨h, v, .null, false⟩

/-- leaf of `Expr::Pop` -/
def popLeaf : Leaf := ⟨popAct, none⟩

/-- `try_remove_index`: on a list the bounds check comes first, then `Rc::make_mut(xs).remove(ii)`;
on a dict `Rc::make_mut(xs).remove(&key)` (the copy happens even when the key is missing) -/
def removeAct (i : Int) (h : Heap) (v : Val) : WalkRes :=
  match v with
  | .ref id =>
    match keysOf h id with
    | none =>
      match pyIndex (payloadOf h id).length i with
      | none => ⟨h, v, .null, false⟩
      | some j =>
        let m := makeMut h id
        let p := payloadOf m.1 m.2
        ⟨setPayload m.1 m.2 (p.eraseIdx j), .ref m.2, p.getD j .null, true⟩
    | some ks =>
      let m := makeMut h id
      let p := payloadOf m.1 m.2
      match slotOf m.1 m.2 i with
      | none => ⟨m.1, .ref m.2, .null, false⟩
      | some j => ⟨setEntries m.1 m.2 (p.eraseIdx j) (ks.eraseIdx j), .ref m.2, p.getD j .null, true⟩
  | _ => ⟨h, v, .null, false⟩

/-- leaf of `Expr::Remove` with an index / key -/
def removeLeaf (i : Int) : Leaf := ⟨removeAct i, none⟩

/-- `set_index(slot, path, Some(new))` on an owned slot value; `new` is owned and is dropped when the
walk raises before reaching the leaf (the Rust drops `value` on `Err`). -/
def setIndex (h : Heap) (v : Val) (path : List Int) (new : Val) : WalkRes :=
  let w := walk (setLeaf new) h v path
  if w.ok then w else ⟨drop w.h new, w.v, .null, false⟩

/-- eval.rs `index` applied along a path as `eval_lvalue_as_obj` does: consumes the container handle,
returns a clone of the element.  `none` = raised (the handle is dropped). -/
def readPath : Heap → Val → List Int → Heap × Option Val
  | h, v, [] => (h, some v)
  | h, .ref id, i :: rest =>
    match slotOf h id i with
    | none => (drop h (.ref id), none)
    | some j =>
      let c := (payloadOf h id).getD j .null
      readPath (drop (dup h c) (.ref id)) c rest
  | h, _, _ :: _ => (h, none)

/-- lib.rs `Append::run2` on owned arguments: `Rc::make_mut(&mut a).push(arg2)`; a non-list first
argument raises (both arguments dropped). -/
def appendOp (h : Heap) (a b : Val) : Heap × Option Val :=
  match a with
  | .ref id =>
    match keysOf h id with
    | none =>
      let m := makeMut h id
      let h1 := setPayload m.1 m.2 (payloadOf m.1 m.2 ++ [b])
      ({ h1 with pushes := h1.pushes + 1 }, some (.ref m.2))
    | some _ => (drop (drop h a) b, none)
  | _ => (drop h b, none)

/-! ### statements -/

inductive Atom where
  | null
  | int (n : Int)
  | var (x : Nat)
  deriving Repr, Inhabited

/-- right-hand sides: an atom, a list literal of atoms `[a, b, …]`, or `[a] ** n` -/
inductive Rhs where
  | atom (a : Atom)
  | list (as : List Atom)
  | rep (a : Atom) (n : Nat)
  /-- a dict literal `{k1: a1, k2: a2, …}` with integer keys (distinct) -/
  | dict (kvs : List (Int × Atom))
  deriving Repr, Inhabited

inductive Stmt where
  /-- `x = rhs` (also `x := rhs`) -/
  | assign (x : Nat) (r : Rhs)
  /-- `x[i]…[j] = rhs`, non-empty path -/
  | setIdx (x : Nat) (path : List Int) (r : Rhs)
  /-- `x[path] append= rhs` (path may be empty) -/
  | append (x : Nat) (path : List Int) (r : Rhs)
  /-- `y = pop x[path]` -/
  | pop (y x : Nat) (path : List Int)
  /-- `y = remove x[path][i]` -/
  | remove (y x : Nat) (path : List Int) (i : Int)
  /-- `y = consume x[path]` -/
  | consume (y x : Nat) (path : List Int)
  /-- `swap x[px], y[py]` -/
  | swap (x : Nat) (px : List Int) (y : Nat) (py : List Int)
  /-- `y = x{i = a}`: `Expr::Update` evaluates `x` (a clone of the handle), runs `set_index` on that
  temporary, and the result is assigned to `y`; `x` itself must not change -/
  | update (y x : Nat) (i : Int) (a : Atom)
  /-- `y = x append a`: a "mutating-style" builtin called on the variable's value (by-value argument =
  clone of the handle, `Append::run2` = `make_mut` + push) -/
  | callAppend (y x : Nat) (a : Atom)
  /-- `x[path] append= pop y[ypath]`: an operator-assignment whose right-hand side mutates (possibly
  the same variable or an alias).  `Expr::OpAssign` reads the old left-hand value FIRST, then evaluates
  the right-hand side, then nulls the slot, applies the operator and assigns. -/
  | appendPop (x : Nat) (path : List Int) (y : Nat) (ypath : List Int)
  deriving Repr, Inhabited

/-- interpreter state: the heap and one cell per variable -/
structure State where
  h : Heap
  cells : List Val
  deriving Repr, Inhabited

def State.init (nvars : Nat) : State := ⟨Heap.empty, List.replicate nvars .null⟩

def cellOf (s : State) (x : Nat) : Val := s.cells.getD x .null

/-- `Env::try_borrow_get_var`: clone of the cell's value -/
def readVar (s : State) (x : Nat) : Heap × Val := (dup s.h (cellOf s x), cellOf s x)

def evalAtom (s : State) (h : Heap) : Atom → Heap × Val
  | .null => (h, .null)
  | .int n => (h, .int n)
  | .var x => (dup h (cellOf s x), cellOf s x)

def evalAtoms (s : State) : Heap → List Atom → Heap × List Val
  | h, [] => (h, [])
  | h, a :: as =>
    let r := evalAtom s h a
    let rs := evalAtoms s r.1 as
    (rs.1, r.2 :: rs.2)

def evalRhs (s : State) : Rhs → Heap × Val
  | .atom a => evalAtom s s.h a
  | .list as =>
    let r := evalAtoms s s.h as
    let m := alloc r.1 r.2
    (m.1, .ref m.2)
  | .rep a n =>
    -- `[a] ** n`: the one-element list is built, then its element is cloned n times into a new list
    let r := evalAtom s s.h a
    let m1 := alloc r.1 [r.2]
    let h2 := bumpAll m1.1 (List.replicate n r.2)
    let m2 := alloc h2 (List.replicate n r.2)
    (drop m2.1 (.ref m1.2), .ref m2.2)
  | .dict kvs =>
    let r := evalAtoms s s.h (kvs.map (·.2))
    let m := allocDict r.1 (kvs.map (·.1)) r.2
    (m.1, .ref m.2)

/-- write a cell: `*ptr = value`, dropping the old value -/
def writeCell (h : Heap) (cells : List Val) (x : Nat) (v : Val) : State :=
  ⟨drop h (cells.getD x .null), cells.set x v⟩

/-- run a slot transformer on the cell of `x` (`Env::modify_ident` / `assign_respecting_type`) -/
def withCell (s : State) (h : Heap) (x : Nat) (f : Heap → Val → WalkRes) : State × Val × Bool :=
  let w := f h (cellOf s x)
  (⟨w.h, s.cells.set x w.v⟩, w.r, w.ok)

def declared (s : State) (x : Nat) : Bool := x < s.cells.length

/-- the second half of an operator-assignment `x[path] append= …`, entered with the old left-hand
value `l` already read and the right-hand value `ev` already evaluated (both owned):
`drop_lhs` (`set_index(ptr, ixs, None, true)`: the slot becomes null), the operator, the assignment.
When the operator raises the slot stays null (documented). -/
def appendFinish (s : State) (h : Heap) (x : Nat) (path : List Int) (l ev : Val) : State × Bool :=
  let d := withCell s h x (fun h v => setIndex h v path .null)
  if d.2.2 then
    let ap := appendOp d.1.h l ev
    match ap.2 with
    | some c =>
      let w := withCell d.1 ap.1 x (fun h v => setIndex h v path c)
      (w.1, w.2.2)
    | none => (⟨ap.1, d.1.cells⟩, false)
  else (⟨drop (drop d.1.h l) ev, d.1.cells⟩, false)

/-- one statement; the flag is `false` when the statement raised -/
def step (s : State) : Stmt → State × Bool
  | .assign x r =>
    let e := evalRhs s r
    if declared s x then (writeCell e.1 s.cells x e.2, true)
    else (⟨drop e.1 e.2, s.cells⟩, false)
  | .setIdx x path r =>
    let e := evalRhs s r
    if declared s x then
      let w := withCell s e.1 x (fun h v => setIndex h v path e.2)
      (w.1, w.2.2)
    else (⟨drop e.1 e.2, s.cells⟩, false)
  | .append x path r =>
    if declared s x then
      -- lhs_value = eval_lvalue_as_obj
      let rd := readVar s x
      let lv := readPath rd.1 rd.2 path
      match lv.2 with
      | none => (⟨lv.1, s.cells⟩, false)
      | some l =>
        -- rhs, then drop_lhs / operator / assign
        let e := evalRhs ⟨lv.1, s.cells⟩ r
        appendFinish s e.1 x path l e.2
    else (s, false)
  | .pop y x path =>
    if declared s x ∧ declared s y then
      let w := withCell s s.h x (fun h v => walk popLeaf h v path)
      if w.2.2 then (writeCell w.1.h w.1.cells y w.2.1, true) else (w.1, false)
    else (s, false)
  | .remove y x path i =>
    if declared s x ∧ declared s y then
      let w := withCell s s.h x (fun h v => walk (removeLeaf i) h v path)
      if w.2.2 then (writeCell w.1.h w.1.cells y w.2.1, true) else (w.1, false)
    else (s, false)
  | .consume y x path =>
    if declared s x ∧ declared s y then
      let w := withCell s s.h x (fun h v => walk takeLeaf h v path)
      if w.2.2 then (writeCell w.1.h w.1.cells y w.2.1, true) else (w.1, false)
    else (s, false)
  | .swap x px y py =>
    if declared s x ∧ declared s y then
      let ra := readVar s x
      let a := readPath ra.1 ra.2 px
      match a.2 with
      | none => (⟨a.1, s.cells⟩, false)
      | some av =>
        let rb := readVar ⟨a.1, s.cells⟩ y
        let b := readPath rb.1 rb.2 py
        match b.2 with
        | none => (⟨drop b.1 av, s.cells⟩, false)
        | some bv =>
          let w1 := withCell s b.1 x (fun h v => setIndex h v px bv)
          if w1.2.2 then
            let w2 := withCell w1.1 w1.1.h y (fun h v => setIndex h v py av)
            (w2.1, w2.2.2)
          else (⟨drop w1.1.h av, w1.1.cells⟩, false)
    else (s, false)
  | .update y x i a =>
    if declared s x ∧ declared s y then
      let rd := readVar s x
      let e := evalAtom s rd.1 a
      let w := setIndex e.1 rd.2 [i] e.2
      if w.ok then (writeCell w.h s.cells y w.v, true) else (⟨drop w.h w.v, s.cells⟩, false)
    else (s, false)
  | .callAppend y x a =>
    if declared s x ∧ declared s y then
      let rd := readVar s x
      let e := evalAtom s rd.1 a
      let ap := appendOp e.1 rd.2 e.2
      match ap.2 with
      | some c => (writeCell ap.1 s.cells y c, true)
      | none => (⟨ap.1, s.cells⟩, false)
    else (s, false)
  | .appendPop x path y ypath =>
    if declared s x ∧ declared s y then
      -- lhs_value = eval_lvalue_as_obj (before the right-hand side runs)
      let rd := readVar s x
      let lv := readPath rd.1 rd.2 path
      match lv.2 with
      | none => (⟨lv.1, s.cells⟩, false)
      | some l =>
        -- rhs: pop y[ypath] mutates the cell of y
        let w := withCell s lv.1 y (fun h v => walk popLeaf h v ypath)
        if w.2.2 then appendFinish w.1 w.1.h x path l w.2.1
        else (⟨drop w.1.h l, w.1.cells⟩, false)
    else (s, false)

def run (s : State) : List Stmt → State


  | [] => s
  | st :: rest => run (step s st).1 rest

end Noulith.RcHeap
