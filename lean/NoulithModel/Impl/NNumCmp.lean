/-
Shared number model for C08 (comparison) and C09 (hashing of dictionary keys).

Impl model of the comparison / equality / hashing code of src/nnum.rs:
`cmp_nint_f64`, `to_nint_if_int`, `NNumReal` (`exact_to_rational`, `PartialEq`, `PartialOrd`,
`total_cmp_small_nan`, `total_cmp_big_nan`), `project_to_reals`, `PartialEq`/`PartialOrd for NNum`
(tuple comparison of the two projections), `NNum::total_cmp_*`, `total_eq`, `min`, `max`,
`consistent_hash_f64`, `NNum::total_hash`.

Floats are exact *values*: `nan | inf neg | fin m e` (= m·2^e) `| nzero` (-0.0; `fin 0 _` is +0.0).
External code modelled as exact mathematics on the value (trusted, see props JSON):
IEEE-754 `==`/`partial_cmp`/`trunc`/`floor`/`is_nan`/`is_infinite`/`is_sign_positive`,
`ToBigInt for f64` (truncation; `None` for non-finite), `BigRational::from_float` (exact; `None` for
non-finite), `BigRational` `==`/`cmp` (exact comparison of the fractions), `BigInt::hash` (a
function of the integer value).
Core Lean only.
-/
import NoulithModel.Impl.NInt

namespace Noulith

/-! ### exact comparison of rationals and of extended rationals -/

/-- three-way comparison of two rationals (`Ord for Ratio<BigInt>`) -/
def ratCmp (a b : Rat) : Ordering :=
  if a < b then .lt else if a = b then .eq else .gt

/-- the extended rational line: the values a non-NaN float can denote -/
inductive ERat where
  | ninf
  | fin (q : Rat)
  | pinf
  deriving DecidableEq, Inhabited

namespace ERat
def cmp : ERat → ERat → Ordering
  | ninf, ninf => .eq
  | ninf, _ => .lt
  | fin _, ninf => .gt
  | fin a, fin b => ratCmp a b
  | fin _, pinf => .lt
  | pinf, pinf => .eq
  | pinf, _ => .gt
end ERat

/-! ### floats as exact values -/

inductive F64 where
  | nan
  | inf (neg : Bool)
  | fin (m e : Int)     -- m · 2^e ; `fin 0 e` is +0.0
  | nzero               -- -0.0
  deriving DecidableEq, Inhabited

namespace F64

/-- m · 2^e as a rational -/
def finVal (m e : Int) : Rat := (m : Rat) * (2 : Rat) ^ e

def isNan : F64 → Bool
  | nan => true
  | _ => false

def isInfinite : F64 → Bool
  | inf _ => true
  | _ => false

/-- `f64::is_sign_positive` (only consulted for infinities by the modelled code) -/
def isSignPositive : F64 → Bool
  | nan => true
  | inf neg => !neg
  | fin m _ => decide (0 ≤ m)
  | nzero => false

/-- `BigRational::from_float`: the exact value; `None` for NaN and the infinities -/
def toRat? : F64 → Option Rat
  | nan => none
  | inf _ => none
  | fin m e => some (finVal m e)
  | nzero => some 0

/-- the extended-rational value of a non-NaN float (NaN maps to an arbitrary point; callers test
`isNan` first) -/
def ext : F64 → ERat
  | nan => .pinf
  | inf true => .ninf
  | inf false => .pinf
  | fin m e => .fin (finVal m e)
  | nzero => .fin 0

/-- IEEE `partial_cmp`: unordered iff a NaN is involved, otherwise the exact order of the values
(`-0.0` and `+0.0` compare equal) -/
def partialCmp (a b : F64) : Option Ordering :=
  if a.isNan || b.isNan then none else some (ERat.cmp a.ext b.ext)

/-- IEEE `==` -/
def feq (a b : F64) : Bool :=
  if a.isNan || b.isNan then false else decide (a.ext = b.ext)

/-- `f == f.trunc()`: true exactly for the integer-valued floats and the infinities -/
def eqTrunc : F64 → Bool
  | nan => false
  | inf _ => true
  | fin m e => (finVal m e).isInt
  | nzero => true

/-- truncation of a rational toward zero -/
def ratTrunc (q : Rat) : Int := if 0 ≤ q then q.floor else q.ceil

/-- `ToBigInt for f64`: `None` for non-finite, otherwise truncation toward zero -/
def toBigInt? : F64 → Option Int
  | nan => none
  | inf _ => none
  | fin m e => some (ratTrunc (finVal m e))
  | nzero => some 0

/-- `f64::floor` (exact: the floor of a finite float is representable) -/
def floor : F64 → F64
  | fin m e => fin (finVal m e).floor 0
  | f => f

end F64

/-- `to_nint_if_int` -/
def toNIntIfInt (f : F64) : Option NInt :=
  if f.eqTrunc then f.toBigInt?.map NInt.big else none

/-- `cmp_nint_f64`: integer vs float without rounding the integer -/
def cmpNIntF64 (a : NInt) (b : F64) : Option Ordering :=
  match toNIntIfInt b with
  | some bi => some (NInt.cmp a bi)
  | none =>
    if b.isInfinite then
      (if b.isSignPositive then some .lt else some .gt)
    else
      b.floor.toBigInt?.map fun bi =>
        match NInt.cmp a (.big bi) with
        | .lt => .lt
        | .eq => .lt
        | .gt => .gt

/-! ### `NNumReal` -/

inductive NReal where
  | int (a : NInt)
  | float (f : F64)
  | rat (q : Rat)
  deriving DecidableEq, Inhabited

namespace NReal

def isNan : NReal → Bool
  | float f => f.isNan
  | _ => false

def exactToRational : NReal → Option Rat
  | int a => some (a.val : Rat)
  | rat q => some q
  | float f => f.toRat?

/-- `impl PartialEq for NNumReal` -/
def eq : NReal → NReal → Bool
  | int a, int b => NInt.beq a b
  | int a, float b => match toNIntIfInt b with
    | some x => NInt.beq x a
    | none => false
  | float a, int b => match toNIntIfInt a with
    | some x => NInt.beq x b
    | none => false
  | float a, float b => F64.feq a b
  | a, b => match a.exactToRational, b.exactToRational with
    | some x, some y => decide (x = y)
    | _, _ => false

/-- `infinite_signum` (added by the `fix:` commit for the rational-vs-infinity defect): +1 / -1
for an infinite float, which has no exact rational value -/
def infiniteSignum : NReal → Option Int
  | float (.inf neg) => some (if neg then -1 else 1)
  | _ => none

/-- `exact_cmp` (since the same commit): comparison through exact rationals; an infinite float is
beyond every exact number.  Before the fix the fallback arm of `partial_cmp` was
`a.exact_to_rational()?.partial_cmp(&b.exact_to_rational()?)`, i.e. `None` for `1/2 < inf`. -/
def exactCmp (a b : NReal) : Option Ordering :=
  match a.exactToRational, b.exactToRational with
  | some x, some y => some (ratCmp x y)
  | none, some _ => a.infiniteSignum.map fun s => compare s 0
  | some _, none => b.infiniteSignum.map fun s => compare 0 s
  | none, none => none

/-- `impl PartialOrd for NNumReal` -/
def partialCmp : NReal → NReal → Option Ordering
  | int a, int b => some (NInt.cmp a b)
  | int a, float b => cmpNIntF64 a b
  | float a, int b => (cmpNIntF64 b a).map Ordering.swap
  | float a, float b => F64.partialCmp a b
  | a, b => exactCmp a b

/-- `bool::cmp` -/
def boolCmp (a b : Bool) : Ordering :=
  match a, b with
  | false, true => .lt
  | true, false => .gt
  | _, _ => .eq

/-- `total_cmp_small_nan`: NaN below everything, NaNs equal -/
def totalCmpSmallNan : NReal → NReal → Ordering
  | int a, int b => NInt.cmp a b
  | int a, float b => (cmpNIntF64 a b).getD .gt
  | float a, int b => match cmpNIntF64 b a with
    | some o => o.swap
    | none => .lt
  | float a, float b => (F64.partialCmp a b).getD (boolCmp b.isNan a.isNan)
  | a, b => (exactCmp a b).getD (boolCmp b.isNan a.isNan)

/-- `total_cmp_big_nan`: NaN above everything, NaNs equal -/
def totalCmpBigNan : NReal → NReal → Ordering
  | int a, int b => NInt.cmp a b
  | int a, float b => (cmpNIntF64 a b).getD .lt
  | float a, int b => match cmpNIntF64 b a with
    | some o => o.swap
    | none => .gt
  | float a, float b => (F64.partialCmp a b).getD (boolCmp a.isNan b.isNan)
  | a, b => (exactCmp a b).getD (boolCmp a.isNan b.isNan)

end NReal

/-! ### `NNum` -/

inductive NNum where
  | int (a : NInt)
  | rat (q : Rat)          -- `BigRational`: lowest terms, positive denominator (a `Rat` invariant)
  | float (f : F64)
  | complex (re im : F64)
  deriving DecidableEq, Inhabited

namespace NNum

def WF : NNum → Prop
  | int a => a.WF
  | _ => True

/-- `project_to_reals` -/
def projectToReals : NNum → NReal × NReal
  | int a => (.int a, .float (.fin 0 0))
  | rat q => (.rat q, .float (.fin 0 0))
  | float f => (.float f, .float (.fin 0 0))
  | complex re im => (.float re, .float im)

def isNan : NNum → Bool
  | int _ => false
  | rat _ => false
  | float f => f.isNan
  | complex re im => re.isNan || im.isNan

/-- `impl PartialEq for NNum`: equality of the pairs of projections -/
def eq (a b : NNum) : Bool :=
  let (ra, ia) := a.projectToReals
  let (rb, ib) := b.projectToReals
  NReal.eq ra rb && NReal.eq ia ib

/-- `impl PartialOrd for NNum`: `partial_cmp` of the tuples, i.e. lexicographic, the first
component that is not `Some(Equal)` decides (also when it is `None`) -/
def partialCmp (a b : NNum) : Option Ordering :=
  let (ra, ia) := a.projectToReals
  let (rb, ib) := b.projectToReals
  match NReal.partialCmp ra rb with
  | some .eq => NReal.partialCmp ia ib
  | o => o

def totalCmpSmallNan (a b : NNum) : Ordering :=
  let (ra, ia) := a.projectToReals
  let (rb, ib) := b.projectToReals
  (NReal.totalCmpSmallNan ra rb).then (NReal.totalCmpSmallNan ia ib)

def totalCmpBigNan (a b : NNum) : Ordering :=
  let (ra, ia) := a.projectToReals
  let (rb, ib) := b.projectToReals
  (NReal.totalCmpBigNan ra rb).then (NReal.totalCmpBigNan ia ib)

/-- `total_eq` (considers NaNs equal) -/
def totalEq (a b : NNum) : Bool := a.eq b || (a.isNan && b.isNan)

/-- `NNum::min`: when equal the left operand; a NaN loses against a number -/
def min (a b : NNum) : NNum :=
  match totalCmpBigNan a b with
  | .gt => b
  | _ => a

/-- `NNum::max`: when equal the right operand; a NaN loses against a number -/
def max (a b : NNum) : NNum :=
  match totalCmpSmallNan a b with
  | .gt => a
  | _ => b

end NNum

/-! ### hashing (C09): the sequence of `Hasher` writes -/

inductive HWrite where
  | u8 (v : Nat)
  | usize (v : Nat)
  | u64 (v : Nat)
  | nint (w : NInt.HashWrite)   -- `write_i64 v` or the `BigInt` hash of `v`
  | str (cs : List Nat)         -- `Hash for String`: the bytes and a 0xff terminator
  | bytes (bs : List Nat)       -- `Hash for Vec<u8>`: length prefix and the bytes
  deriving DecidableEq, Inhabited

/-- `BigInt::hash` -/
def hashBigInt (v : Int) : List HWrite := [.nint (.bigint v)]

/-- `NInt::hash` -/
def hashNInt (a : NInt) : List HWrite := a.hashWrites.map .nint

/-- hash of an exact fraction (since the `fix:` commit for F6): an integral value exactly like the
integer (`NInt::hash` of the numerator), otherwise numerator and denominator -/
def hashRational (q : Rat) : List HWrite :=
  if q.isInt then hashNInt (.big q.num)
  else hashBigInt q.num ++ hashBigInt (q.den : Int)

/-- `consistent_hash_f64` (post-F6: a finite non-integral float is hashed as its exact fraction) -/
def consistentHashF64 (f : F64) : List HWrite :=
  match toNIntIfInt f with
  | some s => hashNInt s
  | none =>
    if f.isNan then [.u64 0x7FF0000000000001]
    else match f.toRat? with
      | some q => hashRational q
      | none => [.u64 (if f.isSignPositive then 0x7FF0000000000000 else 0xFFF0000000000000)]  -- `f.to_bits().hash`: only ±inf get here

namespace NNum
/-- `NNum::total_hash` (post-F6) -/
def totalHash : NNum → List HWrite
  | int a => hashNInt a
  | rat q => hashRational q
  | float f => consistentHashF64 f
  | complex re im =>
    if re.isNan || im.isNan then [.u64 0x7FF0000000000001]
    else if F64.feq im (.fin 0 0) then consistentHashF64 re
    else consistentHashF64 re ++ consistentHashF64 im
end NNum

end Noulith
