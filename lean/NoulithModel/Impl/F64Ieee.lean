/-
IEEE-754 binary64 as exact mathematics (C07, float level of the numeric tower).

A float is its 64-bit pattern (`Nat`, what crosses the line protocol); its exact value is
`F64.viewBits` (Impl/NNumArith.lean).  This file defines

* `F64.ofRatRNE` — the correctly rounded (round-to-nearest, ties-to-even) bit pattern of a rational:
  overflow gives ±∞, underflow a subnormal or ±0.  Proved in Theorems/C07Float.lean to be a nearest
  binary64 value to its argument (ties to even, overflow threshold, sign).
* `F64.add / sub / mul / div / neg` — the IEEE-754 operations: special cases (NaN, ±∞, signed
  zeros) spelled out, and otherwise THE EXACT RATIONAL RESULT, ROUNDED ONCE with `ofRatRNE`.  This is
  what IEEE-754 requires of `+ - * /` (and what Rust's `f64` operators are on every supported target);
  it is a definition here, tied to the hardware by the differential run of `./check C07`.
* `F64.rem` (C `fmod`: the exact `x − y·trunc(x/y)`), `F64.divEuclid`, `F64.remEuclid` (the standard
  library's compositions of `/`, `trunc`, `%`, `±1.0`, `abs`).
* `F64.ieeeOps` — the `FloatOps` structure of the tower whose float level is this arithmetic (the
  remaining fields — powers, complex arithmetic — are inherited from an arbitrary structure: they
  stay parameters).

Core Lean only.
-/
import NoulithModel.Impl.NNumArith

namespace Noulith.F64

/-- `2 ^ k` in ℚ for an integer `k` -/
def pow2 (k : Int) : Rat := if 0 ≤ k then ((2 ^ k.toNat : Nat) : Rat) else mkRat 1 (2 ^ (-k).toNat)

/-- nearest integer to `m ≥ 0`, ties to even -/
def roundHalfEven (m : Rat) : Int :=
  let f := m.floor
  let r := m - (f : Rat)
  if 1 / 2 < r then f + 1
  else if r < 1 / 2 then f
  else if f % 2 = 0 then f else f + 1

/-- the binary exponent of `a > 0`: the `e` with `2^e ≤ a < 2^(e+1)`, from the bit lengths of
numerator and denominator and one comparison -/
def expOf (a : Rat) : Int :=
  let e0 : Int := (a.num.toNat.log2 : Int) - (a.den.log2 : Int)     -- 2^(e0-1) < a < 2^(e0+1)
  if pow2 e0 ≤ a then e0 else e0 - 1

/-- the exponent the significand is scaled with: subnormals share exponent -1022 -/
def clampExp (e : Int) : Int := if e < -1022 then -1022 else e

/-- the 63 magnitude bits of the correctly rounded binary64 of `a > 0` -/
def magRNE (a : Rat) : Nat :=
  let ex : Int := clampExp (expOf a)
  let m : Int := roundHalfEven (a / pow2 (ex - 52))                  -- significand incl. hidden bit
  let bits : Int := (ex + 1022) * 2 ^ 52 + m                         -- a carry into 2^53 bumps the exponent
  if 0x7FF0000000000000 ≤ bits then 0x7FF0000000000000 else bits.toNat

/-- The correctly rounded (round-to-nearest, ties-to-even) binary64 bit pattern of a rational —
what "`float(x)` agrees with exact arithmetic" means.  Overflow gives ±∞, underflow ±0 or a
subnormal.  The driver evaluates the SPEC column with this conversion (the Impl column keeps the
conversion symbolic and the harness evaluates it with `BigInt::to_f64` / `BigRational::to_f64`). -/
def ofRatRNE (q : Rat) : Nat :=
  if q = 0 then 0
  else if q < 0 then 2 ^ 63 + magRNE (-q)
  else magRNE q

/-! ### IEEE-754 arithmetic on bit patterns -/

/-- the canonical quiet NaN (all NaNs are one value for every observer of this model) -/
def NAN : Nat := 0x7FF8000000000000
/-- ±∞ -/
def INF (neg : Bool) : Nat := if neg then 0xFFF0000000000000 else 0x7FF0000000000000
/-- ±0 -/
def ZERO (neg : Bool) : Nat := if neg then 0x8000000000000000 else 0
/-- the sign bit -/
def signBit (b : Nat) : Bool := b / 2 ^ 63 % 2 == 1

/-- round an exact result once; an exact zero takes the sign IEEE-754 prescribes for the operation -/
def roundSigned (q : Rat) (zeroNeg : Bool) : Nat := if q = 0 then ZERO zeroNeg else ofRatRNE q

/-- `-x`: flip the sign bit (also of NaN and zero) -/
def neg (a : Nat) : Nat := if signBit a then a - 2 ^ 63 else a + 2 ^ 63

/-- `x + y`.  An exact zero sum is `-0` only when both operands are negative (i.e. both `-0`),
otherwise `+0` (round-to-nearest mode); `∞ + -∞` is NaN -/
def add (a b : Nat) : Nat :=
  match viewBits a, viewBits b with
  | .nan, _ => NAN
  | _, .nan => NAN
  | .inf s, .inf t => if s = t then INF s else NAN
  | .inf s, .fin _ => INF s
  | .fin _, .inf t => INF t
  | .fin x, .fin y => roundSigned (x + y) (signBit a && signBit b)

/-- `x - y = x + (-y)` (exactly, including the sign of a zero result) -/
def sub (a b : Nat) : Nat := add a (neg b)

/-- `x * y`: the sign of every result (zeros and infinities included) is the xor of the signs;
`0 * ∞` is NaN -/
def mul (a b : Nat) : Nat :=
  let s := signBit a != signBit b
  match viewBits a, viewBits b with
  | .nan, _ => NAN
  | _, .nan => NAN
  | .inf _, .inf _ => INF s
  | .inf _, .fin y => if y = 0 then NAN else INF s
  | .fin x, .inf _ => if x = 0 then NAN else INF s
  | .fin x, .fin y => roundSigned (x * y) s

/-- `x / y`: `0/0` and `∞/∞` are NaN, `x/0` is ±∞, `x/∞` is ±0 -/
def div (a b : Nat) : Nat :=
  let s := signBit a != signBit b
  match viewBits a, viewBits b with
  | .nan, _ => NAN
  | _, .nan => NAN
  | .inf _, .inf _ => NAN
  | .inf _, .fin _ => INF s
  | .fin _, .inf _ => ZERO s
  | .fin x, .fin y => if y = 0 then (if x = 0 then NAN else INF s) else roundSigned (x / y) s

/-- rounding of a rational toward zero -/
def truncQ (q : Rat) : Int := if 0 ≤ q then q.floor else q.ceil

/-- `x % y` (C `fmod`): `x − y·trunc(x/y)`, which is exactly representable (the rounding below
never rounds; not proved here, checked differentially); a zero result has the sign of `x`;
`x % ±∞ = x`; `±∞ % y` and `x % 0` are NaN -/
def rem (a b : Nat) : Nat :=
  match viewBits a, viewBits b with
  | .nan, _ => NAN
  | _, .nan => NAN
  | .inf _, _ => NAN
  | .fin _, .inf _ => a
  | .fin x, .fin y =>
    if y = 0 then NAN else roundSigned (x - y * ((truncQ (x / y) : Int) : Rat)) (signBit a)

/-- `f64::trunc` (exact; keeps the sign of a zero result) -/
def trunc (a : Nat) : Nat :=
  match viewBits a with
  | .fin x => roundSigned ((truncQ x : Int) : Rat) (signBit a)
  | _ => a

/-- `f64::abs`: clear the sign bit -/
def abs (a : Nat) : Nat := if signBit a then a - 2 ^ 63 else a

/-- `a < 0.0` (false for NaN and for −0) -/
def ltZero (a : Nat) : Bool :=
  match viewBits a with
  | .fin x => decide (x < 0)
  | .inf s => s
  | .nan => false

/-- `a > 0.0` -/
def gtZero (a : Nat) : Bool :=
  match viewBits a with
  | .fin x => decide (0 < x)
  | .inf s => !s
  | .nan => false

/-- the float 1.0 -/
def ONE : Nat := 0x3FF0000000000000

/-- `f64::div_euclid` as the standard library computes it:
`q = (x / y).trunc(); if x % y < 0.0 { if y > 0.0 { q − 1.0 } else { q + 1.0 } } else { q }` —
every step an IEEE operation of this file -/
def divEuclid (a b : Nat) : Nat :=
  let q := trunc (div a b)
  if ltZero (rem a b) then (if gtZero b then sub q ONE else add q ONE) else q

/-- `f64::rem_euclid`: `r = x % y; if r < 0.0 { r + y.abs() } else { r }` -/
def remEuclid (a b : Nat) : Nat :=
  let r := rem a b
  if ltZero r then add r (abs b) else r

/-- the tower's float structure with IEEE-754 `+ - * / %`, `div_euclid`, `rem_euclid`, unary minus,
the correctly rounded conversions and the IEEE decoding; everything else (powers, complex
arithmetic) is taken from `R` (stays abstract) -/
def ieeeOps {C : Type} (R : FloatOps Nat C) : FloatOps Nat C :=
  { R with
    view := viewBits
    ofInt := fun i => ofRatRNE (i : Rat)
    ofRat := ofRatRNE
    posInf := INF false
    add := add
    sub := sub
    mul := mul
    div := div
    rem := rem
    divEuclid := divEuclid
    remEuclid := remEuclid
    neg := neg }

end Noulith.F64
