/-
Impl model of the Noulith parser: `/repo/src/core.rs` `Parser` (`atom`, `operand`,
`attach_symbol_accesses`, `operator`, `chain`, `logic_and`, `single`, `annotated_comma_separated`,
`annotated_pattern`, `assignment`, `parameter_list`, `expression`, `for_iteration`), `to_lvalue`,
`to_lvalue_no_literals`, `parse_format_string` (on top of the brace scanner of Impl/Lex.lean) and
`parse`.  It is a recursive-descent recogniser over the token list produced by `Lex.lex`, written
with the same control flow as the Rust (same order of `peek`/`advance`/`require`, every `while`/`loop`
a recursive function), producing a *coarse* syntax tree: exactly the structure that `to_lvalue`,
`any_literals`, the `Call(_, _, Juxtapose | Bang)` test of `assignment` and the "is it an
identifier" test of `chain` inspect — everything else is `PExpr.other`.  So the model decides *whether*
a token list parses (and where each sub-parser stops), not the full tree.

Recursion is on a fuel argument (every function of the mutual block passes `n` to the ones it
calls): the functions are total by construction; `Res.oof` is the out-of-fuel answer.  Core Lean only.
-/
import NoulithModel.Impl.Lex

namespace Noulith.Parse
open Noulith.Lex

inductive CallSyntax where
  | paren | juxtapose | bang
  deriving Repr, DecidableEq, Inhabited

/-- the part of `Expr` that later parser code looks at -/
inductive PExpr where
  | litOk          -- Null, IntLit64, IntLit, StringLit, BytesLit: literals `to_lvalue` accepts
  | other          -- every expression form `to_lvalue` rejects and nothing else inspects
  | ident
  | underscore
  | internalPeek
  | literally
  | index (e : PExpr)          -- Index(e, _)
  | symbolAccess (e : PExpr)   -- SymbolAccess(e, _)
  | annotation (e : PExpr)     -- Annotation(e, _)
  | assignF (anyLit : Bool)    -- Assign(false, lvalue, _): the lvalue's `any_literals()`
  | splat (e : PExpr)
  | and (a b : PExpr)
  | or (a b : PExpr)
  | commaSeq (es : List PExpr)
  | list (es : List PExpr)
  | call (f : PExpr) (args : List PExpr) (sx : CallSyntax)
  | chain (lhs : PExpr) (operands : List PExpr)
  deriving Repr, Inhabited

/-- what `to_lvalue` returns, as far as anyone looks: is it an `IndexedIdent`, and `any_literals()` -/
structure LvInfo where
  indexed : Bool
  anyLit : Bool
  deriving Repr, DecidableEq, Inhabited

mutual
/-- `to_lvalue` (`none` = `Err`) -/
def toLvalue : PExpr → Option LvInfo
  | .litOk => some ⟨false, true⟩
  | .other => none
  | .ident => some ⟨true, false⟩
  | .underscore => some ⟨false, false⟩
  | .internalPeek => some ⟨true, false⟩
  | .literally => some ⟨false, true⟩
  | .index e =>
    match toLvalue e with
    | some ⟨true, _⟩ => some ⟨true, false⟩
    | _ => none
  | .symbolAccess e =>
    match toLvalue e with
    | some ⟨true, _⟩ => some ⟨true, false⟩
    | _ => none
  | .annotation e => (toLvalue e).map fun i => ⟨false, i.anyLit⟩
  | .assignF al => some ⟨false, al⟩
  | .splat e => (toLvalue e).map fun i => ⟨false, i.anyLit⟩
  | .and a b =>
    match toLvalue a, toLvalue b with
    | some x, some y => some ⟨false, x.anyLit || y.anyLit⟩
    | _, _ => none
  | .or a b =>
    match toLvalue a, toLvalue b with
    | some x, some y => some ⟨false, x.anyLit || y.anyLit⟩
    | _, _ => none
  | .commaSeq es => (toLvalueList es).map fun al => ⟨false, al⟩
  | .list es => (toLvalueList es).map fun al => ⟨false, al⟩
  | .call _ args _ => (toLvalueList args).map fun al => ⟨false, al⟩
  | .chain lhs ops =>
    match toLvalue lhs, toLvalueList ops with
    | some x, some al => some ⟨false, x.anyLit || al⟩
    | _, _ => none
/-- all of a list convert; the result is whether any has literals -/
def toLvalueList : List PExpr → Option Bool
  | [] => some false
  | e :: es =>
    match toLvalue e, toLvalueList es with
    | some x, some al => some (x.anyLit || al)
    | _, _ => none
end

/-- `matches!(expr.expr, Expr::Ident(_))` -/
def PExpr.isIdent : PExpr → Bool
  | .ident => true
  | _ => false

/-- `to_lvalue(e).is_ok()` -/
def lvalueOk (e : PExpr) : Bool := (toLvalue e).isSome
/-- `to_lvalue_no_literals(e).is_ok()` -/
def lvalueNoLitOk (e : PExpr) : Bool :=
  match toLvalue e with
  | some i => !i.anyLit
  | none => false

/-! ### the parser monad: remaining tokens in, `Ok(value)` + remaining tokens / `Err` / out of fuel out -/

inductive Res (α : Type) where
  | ok (a : α) (rest : List Token)
  | err
  | oof
  deriving Repr, Inhabited

def P (α : Type) := List Token → Res α

instance : Monad P where
  pure a := fun ts => .ok a ts
  bind m f := fun ts =>
    match m ts with
    | .ok a rest => f a rest
    | .err => .err
    | .oof => .oof

def P.fail {α} : P α := fun _ => .err
def P.outOfFuel {α} : P α := fun _ => .oof
/-- `self.peek()` -/
def peek : P (Option Token) := fun ts => .ok ts.head? ts
/-- the token after the next one -/
def advance : P Unit := fun ts => .ok () ts.tail
/-- `self.try_consume(&t).is_some()` -/
def tryConsume (t : Token) : P Bool := fun ts =>
  match ts with
  | t' :: rest => if t' = t then .ok true rest else .ok false ts
  | [] => .ok false ts
/-- `self.require(t, _)?` -/
def require (t : Token) : P Unit := fun ts =>
  match ts with
  | t' :: rest => if t' = t then .ok () rest else .err
  | [] => .err
def peekIs (t : Token) : P Bool := fun ts => .ok (ts.head? = some t) ts
def guardP (b : Bool) : P Unit := fun ts => if b then .ok () ts else .err
/-- run a parser for its effect on the token list only -/
def skip {α} (p : P α) : P Unit := do let _ ← p; pure ()

def isIdentTok : Option Token → Bool
  | some (.ident _) => true
  | _ => false

/-- `peek_hard_stopper` -/
def hardStopper : Option Token → Bool
  | some .rightParen => true | some .rightBracket => true | some .rightBrace => true
  | some .lambdaEnd => true | some .else => true | some .case => true | some .catch => true
  | some .into => true | none => true
  | _ => false
/-- `peek_csc_stopper` -/
def cscStopper (t : Option Token) : Bool :=
  hardStopper t || match t with
    | some .assign => true | some .doubleColon => true | some .semicolon => true
    | some .leftArrow => true | some .doubleLeftArrow => true | some .rightArrow => true
    | _ => false
/-- `peek_chain_stopper(allow_backtick)` -/
def chainStopper (allowBacktick : Bool) (t : Option Token) : Bool :=
  cscStopper t || match t with
    | some .comma => true | some .colon => true | some .and => true | some .or => true
    | some .coalesce => true | some .backtick => !allowBacktick
    | _ => false

/-- `try_consume_usize` / `try_consume_u8`: `some true` = consumed an integer that fits,
`none` = an integer that does not fit (`Err`), `some false` = the next token is not an integer -/
def tryConsumeBounded (bound : Nat) : P Bool := fun ts =>
  match ts with
  | .intLit i :: rest => if i ≤ bound then .ok true rest else .err
  | _ => .ok false ts
def USIZE_MAX : Nat := 18446744073709551615

/-- `attach_symbol_accesses`: `:: name` suffixes -/
def attachSymbolAccesses (e : PExpr) : List Token → Res PExpr
  | .doubleColon :: .ident _ :: rest => attachSymbolAccesses (.symbolAccess e) rest
  | .doubleColon :: _ => .err
  | ts => .ok e ts

/-- `while let Some(e) = self.try_consume(&Token::Break)` -/
def skipBreaks : List Token → List Token
  | .break :: rest => skipBreaks rest
  | ts => ts

/-- the rest of a `B[` literal after the first byte: `, byte` … with an optional trailing comma -/
def bytesTail : List Token → Res Unit
  | .comma :: .rightBracket :: rest => .ok () (.rightBracket :: rest)
  | .comma :: .intLit i :: rest => if i ≤ 255 then bytesTail rest else .err
  | .comma :: _ => .err
  | ts => .ok () ts

/-- `few(v)` is `Few::One` -/
def isOne {α} : List α → Bool
  | [_] => true
  | _ => false

mutual

/-- `Parser::atom` -/
def atom : Nat → P PExpr
  | 0 => P.outOfFuel
  | n + 1 => fun ts =>
    match ts with
    | [] => .err
    | t :: ts' =>
      match t with
      | .null => .ok .litOk ts'
      | .intLit _ => .ok .litOk ts'
      | .ratLit _ => .ok .other ts'
      | .floatLit _ => .ok .other ts'
      | .imagLit _ => .ok .other ts'
      | .stringLit _ => .ok .litOk ts'
      | .bytesLit _ => .ok .litOk ts'
      | .formatString s =>
        match formatString n s with
        | .ok true _ => .ok .other ts'
        | .ok false _ => .err
        | .err => .err
        | .oof => .oof
      | .underscore => .ok .underscore ts'
      | .ident _ => .ok .ident ts'
      | .doubleColon =>
        match ts' with
        | .ident _ :: r => .ok .other r
        | _ => .err
      | .ellipsis => (do let s ← single n; pure (PExpr.splat s)) ts'
      | .consume => (do let s ← single n; guardP (lvalueNoLitOk s); pure PExpr.other) ts'
      | .pop => (do let s ← single n; guardP (lvalueNoLitOk s); pure PExpr.other) ts'
      | .remove => (do let s ← single n; guardP (lvalueNoLitOk s); pure PExpr.other) ts'
      | .break =>
        let ts2 := skipBreaks ts'
        match ts2 with
        | .continue :: r => .ok .other r
        | _ =>
          if cscStopper ts2.head? then .ok .other ts2
          else (do skip (single n); pure PExpr.other) ts2
      | .throw => (do skip (single n); pure PExpr.other) ts'
      | .continue => .ok .other ts'
      | .return =>
        if cscStopper ts'.head? then .ok .other ts'
        else (do skip (single n); pure PExpr.other) ts'
      | .literally => (do skip (single n); pure PExpr.literally) ts'
      | .freeze => (do skip (single n); pure PExpr.other) ts'
      | .import => (do skip (single n); pure PExpr.other) ts'
      | .leftParen => (do let e ← expression n; require .rightParen; pure e) ts'
      | .leftBracket =>
        (do
          if (← tryConsume .rightBracket) then pure (PExpr.list [])
          else
            let (exs, _) ← acs n false
            require .rightBracket
            pure (PExpr.list exs)) ts'
      | .bLeftBracket =>
        (do
          if (← tryConsume .rightBracket) then pure PExpr.litOk
          else if (← tryConsumeBounded 255) then
            (show P Unit from bytesTail)
            require .rightBracket
            pure PExpr.litOk
          else P.fail) ts'
      | .leftBrace =>
        (do
          if (← tryConsume .colon) then
            skip (single n)
            if !cscStopper (← peek) then require .comma
          dictLoop n
          require .rightBrace
          pure PExpr.other) ts'
      | .rightParen => .err
      | .lambda =>
        (do
          if (← tryConsumeBounded USIZE_MAX) then pure ()
          else if (← peekIs .switch) then
            advance
            let k ← switchCases n
            guardP (k > 0)
          else
            paramList n
            skip (single n)
          if (← peekIs .lambdaEnd) then advance
          pure PExpr.other) ts'
      | .if =>
        (do
          require .leftParen
          skip (expression n)
          require .rightParen
          skip (assignment n)
          if (← tryConsume .else) then
            skip (assignment n)
          pure PExpr.other) ts'
      | .for =>
        (do
          require .leftParen
          forIterations n
          if (← tryConsume .yield) then
            skip (single n)
            if (← tryConsume .colon) then
              skip (single n)
            if (← tryConsume .into) then
              skip (single n)
          else
            skip (assignment n)
          pure PExpr.other) ts'
      | .while =>
        (do
          require .leftParen
          skip (expression n)
          require .rightParen
          skip (assignment n)
          pure PExpr.other) ts'
      | .switch =>
        (do
          require .leftParen
          skip (expression n)
          require .rightParen
          let k ← switchCases n
          guardP (k > 0)
          pure PExpr.other) ts'
      | .try =>
        (do
          skip (expression n)
          require .catch
          let pat ← annotatedPattern n true
          guardP (lvalueOk pat)
          require .rightArrow
          skip (single n)
          pure PExpr.other) ts'
      | .struct =>
        (do
          guardP (isIdentTok (← peek))
          advance
          require .leftParen
          if isIdentTok (← peek) then
            advance
            if (← tryConsume .assign) then
              skip (single n)
            structFields n
          require .rightParen
          pure PExpr.other) ts'
      | .internalFrame => (do skip (single n); pure PExpr.other) ts'
      | .internalPush => (do skip (single n); pure PExpr.other) ts'
      | .internalPop => .ok .other ts'
      | .internalPeek =>
        (do
          if (← tryConsumeBounded USIZE_MAX) then pure PExpr.internalPeek else P.fail) ts'
      | .internalPeekN _ => .ok .internalPeek ts'
      | .internalWhile =>
        (do
          require .leftParen
          skip (single n)
          require .rightParen
          skip (single n)
          pure PExpr.other) ts'
      | .internalFor =>
        (do
          require .leftParen
          skip (single n)
          require .rightParen
          skip (assignment n)
          pure PExpr.other) ts'
      | .internalCall =>
        (do
          if (← tryConsumeBounded USIZE_MAX) then
            skip (single n)
            pure PExpr.other
          else P.fail) ts'
      | .internalLambda =>
        (do
          if (← peekIs .leftBracket) then
            advance
            skip (acs n false)
            require .rightBracket
          if (← tryConsumeBounded USIZE_MAX) then
            skip (single n)
            pure PExpr.other
          else if (← peekIs .ellipsis) then
            advance
            skip (single n)
            pure PExpr.other
          else P.fail) ts'
      | _ => .err

/-- the entries of a dict literal: `while !self.peek_csc_stopper() { … }` -/
def dictLoop : Nat → P Unit
  | 0 => P.outOfFuel
  | n + 1 => do
    if cscStopper (← peek) then pure ()
    else
      skip (single n)
      if (← tryConsume .colon) then
        skip (single n)
      if !cscStopper (← peek) then require .comma
      dictLoop n

/-- `while let Some(_) = self.try_consume(&Token::Case) { … }`: the number of cases parsed -/
def switchCases : Nat → P Nat
  | 0 => P.outOfFuel
  | n + 1 => do
    if (← tryConsume .case) then
      let pat ← annotatedPattern n true
      guardP (lvalueOk pat)
      require .rightArrow
      skip (single n)
      let k ← switchCases n
      pure (k + 1)
    else pure 0

/-- `while self.try_consume(&Token::Comma).is_some() { field [= default] }` of `struct` -/
def structFields : Nat → P Unit
  | 0 => P.outOfFuel
  | n + 1 => do
    if (← tryConsume .comma) then
      guardP (isIdentTok (← peek))
      advance
      if (← tryConsume .assign) then
        skip (single n)
      structFields n
    else pure ()

/-- the iteration clauses of `for (` up to and including the `)` -/
def forIterations : Nat → P Unit
  | 0 => P.outOfFuel
  | n + 1 => do
    forIteration n
    match (← peek) with
    | some .rightParen => advance
    | some .semicolon =>
      advance
      forIterations n
    | _ => P.fail

/-- `for_iteration` -/
def forIteration : Nat → P Unit
  | 0 => P.outOfFuel
  | n + 1 => do
    if (← tryConsume .if) then
      skip (single n)
    else
      let pat0 ← annotatedPattern n true
      guardP (lvalueNoLitOk pat0)
      match (← peek) with
      | some .leftArrow => advance
      | some .doubleLeftArrow => advance
      | some .assign => advance
      | _ => P.fail
      skip (annotatedPattern n false)

/-- `operand`: an atom followed by call / index / update / bang postfixes -/
def operand : Nat → P PExpr
  | 0 => P.outOfFuel
  | n + 1 => do
    let cur ← atom n
    operandLoop n cur

def operandLoop : Nat → PExpr → P PExpr
  | 0, _ => P.outOfFuel
  | n + 1, cur0 => do
    let cur ← (show P PExpr from attachSymbolAccesses cur0)
    match (← peek) with
    | some .leftParen =>
      advance
      if (← tryConsume .rightParen) then operandLoop n (.call cur [] .paren)
      else
        let (cs, _) ← acs n false
        require .rightParen
        operandLoop n (.call cur cs .paren)
    | some .leftBracket =>
      advance
      if (← tryConsume .colon) then
        if (← tryConsume .rightBracket) then operandLoop n (.index cur)
        else
          skip (single n)
          require .rightBracket
          operandLoop n (.index cur)
      else
        skip (single n)
        if (← tryConsume .colon) then
          if (← tryConsume .rightBracket) then operandLoop n (.index cur)
          else
            skip (single n)
            require .rightBracket
            operandLoop n (.index cur)
        else
          require .rightBracket
          operandLoop n (.index cur)
    | some .leftBrace =>
      advance
      updateLoop n
      require .rightBrace
      operandLoop n .other
    | some .bang =>
      advance
      if cscStopper (← peek) then operandLoop n (.call cur [] .bang)
      else
        let (cs, _) ← acs n false
        operandLoop n (.call cur cs .bang)
    | _ => pure cur

/-- `while !self.peek_hard_stopper() { k = v [,] }` of the update postfix -/
def updateLoop : Nat → P Unit
  | 0 => P.outOfFuel
  | n + 1 => do
    if hardStopper (← peek) then pure ()
    else
      skip (single n)
      require .assign
      skip (single n)
      if (← tryConsume .comma) then updateLoop n else pure ()

/-- `operator(allow_backtick)`: (is it usable as an operator, the expression) -/
def operator : Nat → Bool → P (Bool × PExpr)
  | 0, _ => P.outOfFuel
  | n + 1, allowBacktick => do
    if allowBacktick && (← peekIs .backtick) then
      advance
      let ret ← chain n false
      require .backtick
      pure (true, ret)
    else
      let e ← atom n
      pure (e.isIdent, e)

/-- `chain(allow_backtick)` -/
def chain : Nat → Bool → P PExpr
  | 0, _ => P.outOfFuel
  | n + 1, ab => do
    let op1 ← operand n
    if chainStopper ab (← peek) then pure op1
    else
      let (isOp, second0) ← operator n ab
      let second ← (show P PExpr from attachSymbolAccesses second0)
      if isOp then
        if (← tryConsume .bang) then
          let s ← single n
          if (← peekIs .comma) then P.fail else pure (PExpr.chain op1 [s])
        else if chainStopper ab (← peek) then pure (PExpr.call op1 [second] .juxtapose)
        else
          let o ← operand n
          let ops ← chainLoop n ab
          pure (PExpr.chain op1 (o :: ops))
      else
        if chainStopper ab (← peek) then pure (PExpr.call op1 [second] .juxtapose) else P.fail

/-- the `while` loop of `chain`: further (operator, operand) pairs; returns the operands -/
def chainLoop : Nat → Bool → P (List PExpr)
  | 0, _ => P.outOfFuel
  | n + 1, ab => do
    let t ← peek
    if isIdentTok t || (t = some .backtick && ab) then
      let (isOp, _) ← operator n ab
      guardP isOp
      let o ← (do if (← tryConsume .bang) then single n else operand n)
      let rest ← chainLoop n ab
      pure (o :: rest)
    else pure []

/-- `logic_and` -/
def logicAnd : Nat → P PExpr
  | 0 => P.outOfFuel
  | n + 1 => do
    let op1 ← chain n true
    logicAndLoop n op1

def logicAndLoop : Nat → PExpr → P PExpr
  | 0, _ => P.outOfFuel
  | n + 1, op1 => do
    if (← tryConsume .and) then
      let rhs ← chain n true
      logicAndLoop n (.and op1 rhs)
    else pure op1

/-- `single`: one expression, no `:` `,` `=` -/
def single : Nat → P PExpr
  | 0 => P.outOfFuel
  | n + 1 => do
    let op1 ← logicAnd n
    singleLoop n op1

def singleLoop : Nat → PExpr → P PExpr
  | 0, _ => P.outOfFuel
  | n + 1, op1 => do
    match (← peek) with
    | some .or =>
      advance
      let rhs ← logicAnd n
      singleLoop n (.or op1 rhs)
    | some .coalesce =>
      advance
      skip (logicAnd n)
      singleLoop n .other
    | _ => pure op1

/-- `annotated_comma_separated(annotations, _)`: the expressions and whether a comma was seen -/
def acs : Nat → Bool → P (List PExpr × Bool)
  | 0, _ => P.outOfFuel
  | n + 1, annotations => do
    let first ← single n
    acsLoop n annotations [] [first] false

/-- the `loop` of `annotated_comma_separated` with its three mutable variables -/
def acsLoop : Nat → Bool → List PExpr → List PExpr → Bool → P (List PExpr × Bool)
  | 0, _, _, _, _ => P.outOfFuel
  | n + 1, annotations, annotated, pending, comma => do
    match (← peek) with
    | some .comma =>
      advance
      let t ← peek
      if cscStopper t then pure (annotated ++ pending, true)
      else if t = some .colon then acsLoop n annotations annotated pending true
      else
        let e ← single n
        acsLoop n annotations annotated (pending ++ [e]) true
    | some .colon =>
      guardP annotations
      advance
      guardP (!pending.isEmpty)
      if !cscStopper (← peek) then
        skip (single n)
      acsLoop n annotations (annotated ++ pending.map .annotation) [] comma
    | _ => pure (annotated ++ pending, comma)

/-- `annotated_pattern` -/
def annotatedPattern : Nat → Bool → P PExpr
  | 0, _ => P.outOfFuel
  | n + 1, annotations => do
    let (exs, comma) ← acs n annotations
    match exs, comma with
    | [], _ => P.fail
    | [ex], false => pure ex
    | [ex], true => pure (PExpr.commaSeq [ex])
    | exs, _ => pure (PExpr.commaSeq exs)

/-- `assignment` -/
def assignment : Nat → P PExpr
  | 0 => P.outOfFuel
  | n + 1 => do
    if (← tryConsume .swap) then
      let a ← single n
      guardP (lvalueNoLitOk a)
      require .comma
      let b ← single n
      guardP (lvalueNoLitOk b)
      pure PExpr.other
    else
      let every ← tryConsume .every
      let pat ← annotatedPattern n true
      if (← peekIs .assign) then
        advance
        match pat with
        | .call lhs op .juxtapose =>
          guardP (isOne op)
          skip (annotatedPattern n false)
          guardP (lvalueNoLitOk lhs)
          pure PExpr.other
        | .call lhs op .bang =>
          guardP (isOne op)
          skip (annotatedPattern n false)
          guardP (lvalueNoLitOk lhs)
          pure PExpr.other
        | _ =>
          skip (annotatedPattern n false)
          match toLvalue pat with
          | some i => pure (if every then PExpr.other else PExpr.assignF i.anyLit)
          | none => P.fail
      else if every then P.fail
      else pure pat

/-- `parameter_list`: the parameters of a lambda up to and including `->` -/
def paramList : Nat → P Unit
  | 0 => P.outOfFuel
  | n + 1 => do
    if (← tryConsume .rightArrow) then pure () else paramLoop n

def paramLoop : Nat → P Unit
  | 0 => P.outOfFuel
  | n + 1 => do
    let core0 ← single n
    let core ← (do
      if (← tryConsume .colon) then
        skip (single n)
        pure (PExpr.annotation core0)
      else pure core0)
    guardP (lvalueNoLitOk core)
    if (← tryConsume .assign) then
      skip (single n)
    match (← peek) with
    | some .comma =>
      advance
      paramLoop n
    | some .rightArrow => advance
    | _ => P.fail

/-- `expression`: assignments separated by `;` -/
def expression : Nat → P PExpr
  | 0 => P.outOfFuel
  | n + 1 => do
    let first ← assignment n
    let (more, ending) ← exprLoop n
    pure (if !more && !ending then first else PExpr.other)

/-- the `while` of `expression`: (did it parse further assignments, did it end with `;`) -/
def exprLoop : Nat → P (Bool × Bool)
  | 0 => P.outOfFuel
  | n + 1 => do
    if (← tryConsume .semicolon) then
      if hardStopper (← peek) then pure (false, true)
      else
        skip (assignment n)
        let (_, ending) ← exprLoop n
        pure (true, ending)
    else pure (false, false)

/-- `parse_format_string(s, _).is_ok()`: the brace scanner, then every embedded expression must
parse completely -/
def formatString : Nat → List Char → Res Bool
  | 0, _ => .oof
  | n + 1, s =>
    match fmtScan s with
    | .error .lexPanic => .err
    | .error _ => .ok false []
    | .ok parts => formatParts n parts

def formatParts : Nat → List FmtPart → Res Bool
  | 0, _ => .oof
  | n + 1, parts =>
    match parts with
    | [] => .ok true []
    | .lit _ :: rest => formatParts n rest
    | .expr toks _ :: rest =>
      match expression n toks with
      | .ok _ [] => formatParts n rest
      | .ok _ _ => .ok false []
      | .err => .ok false []
      | .oof => .oof

end

/-- the three outcomes of `parse` (core.rs): `Ok(_)`, `Err(_)`, or the model ran out of fuel -/
inductive ParseOutcome where
  | ok | err | outOfFuel
  deriving Repr, DecidableEq, Inhabited

/-- `parse` on a token list that is already stripped of comments -/
def parseTokens (fuel : Nat) (tokens : List Token) : ParseOutcome :=
  if tokens.isEmpty then .ok
  else match expression fuel tokens with
    | .ok _ [] => .ok
    | .ok _ _ => .err
    | .err => .err
    | .oof => .outOfFuel

/-- fuel that is meant to be always enough (see `parse_terminates_statement` in Theorems/C15.lean):
the call depth of the recursive descent is bounded by a constant per token, and every token —
also those of expressions embedded in format strings, which are lexed and parsed recursively —
spans at least one character of the source -/
def fuelFor (code : List Char) : Nat := 32 * code.length + 64

/-- `parse(code)` -/
def parse (code : List Char) : ParseOutcome :=
  parseTokens (fuelFor code) (stripComments (lex code)).1

end Noulith.Parse
