/-
Impl model of the dictionary operations (C09): `HashMap<ObjKey, Obj>` as an association list used
only through a key-hit relation `hit query stored`.

* `DictOps keyHit` (the Impl) — `keyHit` is what the Rust `HashMap` does with `ObjKey`'s hand-written
  `Hash` and `Eq`: an entry is found iff the hasher write sequences are equal AND `total_eq_of_keys`
  holds (`ObjCmp.lean`).  Unequal write sequences are modelled as different buckets — the worst
  case, which is also what SipHash does in practice.
* `DictOps OrdSpec.keyEq` (the Spec, `Spec/DictSpec.lean`) — the same operations on a finite map
  keyed by `≈`-classes, no hashing.

Transcribed: `to_key`/`check_if_valid_key`; `Expr::Dict` (literal construction); `index` /
`safe_index` Dict arms; `set_index` Dict arm; `Expr::OpAssign` on a dict slot (`eval_lvalue_as_obj`,
`drop_lhs` = insert null, operator, `assign`); `obj_in`; `Expr::Remove` / `try_remove_index`; the
registrations of `|.`, `-.`/`discard`, `||`, `&&`, `--`, `||+`, `insert`/`|..`, `set`, `dict`, `keys`,
`values`, `items`, `len`, `unique`, `frequencies`, `count_distinct`, `group_all`/`classify`;
`Func::Memoized`.  `HashMap::insert` on a present key replaces the VALUE and keeps the OLD key.
Core Lean only.
-/
import NoulithModel.Impl.ObjCmp

namespace Noulith

abbrev Entries := List (Val × Val)

namespace DictOps
variable (hit : Val → Val → Bool)   -- `hit query stored`

/-- `HashMap::get` (entry) -/
def find? (kvs : Entries) (k : Val) : Option (Val × Val) := kvs.find? fun e => hit k e.1
def lookup (kvs : Entries) (k : Val) : Option Val := (find? hit kvs k).map (·.2)
def contains (kvs : Entries) (k : Val) : Bool := (find? hit kvs k).isSome

/-- `HashMap::insert`: a present key keeps the stored key and gets the new value -/
def insert : Entries → Val → Val → Entries
  | [], k, v => [(k, v)]
  | e :: rest, k, v => if hit k e.1 then (e.1, v) :: rest else e :: insert rest k v

/-- `HashMap::remove` -/
def erase : Entries → Val → Entries
  | [], _ => []
  | e :: rest, k => if hit k e.1 then rest else e :: erase rest k

/-- `to_key` / `check_if_valid_key` (streams are not modelled) -/
def toKey (v : Val) : Out Val := if validKey v then .ok v else .throw

def insertAll (kvs : Entries) : Entries → Entries
  | [] => kvs
  | (k, v) :: rest => insertAll (insert hit kvs k v) rest

/-- `Expr::Dict`: entries inserted left to right; an invalid key raises -/
def literal (dflt : Option Val) (pairs : Entries) : Out Val :=
  if pairs.all (fun e => validKey e.1) then .ok (.dict (insertAll hit [] pairs) dflt) else .throw

/-- `index` Dict arm: the value, else the default, else a key error -/
def index (d : Val) (k : Val) : Out Val :=
  match d with
  | .dict kvs dflt =>
    (toKey k).bind fun k =>
      match lookup hit kvs k, dflt with
      | some v, _ => .ok v
      | none, some dv => .ok dv
      | none, none => .throw
  | _ => .throw

/-- `safe_index` (`!?`) Dict arm -/
def safeIndex (d : Val) (k : Val) : Out Val :=
  match d with
  | .dict kvs dflt =>
    (toKey k).bind fun k =>
      match lookup hit kvs k, dflt with
      | some v, _ => .ok v
      | none, some dv => .ok dv
      | none, none => .ok .null
  | _ => .throw

/-- `set_index` Dict arm (`d[k] = v`) -/
def setIndex (d : Val) (k v : Val) : Out Val :=
  match d with
  | .dict kvs dflt => (toKey k).map fun k => .dict (insert hit kvs k v) dflt
  | _ => .throw

/-- the combining functions the harness uses with `d[k] f= v` -/
def combine (f : String) (a b : Val) : Out Val :=
  match f with
  | "pair" => .ok (.list [a, b])
  | "right" => .ok b
  | "left" => .ok a
  | _ => .throw             -- "fail": the operator raises

/-- `d[k] f= v`: read the slot (value, default or key error), overwrite it with null (`drop_lhs`),
run the operator, store the result.  If the operator raises the slot stays null — and exists.
Result: `[new dict, 1]`, or `[dict after the failed attempt, 0]` when the statement raised. -/
def opAssign (d : Val) (k : Val) (f : String) (v : Val) : Out Val :=
  match d with
  | .dict kvs dflt =>
    match index hit d k with
    | .ok lhs =>
      let kvs1 := insert hit kvs k .null
      match combine f lhs v with
      | .ok c => .ok (.list [.dict (insert hit kvs1 k c) dflt, ofBool true])
      | _ => .ok (.list [.dict kvs1 dflt, ofBool false])
    | _ => .ok (.list [d, ofBool false])
  | _ => .throw

/-- a right-hand side that READS the dictionary being updated: `d[k2]`, `d !? k2`, `k2 in d`,
`len(d)`, `d` itself -/
def rhsEval (d : Val) (form : String) (k2 : Val) : Out Val :=
  match form with
  | "get" => index hit d k2
  | "sget" => safeIndex hit d k2
  | "self" => .ok d
  | "len" => match d with
    | .dict kvs _ => .ok (.num (.int (.small kvs.length)))
    | _ => .throw
  | "in" => match d with
    | .dict kvs _ => (toKey k2).map fun k => ofBool (contains hit kvs k)
    | _ => .throw
  | _ => .throw

/-- `d[k] f= <rhs reading d>`: the old left-hand value is read, THEN the right-hand side is
evaluated against the dictionary as it still is (the slot keeps its value), only then is the slot
overwritten with null, the operator run and the result stored.  A raising read or right-hand side
leaves the dictionary untouched. -/
def opAssignRhs (d : Val) (k : Val) (f : String) (form : String) (k2 : Val) : Out Val :=
  match index hit d k with
  | .ok _ =>
    match rhsEval hit d form k2 with
    | .ok v => opAssign hit d k f v
    | _ => .ok (.list [d, ofBool false])
  | _ => match d with
    | .dict _ _ => .ok (.list [d, ofBool false])
    | _ => .throw

/-- `obj_in` with a dict on the right -/
def isIn (k : Val) (d : Val) : Out Val :=
  match d with
  | .dict kvs _ => (toKey k).map fun k => ofBool (contains hit kvs k)
  | _ => .throw

/-- `remove d[k]`: `[new dict, removed value]`, key error if absent -/
def remove (d : Val) (k : Val) : Out Val :=
  match d with
  | .dict kvs dflt =>
    (toKey k).bind fun k =>
      match lookup hit kvs k with
      | some v => .ok (.list [.dict (erase hit kvs k) dflt, v])
      | none => .throw
  | _ => .throw

/-- `|.` -/
def addKey (d : Val) (k : Val) : Out Val := setIndex hit d k .null
/-- `-.` / `discard` -/
def delKey (d : Val) (k : Val) : Out Val :=
  match d with
  | .dict kvs dflt => (toKey k).map fun k => .dict (erase hit kvs k) dflt
  | _ => .throw

/-- `||`: `a.extend(b.drain())`, the left default survives -/
def union (a b : Val) : Out Val :=
  match a, b with
  | .dict x d, .dict y _ => .ok (.dict (insertAll hit x y) d)
  | _, _ => .throw
/-- `&&`: `a.retain(|k, _| b.contains_key(k))` -/
def inter (a b : Val) : Out Val :=
  match a, b with
  | .dict x d, .dict y _ => .ok (.dict (x.filter fun e => contains hit y e.1) d)
  | _, _ => .throw
/-- `--` -/
def diff (a b : Val) : Out Val :=
  match a, b with
  | .dict x d, .dict y _ => .ok (.dict (x.filter fun e => !contains hit y e.1) d)
  | _, _ => .throw

/-- `+` as `||+` needs it: exact integers only (other values are outside the modelled fragment
and raise) -/
def addVals (a b : Val) : Out Val :=
  match a, b with
  | .num (.int x), .num (.int y) => .ok (.num (.int (NInt.add x y)))
  | _, _ => .throw

def unionAddLoop : Entries → Entries → Out Entries
  | x, [] => .ok x
  | x, (k, v) :: rest =>
    match lookup hit x k with
    | none => unionAddLoop (insert hit x k v) rest
    | some old =>
      match addVals old v with
      | .ok s => unionAddLoop (insert hit x k s) rest
      | _ => .throw
/-- `||+` -/
def unionAdd (a b : Val) : Out Val :=
  match a, b with
  | .dict x d, .dict y _ => (unionAddLoop hit x y).map fun r => .dict r d
  | _, _ => .throw

/-- `insert` / `|..` with a `[key, value]` pair -/
def insertPair (d : Val) (p : Val) : Out Val :=
  match p with
  | .list [k, v] => setIndex hit d k v
  | _ => .throw

/-- `set(seq)` -/
def mkSet (xs : List Val) : Out Val :=
  if xs.all validKey then .ok (.dict (insertAll hit [] (xs.map fun x => (x, .null))) none) else .throw

def pairsOf : List Val → Option Entries
  | [] => some []
  | .list [k, v] :: rest => (pairsOf rest).map fun r => (k, v) :: r
  | _ => none
/-- `dict(seq of pairs)` -/
def mkDict (xs : List Val) : Out Val :=
  match pairsOf xs with
  | some ps => literal hit none ps
  | none => .throw

def keys : Val → Out Val
  | .dict kvs _ => .ok (.list (kvs.map (·.1)))
  | _ => .throw
def values : Val → Out Val
  | .dict kvs _ => .ok (.list (kvs.map (·.2)))
  | _ => .throw
def items : Val → Out Val
  | .dict kvs _ => .ok (.list (kvs.map fun e => .list [e.1, e.2]))
  | _ => .throw
def len : Val → Out Val
  | .dict kvs _ => .ok (.num (.int (.small kvs.length)))
  | _ => .throw

/-- `uniqued`: keep the first representative of every class -/
def uniqueLoop : Entries → List Val → List Val
  | _, [] => []
  | seen, x :: rest =>
    if contains hit seen x then uniqueLoop seen rest else x :: uniqueLoop (insert hit seen x .null) rest
def unique (xs : List Val) : Out Val :=
  if xs.all validKey then .ok (.list (uniqueLoop hit [] xs)) else .throw

def countOf : Option Val → Int
  | some (.num (.int n)) => n.val
  | _ => 0
def freqLoop : Entries → List Val → Entries
  | acc, [] => acc
  | acc, x :: rest => freqLoop (insert hit acc x (.num (.int (.small (countOf (lookup hit acc x) + 1))))) rest
/-- `frequencies` -/
def frequencies (xs : List Val) : Out Val :=
  if xs.all validKey then .ok (.dict (freqLoop hit [] xs) (some (.num (.int (.small 0))))) else .throw

/-- `count_distinct` -/
def countDistinct (xs : List Val) : Out Val :=
  if xs.all validKey then .ok (.num (.int (.small (uniqueLoop hit [] xs).length))) else .throw

def groupLoop : Entries → List Val → Entries
  | acc, [] => acc
  | acc, x :: rest =>
    let cur := match lookup hit acc x with
      | some (.list g) => g
      | _ => []
    groupLoop (insert hit acc x (.list (cur ++ [x]))) rest
/-- `classify(xs, id)`; `group_all(xs, id)` is its values -/
def classify (xs : List Val) : Out Val :=
  if xs.all validKey then .ok (.dict (groupLoop hit [] xs) none) else .throw
def groupAll (xs : List Val) : Out Val :=
  if xs.all validKey then .ok (.list ((groupLoop hit [] xs).map (·.2))) else .throw

/-- `Func::Memoized` around `\x -> [x]` with a trace of the calls that really ran: the memo table
is keyed by the argument; result `[results, arguments actually computed]` -/
def memoLoop : Entries → List Val → List Val × List Val
  | _, [] => ([], [])
  | memo, x :: rest =>
    match lookup hit memo x with
    | some r => let (rs, cs) := memoLoop memo rest; (r :: rs, cs)
    | none =>
      let r := Val.list [x]
      let (rs, cs) := memoLoop (insert hit memo x r) rest
      (r :: rs, x :: cs)
def memoize (xs : List Val) : Out Val :=
  if xs.all validKey then
    let (rs, cs) := memoLoop hit [] xs
    .ok (.list [.list rs, .list cs])
  else .throw

/-- `Func::Memoized` called with argument tuples of any arity: the cache key is the TUPLE
(`Vec<ObjKey>`: length and element-wise key hash / equality — modelled by the list key `.list args`);
the memoized function is `\\...xs -> xs` with a trace; result `[results, tuples actually computed]` -/
def memoCallsLoop : Entries → List (List Val) → List Val × List Val
  | _, [] => ([], [])
  | memo, args :: rest =>
    match lookup hit memo (.list args) with
    | some r => let (rs, cs) := memoCallsLoop memo rest; (r :: rs, cs)
    | none =>
      let r := Val.list args
      let (rs, cs) := memoCallsLoop (insert hit memo (.list args) r) rest
      (r :: rs, r :: cs)
def memoizeCalls (calls : List (List Val)) : Out Val :=
  if calls.all (fun args => args.all validKey) then
    let (rs, cs) := memoCallsLoop hit [] calls
    .ok (.list [.list rs, .list cs])
  else .throw

end DictOps

end Noulith
