/-
Impl model for C12, part 4 — calling a type: the conversion functions `int`, `rational`, `float`,
`number`, `list`, `str`, `bytes`, `vector`, `dict`, `stream`, `type` and struct construction
(`call_type1`, `call_type`, core.rs ~658-796).

What a conversion does to the *value* beyond its kind is the subject of other properties (C07: the
numeric tower, C16: text codecs); here the external pieces are parameters (`ConvOracle`): parsing a
string as a number, rounding a number to a float, printing a value.  Everything that decides the
KIND of the result and whether the call raises is transcribed.  Written in the post-fix form of the
defect found with this model: `int` of a non-finite float raises (it used to return the float).

Core Lean only.
-/
import NoulithModel.Impl.Pattern

namespace Noulith.C12

/-- the external functions a conversion calls -/
structure ConvOracle where
  /-- `s.parse::<BigInt>()` -/
  parseInt : List Nat → Option Int
  /-- `parse_rational_exactly(s)` -/
  parseRat : List Nat → Option Rat
  /-- `s.parse::<f64>()` (bits) -/
  parseFloat : List Nat → Option Nat
  /-- `NNum::to_f64` of an int or rational (bits of the rounded value) -/
  roundToFloat : Rat → Nat
  /-- `format!("{}", v)` -/
  display : Val → List Nat

/-- truncation toward zero -/
def truncRat (q : Rat) : Int := if q ≥ 0 then ratFloor q else -(ratFloor (-q))

/-- elements of the argument of a collecting conversion (`mut_obj_into_iter`); infinite streams
never finish and are not modelled (raise) -/
def convItems (v : Val) : Out (List Val) :=
  match seqItems v with
  | some xs => .ok xs
  | none => .throw

def toByte : Val → Option Nat
  | .int n => if 0 ≤ n ∧ n < 256 then some n.toNat else none
  | _ => none

mutual
/-- `to_key` / `check_if_valid_key` (core.rs ~1076): what may be a dictionary key -/
def validKeyFull : Val → Bool
  | .null | .int _ | .rat _ | .float _ | .complex _ _ | .str _ | .vector _ | .bytes _ => true
  | .list xs => validKeysFull xs
  | .dict _ vs => validKeysFull vs
  | .stream xs => validKeysFull xs      -- forced to a list first
  | _ => false
def validKeysFull : List Val → Bool
  | [] => true
  | x :: xs => validKeyFull x && validKeysFull xs
end

def pairOf : Val → Option (Val × Val)
  | .list [k, v] => if validKeyFull k then some (k, v) else none
  | _ => none

/-- `call_type1` -/
def callType1 (O : ConvOracle) (structs : Nat → StructDef) (ty : Ty) (arg : Val) : Out Val :=
  match ty with
  | .int =>
    match arg with
    | .int n => .ok (.int n)
    | .rat q => .ok (.int (truncRat q))
    | .float b =>
      -- `f.trunc().to_bigint()`: only a finite float has an integer part (post-fix: otherwise
      -- "can't coerce to int")
      (match floatReal b with
       | .fin q => .ok (.int (truncRat q))
       | _ => .throw)
    | .complex _ _ => .throw
    | .str cs => (match O.parseInt cs with | some n => .ok (.int n) | none => .throw)
    | _ => .throw
  | .rational =>
    match arg with
    | .int n => .ok (.rat n)
    | .rat q => .ok (.rat q)
    | .float b => (match floatReal b with | .fin q => .ok (.rat q) | _ => .throw)
    | .complex _ _ => .throw
    | .str cs => (match O.parseRat cs with | some q => .ok (.rat q) | none => .throw)
    | _ => .throw
  | .float =>
    match arg with
    | .int n => .ok (.float (O.roundToFloat n))
    | .rat q => .ok (.float (O.roundToFloat q))
    | .float b => .ok (.float b)
    | .complex _ _ => .throw
    | .str cs => (match O.parseFloat cs with | some b => .ok (.float b) | none => .throw)
    | _ => .throw
  | .number =>
    match arg with
    | .int n => .ok (.int n)
    | .rat q => .ok (.rat q)
    | .float b => .ok (.float b)
    | .complex r i => .ok (.complex r i)
    | .str cs =>
      (match O.parseInt cs with
       | some n => .ok (.int n)
       | none => match O.parseFloat cs with
         | some b => .ok (.float b)
         | none => .throw)
    | _ => .throw
  | .list =>
    match arg with
    | .list xs => .ok (.list xs)
    | a => (convItems a).map Val.list
  | .string => .ok (.str (O.display arg))
  | .bytes =>
    match arg with
    | .bytes bs => .ok (.bytes bs)
    | .str cs => .ok (.bytes (cs.flatMap fun c =>
        if c < 128 then [c]
        else if c < 2048 then [192 + c / 64, 128 + c % 64]
        else if c < 65536 then [224 + c / 4096, 128 + c / 64 % 64, 128 + c % 64]
        else [240 + c / 262144, 128 + c / 4096 % 64, 128 + c / 64 % 64, 128 + c % 64]))
    | a =>
      match convItems a with
      | .ok xs => (match xs.mapM toByte with | some bs => .ok (.bytes bs) | none => .throw)
      | .throw => .throw
      | .panic => .panic
  | .vector =>
    match arg with
    | .vector xs => .ok (.vector xs)
    | a =>
      match convItems a with
      | .ok xs => if xs.all isNum then .ok (.vector xs) else .throw
      | .throw => .throw
      | .panic => .panic
  | .dict =>
    match arg with
    | .dict ks vs => .ok (.dict ks vs)
    | a =>
      match convItems a with
      | .ok xs =>
        (match xs.mapM pairOf with
         | some kvs => .ok (.dict (kvs.map (·.1)) (kvs.map (·.2)))   -- (later equal keys win in the
                                                                      -- HashMap; not modelled)
         | none => .throw)
      | .throw => .throw
      | .panic => .panic
  | .stream =>
    match arg with
    | .stream xs => .ok (.stream xs)
    | .streamInf => .ok .streamInf
    | .list xs => .ok (.stream xs)
    | .str cs => .ok (.stream (cs.map strOfChar))
    | .vector xs => .ok (.stream xs)
    | .bytes bs => .ok (.stream (bs.map fun (b : Nat) => Val.int (Int.ofNat b)))
    | .dict ks _ => .ok (.stream ks)
    | _ => .throw
  | .type => .ok (.type (typeOf arg))
  | .struct sid => callStruct sid (structs sid) [arg]
  | _ => .throw     -- "that type can't be called (maybe not implemented)"

/-- `call_type`: a struct type takes any number of arguments, every other type exactly one -/
def callType (O : ConvOracle) (structs : Nat → StructDef) (ty : Ty) (args : List Val) : Out Val :=
  match ty with
  | .struct sid => callStruct sid (structs sid) args
  | _ =>
    match args with
    | [a] => callType1 O structs ty a
    | _ => .throw

end Noulith.C12
