/-
Impl model of indexing and slicing (property C10).  Mirrors, with the same case splits and the same
order of checks:

  src/core.rs   pythonic_index_isize, obj_to_isize_slice_index, pythonic_slice_obj,
                clamped_pythonic_index, pythonic_index, pythonic_mut, pythonic_slice,
                trait Stream { pythonic_index_isize, pythonic_slice } (defaults),
                Obj::try_pop / try_remove_index / try_remove_slice
  src/streams.rs Repeat / Cycle overrides of pythonic_index_isize / pythonic_slice
  src/eval.rs   soft_from_utf8, weird_string_as_bytes_index, slice_seq, slice, index, set_index,
                the read-modify-write of `x[i] op= v`, `pop`, `remove`
  src/lib.rs    cyclic_index, linear_index_isize, obj_cyclic_index, safe_index_inner, safe_index,
                first/second/third/last/tail/butlast/take/drop/uncons/unsnoc/only, `!!`, `!?`, `!%`, `|..`

Conventions (DESIGN.md Appendix A): `isize`/`usize` are range-restricted `Int`s; an `isize`
addition/subtraction is `addIsize`/`subIsize` (outcome `panic` when the exact result leaves the
`i64` range: the `checked` build profile the baseline tests run in); `x as usize` of a (possibly
negative) `isize` is `asUsize` (two's complement); an out-of-bounds Rust slice access `xs[k]` /
`xs[lo..hi]` is outcome `panic`.  Strings are lists of UTF-8 bytes, bytes are lists of `Nat < 256`.
A finite stream is modelled by the list of the elements it yields (`Val.stream`); the two infinite
streams with overrides are `Val.rep` / `Val.cyc`.

`pythonicIndexIsize` is the code AFTER the F11 repair (`n + len` is only computed for `n < 0`);
`pythonicIndexIsizeOld` is the code as it was at the pinned commit (used for the refutation theorem).
Core Lean only.
-/
import NoulithModel.Common

namespace Noulith.Index
open Noulith

/-! ### values -/

/-- The values that can occur as a sequence, as an element or as an index in C10's vocabulary. -/
inductive Val where
  | null
  | int (v : Int)                 -- Obj::Num(NNum::Int): any integer, either representation
  | num (t : String)              -- any other number (float, rational, complex): canonical text
  | str (bs : List Nat)           -- Seq::String, as its UTF-8 bytes
  | bytes (bs : List Nat)         -- Seq::Bytes
  | list (xs : List Val)          -- Seq::List
  | vec (xs : List Val)           -- Seq::Vector (elements are numbers)
  | stream (xs : List Val)        -- Seq::Stream of a finite stream, by the elements it yields
  | rep (x : Val)                 -- Seq::Stream(Repeat(x))
  | cyc (xs : List Val) (pos : Nat) -- Seq::Stream(Cycle(xs, pos))
  | other (t : String)            -- anything else (dict, function, …): opaque
  deriving Repr, Inhabited

/-! ### machine arithmetic -/

/-- `x as usize` for an `isize` x (two's-complement reinterpretation) -/
def asUsize (v : Int) : Int := v % 18446744073709551616
/-- `a + b` on `isize` in the overflow-checked profile -/
def addIsize (a b : Int) : Out Int := if inI64 (a + b) then .ok (a + b) else .panic
/-- `a - b` on `isize` in the overflow-checked profile -/
def subIsize (a b : Int) : Out Int := if inI64 (a - b) then .ok (a - b) else .panic

/-- a Rust `Vec`/slice length: `0 ≤ len ≤ isize::MAX` (guaranteed by the allocator API) -/
def lenOk (len : Int) : Prop := 0 ≤ len ∧ len ≤ 9223372036854775807
instance (v : Int) : Decidable (lenOk v) := by unfold lenOk; infer_instance

/-- `NNum::to_isize`: an integer that fits `isize`, whatever its representation -/
def toIsize : Val → Option Int
  | .int v => if inI64 v then some v else none
  | _ => none

def isNum : Val → Bool
  | .int _ => true
  | .num _ => true
  | _ => false

/-- `NNum::to_usize` -/
def toUsize : Val → Option Int
  | .int v => if inUsize v then some v else none
  | _ => none

/-! ### core.rs: index normalisation -/

/-- core.rs `pythonic_index_isize` (after the F11 repair) on a slice of length `len` -/
def pythonicIndexIsize (len n : Int) : Out Int :=
  if n ≥ 0 ∧ n < len then .ok n
  else if n < 0 then
    (addIsize n len).bind fun s =>
      let i2 := asUsize s
      if i2 < len then .ok i2 else .throw
  else .throw

/-- core.rs `pythonic_index_isize` as it was at the pinned commit (F11): the sum is computed
for every `n` that is not a valid non-negative index -/
def pythonicIndexIsizeOld (len n : Int) : Out Int :=
  if n ≥ 0 ∧ n < len then .ok n
  else
    (addIsize n len).bind fun s =>
      let i2 := asUsize s
      if i2 < len then .ok i2 else .throw

/-- core.rs `pythonic_index`: the index is an arbitrary object -/
def pythonicIndex (len : Int) (i : Val) : Out Int :=
  if isNum i then
    match toIsize i with
    | some n => pythonicIndexIsize len n
    | none => .throw          -- "Index out of bounds of isize or non-integer"
  else .throw                 -- "Invalid (non-numeric) index"

/-- core.rs `obj_to_isize_slice_index` -/
def objToIsizeSliceIndex : Option Val → Out (Option Int)
  | none => .ok none
  | some x =>
    if isNum x then
      match toIsize x with
      | some n => .ok (some n)
      | none => .throw
    else .throw

/-- core.rs `clamped_pythonic_index` -/
def clampedPythonicIndex (len i : Int) : Out Int :=
  if i ≥ 0 then .ok (min (asUsize i) len)
  else
    (addIsize i len).bind fun i2 =>
      if i2 < 0 then .ok 0 else .ok (asUsize i2)

/-- core.rs `pythonic_slice` -/
def pythonicSlice (len : Int) (lo hi : Option Int) : Out (Int × Int) :=
  (match lo with
   | some lo => clampedPythonicIndex len lo
   | none => .ok 0).bind fun clo =>
  (match hi with
   | some hi => clampedPythonicIndex len hi
   | none => .ok len).bind fun chi =>
  .ok (clo, max chi clo)

/-- core.rs `pythonic_slice_obj` -/
def pythonicSliceObj (len : Int) (lo hi : Option Val) : Out (Int × Int) :=
  (objToIsizeSliceIndex lo).bind fun lo =>
  (objToIsizeSliceIndex hi).bind fun hi =>
  pythonicSlice len lo hi

/-! ### Rust slice accesses -/

/-- `xs[k]` for a `usize` k: panics out of bounds -/
def elemAt {α} (xs : List α) (k : Int) : Out α :=
  if k < 0 then .panic
  else match xs[k.toNat]? with
    | some x => .ok x
    | none => .panic

/-- `xs[lo..hi]`: panics unless `lo ≤ hi ≤ len` -/
def subRange {α} (xs : List α) (lo hi : Int) : Out (List α) :=
  if 0 ≤ lo ∧ lo ≤ hi ∧ hi ≤ xs.length then .ok ((xs.drop lo.toNat).take (hi - lo).toNat)
  else .panic

/-- `xs[k] = v` (in place) for a `usize` k -/
def setAt {α} (xs : List α) (k : Int) (v : α) : Out (List α) :=
  if 0 ≤ k ∧ k < xs.length then .ok (xs.set k.toNat v) else .panic

/-- `Vec::remove(k)`: the removed element and the remaining vector -/
def removeAt {α} (xs : List α) (k : Int) : Out (α × List α) :=
  if k < 0 then .panic
  else match xs[k.toNat]? with
    | some x => .ok (x, xs.eraseIdx k.toNat)
    | none => .panic

/-! ### UTF-8 (Rust `String::from_utf8`), eval.rs `soft_from_utf8` -/

def isCont (b : Nat) : Bool := 0x80 ≤ b && b ≤ 0xBF

/-- well-formed UTF-8 exactly as `core::str::from_utf8` accepts it (no overlong forms, no
surrogates, nothing above U+10FFFF) -/
def validUtf8 : List Nat → Bool
  | [] => true
  | b0 :: rest =>
    if b0 < 0x80 then validUtf8 rest
    else if 0xC2 ≤ b0 && b0 ≤ 0xDF then
      match rest with
      | b1 :: r => isCont b1 && validUtf8 r
      | _ => false
    else if 0xE0 ≤ b0 && b0 ≤ 0xEF then
      match rest with
      | b1 :: b2 :: r =>
        (if b0 == 0xE0 then 0xA0 ≤ b1 && b1 ≤ 0xBF
         else if b0 == 0xED then 0x80 ≤ b1 && b1 ≤ 0x9F
         else isCont b1) && isCont b2 && validUtf8 r
      | _ => false
    else if 0xF0 ≤ b0 && b0 ≤ 0xF4 then
      match rest with
      | b1 :: b2 :: b3 :: r =>
        (if b0 == 0xF0 then 0x90 ≤ b1 && b1 ≤ 0xBF
         else if b0 == 0xF4 then 0x80 ≤ b1 && b1 ≤ 0x8F
         else isCont b1) && isCont b2 && isCont b3 && validUtf8 r
      | _ => false
    else false

/-- eval.rs `soft_from_utf8`: a string when the bytes are UTF-8, otherwise bytes -/
def softFromUtf8 (bs : List Nat) : Val := if validUtf8 bs then .str bs else .bytes bs

/-- eval.rs `weird_string_as_bytes_index`: `soft_from_utf8(s[i..i+1])` -/
def weirdStringAsBytesIndex (bs : List Nat) (i : Int) : Out Val :=
  (subRange bs i (i + 1)).map softFromUtf8

/-- number of bytes of the first `char` of a (valid) UTF-8 string, from its lead byte -/
def leadLen (b0 : Nat) : Nat := if b0 < 0x80 then 1 else if b0 < 0xE0 then 2 else if b0 < 0xF0 then 3 else 4

/-- number of bytes of the last `char` of a (valid, non-empty) UTF-8 string: the trailing
continuation bytes plus the lead byte -/
def lastCharLen (bs : List Nat) : Nat := (bs.reverse.takeWhile isCont).length + 1

/-! ### trait Stream defaults (core.rs) on the list of elements a finite stream yields -/

/-- the `i >= 0` loop of `Stream::pythonic_index_isize`:
`while let Some(e) = it.next() { if i == 0 { return e } i -= 1 } Err(index error)` -/
def streamWalk : List Val → Int → Out Val
  | [], _ => .throw
  | e :: rest, i => if i = 0 then .ok e else streamWalk rest (i - 1)

/-- core.rs `Stream::pythonic_index_isize` (default) -/
def streamIndexIsize (xs : List Val) (i0 : Int) : Out Val :=
  if i0 ≥ 0 then streamWalk xs i0
  else
    -- let mut v = self.force()?; let i2 = (i + v.len() as isize) as usize;
    (addIsize i0 xs.length).bind fun s =>
      let i2 := asUsize s
      if i2 < xs.length then elemAt xs i2 else .throw

/-- core.rs `Stream::pythonic_slice` (default) -/
def streamSlice (xs : List Val) (lo hi : Option Int) : Out Val :=
  let lo := lo.getD 0
  let forced : Out Val :=
    (pythonicSlice xs.length (some lo) hi).bind fun p => (subRange xs p.1 p.2).map .list
  match hi with
  | none =>
    if lo ≥ 0 then .ok (.stream (xs.drop lo.toNat))      -- the advanced iterator, still lazy
    else forced
  | some hi =>
    if lo ≥ 0 ∧ hi ≥ 0 then
      -- skip `lo`, then `for _ in lo..hi` pushes at most `hi - lo` elements
      .ok (.list ((xs.drop lo.toNat).take (hi - lo).toNat))
    else forced

/-! ### streams.rs overrides -/

/-- streams.rs `Repeat::pythonic_slice` (after the repair: the `x - 1` shift of a negative bound is
done in `i128`, where it cannot overflow).  A negative bound `-k` means "k before infinity". -/
def repeatSlice (x : Val) (lo hi : Option Int) : Out Val :=
  let shift (a : Int) : Int := if a < 0 then a - 1 else a
  let lo : Int := match lo with
    | some a => shift a
    | none => 0
  let hi : Int := match hi with
    | some a => shift a
    | none => -1
  if (lo < 0) = (hi < 0) then
    .ok (.list (List.replicate (asUsize (max (hi - lo) 0)).toNat x))
  else if lo < 0 then .ok (.list [])
  else .ok (.rep x)

/-- streams.rs `Repeat::pythonic_slice` as it was at the pinned commit: `x - 1` on `isize` -/
def repeatSliceOld (x : Val) (lo hi : Option Int) : Out Val :=
  (match lo with
   | some a => if a < 0 then subIsize a 1 else .ok a
   | none => .ok 0).bind fun lo =>
  (match hi with
   | some a => if a < 0 then subIsize a 1 else .ok a
   | none => .ok (-1)).bind fun hi =>
  if (lo < 0) = (hi < 0) then
    (subIsize hi lo).bind fun d => .ok (.list (List.replicate (max d 0).toNat x))
  else if lo < 0 then .ok (.list [])
  else .ok (.rep x)

/-- `a + b` on `usize` in the overflow-checked profile -/
def addUsize (a b : Int) : Out Int := if inUsize (a + b) then .ok (a + b) else .panic

/-- streams.rs `Cycle::pythonic_index_isize` (after the repair: the index is reduced modulo the
length before the start position is added):
`self.0[(self.1 + i.rem_euclid(n as isize) as usize) % n]` -/
def cycleIndexIsize (xs : List Val) (pos : Nat) (i : Int) : Out Val :=
  if xs.length = 0 then .panic                       -- rem_euclid by zero (F15, `cycle([])`)
  else
    (addUsize pos (asUsize (i % (xs.length : Int)))).bind fun s =>
      elemAt xs (s % (xs.length : Int))

/-- streams.rs `Cycle::pythonic_index_isize` as it was at the pinned commit:
`self.0[(self.1 as isize + i).rem_euclid(self.0.len() as isize) as usize]` -/
def cycleIndexIsizeOld (xs : List Val) (pos : Nat) (i : Int) : Out Val :=
  (addIsize pos i).bind fun s =>
    if xs.length = 0 then .panic
    else elemAt xs (s % (xs.length : Int))

/-- the default `Stream::pythonic_slice` on a `Cycle` (an infinite iterator) -/
def cycleSlice (xs : List Val) (pos : Nat) (lo hi : Option Int) : Out Val :=
  let lo := lo.getD 0
  if xs.length = 0 then .panic
  else
    let nth (k : Nat) : Val := xs.getD ((pos + k) % xs.length) .null
    match hi with
    | none =>
      if lo ≥ 0 then .ok (.cyc xs ((pos + lo.toNat) % xs.length))
      else .throw                                     -- force() of an infinite stream raises
    | some hi =>
      if lo ≥ 0 ∧ hi ≥ 0 then
        .ok (.list ((List.range (hi - lo).toNat).map fun j => nth (lo.toNat + j)))
      else .throw

/-! ### eval.rs: `index`, `slice` -/

/-- number of elements `len(s)` sees; `none` for the infinite streams and non-sequences -/
def seqLen : Val → Option Nat
  | .str bs => some bs.length
  | .bytes bs => some bs.length
  | .list xs => some xs.length
  | .vec xs => some xs.length
  | .stream xs => some xs.length
  | _ => none

/-- eval.rs `index(xr, ir)` restricted to the linear sequence kinds -/
def index (s i : Val) : Out Val :=
  match s with
  | .list xs => (pythonicIndex xs.length i).bind fun k => elemAt xs k
  | .str bs => (pythonicIndex bs.length i).bind fun k => weirdStringAsBytesIndex bs k
  | .vec xs => (pythonicIndex xs.length i).bind fun k => elemAt xs k
  | .bytes bs => (pythonicIndex bs.length i).bind fun k => (elemAt bs k).map fun (b : Nat) => .int (b : Int)
  | .stream xs =>
    if isNum i then
      match toIsize i with
      | some n => streamIndexIsize xs n
      | none => .throw
    else .throw
  | .rep x =>
    if isNum i then
      match toIsize i with
      | some _ => .ok x
      | none => .throw
    else .throw
  | .cyc xs pos =>
    if isNum i then
      match toIsize i with
      | some n => cycleIndexIsize xs pos n
      | none => .throw
    else .throw
  | _ => .throw

/-- eval.rs `slice_seq` / `slice` -/
def slice (s : Val) (lo hi : Option Val) : Out Val :=
  match s with
  | .list xs =>
    (pythonicSliceObj xs.length lo hi).bind fun p => (subRange xs p.1 p.2).map .list
  | .str bs =>
    (pythonicSliceObj bs.length lo hi).bind fun p => (subRange bs p.1 p.2).map softFromUtf8
  | .vec xs =>
    (pythonicSliceObj xs.length lo hi).bind fun p => (subRange xs p.1 p.2).map .vec
  | .bytes bs =>
    (pythonicSliceObj bs.length lo hi).bind fun p => (subRange bs p.1 p.2).map .bytes
  | .stream xs =>
    (objToIsizeSliceIndex lo).bind fun lo =>
    (objToIsizeSliceIndex hi).bind fun hi =>
    streamSlice xs lo hi
  | .rep x =>
    (objToIsizeSliceIndex lo).bind fun lo =>
    (objToIsizeSliceIndex hi).bind fun hi =>
    repeatSlice x lo hi
  | .cyc xs pos =>
    (objToIsizeSliceIndex lo).bind fun lo =>
    (objToIsizeSliceIndex hi).bind fun hi =>
    cycleSlice xs pos lo hi
  | _ => .throw

/-! ### lib.rs: builtin accessors -/

/-- lib.rs `linear_index_isize` -/
def linearIndexIsize (s : Val) (i : Int) : Out Val :=
  match s with
  | .list xs => (pythonicIndexIsize xs.length i).bind fun k => elemAt xs k
  | .vec xs => (pythonicIndexIsize xs.length i).bind fun k => elemAt xs k
  | .bytes bs => (pythonicIndexIsize bs.length i).bind fun k => (elemAt bs k).map fun (b : Nat) => .int (b : Int)
  | .str bs =>
    (pythonicIndexIsize bs.length i).bind fun k => (subRange bs k (k + 1)).map softFromUtf8
  | .stream xs => streamIndexIsize xs i
  | .rep x => .ok x
  | .cyc xs pos => cycleIndexIsize xs pos i
  | _ => .throw

/-- lib.rs `cyclic_index` -/
def cyclicIndex (len : Int) (i : Val) : Out Int :=
  if isNum i then
    match toIsize i with
    | some n => if len = 0 then .throw else .ok (asUsize (n % len))   -- n.rem_euclid(len) as usize
    | none => .throw
  else .throw

/-- lib.rs `obj_cyclic_index` (`!%`) -/
def objCyclicIndex (s i : Val) : Out Val :=
  match s with
  | .list xs => (cyclicIndex xs.length i).bind fun k => elemAt xs k
  | .str bs => (cyclicIndex bs.length i).bind fun k => weirdStringAsBytesIndex bs k
  | .vec xs => (cyclicIndex xs.length i).bind fun k => elemAt xs k
  | .bytes bs => (cyclicIndex bs.length i).bind fun k => (elemAt bs k).map fun (b : Nat) => .int (b : Int)
  | _ => .throw

/-- lib.rs `safe_index_inner` -/
def safeIndexInner (len : Int) (i : Val) : Option Int :=
  if isNum i then
    match toUsize i with
    | some n => if n < len then some n else none
    | none => none
  else none

/-- lib.rs `safe_index` (`!?`) -/
def safeIndex (s i : Val) : Out Val :=
  match s with
  | .null => .ok .null
  | .str bs =>
    match safeIndexInner bs.length i with
    | some k => weirdStringAsBytesIndex bs k
    | none => .ok .null
  | .list xs =>
    match safeIndexInner xs.length i with
    | some k => elemAt xs k
    | none => .ok .null
  | .vec xs =>
    match safeIndexInner xs.length i with
    | some k => elemAt xs k
    | none => .ok .null
  | .bytes bs =>
    match safeIndexInner bs.length i with
    | some k => (elemAt bs k).map fun (b : Nat) => .int (b : Int)
    | none => .ok .null
  | _ => .throw

def isSeq : Val → Bool
  | .str _ | .bytes _ | .list _ | .vec _ | .stream _ | .rep _ | .cyc _ _ => true
  | _ => false

/-- lib.rs `uncons` (the `Option` layer folded into `throw`, as the `uncons` builtin does).
Strings lose their first *char* (`String::remove(0)`), not their first byte. -/
def uncons (s : Val) : Out Val :=
  match s with
  | .list xs =>
    if xs.isEmpty then .throw
    else (removeAt xs 0).map fun p => .list [p.1, .list p.2]
  | .str bs =>
    match bs with
    | [] => .throw
    | b0 :: _ => .ok (.list [.str (bs.take (leadLen b0)), .str (bs.drop (leadLen b0))])
  | .vec xs =>
    if xs.isEmpty then .throw
    else (removeAt xs 0).map fun p => .list [p.1, .vec p.2]
  | .bytes bs =>
    if bs.isEmpty then .throw
    else (removeAt bs 0).map fun p => .list [.int (p.1 : Nat), .bytes p.2]
  | .stream xs =>
    match xs with
    | [] => .throw
    | e :: t => .ok (.list [e, .stream t])
  | .rep x => .ok (.list [x, .rep x])
  | .cyc xs pos =>
    if xs.length = 0 then .panic
    else (elemAt xs pos).map fun e => .list [e, .cyc xs ((pos + 1) % xs.length)]
  | _ => .throw

/-- `Vec::pop` -/
def popLast {α} (xs : List α) : Option (List α × α) :=
  match xs.getLast? with
  | some e => some (xs.dropLast, e)
  | none => none

/-- lib.rs `unsnoc`.  Strings lose their last *char* (`String::pop`). -/
def unsnoc (s : Val) : Out Val :=
  match s with
  | .list xs =>
    match popLast xs with
    | some (t, e) => .ok (.list [.list t, e])
    | none => .throw
  | .str bs =>
    if bs.isEmpty then .throw
    else
      let n := bs.length - lastCharLen bs
      .ok (.list [.str (bs.take n), .str (bs.drop n)])
  | .vec xs =>
    match popLast xs with
    | some (t, e) => .ok (.list [.vec t, e])
    | none => .throw
  | .bytes bs =>
    match popLast bs with
    | some (t, e) => .ok (.list [.bytes t, .int e])
    | none => .throw
  | .stream xs =>                       -- unsnoc(Seq::List(force()))
    match popLast xs with
    | some (t, e) => .ok (.list [.list t, e])
    | none => .throw
  | _ => .throw                         -- infinite streams: force() raises

/-- the one-argument accessors, by builtin name -/
def accessor1 (name : String) (s : Val) : Out Val :=
  if !isSeq s then .throw            -- argument / type error for a non-sequence
  else match name with
  | "first" => linearIndexIsize s 0
  | "second" => linearIndexIsize s 1
  | "third" => linearIndexIsize s 2
  | "last" => linearIndexIsize s (-1)
  | "tail" => slice s (some (.int 1)) none
  | "butlast" => slice s none (some (.int (-1)))
  | "uncons" => uncons s
  | "unsnoc" => unsnoc s
  | "only" =>
    match seqLen s with
    | some 1 => linearIndexIsize s 0
    | _ => .throw
  | _ => .throw

/-- the two-argument accessors, by builtin name (`take`/`drop` with a non-function argument) -/
def accessor2 (name : String) (s a : Val) : Out Val :=
  match name with
  | "!!" => index s a
  | "index" => index s a
  | "!?" => safeIndex s a
  | "index?" => safeIndex s a
  | "!%" => objCyclicIndex s a
  | "take" => slice s none (some a)
  | "drop" => slice s (some a) none
  | _ => .throw

/-! ### writes: eval.rs `set_index`, `pop`, `remove`, lib.rs `|..` -/

/-- an evaluated index-or-slice of an lvalue (eval.rs `EvaluatedIndexOrSlice`) -/
inductive Ix where
  | index (i : Val)
  | slice (lo hi : Option Val)
  deriving Inhabited

/-- `Out`-valued map over a list, left to right, stopping at the first failure -/
def mapOut {α β} (f : α → Out β) : List α → Out (List β)
  | [] => .ok []
  | x :: xs => (f x).bind fun y => (mapOut f xs).bind fun ys => .ok (y :: ys)

/-- `NNum::to_u8` -/
def toU8 : Val → Option Nat
  | .int v => if 0 ≤ v ∧ v ≤ 255 then some v.toNat else none
  | _ => none

/-- eval.rs `set_index(lhs, indexes, value, every)`; returns the new content of `lhs`.
`value = none` is the "drop the LHS" call made before an operator assignment. -/
def setIndex (lhs : Val) (ixs : List Ix) (value : Option Val) (every : Bool) : Out Val :=
  match ixs with
  | [] => .ok (value.getD .null)
  | fi :: rest =>
    -- the "hack": a stream that is indexed into is first forced into a list
    let lhs' : Out Val :=
      match lhs with
      | .stream xs => .ok (.list xs)
      | .rep _ => .throw
      | .cyc _ _ => .throw
      | v => .ok v
    lhs'.bind fun lhs =>
    match lhs, fi with
    | .list xs, .index i =>
      (pythonicIndex xs.length i).bind fun k =>
      (elemAt xs k).bind fun old =>
      (setIndex old rest value every).bind fun new =>
      (setAt xs k new).map .list
    | .list xs, .slice lo hi =>
      if every then
        (pythonicSliceObj xs.length lo hi).bind fun p =>
        (subRange xs p.1 p.2).bind fun mid =>
        (mapOut (fun e => setIndex e rest value true) mid).bind fun mid' =>
        .ok (.list (xs.take p.1.toNat ++ mid' ++ xs.drop p.2.toNat))
      else .throw                       -- "can't assign to a list slice" (type error; F13 repaired)
    | .str bs, .index i =>
      if rest.isEmpty then
        match value with
        | some (.str v) =>
          if v.length = 1 then
            (pythonicIndex bs.length i).bind fun k =>
            (setAt bs k (v.headD 0)).bind fun bs' =>
            if validUtf8 bs' then .ok (.str bs') else .throw
          else .throw
        | some _ => .throw
        | none => .ok (.str bs)
      else .throw
    | .str _, _ => .throw
    | .vec xs, .index i =>
      if rest.isEmpty then
        match value with
        | some v =>
          if isNum v then
            (pythonicIndex xs.length i).bind fun k => (setAt xs k v).map .vec
          else .throw
        | none => .ok (.vec xs)
      else .throw
    | .vec _, _ => .throw
    | .bytes bs, .index i =>
      if rest.isEmpty then
        match value with
        | some v =>
          if isNum v then
            (pythonicIndex bs.length i).bind fun k =>
            match toU8 v with
            | some b => (setAt bs k b).map .bytes
            | none => .throw
          else .throw
        | none => .ok (.bytes bs)
      else .throw
    | .bytes _, _ => .throw
    | _, _ => .throw

/-- `x[i] op= v` for `op = +` on integers (eval.rs `Expr::OpAssign`, hot path): read through
`index`, drop the LHS (`set_index` with `None`), combine, write through `set_index`. -/
def opAssignAdd (lhs : Val) (i : Val) (d : Int) : Out Val :=
  (index lhs i).bind fun old =>
  (setIndex lhs [.index i] none false).bind fun lhs1 =>
  match old with
  | .int o => setIndex lhs1 [.index i] (some (.int (o + d))) false
  | _ => .throw

/-- core.rs `Obj::try_pop` reached through `pop x`: (popped element, new x) -/
def tryPop (lhs : Val) : Out (Val × Val) :=
  match lhs with
  | .list xs =>
    match popLast xs with
    | some (t, e) => .ok (e, .list t)
    | none => .throw
  | _ => .throw

/-- core.rs `Obj::try_remove_index` reached through `remove x[i]`: (removed element, new x) -/
def tryRemoveIndex (lhs i : Val) : Out (Val × Val) :=
  match lhs with
  | .list xs =>
    (pythonicIndex xs.length i).bind fun k =>
    (removeAt xs k).map fun p => (p.1, .list p.2)
  | _ => .throw

/-- core.rs `Obj::try_remove_slice` reached through `remove x[a:b]`: (removed list, new x) -/
def tryRemoveSlice (lhs : Val) (lo hi : Option Val) : Out (Val × Val) :=
  match lhs with
  | .list xs =>
    (pythonicSliceObj xs.length lo hi).bind fun p =>
    (subRange xs p.1 p.2).map fun mid => (.list mid, .list (xs.take p.1.toNat ++ xs.drop p.2.toNat))
  | _ => .throw

/-- eval.rs `modify_existing_index(lhs, indexes, f)` restricted to list paths (the dictionary and
struct arms are other properties'): `f` returns (its result, the new value of the addressed
place); the result is (f's result, the new value of `lhs`).  Reached by `pop x[i]…` and
`remove x[i]…[j]`. -/
def modPath (lhs : Val) (ixs : List Ix) (f : Val → Out (Val × Val)) : Out (Val × Val) :=
  match ixs with
  | [] => f lhs
  | fi :: rest =>
    let lhs' : Out Val :=
      match lhs with
      | .stream xs => .ok (.list xs)
      | .rep _ => .throw
      | .cyc _ _ => .throw
      | v => .ok v
    lhs'.bind fun lhs =>
    match lhs, fi with
    | .list xs, .index i =>
      (pythonicIndex xs.length i).bind fun k =>
      (elemAt xs k).bind fun old =>
      (modPath old rest f).bind fun p =>
      (setAt xs k p.2).map fun xs' => (p.1, .list xs')
    | _, _ => .throw                     -- "can't modify index"

/-! ### the state a write leaves behind, also when it raises

`set_index` / `modify_existing_index` mutate in place, so a write that raises has still done
whatever it did before the failing step.  The functions below return the state of the written place
afterwards together with how the write ended.  They mirror the same code as `setIndex` / `modPath`
(agreement: `setIndexS_agrees` in Theorems/C10State.lean). -/

/-- how a write ended -/
inductive WEnd where
  | done      -- no error
  | failed    -- raised
  | corrupted -- raised after the string arm of `set_index` had replaced the string by its
              -- `from_utf8_lossy` repair ("assigning to string result not utf-8 (string corrupted)")
  deriving Repr, DecidableEq, Inhabited

def WEnd.isDone : WEnd → Bool
  | .done => true
  | _ => false

/-- the `for i in lo..hi { set_index(&mut v[i], …)? }` loop: elements are written one after the
other; the first failure stops the loop and leaves the remaining elements untouched -/
def mapS (f : Val → Val × WEnd) : List Val → List Val × WEnd
  | [] => ([], .done)
  | x :: xs =>
    let r := f x
    if r.2.isDone then
      let rs := mapS f xs
      (r.1 :: rs.1, rs.2)
    else (r.1 :: xs, r.2)

/-- the "hack" at the top of `set_index` / `modify_existing_index`: a stream that is indexed into is
forced into a list first (and stays one, whatever happens next) -/
def forceHack : Val → Out Val
  | .stream xs => .ok (.list xs)
  | .rep _ => .throw
  | .cyc _ _ => .throw
  | v => .ok v

/-- eval.rs `set_index`, as (state of `lhs` afterwards, how it ended) -/
def setIndexS (lhs : Val) (ixs : List Ix) (value : Option Val) (every : Bool) : Val × WEnd :=
  match ixs with
  | [] => (value.getD .null, .done)
  | fi :: rest =>
    match forceHack lhs with
    | .ok lhs =>
      match lhs, fi with
      | .list xs, .index i =>
        match (pythonicIndex xs.length i).bind fun k => (elemAt xs k).map fun old => (k, old) with
        | .ok (k, old) =>
          let r := setIndexS old rest value every
          (.list (xs.set k.toNat r.1), r.2)
        | _ => (.list xs, .failed)
      | .list xs, .slice lo hi =>
        if every then
          match (pythonicSliceObj xs.length lo hi).bind fun p =>
              (subRange xs p.1 p.2).map fun mid => (p, mid) with
          | .ok (p, mid) =>
            let r := mapS (fun e => setIndexS e rest value true) mid
            (.list (xs.take p.1.toNat ++ r.1 ++ xs.drop p.2.toNat), r.2)
          | _ => (.list xs, .failed)
        else (.list xs, .failed)
      | .str bs, .index i =>
        -- a leaf: no recursion; only the UTF-8 failure happens after the string was taken apart
        match setIndex (.str bs) (.index i :: rest) value every with
        | .ok v => (v, .done)
        | _ =>
          match rest, value with
          | [], some (.str [b]) =>
            match (pythonicIndex bs.length i).bind fun k => setAt bs k b with
            | .ok _ => (.str bs, .corrupted)    -- state: String::from_utf8_lossy of the bytes (not modelled)
            | _ => (.str bs, .failed)
          | _, _ => (.str bs, .failed)
      | v, fi =>
        -- the other leaves (vector, bytes) write last, after every check; everything else raises
        match setIndex v (fi :: rest) value every with
        | .ok v' => (v', .done)
        | _ => (v, .failed)
    | _ => (lhs, .failed)

/-- eval.rs `modify_existing_index`, as (state afterwards, result if it did not raise) -/
def modPathS (lhs : Val) (ixs : List Ix) (f : Val → Out (Val × Val)) : Val × Option Val :=
  match ixs with
  | [] =>
    match f lhs with
    | .ok p => (p.2, some p.1)
    | _ => (lhs, none)
  | fi :: rest =>
    match forceHack lhs with
    | .ok lhs =>
      match lhs, fi with
      | .list xs, .index i =>
        match (pythonicIndex xs.length i).bind fun k => (elemAt xs k).map fun old => (k, old) with
        | .ok (k, old) =>
          let r := modPathS old rest f
          (.list (xs.set k.toNat r.1), r.2)
        | _ => (.list xs, none)
      | v, _ => (v, none)
    | _ => (lhs, none)

/-- `x[i] += d`: read through `index`; drop the LHS; combine; write.  Documented exception to
"a failed write changes nothing": when the operator itself raises, the dropped slot stays null. -/
def opAssignAddS (lhs : Val) (i : Val) (d : Int) : Val × WEnd :=
  match index lhs i with
  | .ok old =>
    let r1 := setIndexS lhs [.index i] none false
    if r1.2.isDone then
      match old with
      | .int o => setIndexS r1.1 [.index i] (some (.int (o + d))) false
      | _ => (r1.1, .failed)            -- `+` raised: the slot was already dropped
    else r1
  | _ => (lhs, .failed)                 -- the read raised: nothing touched (not even a stream is forced)

/-- lib.rs `|..` on a list: `a |.. [k, v]` -/
def updateAt (a k v : Val) : Out Val :=
  match a with
  | .list xs => (pythonicIndex xs.length k).bind fun j => (setAt xs j v).map .list
  | _ => .throw

end Noulith.Index
