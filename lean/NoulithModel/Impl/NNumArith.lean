/-
Impl model of the numeric tower of src/nnum.rs (`NNum`), of the arithmetic registrations of
src/lib.rs (`+ - * / % // %% ^`, `floor ceil round numerator denominator`, unary `-`), of
`call_type1`'s `Int`/`Rational`/`Float` arms (src/core.rs) and of the vectorising wrappers
`expect_nums_and_vectorize_1`, `expect_nums_and_vectorize_2`, `expect_nums_and_vectorize_2_nums`.

Conventions (DESIGN.md §4, Appendix A):
* integers are plain `Int` here — which representation (`Small`/`Big`) holds them is C06's subject
  and is not observable through the operations of this file;
* rationals are core `Rat` (lowest terms, positive denominator by construction) — `num-rational`'s
  `Ratio<BigInt>` is modelled as exact arithmetic on them, except where this file transcribes its
  algorithm because the property is about it (`Rem`, `trunc`, `round`);
* a float is an abstract value `F` (it crosses the line protocol as IEEE bits); float and complex
  ARITHMETIC is the uninterpreted structure `FloatOps`; what IS modelled exactly is the value of a
  float (`FloatOps.view`, for literals the IEEE-754 decoding `F64.viewBits`), because `floor`,
  `int`, `rational`, `is_nonzero` depend on it.
-/
import NoulithModel.Common

namespace Noulith

/-- exact value of an `f64`: NaN, ±∞ or a rational (−0.0 is `fin 0`: no operation of this file
distinguishes the zeros except through abstract float arithmetic) -/
inductive FView where
  | nan
  | inf (neg : Bool)
  | fin (q : Rat)
  deriving DecidableEq, Repr, Inhabited

namespace F64
/-- `sig · 2^(ex − 1075)`: the magnitude a significand (hidden bit included) and a biased
exponent (≥ 1; subnormals use 1) denote -/
def magValue (sig ex : Nat) : Rat :=
  if 1075 ≤ ex then ((sig * 2 ^ (ex - 1075) : Nat) : Rat)
  else mkRat (sig : Int) (2 ^ (1075 - ex))

/-- IEEE-754 binary64 decoding of a 64-bit pattern -/
def viewBits (bits : Nat) : FView :=
  let s : Nat := bits / 2 ^ 63 % 2
  let e : Nat := bits / 2 ^ 52 % 2048
  let m : Nat := bits % 2 ^ 52
  if e = 2047 then (if m = 0 then .inf (s == 1) else .nan)
  else
    let sig : Nat := if e = 0 then m else 2 ^ 52 + m      -- subnormals have no hidden bit
    let ex : Nat := if e = 0 then 1 else e                -- value = sig * 2^(ex - 1075)
    .fin (if s = 1 then -(magValue sig ex) else magValue sig ex)
end F64

/-- `enum NNum` -/
inductive NNum (F C : Type) where
  | int (i : Int)
  | rat (r : Rat)
  | float (f : F)
  | complex (z : C)
  deriving Repr, Inhabited, DecidableEq

/-- `powf_pdnum` / `powif_pdnum` return an `NNum` that is a float or, when the float result is NaN
and the complex one is not, a complex number -/
structure FloatOps (F C : Type) where
  /-- exact value of a float -/
  view : F → FView
  /-- `BigInt::to_f64` (`nint_to_f64_or_inf`) -/
  ofInt : Int → F
  /-- `BigRational::to_f64` (`rational_to_f64_or_inf`) -/
  ofRat : Rat → F
  /-- `f64::INFINITY` -/
  posInf : F
  add : F → F → F
  sub : F → F → F
  mul : F → F → F
  div : F → F → F
  rem : F → F → F
  divEuclid : F → F → F
  remEuclid : F → F → F
  neg : F → F
  /-- `Complex64::from(f64)` -/
  cOfF : F → C
  cre : C → F
  cim : C → F
  cadd : C → C → C
  csub : C → C → C
  cmul : C → C → C
  cdiv : C → C → C
  crem : C → C → C
  /-- `Complex64::new(c.re.floor(), c.im.floor())` -/
  cfloorParts : C → C
  /-- `Complex64 / f64` -/
  cdivF : C → F → C
  /-- `f64 / Complex64` -/
  fdivC : F → C → C
  cneg : C → C
  /-- `powf_pdnum(a, b)` -/
  powfPd : F → F → NNum F C
  /-- `powif_pdnum(a, b)` with an integer exponent -/
  powifPd : F → Int → NNum F C
  /-- `Complex64::powf` -/
  cpowf : C → F → C
  /-- `PowIF::powif` for `Complex64` (integer exponent) -/
  cpowif : C → Int → C
  /-- `Pow<Complex64> for Complex64` -/
  cpowc : C → C → C

namespace NNum
variable {F C : Type}

/-- position in the tower int < rational < float < complex -/
def level : NNum F C → Nat
  | int _ => 0
  | rat _ => 1
  | float _ => 2
  | complex _ => 3

/-- `NNum::to_rational` -/
def toRational : NNum F C → Option Rat
  | int i => some (i : Rat)
  | rat r => some r
  | float _ => none
  | complex _ => none

/-- `NNum::to_f64_or_inf_or_complex`: `Ok(f64)` = `inl`, `Err(Complex64)` = `inr` -/
def toF64OrInfOrComplex (O : FloatOps F C) : NNum F C → F ⊕ C
  | int i => .inl (O.ofInt i)
  | rat r => .inl (O.ofRat r)
  | float f => .inl f
  | complex z => .inr z

/-- `NNum::to_complex_or_inf` -/
def toComplexOrInf (O : FloatOps F C) (a : NNum F C) : C :=
  match toF64OrInfOrComplex O a with
  | .inr z => z
  | .inl x => O.cOfF x

/-- `NNum::is_nonzero` (`*f != 0.0` is true for NaN; `Complex::is_zero` is `re == 0 && im == 0`) -/
def isNonzero (O : FloatOps F C) : NNum F C → Bool
  | int i => i != 0
  | rat r => r != 0
  | float f => O.view f != .fin 0
  | complex z => !(O.view (O.cre z) == .fin 0 && O.view (O.cim z) == .fin 0)

/-! ### `binary_match!`: level dispatch complex > float > rational > int -/

/-- the `.expect("complex not elim")` of the float arms: a panic if a complex gets there -/
def expectReal (O : FloatOps F C) (a : NNum F C) : Out F :=
  match toF64OrInfOrComplex O a with
  | .inl f => .ok f
  | .inr _ => .panic

def binaryMatch (O : FloatOps F C) (im : Int → Int → Int) (rm : Rat → Rat → Rat)
    (fm : F → F → F) (cm : C → C → C) : NNum F C → NNum F C → Out (NNum F C)
  | complex za, b => .ok (complex (cm za (toComplexOrInf O b)))
  | a, complex zb => .ok (complex (cm (toComplexOrInf O a) zb))
  | float fa, b => (expectReal O b).map fun fb => float (fm fa fb)
  | a, float fb => (expectReal O a).map fun fa => float (fm fa fb)
  | rat ra, rat rb => .ok (rat (rm ra rb))
  | rat ra, int b => .ok (rat (rm ra (b : Rat)))
  | int a, rat rb => .ok (rat (rm (a : Rat) rb))
  | int a, int b => .ok (int (im a b))

/-! ### rational operations (num-rational) -/

/-- `Ratio::trunc`: `numer / denom` with truncating integer division -/
def ratTrunc (q : Rat) : Int := Int.tdiv q.num q.den

/-- `impl Rem for Ratio`: both numerators are brought to a common denominator and the truncated
integer remainder is taken (the code uses the lcm of the denominators, the model their product —
`Ratio::new` normalises either) -/
def ratRem (a b : Rat) : Rat :=
  mkRat (Int.tmod (a.num * b.den) (b.num * a.den)) (a.den * b.den)

/-- `dumb_rational_div_floor`: `(a / b).floor()` (a `Ratio` again) -/
def ratDivFloor (a b : Rat) : Rat := ((a / b).floor : Int)

/-- rational arm of `mod_floor` since the `fix:` commit for finding F7: `a - b * (a / b).floor()`
(the pinned snapshot used `Rem::rem`, i.e. `ratRem`, the truncated remainder) -/
def ratModFloor (a b : Rat) : Rat := a - b * ((a / b).floor : Int)

/-- `Ratio::round`: compares twice the magnitude of the fractional numerator with the denominator;
half-way cases go away from zero -/
def ratRound (q : Rat) : Int :=
  let t := Int.tdiv q.num q.den
  let r := (Int.tmod q.num q.den).natAbs
  if q.den ≤ 2 * r then (if 0 ≤ q.num then t + 1 else t - 1) else t

/-! ### the operator bodies registered in lib.rs -/

def add (O : FloatOps F C) := binaryMatch O (· + ·) (· + ·) O.add O.cadd
def sub (O : FloatOps F C) := binaryMatch O (· - ·) (· - ·) O.sub O.csub
def mul (O : FloatOps F C) := binaryMatch O (· * ·) (· * ·) O.mul O.cmul
/-- `Rem::rem` (`%`): truncated remainder on the exact levels -/
def rem (O : FloatOps F C) := binaryMatch O Int.tmod ratRem O.rem O.crem
/-- `NNum::div_floor` -/
def divFloor (O : FloatOps F C) :=
  binaryMatch O Int.fdiv ratDivFloor O.divEuclid (fun a b => O.cfloorParts (O.cdiv a b))
/-- `NNum::mod_floor` -/
def modFloor (O : FloatOps F C) := binaryMatch O Int.fmod ratModFloor O.remEuclid O.crem

/-- `impl Div<&NNum> for &NNum`: exact when both operands are int/rational and the divisor is
non-zero, float / complex division of the converted operands otherwise -/
def divFallback (O : FloatOps F C) (a b : NNum F C) : NNum F C :=
  match toF64OrInfOrComplex O a, toF64OrInfOrComplex O b with
  | .inl fa, .inl fb => float (O.div fa fb)
  | .inr za, .inl fb => complex (O.cdivF za fb)
  | .inl fa, .inr zb => complex (O.fdivC fa zb)
  | .inr za, .inr zb => complex (O.cdiv za zb)

def div (O : FloatOps F C) (a b : NNum F C) : NNum F C :=
  match toRational a, toRational b with
  | some x, some y => if y ≠ 0 then rat (x / y) else divFallback O a b
  | _, _ => divFallback O a b

/-- `a ^ n` on integers (`Pow<&BigUint> for &BigInt`).  The bases 0, 1, −1 are answered without
iterating, so that the model stays executable for exponents of any size (2^31, 2^64, …);
`intPow a n = a ^ n` is proved in Theorems/C07.lean (`intPow_eq`) -/
def intPow (a : Int) (n : Nat) : Int :=
  if a = 0 then (if n = 0 then 1 else 0)
  else if a = 1 then 1
  else if a = -1 then (if n % 2 = 0 then 1 else -1)
  else a ^ n

/-- `q ^ n` on rationals (`Pow<&BigUint> for &Ratio`: numerator and denominator separately), with
the same shortcut for 0, 1, −1; `ratPow q n = q ^ n` is proved (`ratPow_eq`) -/
def ratPow (q : Rat) (n : Nat) : Rat :=
  if q = 0 then (if n = 0 then 1 else 0)
  else if q = 1 then 1
  else if q = -1 then (if n % 2 = 0 then 1 else -1)
  else q ^ n

/-- `pow_big_ints` (`NInt::pow_maybe_recip` inlined) -/
def powBigInts (O : FloatOps F C) (a b : Int) : NNum F C :=
  if b = 0 then int 1
  else if 0 < b then int (intPow a b.toNat)
  else
    let r := intPow a (-b).toNat
    if r = 0 then float O.posInf else rat ((r : Rat)⁻¹)      -- `BigRational::from(r).recip()`

/-- `Pow<&BigInt> for &Ratio` (`pow_signed_impl!`): sign split, `into_recip` for negatives -/
def ratPowInt (a : Rat) (b : Int) : Rat :=
  if b = 0 then 1
  else if b < 0 then (ratPow a (-b).toNat)⁻¹
  else ratPow a b.toNat

/-- `NNum::pow_num` -/
def powNum (O : FloatOps F C) : NNum F C → NNum F C → NNum F C
  | int a, int b => powBigInts O a b
  | int a, rat b => O.powfPd (O.ofInt a) (O.ofRat b)
  | int a, float b => O.powfPd (O.ofInt a) b
  | rat a, int b => if a = 0 ∧ b < 0 then float O.posInf else rat (ratPowInt a b)
  | rat a, rat b => O.powfPd (O.ofRat a) (O.ofRat b)
  | rat a, float b => O.powfPd (O.ofRat a) b
  | float a, float b => O.powfPd a b
  | complex a, float b => complex (O.cpowf a b)
  | float a, rat b => O.powfPd a (O.ofRat b)
  | complex a, rat b => complex (O.cpowf a (O.ofRat b))
  | float a, int b => O.powifPd a b
  | complex a, int b => complex (O.cpowif a b)
  | a, complex zb => complex (O.cpowc (toComplexOrInf O a) zb)

/-- the bodies of the `TwoNumsBuiltin`/`TwoNumsToNumsBuiltin`/`Plus`/`Minus`/`Times`/`Divide`
registrations, by operator name -/
def binop (O : FloatOps F C) (op : String) (a b : NNum F C) : Out (NNum F C) :=
  match op with
  | "+" => add O a b
  | "-" => sub O a b
  | "*" => mul O a b
  | "/" => .ok (div O a b)
  | "%" =>
    if isNonzero O b || (toRational a).isNone || (toRational b).isNone then rem O a b else .throw
  | "//" => if isNonzero O b then divFloor O a b else .throw
  | "%%" => if isNonzero O b then modFloor O a b else .throw
  | "^" => .ok (powNum O a b)
  | _ => .throw

/-! ### unary: `forward_int_coercion!`, `numerator`, `denominator`, `Neg`, `call_type1` -/

/-- `f.$method().to_bigint().map_or(self.clone(), NNum::from)` on a float: the integer when the
float is finite, the float itself otherwise -/
def floatCoerce (O : FloatOps F C) (rnd : Rat → Int) (f : F) : NNum F C :=
  match O.view f with
  | .fin q => int (rnd q)
  | _ => float f

def coerce (O : FloatOps F C) (rnd : Rat → Int) : NNum F C → Out (NNum F C)
  | int i => .ok (int i)
  | rat r => .ok (int (rnd r))
  | float f => .ok (floatCoerce O rnd f)
  | complex _ => .throw        -- `None` → value error "can't coerce to int"

def neg (O : FloatOps F C) : NNum F C → NNum F C
  | int i => int (-i)
  | rat r => rat (-r)
  | float f => float (O.neg f)
  | complex z => complex (O.cneg z)

/-- `exact_to_rational` + `call_type1(Rational)`: `BigRational::from_float` is exact, `None` for
NaN and the infinities -/
def toRationalExact (O : FloatOps F C) : NNum F C → Out (NNum F C)
  | int i => .ok (rat (i : Rat))
  | rat r => .ok (rat r)
  | float f => match O.view f with
    | .fin q => .ok (rat q)
    | _ => .throw
  | complex _ => .throw

/-- `to_f64_ok` + `call_type1(Float)` -/
def toFloat (O : FloatOps F C) : NNum F C → Out (NNum F C)
  | int i => .ok (float (O.ofInt i))
  | rat r => .ok (float (O.ofRat r))
  | float f => .ok (float f)
  | complex _ => .throw

def unop (O : FloatOps F C) (op : String) (a : NNum F C) : Out (NNum F C) :=
  match op with
  | "neg" => .ok (neg O a)
  | "floor" => coerce O Rat.floor a
  | "ceil" => coerce O Rat.ceil a
  | "round" => coerce O ratRound a
  | "int" =>
    -- `call_type1(Int)`: `match n.trunc() { Some(r @ NNum::Int(_)) => Ok(r), _ => Err(value_error) }`
    -- (since the `fix:` commit 48f3e57 a float without an integer part — NaN, ±∞ — is an error)
    match coerce O ratTrunc a with
    | .ok (int i) => .ok (int i)
    | .ok _ => .throw
    | .throw => .throw
    | .panic => .panic
  | "rational" => toRationalExact O a
  | "float" => toFloat O a
  | "numerator" =>
    match a with
    | int i => .ok (int i)
    | rat r => .ok (int r.num)
    | _ => .throw
  | "denominator" =>
    match a with
    | int _ => .ok (int 1)
    | rat r => .ok (int r.den)
    | _ => .throw
  | _ => .throw

end NNum

/-! ### vectorisation (`expect_nums_and_vectorize_*`) -/

/-- the objects the wrappers distinguish: a number, a vector of numbers, anything else -/
inductive VObj (F C : Type) where
  | num (n : NNum F C)
  | vec (xs : List (NNum F C))
  | other
  deriving Repr, Inhabited, DecidableEq

namespace Vectorize
variable {F C : Type}

/-- `iter.map(body).collect::<NRes<Vec<_>>>()`: left to right, the first failure wins -/
def mapOut {α β : Type} (f : α → Out β) : List α → Out (List β)
  | [] => .ok []
  | x :: xs =>
    match f x with
    | .ok y => (mapOut f xs).map (y :: ·)
    | .throw => .throw
    | .panic => .panic

def zipOut {α β γ : Type} (f : α → β → Out γ) : List α → List β → Out (List γ)
  | x :: xs, y :: ys =>
    match f x y with
    | .ok z => (zipOut f xs ys).map (z :: ·)
    | .throw => .throw
    | .panic => .panic
  | _, _ => .ok []

/-- `expect_nums_and_vectorize_1` -/
def vec1 (body : NNum F C → Out (NNum F C)) : VObj F C → Out (VObj F C)
  | .num a => (body a).map .num
  | .vec xs => (mapOut body xs).map .vec
  | .other => .throw

/-- `expect_nums_and_vectorize_2` and `expect_nums_and_vectorize_2_nums` (the latter with a body
that cannot fail) -/
def vec2 (body : NNum F C → NNum F C → Out (NNum F C)) : VObj F C → VObj F C → Out (VObj F C)
  | .num a, .num b => (body a b).map .num
  | .num a, .vec bs => (mapOut (fun e => body a e) bs).map .vec
  | .vec as, .num b => (mapOut (fun e => body e b) as).map .vec
  | .vec as, .vec bs =>
    if as.length = bs.length then (zipOut body as bs).map .vec else .throw
  | _, _ => .throw

/-- a binary arithmetic builtin applied to two objects -/
def binop (O : FloatOps F C) (op : String) (a b : VObj F C) : Out (VObj F C) :=
  vec2 (NNum.binop O op) a b

/-- a unary numeric builtin applied to an object; `int`, `rational`, `float` are type calls
(`call_type1`) and do not vectorise: anything but a number is a type error (strings are C16's) -/
def unop (O : FloatOps F C) (op : String) (a : VObj F C) : Out (VObj F C) :=
  if op = "int" ∨ op = "rational" ∨ op = "float" then
    match a with
    | .num n => (NNum.unop O op n).map .num
    | _ => .throw
  else vec1 (NNum.unop O op) a

end Vectorize
end Noulith
