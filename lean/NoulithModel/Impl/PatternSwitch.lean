/-
Impl model for C12 — `switch` with arm bodies (eval.rs `Expr::Switch`, ~1367).

`switchArm` (Impl/Pattern.lean) selects the arm; here the arm's body is run as well.  The arm loop
is "bind the pattern in a child frame; if that worked, `return` the value of the body — whatever it
is, an error included; otherwise go on to the next arm".  Only a refusal of the *pattern* leads to
the next arm.  The lambda form `\switch case …` builds the same expression.

Core Lean only.
-/
import NoulithModel.Impl.PatternFor

namespace Noulith.C12

/-- the body of an arm: statements with side effects (in the arm's scope), then either a value or
`throw "boom"` -/
structure ArmBody where
  stmts : List BStmt
  raises : Bool
  deriving Inhabited

/-- how a `switch` ends -/
inductive SwOut where
  /-- the body of arm `i` produced its value -/
  | value (i : Nat)
  /-- the body of the selected arm raised: the error leaves the `switch` -/
  | bodyRaise
  /-- "no case matched switch scrutinee" -/
  | noMatch
  | panic
  deriving DecidableEq, Repr, Inhabited

/-- run the body of the selected arm `i` in the environment `ee` its pattern produced -/
def runArm (ee : Env) (i : Nat) (b : ArmBody) : Env × SwOut :=
  match runBody ee b.stmts with
  | (e1, .ok ()) => if b.raises then (e1, .bodyRaise) else (e1, .value i)
  | (e1, .throw) => (e1, .bodyRaise)
  | (e1, .panic) => (e1, .panic)

/-- `Expr::Switch`: the environment in which the `switch` ended (the arm's, when one was selected)
and how it ended -/
def switchRun (e : Env) (s : Val) : List (Pat × ArmBody) → Nat → Env × SwOut
  | [], _ => (e, .noMatch)
  | (p, b) :: arms, i =>
    match assign ([] :: e) p (some .any) s with
    | (ee, .ok ()) => runArm ee i b            -- `return evaluate(&ee, body)`
    | (_, .panic) => (e, .panic)
    | (_, .throw) => switchRun e s arms (i + 1)

end Noulith.C12
