/-
C13 — Impl model of the sequence library of /repo/src/lib.rs (+ the combinatorial streams of
streams.rs), generic part.

Every function here is a transcription of the Rust helper named in its doc comment, *loop for
loop*: Rust `for`/`while let` loops are explicit recursions over the remaining input with the
same accumulators (`acc`, `group`, `window`, `prev`, `seen`, `started`, counters) the Rust code
keeps; `acc.push(x)` is `acc ++ [x]`.  Elements are an abstract type `α`; every Noulith function
argument (predicate, key, comparator, combining function) is a PARAMETER of type `… → Out …`, so a
raising (or panicking) callback is just another input.  `Out = ok | throw | panic` (Common.lean).

The kind dispatch (`multi!`, `multimulti!`, take/drop's own `match`) and the concrete value type
live in `Impl/SeqLibVal.lean`.  Core Lean only.
-/
import NoulithModel.Common
import NoulithModel.Impl.Stream

namespace Noulith.SeqLib
open Noulith

universe u
variable {α β γ κ : Type}

/-! ### `?`-plumbing -/

/-- `x?` followed by the rest of the function -/
@[inline] def andThen (x : Out α) (k : α → Out β) : Out β :=
  match x with
  | .ok a => k a
  | .throw => .throw
  | .panic => .panic

@[simp] theorem andThen_ok (a : α) (k : α → Out β) : andThen (.ok a) k = k a := rfl
@[simp] theorem andThen_throw (k : α → Out β) : andThen (.throw : Out α) k = .throw := rfl
@[simp] theorem andThen_panic (k : α → Out β) : andThen (.panic : Out α) k = .panic := rfl

@[simp] theorem map_ok (f : α → β) (a : α) : (.ok a : Out α).map f = .ok (f a) := rfl
@[simp] theorem map_throw (f : α → β) : (.throw : Out α).map f = .throw := rfl
@[simp] theorem map_panic (f : α → β) : (.panic : Out α).map f = .panic := rfl

/-! ## 1. helpers behind `multi!` (lib.rs 2634-2738) -/

/-- `reversed` (lib.rs:2634): `Vec::reverse` (std, modelled as `List.reverse`). -/
def reversed (v : List α) : Out (List α) := .ok v.reverse

/-- `filtered` (lib.rs:2664): `for x in v { if f(x)?.truthy() != neg { ret.push(x) } }`.
`p x` is "call `f`, take truthiness". -/
def filteredGo (p : α → Out Bool) (neg : Bool) : List α → List α → Out (List α)
  | ret, [] => .ok ret
  | ret, x :: v =>
    match p x with
    | .ok b => if b != neg then filteredGo p neg (ret ++ [x]) v else filteredGo p neg ret v
    | .throw => .throw
    | .panic => .panic

def filtered (p : α → Out Bool) (v : List α) (neg : Bool) : Out (List α) := filteredGo p neg [] v

/-! ### sorting
`slice::sort_by` is std code (trusted base): for a comparator that is a total preorder on the
input it returns the stable sorted permutation, which is what `List.mergeSort` computes.  The
three Noulith wrappers (`sorted`, `sorted_by`, `sorted_on`) share one protocol around it: the
comparator closure records the first error in `ret` and answers `Equal` from then on; after the
sort `ret?` re-raises.  So the call raises iff some comparison the sort performs raises.  Which
pairs std compares is unspecified; the model raises iff *some* pair of distinct positions fails
to compare (exact whenever "comparable" is an equivalence on the input, e.g. type classes, or an
element that is incomparable with everything — every sorting algorithm must compare each element
with at least one other).  The order of two elements follows std's `is_less(later, earlier)`. -/

/-- do `x` and `y` fail to compare (in either orientation)? -/
def pairFailure (cmp : α → α → Out Ordering) (x y : α) : Option (Out Unit) :=
  match cmp x y with
  | .ok _ => (match cmp y x with
             | .ok _ => none
             | .throw => some .throw
             | .panic => some .panic)
  | .throw => some .throw
  | .panic => some .panic

/-- scan all pairs `i < j`, both orientations, for a failing comparison -/
def cmpFailure (cmp : α → α → Out Ordering) : List α → Option (Out Unit)
  | [] => none
  | x :: rest =>
    match rest.findSome? (pairFailure cmp x) with
    | some e => some e
    | none => cmpFailure cmp rest

/-- `le earlier later` as std's merge / insertion uses the comparator: the later element moves
in front only if `is_less(later, earlier)`. -/
def leOf (cmp : α → α → Out Ordering) (a b : α) : Bool :=
  match cmp b a with
  | .ok .lt => false
  | _ => true

/-- the shared protocol of `sorted` / `sorted_by` / `sorted_on` -/
def sortWith (cmp : α → α → Out Ordering) (v : List α) : Out (List α) :=
  match cmpFailure cmp v with
  | some .throw => .throw
  | some _ => .panic
  | none => .ok (v.mergeSort (leOf cmp))

/-- `sorted` (lib.rs:2644): comparator `a.partial_cmp(b)`, `None` => value error. -/
def sorted (pcmp : α → α → Option Ordering) (v : List α) : Out (List α) :=
  sortWith (fun a b => match pcmp a b with | some o => .ok o | none => .throw) v

/-- `sorted_by` (lib.rs:2676): comparator `ncmp(f(a, b)?, 0)?`; `cmp` is that composite. -/
def sortedBy (cmp : α → α → Out Ordering) (v : List α) : Out (List α) := sortWith cmp v

/-- `sorted_on` (lib.rs:2702): keys first (`collect::<NRes<Vec<_>>>()?`, left to right, stops at
the first failing key), then sort the pairs by `ncmp(ak, bk)`, then drop the keys. -/
def keyedGo (key : α → Out κ) : List (κ × α) → List α → Out (List (κ × α))
  | w, [] => .ok w
  | w, a :: v =>
    match key a with
    | .ok k => keyedGo key (w ++ [(k, a)]) v
    | .throw => .throw
    | .panic => .panic

def sortedOn (key : α → Out κ) (kcmp : κ → κ → Out Ordering) (v : List α) : Out (List α) :=
  andThen (keyedGo key [] v) fun w =>
  andThen (sortWith (fun p q => kcmp p.1 q.1) w) fun w' =>
  .ok (w'.map (·.2))

/-- `uniqued` (lib.rs:2726): `seen` is a `HashSet<ObjKey>` (std, modelled as the list of keys
inserted so far, membership by key equality); `seen.insert(k)` is true iff `k` was absent. -/
def uniquedGo [BEq κ] (toKey : α → Out κ) : List κ → List α → List α → Out (List α)
  | _, ret, [] => .ok ret
  | seen, ret, x :: v =>
    match toKey x with
    | .ok k => if seen.elem k then uniquedGo toKey seen ret v
              else uniquedGo toKey (seen ++ [k]) (ret ++ [x]) v
    | .throw => .throw
    | .panic => .panic

def uniqued [BEq κ] (toKey : α → Out κ) (v : List α) : Out (List α) := uniquedGo toKey [] [] v

/-! ## 2. helpers behind `multimulti!` (lib.rs 2740-3037) -/

/-- `grouped` (lib.rs:2740).  The Rust is `loop { for _ in 0..n { match it.next() … } acc.push(take
group) }`; `i` is the number of iterations the inner `for` still has to make when `it.next()` is
called (so `1 ≤ i ≤ n`; the caller rejects `n = 0`, for which the Rust would spin forever — that
arm is `panic` here and unreachable). -/
def groupedGo (n : Nat) (strict : Bool) : List (List α) → List α → Nat → List α → Out (List (List α))
  | acc, group, _, [] =>
    if !group.isEmpty then
      if strict && group.length != n then .throw else .ok (acc ++ [group])
    else .ok acc
  | _, _, 0, _ :: _ => .panic
  | acc, group, i + 1, x :: it =>
    if i = 0 then groupedGo n strict (acc ++ [group ++ [x]]) [] n it
    else groupedGo n strict acc (group ++ [x]) i it

def grouped (it : List α) (n : Nat) (strict : Bool) : Out (List (List α)) :=
  groupedGo n strict [] [] n it

/-- `grouped_by` (lib.rs:2764): a new group starts where `f(prev, obj)` is false. -/
def groupedByGo (f : α → α → Out Bool) : List (List α) → List α → List α → Out (List (List α))
  | acc, group, [] => .ok (if !group.isEmpty then acc ++ [group] else acc)
  | acc, group, obj :: it =>
    match group.getLast? with
    | none => groupedByGo f acc (group ++ [obj]) it
    | some prev =>
      match f prev obj with
      | .ok true => groupedByGo f acc (group ++ [obj]) it
      | .ok false => groupedByGo f (acc ++ [group]) [obj] it
      | .throw => .throw
      | .panic => .panic

def groupedBy (f : α → α → Out Bool) (it : List α) : Out (List (List α)) := groupedByGo f [] [] it

/-- `map.entry(key).or_default().push(i)` on an association list kept in first-insertion order
(`HashMap`, std: iteration order is unspecified — observers sort). -/
def entryPush [BEq κ] (k : κ) (i : α) : List (κ × List α) → List (κ × List α)
  | [] => [(k, [i])]
  | (k', g) :: m => if k' == k then (k', g ++ [i]) :: m else (k', g) :: entryPush k i m

/-- `classified_with` (lib.rs:2794). -/
def classifiedGo [BEq κ] (key : α → Out κ) : List (κ × List α) → List α → Out (List (κ × List α))
  | map, [] => .ok map
  | map, i :: it =>
    match key i with
    | .ok k => classifiedGo key (entryPush k i map) it
    | .throw => .throw
    | .panic => .panic

def classifiedWith [BEq κ] (key : α → Out κ) (it : List α) : Out (List (κ × List α)) :=
  classifiedGo key [] it

/-- `grouped_all_with` (lib.rs:2807): `into_values()`. -/
def groupedAllWith [BEq κ] (key : α → Out κ) (it : List α) : Out (List (List α)) :=
  (classifiedWith key it).map fun m => m.map (·.2)

/-- `frequencies` (lib.rs:4359): `*c.entry(k).or_insert(0) += 1`. -/
def entryIncr [BEq κ] (k : κ) : List (κ × Nat) → List (κ × Nat)
  | [] => [(k, 1)]
  | (k', c) :: m => if k' == k then (k', c + 1) :: m else (k', c) :: entryIncr k m

def frequenciesGo [BEq κ] (toKey : α → Out κ) : List (κ × Nat) → List α → Out (List (κ × Nat))
  | c, [] => .ok c
  | c, e :: it =>
    match toKey e with
    | .ok k => frequenciesGo toKey (entryIncr k c) it
    | .throw => .throw
    | .panic => .panic

def frequencies [BEq κ] (toKey : α → Out κ) (it : List α) : Out (List (κ × Nat)) :=
  frequenciesGo toKey [] it

/-- `windowed`, first loop (lib.rs:2817): fill the window with `n` items; `none` = the input ran
out (`return Ok(Vec::new())`). -/
def windowFill : Nat → List α → List α → Option (List α × List α)
  | 0, window, it => some (window, it)
  | _ + 1, _, [] => none
  | k + 1, window, x :: it => windowFill k (window ++ [x]) it

/-- `windowed`, second loop (lib.rs:2824): `pop_front; push_back; acc.push(window.clone())`. -/
def windowSlide : List α → List (List α) → List α → List (List α)
  | _, acc, [] => acc
  | window, acc, next :: it =>
    let w := window.drop 1 ++ [next]
    windowSlide w (acc ++ [w]) it

def windowed (it : List α) (n : Nat) : List (List α) :=
  match windowFill n [] it with
  | none => []
  | some (window, rest) => windowSlide window [window] rest

/-- `prefixes` (lib.rs:3018). -/
def prefixesGo : List α → List (List α) → List α → List (List α)
  | _, acc, [] => acc
  | pre, acc, obj :: it => prefixesGo (pre ++ [obj]) (acc ++ [pre ++ [obj]]) it

def prefixes (it : List α) : List (List α) := prefixesGo [] [[]] it

/-- `reversed_prefixes` (lib.rs:3027). -/
def reversedPrefixesGo : List α → List (List α) → List α → List (List α)
  | _, acc, [] => acc
  | pre, acc, obj :: it => reversedPrefixesGo (pre ++ [obj]) (acc ++ [(pre ++ [obj]).reverse]) it

def reversedPrefixes (it : List α) : List (List α) := reversedPrefixesGo [] [[]] it

/-- `multi_suffixes` (lib.rs:3109): `reversed_prefixes(multi_reverse(v))`. -/
def suffixes (v : List α) : List (List α) := reversedPrefixes v.reverse

/-! ## 3. take / drop with a predicate (lib.rs 2832-2937), uncons / unsnoc -/

/-- `take_while_inner` (lib.rs:2832) -/
def takeWhileGo (p : α → Out Bool) : List α → List α → Out (List α)
  | acc, [] => .ok acc
  | acc, x :: it =>
    match p x with
    | .ok true => takeWhileGo p (acc ++ [x]) it
    | .ok false => .ok acc
    | .throw => .throw
    | .panic => .panic

def takeWhile (p : α → Out Bool) (it : List α) : Out (List α) := takeWhileGo p [] it

/-- `drop_while_inner` (lib.rs:2888): peek; advance while the predicate holds; the rest is the
result.  (The stream arm of `drop_while`, lib.rs:2926, is the same loop after the fix of F19.) -/
def dropWhile (p : α → Out Bool) : List α → Out (List α)
  | [] => .ok []
  | x :: it =>
    match p x with
    | .ok true => dropWhile p it
    | .ok false => .ok (x :: it)
    | .throw => .throw
    | .panic => .panic

/-- `uncons` (lib.rs:2941): `remove(0)`. -/
def uncons : List α → Option (α × List α)
  | [] => none
  | x :: s => some (x, s)

/-- `unsnoc` (lib.rs:2995): `pop()`. -/
def unsnoc (s : List α) : Option (List α × α) :=
  match s.getLast? with
  | none => none
  | some e => some (s.dropLast, e)

/-! ## 4. the one-line registrations of `initialize` -/

/-- `map` (lib.rs:3973): `it.map(|e| b.run1(env, e?)).collect::<NRes<Vec<Obj>>>()` -/
def mapGo (f : α → Out β) : List β → List α → Out (List β)
  | acc, [] => .ok acc
  | acc, e :: it =>
    match f e with
    | .ok r => mapGo f (acc ++ [r]) it
    | .throw => .throw
    | .panic => .panic

def map (f : α → Out β) (it : List α) : Out (List β) := mapGo f [] it

/-- `each` (lib.rs:3939) -/
def each (f : α → Out β) : List α → Out Unit
  | [] => .ok ()
  | e :: it =>
    match f e with
    | .ok _ => each f it
    | .throw => .throw
    | .panic => .panic

/-- `flat_map` (lib.rs:4176): `f` is "call `b`, then iterate the result" (a non-iterable result
raises); inner loop `for k in … { acc.push(k?) }`. -/
def flatMapGo (f : α → Out (List β)) : List β → List α → Out (List β)
  | acc, [] => .ok acc
  | acc, e :: it =>
    match f e with
    | .ok r => flatMapGo f (acc ++ r) it
    | .throw => .throw
    | .panic => .panic

def flatMap (f : α → Out (List β)) (it : List α) : Out (List β) := flatMapGo f [] it

/-- `flatten` (lib.rs:4143): the same loops with `f` = "iterate the element". -/
def flatten (iter : α → Out (List β)) (it : List α) : Out (List β) := flatMapGo iter [] it

/-- `partition` (lib.rs:4266) -/
def partitionGo (p : α → Out Bool) : List α → List α → List α → Out (List α × List α)
  | accT, accF, [] => .ok (accT, accF)
  | accT, accF, e :: it =>
    match p e with
    | .ok true => partitionGo p (accT ++ [e]) accF it
    | .ok false => partitionGo p accT (accF ++ [e]) it
    | .throw => .throw
    | .panic => .panic

def partition (p : α → Out Bool) (it : List α) : Out (List α × List α) := partitionGo p [] [] it

/-- `pairwise` (lib.rs:4196): `prev.take()` / `prev = Some(a)` -/
def pairwiseGo (f : α → α → Out β) : Option α → List β → List α → Out (List β)
  | _, acc, [] => .ok acc
  | prev, acc, a :: it =>
    match prev with
    | some p =>
      match f p a with
      | .ok r => pairwiseGo f (some a) (acc ++ [r]) it
      | .throw => .throw
      | .panic => .panic
    | none => pairwiseGo f (some a) acc it

def pairwise (f : α → α → Out β) (it : List α) : Out (List β) := pairwiseGo f none [] it

/-- `enumerate` (lib.rs:5258): `.enumerate()` counter -/
def enumerateGo : Nat → List (Nat × α) → List α → List (Nat × α)
  | _, acc, [] => acc
  | k, acc, v :: it => enumerateGo (k + 1) (acc ++ [(k, v)]) it

def enumerate (it : List α) : List (Nat × α) := enumerateGo 0 [] it

/-- `find` / `find?` (lib.rs:4949): `none` = ran off the end -/
def find (p : α → Out Bool) : List α → Out (Option α)
  | [] => .ok none
  | x :: it =>
    match p x with
    | .ok true => .ok (some x)
    | .ok false => find p it
    | .throw => .throw
    | .panic => .panic

/-- `locate` / `locate?` (lib.rs:4981), predicate and `== value` forms: `.enumerate()` counter -/
def locateGo (p : α → Out Bool) : Nat → List α → Out (Option Nat)
  | _, [] => .ok none
  | i, x :: it =>
    match p x with
    | .ok true => .ok (some i)
    | .ok false => locateGo p (i + 1) it
    | .throw => .throw
    | .panic => .panic

def locate (p : α → Out Bool) (it : List α) : Out (Option Nat) := locateGo p 0 it

/-- `Count` (lib.rs:770): all three forms count the elements on which `p` is true
(`p` = truthiness / call the predicate / `== b`). -/
def countGo (p : α → Out Bool) : Nat → List α → Out Nat
  | c, [] => .ok c
  | c, e :: it =>
    match p e with
    | .ok true => countGo p (c + 1) it
    | .ok false => countGo p c it
    | .throw => .throw
    | .panic => .panic

def count (p : α → Out Bool) (it : List α) : Out Nat := countGo p 0 it

/-! ### `SeqAndMappedFoldBuiltin` (lib.rs:2046): sum / product / any / all -/

/-- what `body(state, next)` can do: continue with a new state, `Break(0, Some(v))`, or fail -/
inductive Step (σ : Type) where
  | next (s : σ)
  | brk (v : σ)
  | throw
  | panic

/-- the `for e in … { state = match body(state, f(e?)?) { Ok(r) => r, Err(Break(0, r)) => return
Ok(r) … } }` loop of `run` / `run1` / `run2` (identical in the three) -/
def seqFoldGo (f : α → Out β) (body : γ → β → Step γ) : γ → List α → Out γ
  | state, [] => .ok state
  | state, e :: it =>
    match f e with
    | .ok y =>
      match body state y with
      | .next r => seqFoldGo f body r it
      | .brk r => .ok r
      | .throw => .throw
      | .panic => .panic
    | .throw => .throw
    | .panic => .panic

def seqFold (identity : γ) (body : γ → β → Step γ) (f : α → Out β) (it : List α) : Out γ :=
  seqFoldGo f body identity it

/-- `any` (lib.rs:4287): identity false, body: `if f.truthy() { Break(true) } else { Ok(s) }` -/
def anyBody (s : Bool) (y : Bool) : Step Bool := if y then .brk true else .next s
def any (p : α → Out Bool) (it : List α) : Out Bool := seqFold false anyBody p it
/-- `all` (lib.rs:4298) -/
def allBody (s : Bool) (y : Bool) : Step Bool := if !y then .brk false else .next s
def all (p : α → Out Bool) (it : List α) : Out Bool := seqFold true allBody p it
/-- `sum` / `product` (lib.rs:3358): body = the vectorising `+` / `*` -/
def arithBody (op : γ → γ → Out γ) (s : γ) (y : γ) : Step γ :=
  match op s y with
  | .ok r => .next r
  | .throw => .throw
  | .panic => .panic
def sumLike (identity : γ) (op : γ → γ → Out γ) (f : α → Out γ) (it : List α) : Out γ :=
  seqFold identity (arithBody op) f it

/-! ### `Extremum` (lib.rs:629): min / max -/

/-- all four loops: `ret` is replaced when `cmp(b, ret) == bias` (strict: the first extremum
wins ties); `cmp` is `ncmp` or `ncmp(f(b, r), 0)`.  `none` = empty input (`empty_error`). -/
def extremumGo (cmp : α → α → Out Ordering) (bias : Ordering) : Option α → List α → Out (Option α)
  | ret, [] => .ok ret
  | none, b :: it => extremumGo cmp bias (some b) it
  | some r, b :: it =>
    match cmp b r with
    | .ok o => if o == bias then extremumGo cmp bias (some b) it else extremumGo cmp bias (some r) it
    | .throw => .throw
    | .panic => .panic

def extremum (cmp : α → α → Out Ordering) (bias : Ordering) (it : List α) : Out α :=
  match extremumGo cmp bias none it with
  | .ok (some r) => .ok r
  | .ok none => .throw
  | .throw => .throw
  | .panic => .panic

/-! ### `Fold` (lib.rs:1341) and `Scan` (lib.rs:1399) -/

def foldGo (f : β → α → Out β) : β → List α → Out β
  | cur, [] => .ok cur
  | cur, e :: it =>
    match f cur e with
    | .ok r => foldGo f r it
    | .throw => .throw
    | .panic => .panic

/-- `fold(s, f, cur)` -/
def foldFrom (f : β → α → Out β) (cur : β) (it : List α) : Out β := foldGo f cur it
/-- `fold(s, f)`: first element is the seed; empty => `empty_error` -/
def fold1 (f : α → α → Out α) : List α → Out α
  | [] => .throw
  | cur0 :: it => foldGo f cur0 it

def scanGo (f : β → α → Out β) : β → List β → List α → Out (List β)
  | _, acc, [] => .ok acc
  | cur, acc, e :: it =>
    match f cur e with
    | .ok r => scanGo f r (acc ++ [r]) it
    | .throw => .throw
    | .panic => .panic

/-- `scan(s, f, cur)` -/
def scanFrom (f : β → α → Out β) (cur : β) (it : List α) : Out (List β) := scanGo f cur [cur] it
/-- `scan(s, f)`: empty => `[]` -/
def scan1 (f : α → α → Out α) : List α → Out (List α)
  | [] => .ok []
  | cur0 :: it => scanGo f cur0 [cur0] it

/-! ### `Zip` (lib.rs:1044), `ZipLongest` (lib.rs:1121), `transpose` (lib.rs:4225) -/

/-- one round of `iterators.iter_mut().map(|a| a.next()).collect::<Option<Vec<_>>>()`: `none` as
soon as one iterator is exhausted (iterators after it are not advanced), else the batch and the
advanced iterators -/
def zipBatch : List (List α) → Option (List α × List (List α))
  | [] => some ([], [])
  | [] :: _ => none
  | (x :: xs) :: rest =>
    match zipBatch rest with
    | none => none
    | some (b, rest') => some (x :: b, xs :: rest')

/-- the `while let Some(batch) = …` loop; `f` is the optional function (identity-to-list when
absent, done by the caller).  `fuel` only makes the recursion structural: every round consumes
one element of every iterator, so `fuel = length of the first iterator + 1` is never exhausted. -/
def zipGo (f : List α → Out β) : Nat → List β → List (List α) → Out (List β)
  | 0, ret, _ => .ok ret
  | fuel + 1, ret, its =>
    match zipBatch its with
    | none => .ok ret
    | some (batch, its') =>
      match f batch with
      | .ok r => zipGo f fuel (ret ++ [r]) its'
      | .throw => .throw
      | .panic => .panic

/-- `zip` with ≥ 1 iterable (the caller has rejected zero iterables) -/
def zip (f : List α → Out β) (its : List (List α)) : Out (List β) :=
  match its with
  | [] => .throw
  | first :: _ => zipGo f (first.length + 1) [] its

/-- one round of `iterators.iter_mut().flat_map(|a| a.next())`: the heads of the non-exhausted
iterators, and all iterators advanced -/
def longestBatch : List (List α) → List α × List (List α)
  | [] => ([], [])
  | [] :: rest => let (b, r) := longestBatch rest; (b, [] :: r)
  | (x :: xs) :: rest => let (b, r) := longestBatch rest; (x :: b, xs :: r)

/-- the `loop` of `ziplongest` / `transpose`; `f` reduces a non-empty batch (pairwise fold with
the function, or "make a list").  `fuel` = longest iterator length + 1. -/
def zipLongestGo (f : List α → Out β) : Nat → List β → List (List α) → Out (List β)
  | 0, ret, _ => .ok ret
  | fuel + 1, ret, its =>
    match longestBatch its with
    | ([], _) => .ok ret
    | (batch, its') =>
      match f batch with
      | .ok r => zipLongestGo f fuel (ret ++ [r]) its'
      | .throw => .throw
      | .panic => .panic

def maxLen (its : List (List α)) : Nat := its.foldl (fun m l => max m l.length) 0

def zipLongest (f : List α → Out β) (its : List (List α)) : Out (List β) :=
  zipLongestGo f (maxLen its + 1) [] its

/-- the batch reduction of `ziplongest` with a function: `x = f(x, y)` over the rest of the batch -/
def reduceBatch (f : α → α → Out α) : List α → Out α
  | [] => .panic   -- unreachable: batches are non-empty
  | x0 :: batch => foldGo f x0 batch

/-! ### `CartesianProduct` (lib.rs:1269) -/

/-- `cartesian_foreach` (lib.rs:1251): `acc.push(e); recurse; acc.pop()`; the callback pushes a
clone of `acc` to `ret`, so the function is modelled as returning the extended `ret`. -/
def cartesianForeach : List α → List (List α) → List (List α) → List (List α)
  | acc, [], ret => ret ++ [acc]
  | acc, a :: rest, ret =>
    a.foldl (fun ret e => cartesianForeach (acc ++ [e]) rest ret) ret

def cartesianProduct (seqs : List (List α)) : List (List α) := cartesianForeach [] seqs []

/-- `seq ** n`: `for _ in range(0, s) { for e in seq { acc.push(e) } }` (a negative count is an
empty range) -/
def replicateGo (seq : List α) : Nat → List α → List α
  | 0, acc => acc
  | k + 1, acc => replicateGo seq k (acc ++ seq)

def cartesianScalar (seq : List α) (s : Int) : List α := replicateGo seq s.toNat []

/-! ### combinatorial streams (streams.rs 183-499)
Each stream is a state `Option (List index)` with a `next` step; `force` collects until `None`.
`force` is the only non-structural loop: it takes a fuel argument, and the callers pass a bound
that is provably large enough (the number of states). -/

/-- `CartesianPower::next` (streams.rs:434), the loop `for i in (0..len).rev() { v[i] += 1; if v[i]
== m { v[i] = 0 } else { return } }` on the reversed digit list; `none` = ran off the front
(`self.1 = None`) -/
def powerGo (m : Nat) : List Nat → Option (List Nat)
  | [] => none
  | d :: ds => if d + 1 == m then (powerGo m ds).map (0 :: ·) else some ((d + 1) :: ds)

def powerIncr (m : Nat) (v : List Nat) : Option (List Nat) := (powerGo m v.reverse).map List.reverse

/-- generic `force`: `step state = (item, next state)` -/
def forceGo {σ : Type} (step : σ → β × Option σ) : Nat → Option σ → List β → List β
  | 0, _, acc => acc
  | _, none, acc => acc
  | fuel + 1, some s, acc =>
    let (item, s') := step s
    forceGo step fuel s' (acc ++ [item])

def pick (xs : List α) (idx : List Nat) : List α := idx.filterMap (xs[·]?)

/-- `xs ^^ n` (lib.rs:4829, post-fix of F21: the empty base has no state only when `n > 0`) -/
def cartesianPower (xs : List α) (n : Nat) : List (List α) :=
  let init : Option (List Nat) := if xs.isEmpty && n != 0 then none else some (List.replicate n 0)
  forceGo (fun v => (pick xs v, powerIncr xs.length v)) (xs.length ^ n + 1) init []

/-- `Subsequences::next` (streams.rs:352): set the last `false` to `true`, clear what follows -/
def subseqIncr (v : List Bool) : Option (List Bool) :=
  let rec go : List Bool → Option (List Bool)   -- on the reversed flags
    | [] => none
    | b :: bs => if !b then some (true :: bs) else (go bs).map (false :: ·)
  (go v.reverse).map List.reverse

def pickFlags : List Bool → List α → List α
  | b :: bs, x :: xs => if b then x :: pickFlags bs xs else pickFlags bs xs
  | _, _ => []

def subsequences (xs : List α) : List (List α) :=
  forceGo (fun v => (pickFlags v xs, subseqIncr v)) (2 ^ xs.length + 1)
    (some (List.replicate xs.length false)) []

/-- `Combinations::next` (streams.rs:281) on the reversed index list: find the last index that
can still grow (`v[i] + 1 < last`), bump it, reset what follows to consecutive values -/
def combGo : Nat → List Nat → Option (Nat × List Nat)  -- last, reversed prefix; returns (new v[i], rev prefix)
  | _, [] => none
  | last, d :: ds => if d + 1 < last then some (d + 1, ds) else combGo (last - 1) ds

def combIncr (n : Nat) (v : List Nat) : Option (List Nat) :=
  match combGo n v.reverse with
  | none => none
  | some (d, dsRev) =>
    let pre := dsRev.reverse
    let tailLen := v.length - pre.length - 1
    some (pre ++ [d] ++ (List.range tailLen).map (fun j => d + 1 + j))

def combinations (xs : List α) (k : Nat) : List (List α) :=
  -- `if v.len() > self.0.len() { return None }`
  if k > xs.length then []
  else forceGo (fun v => (pick xs v, combIncr xs.length v)) (2 ^ xs.length + 1)
    (some (List.range k)) []

/-- `Permutations::next` (streams.rs:188): the scan `for i in 0..(v.len() - 1)` for `up = (inc, linc)`
(last ascent, last larger entry behind it), then `v.swap(inc, linc); v[inc + 1..].reverse()`.  This is
the transcription shared with the C11 slice (`Impl/Stream.lean`, `Perm.scanStep` / `Perm.scan` /
`Perm.swap` / `Perm.advance`), so that the successor lemmas of `Theorems/C11PermStep.lean` apply. -/
def permIncr (v : List Nat) : Option (List Nat) := Noulith.Stream.Perm.advance v

def factorial : Nat → Nat
  | 0 => 1
  | n + 1 => (n + 1) * factorial n

/-- `permutations` (lib.rs:3877).  For the empty input `0..(v.len() - 1)` underflowed (F14,
fixed by the C11 slice); the model is the post-fix form: the scan range is empty (`Nat`
subtraction), so the only permutation `[]` is produced once. -/
def permutations (xs : List α) : List (List α) :=
  forceGo (fun v => (pick xs v, permIncr v)) (factorial xs.length + 1)
    (some (List.range xs.length)) []

/-! ### strings: join / split / words / lines -/

/-- `simple_join` (lib.rs:2553): the `started` flag -/
def joinGo (joiner : List γ) (disp : α → List γ) : Bool → List γ → List α → List γ
  | _, acc, [] => acc
  | started, acc, arg :: it =>
    let acc := if started then acc ++ joiner else acc
    joinGo joiner disp true (acc ++ disp arg) it

def join (joiner : List γ) (disp : α → List γ) (it : List α) : List γ := joinGo joiner disp false [] it

/-- does `pat` occur at the head of `s`?  returns the rest -/
def stripPrefix? [BEq γ] : List γ → List γ → Option (List γ)
  | [], s => some s
  | _ :: _, [] => none
  | p :: ps, c :: cs => if p == c then stripPrefix? ps cs else none

/-- `str::split` with a non-empty string pattern (std, modelled as the leftmost non-overlapping
scan); `cur` is the piece being collected -/
def splitGo [BEq γ] (pat : List γ) : Nat → List γ → List γ → List (List γ)
  | 0, cur, _ => [cur]
  | _, cur, [] => [cur]
  | fuel + 1, cur, c :: cs =>
    match stripPrefix? pat (c :: cs) with
    | some rest => cur :: splitGo pat fuel [] rest
    | none => splitGo pat fuel (cur ++ [c]) cs

/-- `s.split(t)`; the empty pattern matches at every char boundary including both ends -/
def split [BEq γ] (s pat : List γ) : List (List γ) :=
  if pat.isEmpty then [[]] ++ s.map (fun c => [c]) ++ [[]]
  else splitGo pat (s.length + 1) [] s

/-- `split_whitespace`: maximal runs of non-whitespace -/
def wordsGo (isWs : γ → Bool) : List γ → List γ → List (List γ)
  | cur, [] => if cur.isEmpty then [] else [cur]
  | cur, c :: cs =>
    if isWs c then (if cur.isEmpty then wordsGo isWs [] cs else cur :: wordsGo isWs [] cs)
    else wordsGo isWs (cur ++ [c]) cs

def words (isWs : γ → Bool) (s : List γ) : List (List γ) := wordsGo isWs [] s

/-- `split_terminator('\n')`: like split, but a trailing empty piece is dropped -/
def lines [BEq γ] (nl : γ) (s : List γ) : List (List γ) :=
  let parts := split s [nl]
  match parts.getLast? with
  | some [] => parts.dropLast
  | _ => parts

/-! ## more of the library: substring search, bounded split, dictionary merge -/

/-- `str::find(&str)` (std; also behind `str::contains`): the first position where `pat` occurs,
scanning left to right; `i` counts the positions passed -/
def findSubGo [BEq γ] (pat : List γ) : Nat → List γ → Option Nat
  | i, [] => if pat.isEmpty then some i else none
  | i, c :: cs => if pat.isPrefixOf (c :: cs) then some i else findSubGo pat (i + 1) cs

def findSub [BEq γ] (pat s : List γ) : Option Nat := findSubGo pat 0 s

/-- `str::splitn(n, pat)` (std `SplitN::next`): `count = 0` => end; `count = 1` => the remainder is
the last piece; otherwise one more piece from the inner `split` (non-empty pattern; `cur` is the
piece being collected, `fuel` makes the recursion structural) -/
def splitnGo [BEq γ] (pat : List γ) : Nat → Nat → List γ → List γ → List (List γ)
  | 0, _, cur, _ => [cur]
  | _, 0, _, _ => []
  | _, 1, cur, s => [cur ++ s]
  | _, _ + 2, cur, [] => [cur]
  | fuel + 1, n + 2, cur, c :: cs =>
    match stripPrefix? pat (c :: cs) with
    | some rest => cur :: splitnGo pat fuel (n + 1) [] rest
    | none => splitnGo pat fuel (n + 2) (cur ++ [c]) cs

/-- `s.splitn(n, t)`; with the empty pattern the pieces are "", each char, "" and the `n`-th piece
is the unsplit remainder -/
def splitn [BEq γ] (s pat : List γ) (n : Nat) : List (List γ) :=
  if pat.isEmpty then
    let ps := [[]] ++ s.map (fun c => [c]) ++ [[]]
    if n = 0 then [] else if ps.length ≤ n then ps else ps.take (n - 1) ++ [(ps.drop (n - 1)).flatten]
  else splitnGo pat (s.length + 1) n [] s

/-- `str::rsplit` / `rsplitn` (std): the same scan from the right end, modelled on the reversed
text -/
def rsplit [BEq γ] (s pat : List γ) : List (List γ) := (split s.reverse pat.reverse).map List.reverse
def rsplitn [BEq γ] (s pat : List γ) (n : Nat) : List (List γ) :=
  (splitn s.reverse pat.reverse n).map List.reverse

/-- `Merge` (lib.rs:1459), one `ret.entry(k)`: vacant => insert; occupied => overwrite, or
`f(old, v)` when a function was given (`ret` as an association list in insertion order) -/
def mergeEntry [BEq κ] (f : Option (β → β → Out β)) (k : κ) (v : β) : List (κ × β) → Out (List (κ × β))
  | [] => .ok [(k, v)]
  | (k', old) :: m =>
    if k' == k then
      match f with
      | none => .ok ((k', v) :: m)
      | some f =>
        match f old v with
        | .ok r => .ok ((k', r) :: m)
        | .throw => .throw
        | .panic => .panic
    else
      match mergeEntry f k v m with
      | .ok m' => .ok ((k', old) :: m')
      | .throw => .throw
      | .panic => .panic

/-- `for (k, v) in dict` -/
def mergeDict [BEq κ] (f : Option (β → β → Out β)) : List (κ × β) → List (κ × β) → Out (List (κ × β))
  | ret, [] => .ok ret
  | ret, (k, v) :: d =>
    match mergeEntry f k v ret with
    | .ok ret' => mergeDict f ret' d
    | .throw => .throw
    | .panic => .panic

/-- `for dict in dicts` -/
def mergeAll [BEq κ] (f : Option (β → β → Out β)) : List (κ × β) → List (List (κ × β)) → Out (List (κ × β))
  | ret, [] => .ok ret
  | ret, d :: ds =>
    match mergeDict f ret d with
    | .ok ret' => mergeAll f ret' ds
    | .throw => .throw
    | .panic => .panic

def merge [BEq κ] (f : Option (β → β → Out β)) (dicts : List (List (κ × β))) : Out (List (κ × β)) :=
  mergeAll f [] dicts

/-- `join` with a bytes separator (lib.rs:4612): the same `started` protocol, but every piece is
converted on the way (`disp` = iterate the piece and turn each element into a byte; a piece that
is not iterable or an element that is not a byte raises) -/
def joinGoE (joiner : List γ) (disp : α → Out (List γ)) : Bool → List γ → List α → Out (List γ)
  | _, acc, [] => .ok acc
  | started, acc, arg :: it =>
    let acc := if started then acc ++ joiner else acc
    match disp arg with
    | .ok piece => joinGoE joiner disp true (acc ++ piece) it
    | .throw => .throw
    | .panic => .panic

def joinE (joiner : List γ) (disp : α → Out (List γ)) (it : List α) : Out (List γ) :=
  joinGoE joiner disp false [] it

/-! ## how many times the callback is called
`seqFoldGoN` is `seqFoldGo` (the loop of `SeqAndMappedFoldBuiltin::run` / `run1` / `run2`) with a
counter of the calls of `f` made so far: the loop stops right after the deciding element. -/

def seqFoldGoN (f : α → Out β) (body : γ → β → Step γ) : γ → Nat → List α → Out γ × Nat
  | state, n, [] => (.ok state, n)
  | state, n, e :: it =>
    match f e with
    | .ok y =>
      match body state y with
      | .next r => seqFoldGoN f body r (n + 1) it
      | .brk r => (.ok r, n + 1)
      | .throw => (.throw, n + 1)
      | .panic => (.panic, n + 1)
    | .throw => (.throw, n + 1)
    | .panic => (.panic, n + 1)

/-- the number of elements visited by a loop that stops right after the first element whose
callback outcome satisfies `stop` (`find`, `locate`, `take` / `drop` with a predicate stop at the
deciding element or at a failure; `map`, `filter`, … only at a failure) -/
def callsUntil (stop : Out β → Bool) (f : α → Out β) : List α → Nat
  | [] => 0
  | x :: xs => if stop (f x) then 1 else 1 + callsUntil stop f xs

end Noulith.SeqLib
