/-
Impl model of the JSON *text* layer behind `json_encode` / `json_decode` (crate serde_json 1.0.149,
default features + `float_roundtrip`, no `preserve_order`, no `arbitrary_precision`):

* `writeJson` — `serde_json::to_string(&Value)`: the compact writer (ser.rs `CompactFormatter`,
  `format_escaped_str` with the `ESCAPE` table, itoa for integers); floats are written by an
  external shortest-round-trip formatter (`zmij`), a parameter here;
* `mapOfList` / `canonJ` — `serde_json::Map` is a `BTreeMap<String, Value>`: building it sorts the
  members by key (byte order of UTF-8 = code point order) and a later duplicate replaces an
  earlier one;
* `parseJson` — `serde_json::from_str::<Value>` (de.rs `deserialize_any`, `parse_integer`,
  `parse_number`, `SeqAccess`, `MapAccess`, `end`; read.rs `parse_str`, `parse_escape`,
  `parse_unicode_escape`): white space, the four literal shapes, the number grammar with the
  u64 / i64 / float classification, strings with all escapes incl. surrogate pairs and the
  control-character check, arrays, objects, the recursion limit of 128, trailing characters.
  The conversion of a float token to an `f64` is external, a parameter here.

Text is a `Str` (list of scalar values): serde_json works on UTF-8 bytes, but every byte it looks
at specially is ASCII and all other bytes are copied, so the scalar-value view is exact for `&str`
input.  Core Lean only.
-/
import NoulithModel.Impl.Codec

namespace Noulith.Codec

/-! ## the external float text functions -/

/-- `zmij::Buffer::format_finite` (writer) and the correctly rounded decimal-to-f64 conversion of
the parser (`float_roundtrip`): not modelled.  `parse` gets the exact characters of the number
token; `none` = "number out of range". -/
structure FloatText where
  fmt : F64 → Str
  parse : Str → Option F64

/-! ## `serde_json::Map` = `BTreeMap<String, Value>` -/

/-- `str::cmp` (`<`): lexicographic on code points -/
def strLt : Str → Str → Bool
  | [], [] => false
  | [], _ :: _ => true
  | _ :: _, [] => false
  | a :: s, b :: t => a < b || (a == b && strLt s t)

/-- `BTreeMap::insert` on the sorted association list: replaces the value of an equal key -/
def mapInsert {α : Type} (k : Str) (v : α) : List (Str × α) → List (Str × α)
  | [] => [(k, v)]
  | (k', v') :: rest =>
    if strLt k k' then (k, v) :: (k', v') :: rest
    else if k = k' then (k, v) :: rest
    else (k', v') :: mapInsert k v rest

/-- collecting `(key, value)` pairs into a map, in the order they arrive -/
def mapOfList {α : Type} (kvs : List (Str × α)) : List (Str × α) :=
  kvs.foldl (fun m kv => mapInsert kv.1 kv.2 m) []

/-- eval.rs, the dict-literal arm of `evaluate`: the entries are evaluated left to right and put into
a `HashMap` with `acc.insert(key, value)`, so a later entry with an equal key replaces the earlier
one (the HashMap is modelled as the key-sorted association list, as everywhere) -/
def dictLiteral {α : Type} (entries : List (Str × α)) : List (Str × α) :=
  entries.foldl (fun acc kv => mapInsert kv.1 kv.2 acc) []

mutual
/-- the `Value` as serde_json holds it: every object sorted by key, duplicates resolved -/
def canonJ : JV → JV
  | .arr xs => .arr (canonJs xs)
  | .obj kvs => .obj (mapOfList (canonJKVs kvs))
  | j => j
def canonJs : List JV → List JV
  | [] => []
  | x :: xs => canonJ x :: canonJs xs
def canonJKVs : List (Str × JV) → List (Str × JV)
  | [] => []
  | (k, x) :: xs => (k, canonJ x) :: canonJKVs xs
end

/-! ## the writer -/

/-- `format_escaped_str_contents` for one character: `ESCAPE[byte]`, bytes ≥ 0x20 other than `"`
and `\` (0x7F and all non-ASCII included) are copied -/
def escapeChar (c : Nat) : Str :=
  if c = 34 then [92, 34]
  else if c = 92 then [92, 92]
  else if c = 8 then [92, 98]
  else if c = 12 then [92, 102]
  else if c = 10 then [92, 110]
  else if c = 13 then [92, 114]
  else if c = 9 then [92, 116]
  else if c < 32 then [92, 117, 48, 48, digitChar (c / 16), digitChar (c % 16)]
  else [c]

def escapeStr : Str → Str
  | [] => []
  | c :: cs => escapeChar c ++ escapeStr cs

/-- `format_escaped_str`: quotes around the escaped contents -/
def writeStr (s : Str) : Str := 34 :: (escapeStr s ++ [34])

/-- `write_u64` / `write_i64` (itoa) / `write_f64` -/
def writeNum (ft : FloatText) : JNum → Str
  | .posInt n => natRadix false 10 n
  | .negInt v => 45 :: natRadix false 10 v.natAbs
  | .float f => ft.fmt f

mutual
/-- `to_string(&Value)` with the compact formatter -/
def writeJson (ft : FloatText) : JV → Str
  | .null => [110, 117, 108, 108]
  | .bool true => [116, 114, 117, 101]
  | .bool false => [102, 97, 108, 115, 101]
  | .num n => writeNum ft n
  | .str s => writeStr s
  | .arr xs => 91 :: (writeElems ft xs ++ [93])
  | .obj kvs => 123 :: (writeMembers ft kvs ++ [125])
/-- elements separated by `,` -/
def writeElems (ft : FloatText) : List JV → Str
  | [] => []
  | [x] => writeJson ft x
  | x :: y :: rest => writeJson ft x ++ 44 :: writeElems ft (y :: rest)
/-- `"key":value` separated by `,` -/
def writeMembers (ft : FloatText) : List (Str × JV) → Str
  | [] => []
  | [(k, x)] => writeStr k ++ 58 :: writeJson ft x
  | (k, x) :: y :: rest => writeStr k ++ 58 :: (writeJson ft x ++ 44 :: writeMembers ft (y :: rest))
end

/-- `json_encode` down to the text: convert, collect objects into maps, write -/
def jsonEncodeText (ft : FloatText) (v : Val) : Out Str := (encodeV v).map fun j => writeJson ft (canonJ j)

/-! ## the parser -/

/-- `parse_whitespace`: space, LF, TAB, CR -/
def isJsonWs (c : Nat) : Bool := c = 32 || c = 10 || c = 9 || c = 13

def skipWs : Str → Str
  | [] => []
  | c :: cs => if isJsonWs c then skipWs cs else c :: cs

/-- `parse_ident`: the expected characters must follow -/
def parseIdent : Str → Str → Option Str
  | [], s => some s
  | _ :: _, [] => none
  | e :: es, c :: cs => if c = e then parseIdent es cs else none

/-- `decode_hex_escape`: four hex digits of either case -/
def hex4 (a b c d : Nat) : Option Nat :=
  match hexVal a, hexVal b, hexVal c, hexVal d with
  | some x, some y, some z, some w => some (((x * 16 + y) * 16 + z) * 16 + w)
  | _, _, _, _ => none

/-- `parse_str` after the opening quote: up to the closing quote; raw control characters are an
error; escapes `\" \\ \/ \b \f \n \r \t \uXXXX`; a `\u` escape in D800..DBFF must be followed by a
`\u` escape in DC00..DFFF (one astral character), a lone DC00..DFFF is an error.  Returns the
decoded string and the text after the closing quote. -/
def parseStrBody : Str → Option (Str × Str)
  | [] => none
  | c :: rest =>
    if c = 34 then some ([], rest)
    else if c < 32 then none
    else if c = 92 then
      match rest with
      | [] => none
      | e :: rest2 =>
        if e = 117 then
          match rest2 with
          | a :: b :: c2 :: d :: rest3 =>
            match hex4 a b c2 d with
            | none => none
            | some n =>
              if 56320 ≤ n ∧ n ≤ 57343 then none
              else if 55296 ≤ n ∧ n ≤ 56319 then
                match rest3 with
                | bs :: u :: a2 :: b2 :: c3 :: d2 :: rest4 =>
                  if bs = 92 ∧ u = 117 then
                    match hex4 a2 b2 c3 d2 with
                    | none => none
                    | some n2 =>
                      if 56320 ≤ n2 ∧ n2 ≤ 57343 then
                        match parseStrBody rest4 with
                        | some (s, r) => some ((65536 + (n - 55296) * 1024 + (n2 - 56320)) :: s, r)
                        | none => none
                      else none
                  else none
                | _ => none
              else
                match parseStrBody rest3 with
                | some (s, r) => some (n :: s, r)
                | none => none
          | _ => none
        else
          let dec : Option Nat :=
            if e = 34 then some 34 else if e = 92 then some 92 else if e = 47 then some 47
            else if e = 98 then some 8 else if e = 102 then some 12 else if e = 110 then some 10
            else if e = 114 then some 13 else if e = 116 then some 9 else none
          match dec with
          | none => none
          | some x =>
            match parseStrBody rest2 with
            | some (s, r) => some (x :: s, r)
            | none => none
    else
      match parseStrBody rest with
      | some (s, r) => some (c :: s, r)
      | none => none

/-- the maximal run of ASCII digits and what follows -/
def takeDigits : Str → Str × Str
  | [] => ([], [])
  | c :: cs => if isAsciiDigit c then ((takeDigits cs).map (c :: ·) id) else ([], c :: cs)

/-- value of a run of ASCII digits -/
def decVal (s : Str) : Nat := s.foldl (fun acc c => 10 * acc + (c - 48)) 0

/-- the optional `.digits` part: at least one digit -/
def scanFrac (s : Str) : Option (Str × Str) :=
  match s with
  | c :: cs =>
    if c = 46 then
      let (ds, r) := takeDigits cs
      if ds = [] then none else some (46 :: ds, r)
    else some ([], s)
  | [] => some ([], s)

/-- the optional exponent: `e` / `E`, optional sign, at least one digit -/
def scanExp (s : Str) : Option (Str × Str) :=
  match s with
  | c :: cs =>
    if c = 101 ∨ c = 69 then
      let (sg, cs') := match cs with
        | x :: xs => if x = 43 ∨ x = 45 then ([x], xs) else ([], cs)
        | [] => ([], cs)
      let (ds, r) := takeDigits cs'
      if ds = [] then none else some (c :: (sg ++ ds), r)
    else some ([], s)
  | [] => some ([], s)

def headIsDigit : Str → Bool
  | d :: _ => isAsciiDigit d
  | [] => false

/-- `parse_integer`: the integer part starting with the digit `c`: a lone `0` (a digit right after
a leading `0` is the "invalid number" error) or `[1-9][0-9]*` -/
def scanInt (c : Nat) (cs : Str) : Option (Str × Str) :=
  if c = 48 then (if headIsDigit cs then none else some ([48], cs))
  else some (c :: (takeDigits cs).1, (takeDigits cs).2)

/-- `parse_any_number`: `-? (0 | [1-9][0-9]*) (.[0-9]+)? ([eE][+-]?[0-9]+)?`.  An integer without
fraction and exponent is a `u64` when it fits (`PosInt`), with a minus sign an `i64` when it is in
−2^63..−1 (`NegInt`); everything else (`-0`, too large, fraction, exponent) is a float, converted
from the token text. -/
def parseNumber (ft : FloatText) (s : Str) : Option (JNum × Str) :=
  let neg := startsWith 45 s
  let s1 := if neg then s.tail else s
  match s1 with
  | [] => none
  | c :: cs =>
    if !isAsciiDigit c then none
    else
      match scanInt c cs with
      | none => none
      | some (intDigits, r1) =>
        match scanFrac r1 with
        | none => none
        | some (frac, r2) =>
          match scanExp r2 with
          | none => none
          | some (ex, r3) =>
            let tok := (if neg then [45] else []) ++ intDigits ++ frac ++ ex
            let n := decVal intDigits
            if frac = [] ∧ ex = [] ∧ ¬ neg ∧ n ≤ 18446744073709551615 then some (.posInt n, r3)
            else if frac = [] ∧ ex = [] ∧ neg ∧ 1 ≤ n ∧ n ≤ 9223372036854775808 then some (.negInt (-(n : Int)), r3)
            else
              match ft.parse tok with
              | some f => some (.float f, r3)
              | none => none

mutual
/-- `deserialize_any` for `Value`; `depth` is `remaining_depth` (128 at the start), `fuel` only
bounds the recursion of the model (the top level supplies enough) -/
def parseValue (ft : FloatText) : Nat → Nat → Str → Option (JV × Str)
  | 0, _, _ => none
  | fuel + 1, depth, s =>
    match skipWs s with
    | [] => none
    | c :: rest =>
      if c = 110 then (parseIdent [117, 108, 108] rest).map fun r => (JV.null, r)
      else if c = 116 then (parseIdent [114, 117, 101] rest).map fun r => (JV.bool true, r)
      else if c = 102 then (parseIdent [97, 108, 115, 101] rest).map fun r => (JV.bool false, r)
      else if c = 34 then (parseStrBody rest).map fun p => (JV.str p.1, p.2)
      else if c = 45 ∨ isAsciiDigit c then (parseNumber ft (c :: rest)).map fun p => (JV.num p.1, p.2)
      else if c = 91 then
        -- check_recursion!: remaining_depth -= 1; error when it reaches 0
        if depth ≤ 1 then none
        else
          match skipWs rest with
          | [] => none
          | c2 :: rest2 =>
            if c2 = 93 then some (.arr [], rest2)
            else (parseElems ft fuel (depth - 1) (c2 :: rest2)).map fun p => (JV.arr p.1, p.2)
      else if c = 123 then
        if depth ≤ 1 then none
        else
          match skipWs rest with
          | [] => none
          | c2 :: rest2 =>
            if c2 = 125 then some (.obj [], rest2)
            else (parseMembers ft fuel (depth - 1) (c2 :: rest2)).map fun p => (JV.obj (mapOfList p.1), p.2)
      else none
/-- `SeqAccess`: `value (, value)* ]` (a `]` right after a comma is the "trailing comma" error:
no value starts with `]`) -/
def parseElems (ft : FloatText) : Nat → Nat → Str → Option (List JV × Str)
  | 0, _, _ => none
  | fuel + 1, depth, s =>
    match parseValue ft fuel depth s with
    | none => none
    | some (v, r) =>
      match skipWs r with
      | [] => none
      | c :: r2 =>
        if c = 44 then (parseElems ft fuel depth r2).map fun p => (v :: p.1, p.2)
        else if c = 93 then some ([v], r2)
        else none
/-- `MapAccess`: `"key" : value (, "key" : value)* }`, members in text order -/
def parseMembers (ft : FloatText) : Nat → Nat → Str → Option (List (Str × JV) × Str)
  | 0, _, _ => none
  | fuel + 1, depth, s =>
    match skipWs s with
    | [] => none
    | q :: r0 =>
      if q ≠ 34 then none            -- key must be a string
      else
        match parseStrBody r0 with
        | none => none
        | some (key, r1) =>
          match skipWs r1 with
          | [] => none
          | col :: r2 =>
            if col ≠ 58 then none
            else
              match parseValue ft fuel depth r2 with
              | none => none
              | some (v, r3) =>
                match skipWs r3 with
                | [] => none
                | c :: r4 =>
                  if c = 44 then (parseMembers ft fuel depth r4).map fun p => ((key, v) :: p.1, p.2)
                  else if c = 125 then some ([(key, v)], r4)
                  else none
end

/-- `serde_json::from_str::<Value>`: one value, then only white space (`Deserializer::end`) -/
def parseJson (ft : FloatText) (s : Str) : Option JV :=
  match parseValue ft (2 * s.length + 2) 128 s with
  | some (v, r) => if skipWs r = [] then some v else none
  | none => none

/-- `json_decode` from the text -/
def jsonDecodeText (ft : FloatText) (s : Str) : Out Val :=
  match parseJson ft s with
  | some j => .ok (decodeV j)
  | none => .throw

end Noulith.Codec
