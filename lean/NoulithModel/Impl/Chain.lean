/-
Impl model for C03: the runtime-precedence chain evaluator of /repo.

Mirrors (same case splits, same order of checks):
  * `Precedence`, `Assoc`, `Precedence::tighter_than_when_before`            core.rs ~524-549
  * `ChainEvaluator::{new, run_top_popped, run_top, give, finish}`           eval.rs ~117-211
  * `LvalueChainEvaluator` (the same algorithm over lvalues)                 eval.rs ~213-288
  * the `Expr::Chain` arm of `evaluate`: section path, one-operator fast path, general path
                                                                              eval.rs ~696-788
  * `Func::ChainSection` in `Func::run`                                      eval.rs ~3029
  * `default_precedence`                                                     core.rs ~4670

Operators are ABSTRACT: a function value is any `F`, what it does when applied is a parameter
`run : F → List V → Out V`, whether two functions chain is a parameter
`tryChain : F → F → Option F`.  A precedence is `Prec = nan | fin r`: of the `f64` only its place
in the order matters (`partial_cmp`), NaN being the incomparable element.  Core Lean only.
-/
import NoulithModel.Common

namespace Noulith.Chain

/-! ### Precedence (core.rs ~524) -/

/-- the `f64` of a `Precedence`, up to order isomorphism: `fin r` are the comparable values
(`-0.0 == 0.0`, infinities are ordinary extreme elements), `nan` is incomparable to everything -/
inductive Prec where
  | nan
  | fin (r : Int)
  deriving DecidableEq, Repr, Inhabited

inductive Assoc where
  | left
  | right
  deriving DecidableEq, Repr, Inhabited

/-- `pub struct Precedence(pub f64, pub Assoc)` -/
structure Precedence where
  p : Prec
  a : Assoc
  deriving DecidableEq, Repr, Inhabited

/-- `Precedence::zero()` -/
def Precedence.zero : Precedence := ⟨.fin 0, .left⟩

/-- `f64::partial_cmp` -/
def Prec.partialCmp : Prec → Prec → Option Ordering
  | .fin a, .fin b => some (compare a b)
  | _, _ => none

/-- `Precedence::tighter_than_when_before`: `self` is the pending (left) operator, `other` the
arriving one; on a tie or an incomparable pair the LEFT operator's associativity decides. -/
def tighter (self other : Precedence) : Bool :=
  match self.p.partialCmp other.p with
  | some .gt => true
  | some .lt => false
  | some .eq | none =>
    match self.a with
    | .left => true
    | .right => false

/-! ### ChainEvaluator (eval.rs ~117) -/

/-- one element of `pending`: `(Vec<Obj>, Func, Precedence, CodeLoc, CodeLoc)` without the
locations -/
structure Entry (F V : Type) where
  operands : List V
  op : F
  prec : Precedence

/-- `ChainEvaluator { pending, rightmost }`; `pending` is kept with the TOP of the Rust `Vec`
(its last element) at the head of the list -/
structure CE (F V : Type) where
  pending : List (Entry F V)
  rightmost : V

section evaluator
variable {F V : Type}
variable (run : F → List V → Out V) (tryChain : F → F → Option F)

/-- `ChainEvaluator::new` -/
def CE.new (operand : V) : CE F V := ⟨[], operand⟩

/-- `run_top_popped`: push `rightmost` after the popped operands, run the operator; the result
becomes the new `rightmost` (a failure is propagated by `?`) -/
def runTopPopped (operands : List V) (op : F) (rightmost : V) : Out V :=
  run op (operands ++ [rightmost])

/-- the `while` loop of `give` followed by the final push, as a recursion on `pending` -/
def giveLoop (operator : F) (precedence : Precedence) (operand : V) :
    List (Entry F V) → V → Out (CE F V)
  | [], rm => .ok ⟨[⟨[rm], operator, precedence⟩], operand⟩
  | t :: rest, rm =>
    if tighter t.prec precedence then
      -- pending.last() is tighter: pop it
      match tryChain t.op operator with
      | some newOp =>
        -- it chains with the new operator: merge, keep the OLD precedence, return
        .ok ⟨⟨t.operands ++ [rm], newOp, t.prec⟩ :: rest, operand⟩
      | none =>
        (runTopPopped run t.operands t.op rm).bind
          (fun v => giveLoop operator precedence operand rest v)
    else
      .ok ⟨⟨[rm], operator, precedence⟩ :: t :: rest, operand⟩

/-- `ChainEvaluator::give` -/
def CE.give (s : CE F V) (operator : F) (precedence : Precedence) (operand : V) : Out (CE F V) :=
  giveLoop run tryChain operator precedence operand s.pending s.rightmost

/-- the loop of `finish` -/
def finishLoop : List (Entry F V) → V → Out V
  | [], rm => .ok rm
  | t :: rest, rm => (runTopPopped run t.operands t.op rm).bind (fun v => finishLoop rest v)

/-- `ChainEvaluator::finish` -/
def CE.finish (s : CE F V) : Out V := finishLoop run s.pending s.rightmost

/-- give every `(operator, precedence, operand)` in turn -/
def giveAll : List (F × Precedence × V) → CE F V → Out (CE F V)
  | [], s => .ok s
  | (f, p, v) :: rest, s => (s.give run tryChain f p v).bind (fun s' => giveAll rest s')

/-- the whole evaluator on already evaluated operands: `new`, `give`…, `finish` -/
def evalChain (first : V) (ops : List (F × Precedence × V)) : Out V :=
  (giveAll run tryChain ops (CE.new first)).bind (fun s => s.finish run)

end evaluator

/-! ### LvalueChainEvaluator (eval.rs ~213): the same algorithm, instantiated

Operands are evaluated lvalues; running a *builtin* operator builds a `Destructure` lvalue,
any other function value is a type error. -/

inductive LFunc (B : Type) where
  | builtin (b : B)
  | other
  deriving Repr

inductive ELvalue (B A : Type) where
  | atom (a : A)
  | destructure (b : B) (args : List (ELvalue B A))

def lvalueRun {B A : Type} : LFunc B → List (ELvalue B A) → Out (ELvalue B A)
  | .builtin b, operands => .ok (.destructure b operands)
  | .other, _ => .throw

/-- `eval_lvalue`'s `Lvalue::ChainDestructure` arm once operators and operands are evaluated -/
def evalLvalueChain {B A : Type} (tryChain : LFunc B → LFunc B → Option (LFunc B))
    (first : ELvalue B A) (ops : List (LFunc B × Precedence × ELvalue B A)) : Out (ELvalue B A) :=
  evalChain lvalueRun tryChain first ops

/-! ### The `Expr::Chain` arm of `evaluate` (eval.rs ~696-788) and `Func::ChainSection` (~3029)

Sub-expressions are abstract (`E`); evaluating one is the parameter `evaluate`.  The arm is
written in a tiny trace monad that records which sub-expressions were handed to `evaluate`, in
order, so that "each operand and operator expression is evaluated exactly once, left to right"
is a statement about this transcription. -/

/-- what the arm needs from the rest of the interpreter -/
structure Lang (E F V : Type) where
  /-- `evaluate(env, e)` -/
  evaluate : E → Out V
  /-- `matches!(e.expr, Expr::Underscore)` -/
  isUnderscore : E → Bool
  /-- `if let Obj::Func(b, prec) = v` -/
  asFunc : V → Option (F × Precedence)
  /-- `Obj::Func(Func::ChainSection(v1, acc), Precedence::zero())` -/
  mkSection : Option V → List (F × Precedence × Option V) → V
  /-- `Func::run` -/
  run : F → List V → Out V
  /-- `Func::run2` -/
  run2 : F → V → V → Out V
  /-- `Func::try_chain` -/
  tryChain : F → F → Option F

/-- (sub-expressions evaluated so far, outcome) -/
abbrev Tr (E α : Type) := List E × Out α

namespace Tr
variable {E α β : Type}
def pure (a : α) : Tr E α := ([], .ok a)
def fail : Tr E α := ([], .throw)
def lift (o : Out α) : Tr E α := ([], o)
def bind (x : Tr E α) (f : α → Tr E β) : Tr E β :=
  match x with
  | (l, .ok a) => (l ++ (f a).1, (f a).2)
  | (l, .throw) => (l, .throw)
  | (l, .panic) => (l, .panic)
end Tr

section arm
variable {E F V : Type} (I : Lang E F V)

/-- one call of `evaluate`, recorded -/
def evalT (e : E) : Tr E V := ([e], I.evaluate e)

/-- accumulate the section's operators (~709-738) -/
def sectionOps : List (E × E) → Tr E (List (F × Precedence × Option V))
  | [] => Tr.pure []
  | (oper, opd) :: rest =>
    Tr.bind (evalT I oper) fun oprr =>
    match I.asFunc oprr with
    | some (b, prec) =>
      if I.isUnderscore opd then
        Tr.bind (sectionOps rest) fun acc => Tr.pure ((b, prec, none) :: acc)
      else
        Tr.bind (evalT I opd) fun oprd =>
        Tr.bind (sectionOps rest) fun acc => Tr.pure ((b, prec, some oprd) :: acc)
    | none => Tr.fail   -- "Chain section cannot use nonblock in operator position"

/-- the section path (~704-742) -/
def sectionPath (op1 : E) (ops : List (E × E)) : Tr E V :=
  Tr.bind (if I.isUnderscore op1 then Tr.pure none
           else Tr.bind (evalT I op1) fun v => Tr.pure (some v)) fun v1 =>
  Tr.bind (sectionOps I ops) fun acc =>
  Tr.pure (I.mkSection v1 acc)

/-- the one-operator fast path (~743-766): `run2`, the precedence is not looked at -/
def fastPath (op1 oper opd : E) : Tr E V :=
  Tr.bind (evalT I op1) fun lhs =>
  Tr.bind (evalT I oper) fun oprr =>
  match I.asFunc oprr with
  | some (b, _prec) => Tr.bind (evalT I opd) fun oprd => Tr.lift (I.run2 b lhs oprd)
  | none => Tr.fail   -- "Chain cannot use nonblock in operator position"

/-- the loop of the general path (~769-785) -/
def generalLoop : List (E × E) → CE F V → Tr E V
  | [], ev => Tr.lift (ev.finish I.run)
  | (oper, opd) :: rest, ev =>
    Tr.bind (evalT I oper) fun oprr =>
    match I.asFunc oprr with
    | some (b, prec) =>
      Tr.bind (evalT I opd) fun oprd =>
      Tr.bind (Tr.lift (ev.give I.run I.tryChain b prec oprd)) fun ev' =>
      generalLoop rest ev'
    | none => Tr.fail

/-- the general path (~768-786) -/
def generalPath (op1 : E) (ops : List (E × E)) : Tr E V :=
  Tr.bind (evalT I op1) fun v1 => generalLoop I ops (CE.new v1)

/-- the `Expr::Chain(op1, ops)` arm of `evaluate` -/
def chainArm (op1 : E) (ops : List (E × E)) : Tr E V :=
  if I.isUnderscore op1 || ops.any (fun p => I.isUnderscore p.2) then
    sectionPath I op1 ops
  else
    match ops with
    | [(oper, opd)] => fastPath I op1 oper opd
    | _ => generalPath I op1 ops

/-- `Func::ChainSection(seed, ops)` applied to `args` (eval.rs ~3029): holes are filled from
`args` in order; too few is noticed when the hole is reached (operators given before may already
have run), too many only after the last `give` -/
def sectionGives : List (F × Precedence × Option V) → List V → CE F V → Out (CE F V × List V)
  | [], it, ce => .ok (ce, it)
  | (op, prec, opd) :: rest, it, ce =>
    match opd, it with
    | some x, it => (ce.give I.run I.tryChain op prec x).bind (fun ce' => sectionGives rest it ce')
    | none, e :: it' => (ce.give I.run I.tryChain op prec e).bind (fun ce' => sectionGives rest it' ce')
    | none, [] => .throw   -- "chain section: too few arguments"

def runChainSection (seed : Option V) (ops : List (F × Precedence × Option V)) (args : List V) :
    Out V :=
  match seed, args with
  | none, [] => .throw     -- "chain section: too few arguments"
  | none, e :: it =>
    (sectionGives I ops it (CE.new e)).bind fun (ce, left) =>
      match left with
      | [] => ce.finish I.run
      | _ :: _ => .throw   -- "chain section: too many arguments"
  | some x, it =>
    (sectionGives I ops it (CE.new x)).bind fun (ce, left) =>
      match left with
      | [] => ce.finish I.run
      | _ :: _ => .throw

end arm

/-! ### The same arm with an interpreter STATE

`evaluate(env, e)` reads and writes the environment: an operand may reassign an operator variable
of the very chain it stands in, or its `::precedence`.  What the arm does about that is fixed by the
ORDER in which it calls `evaluate`: in every path the operator expression of position `i` is
evaluated (looked up) after operand `i-1` and before operand `i`, afresh at every position — the
value found there, function and precedence, is what `give` receives.  `evaluate` therefore threads
a state `σ` here; the state survives a failure (what was assigned stays assigned).  Applying an
operator is still a function of its arguments (`run`). The stateless `Lang` versions above are the
special case in which `evaluate` ignores the state (`chainArmS_of_pure`). -/

structure LangS (σ E F V : Type) where
  /-- `evaluate(env, e)` with its effect on the environment -/
  evaluate : E → σ → Out V × σ
  isUnderscore : E → Bool
  asFunc : V → Option (F × Precedence)
  mkSection : Option V → List (F × Precedence × Option V) → V
  run : F → List V → Out V
  run2 : F → V → V → Out V
  tryChain : F → F → Option F

/-- state + failure; the state is kept when a step fails -/
abbrev SM (σ α : Type) := σ → Out α × σ

namespace SM
variable {σ α β : Type}
def pure (a : α) : SM σ α := fun s => (.ok a, s)
def fail : SM σ α := fun s => (.throw, s)
def lift (o : Out α) : SM σ α := fun s => (o, s)
def bind (x : SM σ α) (f : α → SM σ β) : SM σ β := fun s =>
  match x s with
  | (.ok a, s') => f a s'
  | (.throw, s') => (.throw, s')
  | (.panic, s') => (.panic, s')
end SM

section armS
variable {σ E F V : Type} (J : LangS σ E F V)

/-- section path, operators (~709-738): operator looked up, then its operand unless it is `_` -/
def sectionOpsS : List (E × E) → SM σ (List (F × Precedence × Option V))
  | [] => SM.pure []
  | (oper, opd) :: rest =>
    SM.bind (J.evaluate oper) fun oprr =>
    match J.asFunc oprr with
    | some (b, prec) =>
      if J.isUnderscore opd then
        SM.bind (sectionOpsS rest) fun acc => SM.pure ((b, prec, none) :: acc)
      else
        SM.bind (J.evaluate opd) fun oprd =>
        SM.bind (sectionOpsS rest) fun acc => SM.pure ((b, prec, some oprd) :: acc)
    | none => SM.fail

def sectionPathS (op1 : E) (ops : List (E × E)) : SM σ V :=
  SM.bind (if J.isUnderscore op1 then SM.pure none
           else SM.bind (J.evaluate op1) fun v => SM.pure (some v)) fun v1 =>
  SM.bind (sectionOpsS J ops) fun acc =>
  SM.pure (J.mkSection v1 acc)

def fastPathS (op1 oper opd : E) : SM σ V :=
  SM.bind (J.evaluate op1) fun lhs =>
  SM.bind (J.evaluate oper) fun oprr =>
  match J.asFunc oprr with
  | some (b, _prec) => SM.bind (J.evaluate opd) fun oprd => SM.lift (J.run2 b lhs oprd)
  | none => SM.fail

/-- the loop of the general path (~796): at EVERY position the operator expression is evaluated
in the current state (no value is carried over from an earlier position), then the operand, then
`give` -/
def generalLoopS : List (E × E) → CE F V → SM σ V
  | [], ev => SM.lift (ev.finish J.run)
  | (oper, opd) :: rest, ev =>
    SM.bind (J.evaluate oper) fun oprr =>
    match J.asFunc oprr with
    | some (b, prec) =>
      SM.bind (J.evaluate opd) fun oprd =>
      SM.bind (SM.lift (ev.give J.run J.tryChain b prec oprd)) fun ev' =>
      generalLoopS rest ev'
    | none => SM.fail

def generalPathS (op1 : E) (ops : List (E × E)) : SM σ V :=
  SM.bind (J.evaluate op1) fun v1 => generalLoopS J ops (CE.new v1)

def chainArmS (op1 : E) (ops : List (E × E)) : SM σ V :=
  if J.isUnderscore op1 || ops.any (fun p => J.isUnderscore p.2) then
    sectionPathS J op1 ops
  else
    match ops with
    | [(oper, opd)] => fastPathS J op1 oper opd
    | _ => generalPathS J op1 ops

/-- a stateless language as a stateful one -/
def Lang.toS (I : Lang E F V) : LangS σ E F V where
  evaluate := fun e s => (I.evaluate e, s)
  isUnderscore := I.isUnderscore
  asFunc := I.asFunc
  mkSection := I.mkSection
  run := I.run
  run2 := I.run2
  tryChain := I.tryChain

/-- the same language, additionally recording every call of `evaluate` in the state -/
def LangS.traced : LangS (σ × List E) E F V where
  evaluate := fun e s => ((J.evaluate e s.1).1, ((J.evaluate e s.1).2, s.2 ++ [e]))
  isUnderscore := J.isUnderscore
  asFunc := J.asFunc
  mkSection := J.mkSection
  run := J.run
  run2 := J.run2
  tryChain := J.tryChain

end armS

/-! ### assigning a precedence (eval.rs `set_index`, 'precedence' arm; `Expr::OpAssign`) -/

/-- the 'precedence' arm of `set_index` on `Obj::Func(_, Precedence(p, _))`: `Some(number)` stores
the number (the associativity stays); `None` — the LHS-DROPPING step of an op-assignment — is
`Ok(())`: a precedence is a plain `f64`, there is nothing to drop, the slot keeps its value -/
def setPrecedence (pr : Precedence) : Option Prec → Precedence
  | some p => ⟨p, pr.a⟩
  | none => pr

/-- `f::precedence op= rhs` (the non-`every` hot path of `Expr::OpAssign`): read the old value,
drop the slot, run the operator function, store its result.  `combine old during` stands for
`op.run2(old, rhs)` followed by the number check of the store — `ok (some p)`: a number, `ok none`:
not a number (the store raises a type error), `throw`/`panic`: the operator function failed;
`during` is the precedence the slot holds WHILE the operator function runs (a chain it evaluates
groups by that).  Returns the outcome and the precedence afterwards. -/
def precedenceOpAssign (pr : Precedence) (combine : Prec → Precedence → Out (Option Prec)) :
    Out Unit × Precedence :=
  let old := pr.p
  let dropped := setPrecedence pr none
  match combine old dropped with
  | .ok (some p) => (.ok (), setPrecedence dropped (some p))
  | .ok none => (.throw, dropped)
  | .throw => (.throw, dropped)
  | .panic => (.panic, dropped)

/-! ### `default_precedence` (core.rs ~4670) -/

def DEFAULT_PRECEDENCE : Int := 0
def COMPARISON_PRECEDENCE : Int := 1
def STRING_PRECEDENCE : Int := 2
def OR_PRECEDENCE : Int := 3
def PLUS_PRECEDENCE : Int := 4
def MULTIPLY_PRECEDENCE : Int := 5
def EXPONENT_PRECEDENCE : Int := 6
def INDEX_PRECEDENCE : Int := 7
def DOT_PRECEDENCE : Int := 8

/-- the closure inside `default_precedence`.  `table` is the `match c` arm list (regenerated from
the source into `Generated/C03Tables.lean`), `dflt` its `_ =>` arm.  `char::is_alphanumeric` is
modelled on ASCII; the extractor refuses names with non-ASCII alphanumerics. -/
def charPrecedence (table : List (Char × Int)) (dflt : Int) (c : Char) : Int :=
  if c.isAlphanum || c == '_' then DEFAULT_PRECEDENCE
  else match table.lookup c with
    | some p => p
    | none => dflt

/-- `.reduce(f64::min).unwrap_or(0.0)` -/
def reduceMin : List Int → Int
  | [] => 0
  | x :: xs => xs.foldl min x

def defaultPrecedence (table : List (Char × Int)) (dflt : Int) (name : String) : Int :=
  reduceMin (name.toList.map (charPrecedence table dflt))

end Noulith.Chain
