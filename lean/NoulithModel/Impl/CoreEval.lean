/-
Fuel-indexed evaluator for the core statement vocabulary (C05, C17): mirrors `evaluate`,
`evaluate_for`, `Closure::run`, `assign` (for the patterns of `CoreAst.Pat`), `Env::insert`,
`Env::try_borrow_get_var`, `Env::modify_existing_var` of src/eval.rs / src/core.rs.

* Environments: `Env` cells become a store of frames (`State.frames`); a frame has its variables and
  its parent frame id (`Env::with_parent`).  Closures hold the id of their defining frame
  (`Rc<RefCell<Env>>`): they capture VARIABLES, not values.
* Type annotations on lambda parameters (`\x: int -> …`): type values are the builtins named in
  `typeNames` (`Obj::Func(Func::Type(_))`; `null` also denotes the null type, `to_type`); the annotation
  expressions are evaluated at CALL time (`Closure::run` → `eval_lvalue`), `hasType` is `is_type`, and the
  declared type stays attached to the variable (`Frame.tys`, the `ObjType` stored by `Env::insert`) so
  that later assignments are checked too (`assign_respecting_type`).
* Non-local exits are the four `NErr` variants: `Res.brk`, `cont`, `ret`, `thrown`.
* The evaluator is total by structural recursion on `fuel`; `Res.fuelOut` means "not enough fuel".
  Theorems/C05.lean proves fuel monotonicity, so no statement is bounded by the fuel.
-/
import NoulithModel.Impl.CoreAst
import NoulithModel.Impl.Freeze

namespace Noulith.Core

inductive Val where
  | null
  | int (n : Int)
  | str (s : String)
  | list (xs : List Val)
  | dict (kvs : List (Val × Val))
  | closure (params : List Param) (body : Expr) (env : Nat)
  | builtin (name : String)
  | err                         -- value carried by an error the interpreter itself raised
  deriving Inhabited

inductive Res where
  | val (v : Val)
  | brk (n : Nat) (v : Option Val)
  | cont (n : Nat)
  | ret (v : Val)
  | thrown (v : Val)
  | fuelOut
  deriving Inhabited

structure Frame where
  vars : List (String × Val)
  parent : Option Nat
  /-- declared types (`Env::insert(key, ty, val)`): only annotated lambda parameters have an entry, every
  other variable of the vocabulary is declared with `ObjType::Any` -/
  tys : List (String × Val) := []
  deriving Inhabited

structure State where
  frames : Array Frame
  out : List String            -- printed lines, newest first
  frozenTab : List Val := []   -- C17: values referenced by `Expr.frozen`
  deriving Inhabited

/-! ### values -/
mutual
  def Val.beq : Val → Val → Bool
    | .null, .null => true
    | .int a, .int b => a == b
    | .str a, .str b => a == b
    | .list a, .list b => Val.beqList a b
    | _, _ => false
  def Val.beqList : List Val → List Val → Bool
    | [], [] => true
    | a :: as, b :: bs => Val.beq a b && Val.beqList as bs
    | _, _ => false
end

def Val.truthy : Val → Bool
  | .null => false
  | .int n => n != 0
  | .str s => s != ""
  | .list xs => !xs.isEmpty
  | .dict kvs => !kvs.isEmpty
  | .closure .. => true
  | .builtin _ => true
  | .err => true        -- an error message string is non-empty

mutual
  /-- `ncmp`: numbers with numbers, strings with strings, lists lexicographically; `none` =
  incomparable (raises) -/
  def Val.cmp : Val → Val → Option Ordering
    | .int a, .int b => some (compare a b)
    | .str a, .str b => some (compare a b)
    | .list a, .list b => Val.cmpList a b
    | _, _ => none
  def Val.cmpList : List Val → List Val → Option Ordering
    | [], [] => some .eq
    | [], _ :: _ => some .lt
    | _ :: _, [] => some .gt
    | a :: as, b :: bs =>
      match Val.cmp a b with
      | some .eq => Val.cmpList as bs
      | r => r
end

mutual
  /-- `Display` for the values `print` and `$` are applied to -/
  def Val.display : Val → String
    | .null => "null"
    | .int n => toString n
    | .str s => s
    | .list xs => "[" ++ Val.displayList xs ++ "]"
    | .dict _ => "<dict>"
    | .closure .. => "<func>"
    | .builtin _ => "<func>"
    | .err => "<err>"
  def Val.displayList : List Val → String
    | [] => ""
    | [x] => Val.reprIn x
    | x :: xs => Val.reprIn x ++ ", " ++ Val.displayList xs
  /-- nested values are shown in debug form (strings quoted) -/
  def Val.reprIn : Val → String
    | .str s => "\"" ++ s ++ "\""
    | .null => "null"
    | .int n => toString n
    | .list xs => "[" ++ Val.displayList xs ++ "]"
    | .dict _ => "<dict>"
    | .closure .. => "<func>"
    | .builtin _ => "<func>"
    | .err => "<err>"
end

def b2v (b : Bool) : Val := .int (if b then 1 else 0)

/-! ### types (`ObjType`) -/

/-- the type names of the vocabulary: global variables holding `Obj::Func(Func::Type(t))` -/
def typeNames : List String := ["int", "number", "str", "list", "dict", "func", "type", "anything", "nulltype"]

/-- `to_type` succeeds: a type value, or `null` (which denotes the null type) -/
def isTypeVal : Val → Bool
  | .null => true
  | .builtin n => typeNames.contains n
  | _ => false

/-- `is_type(to_type(t), v)` for a `t` with `isTypeVal t`, on the value kinds of the vocabulary (the only
numbers are integers; the value of an interpreter-raised error is its message, a string; types are
functions) -/
def hasType (t v : Val) : Bool :=
  match t, v with
  | .null, .null => true
  | .builtin "nulltype", .null => true
  | .builtin "int", .int _ => true
  | .builtin "number", .int _ => true
  | .builtin "str", .str _ => true
  | .builtin "str", .err => true
  | .builtin "list", .list _ => true
  | .builtin "dict", .dict _ => true
  | .builtin "func", .closure .. => true
  | .builtin "func", .builtin _ => true
  | .builtin "type", .builtin n => typeNames.contains n
  | .builtin "anything", _ => true
  | _, _ => false

/-- outcome of a builtin operation -/
inductive OpRes where
  | ok (v : Val)
  | raise                      -- raises a catchable error (value `Val.err`)
  deriving Inhabited

/-- the binary builtin operators the vocabulary uses, on the value kinds it uses -/
def applyOp (name : String) (a b : Val) : OpRes :=
  match name, a, b with
  | "+", .int x, .int y => .ok (.int (x + y))
  | "-", .int x, .int y => .ok (.int (x - y))
  | "*", .int x, .int y => .ok (.int (x * y))
  | "//", .int x, .int y => if y = 0 then .raise else .ok (.int (Int.fdiv x y))
  | "%", .int x, .int y => if y = 0 then .raise else .ok (.int (Int.tmod x y))
  | "==", x, y => .ok (b2v (Val.beq x y))
  | "!=", x, y => .ok (b2v (!Val.beq x y))
  | "<", x, y => match Val.cmp x y with | some o => .ok (b2v (o == .lt)) | none => .raise
  | "<=", x, y => match Val.cmp x y with | some o => .ok (b2v (o != .gt)) | none => .raise
  | ">", x, y => match Val.cmp x y with | some o => .ok (b2v (o == .gt)) | none => .raise
  | ">=", x, y => match Val.cmp x y with | some o => .ok (b2v (o != .lt)) | none => .raise
  | "$", x, y => .ok (.str (Val.display x ++ Val.display y))
  | "++", .list x, .list y => .ok (.list (x ++ y))
  | "append", .list x, y => .ok (.list (x ++ [y]))
  | _, _, _ => .raise

/-- Python-style list/string indexing (C10 has the full model) -/
def indexVal (a i : Val) : OpRes :=
  match a, i with
  | .list xs, .int n =>
    let len : Int := xs.length
    if 0 ≤ n ∧ n < len then
      match xs[n.toNat]? with | some v => .ok v | none => .raise
    else if -len ≤ n ∧ n < 0 then
      match xs[(len + n).toNat]? with | some v => .ok v | none => .raise
    else .raise
  | _, _ => .raise

/-! ### the environment chain -/
def lookupIn (vars : List (String × Val)) (x : String) : Option Val :=
  match vars with
  | [] => none
  | (k, v) :: rest => if k = x then some v else lookupIn rest x

def setIn (vars : List (String × Val)) (x : String) (v : Val) : List (String × Val) :=
  match vars with
  | [] => []
  | (k, w) :: rest => if k = x then (k, v) :: rest else (k, w) :: setIn rest x v

/-- `Env::try_borrow_get_var`: nearest enclosing declaration; `fuel` bounds the chain length -/
def lookupVar (frames : Array Frame) : Nat → Nat → String → Option Val
  | 0, _, _ => none
  | fuel + 1, env, x =>
    match frames[env]? with
    | none => none
    | some fr =>
      match lookupIn fr.vars x with
      | some v => some v
      | none =>
        match fr.parent with
        | some p => lookupVar frames fuel p x
        | none => none

/-- the declared type of `x` in a frame admits `v` (no entry: declared with `ObjType::Any`) -/
def typeOk (tys : List (String × Val)) (x : String) (v : Val) : Bool :=
  match lookupIn tys x with
  | some t => hasType t v
  | none => true

/-- `assign_respecting_type` over `Env::modify_existing_var`: assign to the nearest enclosing
declaration; `none` (the statement raises) if undeclared or if the value is not of the declared type -/
def assignVar (frames : Array Frame) : Nat → Nat → String → Val → Option (Array Frame)
  | 0, _, _, _ => none
  | fuel + 1, env, x, v =>
    match frames[env]? with
    | none => none
    | some fr =>
      match lookupIn fr.vars x with
      | some _ =>
        if typeOk fr.tys x v then some (frames.setIfInBounds env { fr with vars := setIn fr.vars x v })
        else none
      | none =>
        match fr.parent with
        | some p => assignVar frames fuel p x v
        | none => none

/-- `drop_lhs` (`Env::modify_ident` with `set_index(ptr, [], None, true)`): the slot of the nearest
enclosing declaration is overwritten with null WITHOUT a type check ("overriding type!!") -/
def dropVar (frames : Array Frame) : Nat → Nat → String → Option (Array Frame)
  | 0, _, _ => none
  | fuel + 1, env, x =>
    match frames[env]? with
    | none => none
    | some fr =>
      match lookupIn fr.vars x with
      | some _ => some (frames.setIfInBounds env { fr with vars := setIn fr.vars x .null })
      | none =>
        match fr.parent with
        | some p => dropVar frames fuel p x
        | none => none

/-- `Env::insert` with `allow_redeclaration = false`: declare in the CURRENT frame, refuse if the
name exists there -/
def declareVar (frames : Array Frame) (env : Nat) (x : String) (v : Val) : Option (Array Frame) :=
  match frames[env]? with
  | none => none
  | some fr =>
    match lookupIn fr.vars x with
    | some _ => none
    | none => some (frames.setIfInBounds env { fr with vars := fr.vars ++ [(x, v)] })

/-- `Env::with_parent` -/
def newFrame (st : State) (parent : Nat) : State × Nat :=
  ({ st with frames := st.frames.push { vars := [], parent := some parent } }, st.frames.size)

def State.lookup (st : State) (env : Nat) (x : String) : Option Val :=
  lookupVar st.frames (st.frames.size + 1) env x

/-- `assign` with `rt = Some(Any)` (a declaration) for the patterns of the vocabulary.
Returns (matched?, state): names bound before a failing sub-pattern stay bound, as in the code. -/
def declarePat : Nat → State → Nat → Pat → Val → Bool × State
  | 0, st, _, _, _ => (false, st)
  | fuel + 1, st, env, p, v =>
    match p with
    | .underscore => (true, st)
    | .ident x =>
      match declareVar st.frames env x v with
      | some fs => (true, { st with frames := fs })
      | none => (false, st)
    | .lit n => match v with | .int m => (decide (m = n), st) | _ => (false, st)
    | .seq ps =>
      match v with
      | .list vs =>
        if ps.length ≠ vs.length then (false, st)
        else
          let rec go (fuel : Nat) (st : State) : List Pat → List Val → Bool × State
            | [], [] => (true, st)
            | p :: ps, v :: vs =>
              match declarePat fuel st env p v with
              | (true, st') => go fuel st' ps vs
              | r => r
            | _, _ => (false, st)
          go fuel st ps vs
      | _ => (false, st)

def patDepth : Pat → Nat
  | .seq ps => 1 + (ps.map patDepth).foldl max 0
  | _ => 1

/-! ### catamorphisms (`yield … into f`) -/
inductive Cata where
  | list (acc : List Val)          -- CataList (also used when `into` is not a catamorphism builtin)
  | first                          -- CataFirst: `give` breaks with the value
  | last (v : Option Val)
  | sum (acc : Val)                -- CataMapped(0, +)
  | extremum (wantGt : Bool) (v : Option Val)
  | count (n : Nat)
  deriving Inhabited

inductive GiveRes where
  | ok (c : Cata)
  | brk (v : Val)                  -- `Err(NErr::Break(0, Some v))`
  | raise

def Cata.give (c : Cata) (x : Val) : GiveRes :=
  match c with
  | .list acc => .ok (.list (acc ++ [x]))
  | .first => .brk x
  | .last _ => .ok (.last (some x))
  | .sum acc => match applyOp "+" acc x with | .ok v => .ok (.sum v) | .raise => .raise
  | .extremum gt cur =>
    match cur with
    | none => .ok (.extremum gt (some x))
    | some r =>
      match Val.cmp x r with
      | none => .raise
      | some o => if (o == (if gt then Ordering.gt else Ordering.lt)) then .ok (.extremum gt (some x)) else .ok c
  | .count n => .ok (.count (if x.truthy then n + 1 else n))

def Cata.finish : Cata → OpRes
  | .list acc => .ok (.list acc)
  | .first => .raise
  | .last v => match v with | some x => .ok x | none => .raise
  | .sum acc => .ok acc
  | .extremum _ v => match v with | some x => .ok x | none => .raise
  | .count n => .ok (.int n)

def cataOfBuiltin (name : String) : Option Cata :=
  match name with
  | "first" => some .first
  | "last" => some (.last none)
  | "sum" => some (.sum (.int 0))
  | "max" => some (.extremum true none)
  | "min" => some (.extremum false none)
  | "count" => some (.count 0)
  | _ => none

/-- operators are ordinary functions: their names denote builtins that can be called directly -/
def opNames : List String := ["+", "-", "*", "//", "%", "==", "!=", "<", "<=", ">", ">=", "$", "++", "append"]

/-- (calling a type — `int("3")`, `str(x)`, `list(s)` … — is a conversion; conversions are outside the
modelled vocabulary, the generator never calls a type value) -/
def builtinNames : List String :=
  ["first", "last", "sum", "max", "min", "count", "len", "print"] ++ opNames ++ typeNames

/-- insert a key/value into an association list (`HashMap::insert` up to order) -/
def dictInsert (kvs : List (Val × Val)) (k v : Val) : List (Val × Val) :=
  match kvs with
  | [] => [(k, v)]
  | (k', v') :: rest => if Val.beq k' k then (k', v) :: rest else (k', v') :: dictInsert rest k v

/-- what `mut_obj_into_iter` yields for a value (`none`: not iterable, raises) -/
def iterValues : Val → Option (List Val)
  | .list xs => some xs
  | .str s => some (s.toList.map fun c => .str (String.singleton c))
  | .dict kvs => some (kvs.map (·.1))
  | _ => none

def enumFrom (i : Nat) : List Val → List Val
  | [] => []
  | x :: xs => .list [.int i, x] :: enumFrom (i + 1) xs

/-- what `mut_obj_into_iter_pairs` yields, as `[key, value]` lists -/
def iterPairs : Val → Option (List Val)
  | .list xs => some (enumFrom 0 xs)
  | .dict kvs => some (kvs.map fun (k, v) => .list [k, v])
  | _ => none

/-! ### the evaluator -/

/-- result of evaluating a list of expressions left to right -/
inductive ResL where
  | ok (vs : List Val)
  | stop (r : Res)

/-- state of a running `for`: the catamorphism (for `yield`), the dict under construction (for
`yield k: v`) -/
structure ForAcc where
  cata : Cata
  dict : List (Val × (Cata ⊕ Val))     -- per key: a running cata or a finished (broken-out) value
  deriving Inhabited

def dictFind (d : List (Val × (Cata ⊕ Val))) (k : Val) : Option (Cata ⊕ Val) :=
  match d with
  | [] => none
  | (k', c) :: rest => if Val.beq k' k then some c else dictFind rest k
def dictSet (d : List (Val × (Cata ⊕ Val))) (k : Val) (c : Cata ⊕ Val) : List (Val × (Cata ⊕ Val)) :=
  match d with
  | [] => []
  | (k', c') :: rest => if Val.beq k' k then (k', c) :: rest else (k', c') :: dictSet rest k c

def bindArgs (params : List Param) (args : List Val) (defaults : List Val) : Option (List (String × Val)) :=
  -- `assign_all` for parameter lists: at most one splat; defaults fill missing trailing items
  let nSplat := (params.filter Param.isSplat).length
  if nSplat > 1 then none
  else if nSplat = 0 then
    let all := args ++ defaults
    if all.length = params.length then some (List.zip (params.map Param.name) all) else none
  else
    let si := (params.takeWhile (fun p => !p.isSplat)).length
    let all := args ++ defaults
    let nAfter := params.length - si - 1
    if all.length < params.length - 1 then none
    else
      let before := all.take si
      let after := all.drop (all.length - nAfter)
      let mid := (all.drop si).take (all.length - nAfter - si)
      some (List.zip ((params.take si).map Param.name) before
            ++ [(((params.drop si).headD default).name, Val.list mid)]
            ++ List.zip ((params.drop (si + 1)).map Param.name) after)

/-- the scan at the head of `assign_all` for a parameter list receiving `nargs` arguments: the defaults
"in play" (a default at position `i` is in play when `nargs ≤` the number of non-splat positions before
it); `none`: two splats, or a parameter without default after a default in play (both raise).
`i`: position, `splatSeen`, `acc`: defaults in play so far. -/
def defaultsInPlay (nargs : Nat) : List Param → Nat → Bool → List Expr → Option (List Expr)
  | [], _, _, acc => some acc
  | p :: ps, i, splatSeen, acc =>
    if p.isSplat then
      if splatSeen then none else defaultsInPlay nargs ps (i + 1) true acc
    else
      match p.dflt with
      | some d =>
        defaultsInPlay nargs ps (i + 1) splatSeen
          (if nargs ≤ (if splatSeen then i - 1 else i) then acc ++ [d] else acc)
      | none => if acc.isEmpty then defaultsInPlay nargs ps (i + 1) splatSeen acc else none

/-- per parameter, the value its annotation evaluated to (`tvs`: the values of the annotation
expressions, in parameter order) -/
def annSlots : List Param → List Val → List (Option Val)
  | [], _ => []
  | p :: ps, tvs =>
    match p.ann, tvs with
    | some _, t :: tvs => some t :: annSlots ps tvs
    | _, tvs => none :: annSlots ps tvs

/-- `assign_all_basic` over the parameters: bind left to right; an annotated parameter first converts
its annotation (`to_type`: raises if it is not a type), then `insert_declare` checks the argument
(`is_type`: raises on mismatch) and stores value and declared type.  Returns (all bound?, variables
bound so far, their declared types). -/
def checkBinds : List (Option Val) → List (String × Val) → List (String × Val) → List (String × Val) →
    Bool × List (String × Val) × List (String × Val)
  | _, [], vars, tys => (true, vars, tys)
  | some t :: slots, (x, v) :: rest, vars, tys =>
    if isTypeVal t && hasType t v then checkBinds slots rest (vars ++ [(x, v)]) (tys ++ [(x, t)])
    else (false, vars, tys)
  | _ :: slots, (x, v) :: rest, vars, tys => checkBinds slots rest (vars ++ [(x, v)]) tys
  | [], (x, v) :: rest, vars, tys => checkBinds [] rest (vars ++ [(x, v)]) tys

mutual

  def eval : Nat → State → Nat → Expr → Res × State
    | 0, st, _, _ => (.fuelOut, st)
    | fuel + 1, st, env, e =>
      match e with
      | .null => (.val .null, st)
      | .int n => (.val (.int n), st)
      | .str s => (.val (.str s), st)
      | .frozen i => (match st.frozenTab[i]? with | some v => .val v | none => .thrown .err, st)
      | .ident x =>
        match st.lookup env x with
        | some v => (.val v, st)
        | none => if builtinNames.contains x then (.val (.builtin x), st) else (.thrown .err, st)
      | .list xs =>
        match evalList fuel st env xs with
        | (.ok vs, st) => (.val (.list vs), st)
        | (.stop r, st) => (r, st)
      | .op name a b =>
        match eval fuel st env a with
        | (.val va, st) =>
          match eval fuel st env b with
          | (.val vb, st) =>
            match applyOp name va vb with
            | .ok v => (.val v, st)
            | .raise => (.thrown .err, st)
          | r => r
        | r => r
      | .index a i =>
        match eval fuel st env a with
        | (.val va, st) =>
          match eval fuel st env i with
          | (.val vi, st) =>
            match indexVal va vi with
            | .ok v => (.val v, st)
            | .raise => (.thrown .err, st)
          | r => r
        | r => r
      | .call f args =>
        match eval fuel st env f with
        | (.val vf, st) =>
          match evalList fuel st env args with
          | (.ok vs, st) => callVal fuel st env vf vs
          | (.stop r, st) => (r, st)
        | r => r
      | .and_ a b =>
        match eval fuel st env a with
        | (.val va, st) => if va.truthy then eval fuel st env b else (.val va, st)
        | r => r
      | .or_ a b =>
        match eval fuel st env a with
        | (.val va, st) => if va.truthy then (.val va, st) else eval fuel st env b
        | r => r
      | .coalesce a b =>
        match eval fuel st env a with
        | (.val .null, st) => eval fuel st env b
        | r => r
      | .seq xs semi =>
        match evalSeq fuel st env xs with
        | (.val v, st) => (.val (if semi then .null else v), st)
        | r => r
      | .ite c t e =>
        match eval fuel st env c with
        | (.val vc, st) =>
          if vc.truthy then eval fuel st env t
          else match e with
            | some e => eval fuel st env e
            | none => (.val .null, st)
        | r => r
      | .while_ c b => evalWhile fuel st env c b
      | .for_ its body =>
        -- set up the catamorphism / post-processing function for `yield … into f`
        match body with
        | .exec _ =>
          match evalFor fuel st env its body default with
          | (.val _, st, _) => (.val .null, st)
          | (.brk 0 v, st, _) => (.val (v.getD .null), st)
          | (.brk (n + 1) v, st, _) => (.brk n v, st)
          | (.cont (n + 1), st, _) => (.cont n, st)
          | (r, st, _) => (r, st)
        | .yield _ into =>
          match evalInto fuel st env into with
          | (.inr r, st) => (r, st)
          | (.inl (cata0, post), st) =>
            match evalFor fuel st env its body { cata := cata0, dict := [] } with
            | (res, st, acc) =>
              let fin : Res × State :=
                match res with
                | .val _ | .brk 0 none =>
                  (match acc.cata.finish with | .ok v => .val v | .raise => .thrown .err, st)
                | .brk 0 (some v) => (.val v, st)
                | .brk (n + 1) v => (.brk n v, st)
                | .cont (n + 1) => (.cont n, st)
                | r => (r, st)
              match post, fin with
              | some f, (.val v, st) => callVal fuel st env f [v]
              | _, r => r
        | .yieldItem _ _ into =>
          match evalInto fuel st env into with
          | (.inr r, st) => (r, st)
          | (.inl (cata0, post), st) =>
            -- with no `into`: CataLast; with a non-cata `into`: CataList then apply it per key
            let cataK : Cata := match into, post with
              | none, _ => .last none
              | some _, some _ => .list []
              | some _, none => cata0
            match evalFor fuel st env its body { cata := cataK, dict := [] } with
            | (res, st, acc) =>
              match res with
              | .val _ | .brk 0 none => finishDict fuel st env post acc.dict []
              | .brk 0 (some v) => (.val v, st)
              | .brk (n + 1) v => (.brk n v, st)
              | .cont (n + 1) => (.cont n, st)
              | r => (r, st)
      | .declare p rhs =>
        match eval fuel st env rhs with
        | (.val v, st) =>
          match declarePat (patDepth p + 1) st env p v with
          | (true, st') => (.val .null, st')
          | (false, st') => (.thrown .err, st')
        | r => r
      | .assign x rhs =>
        match eval fuel st env rhs with
        | (.val v, st) =>
          match assignVar st.frames (st.frames.size + 1) env x v with
          | some fs => (.val .null, { st with frames := fs })
          | none => (.thrown .err, st)
        | r => r
      | .opassign x opn rhs =>
        -- eval_lvalue_as_obj, evaluate rhs, drop_lhs (slot := null), run the operator, assign
        match st.lookup env x with
        | none => (.thrown .err, st)
        | some old =>
          match eval fuel st env rhs with
          | (.val v, st) =>
            match dropVar st.frames (st.frames.size + 1) env x with
            | none => (.thrown .err, st)
            | some fs =>
              let st := { st with frames := fs }
              match applyOp opn old v with
              | .raise => (.thrown .err, st)
              | .ok nv =>
                match assignVar st.frames (st.frames.size + 1) env x nv with
                | some fs => (.val .null, { st with frames := fs })
                | none => (.thrown .err, st)
          | r => r
      | .lambda params body => (.val (.closure params body env), st)
      | .brk n e =>
        match e with
        | none => (.brk n none, st)
        | some e =>
          match eval fuel st env e with
          | (.val v, st) => (.brk n (some v), st)
          | r => r
      | .cont n => (.cont n, st)
      | .ret e =>
        match e with
        | none => (.ret .null, st)
        | some e =>
          match eval fuel st env e with
          | (.val v, st) => (.ret v, st)
          | r => r
      | .throw_ e =>
        match eval fuel st env e with
        | (.val v, st) => (.thrown v, st)
        | r => r
      | .try_ b p c =>
        match eval fuel st env b with
        | (.thrown v, st) =>
          let (st1, ee) := newFrame st env
          match declarePat (patDepth p + 1) st1 ee p v with
          | (true, st2) => eval fuel st2 ee c
          | (false, st2) => (.thrown v, st2)
        | r => r
      | .switch_ sc arms =>
        match eval fuel st env sc with
        | (.val v, st) => evalSwitch fuel st env v arms
        | r => r
      | .evalSrc e => eval fuel st env e          -- `eval` runs the parsed text in the calling scope
      | .freeze e =>
        -- `Expr::Freeze`: rewrite with an empty bound set against the current scope, then evaluate the
        -- rewritten tree in the current scope
        let look : String → Option Val := fun x =>
          match st.lookup env x with
          | some v => some v
          | none => if builtinNames.contains x then some (.builtin x) else none
        match freezeExpr look { bound := [], tab := st.frozenTab } e with
        | .ok (e', fs) => eval fuel { st with frozenTab := fs.tab } env e'
        | .error _ => (.thrown .err, st)

  /-- `Expr::Switch`: the first arm whose pattern binds the scrutinee, each arm tried in a FRESH scope;
  no arm: raises -/
  def evalSwitch : Nat → State → Nat → Val → List SwitchArm → Res × State
    | 0, st, _, _, _ => (.fuelOut, st)
    | _ + 1, st, _, _, [] => (.thrown .err, st)
    | fuel + 1, st, env, v, .mk p body :: rest =>
      let (st1, ee) := newFrame st env
      match declarePat (patDepth p + 1) st1 ee p v with
      | (true, st2) => eval fuel st2 ee body
      | (false, st2) => evalSwitch fuel st2 env v rest

  /-- `Expr::Sequence`: value of the last expression -/
  def evalSeq : Nat → State → Nat → List Expr → Res × State
    | 0, st, _, _ => (.fuelOut, st)
    | _ + 1, st, _, [] => (.val .null, st)
    | fuel + 1, st, env, [x] => eval fuel st env x
    | fuel + 1, st, env, x :: xs =>
      match eval fuel st env x with
      | (.val _, st) => evalSeq fuel st env xs
      | r => r

  def evalList : Nat → State → Nat → List Expr → ResL × State
    | 0, st, _, _ => (.stop .fuelOut, st)
    | _ + 1, st, _, [] => (.ok [], st)
    | fuel + 1, st, env, x :: xs =>
      match eval fuel st env x with
      | (.val v, st) =>
        match evalList fuel st env xs with
        | (.ok vs, st) => (.ok (v :: vs), st)
        | r => r
      | (r, st) => (.stop r, st)

  /-- the `into` clause: a catamorphism builtin, or a function applied to the collected list -/
  def evalInto : Nat → State → Nat → Option Expr → ((Cata × Option Val) ⊕ Res) × State
    | 0, st, _, _ => (.inr .fuelOut, st)
    | _ + 1, st, _, none => (.inl (.list [], none), st)
    | fuel + 1, st, env, some e =>
      match eval fuel st env e with
      | (.val (.builtin name), st) =>
        match cataOfBuiltin name with
        | some c => (.inl (c, none), st)
        | none => (.inl (.list [], some (.builtin name)), st)
      | (.val f, st) => (.inl (.list [], some f), st)
      | (r, st) => (.inr r, st)

  /-- `Expr::While`: a fresh scope per iteration, holding condition and body -/
  def evalWhile : Nat → State → Nat → Expr → Expr → Res × State
    | 0, st, _, _, _ => (.fuelOut, st)
    | fuel + 1, st, env, c, b =>
      let (st, ee) := newFrame st env
      match eval fuel st ee c with
      | (.val vc, st) =>
        if !vc.truthy then (.val .null, st)
        else
          match eval fuel st ee b with
          | (.val _, st) => evalWhile fuel st env c b
          | (.brk 0 v, st) => (.val (v.getD .null), st)
          | (.cont 0, st) => evalWhile fuel st env c b
          | (.brk (n + 1) v, st) => (.brk n v, st)
          | (.cont (n + 1), st) => (.cont n, st)
          | r => r
      | r => r

  /-- `evaluate_for`: clauses left to right, a fresh scope per binding -/
  def evalFor : Nat → State → Nat → List ForIt → ForBody → ForAcc → Res × State × ForAcc
    | 0, st, _, _, _, acc => (.fuelOut, st, acc)
    | fuel + 1, st, env, [], body, acc =>
      -- the callback; `continue` (level 0) is absorbed here
      match forBody fuel st env body acc with
      | (.cont 0, st, acc) => (.val .null, st, acc)
      | r => r
    | fuel + 1, st, env, .guard g :: rest, body, acc =>
      match eval fuel st env g with
      | (.val v, st) => if v.truthy then evalFor fuel st env rest body acc else (.val .null, st, acc)
      | (r, st) => (r, st, acc)
    | fuel + 1, st, env, .iter kind p e :: rest, body, acc =>
      match eval fuel st env e with
      | (.val v, st) =>
        match kind with
        | .declare =>
          let (st, ee) := newFrame st env
          match declarePat (patDepth p + 1) st ee p v with
          | (true, st) => evalFor fuel st ee rest body acc
          | (false, st) => (.thrown .err, st, acc)
        | .normal =>
          match iterValues v with
          | some items => forItems fuel st env p items rest body acc
          | none => (.thrown .err, st, acc)
        | .item =>
          match iterPairs v with
          | some items => forItems fuel st env p items rest body acc
          | none => (.thrown .err, st, acc)
      | (r, st) => (r, st, acc)

  def forItems : Nat → State → Nat → Pat → List Val → List ForIt → ForBody → ForAcc → Res × State × ForAcc
    | 0, st, _, _, _, _, _, acc => (.fuelOut, st, acc)
    | _ + 1, st, _, _, [], _, _, acc => (.val .null, st, acc)
    | fuel + 1, st, env, p, x :: xs, rest, body, acc =>
      let (st, ee) := newFrame st env
      match declarePat (patDepth p + 1) st ee p x with
      | (false, st) => (.thrown .err, st, acc)
      | (true, st) =>
        match evalFor fuel st ee rest body acc with
        | (.val _, st, acc) => forItems fuel st env p xs rest body acc
        | r => r

  /-- the loop body / the `yield` callbacks -/
  def forBody : Nat → State → Nat → ForBody → ForAcc → Res × State × ForAcc
    | 0, st, _, _, acc => (.fuelOut, st, acc)
    | fuel + 1, st, env, .exec e, acc =>
      match eval fuel st env e with
      | (.val _, st) => (.val .null, st, acc)
      | (r, st) => (r, st, acc)
    | fuel + 1, st, env, .yield e _, acc =>
      match eval fuel st env e with
      | (.val v, st) =>
        match acc.cata.give v with
        | .ok c => (.val .null, st, { acc with cata := c })
        | .brk v => (.brk 0 (some v), st, acc)
        | .raise => (.thrown .err, st, acc)
      | (r, st) => (r, st, acc)
    | fuel + 1, st, env, .yieldItem k v _, acc =>
      match eval fuel st env k with
      | (.val vk, st) =>
        -- to_key: functions are not valid keys
        match vk with
        | .closure .. | .builtin _ => (.thrown .err, st, acc)
        | _ =>
          match dictFind acc.dict vk with
          | some (.inr _) => (.val .null, st, acc)          -- entry already broken out: value not evaluated
          | some (.inl c) =>
            match eval fuel st env v with
            | (.val vv, st) =>
              match c.give vv with
              | .ok c' => (.val .null, st, { acc with dict := dictSet acc.dict vk (.inl c') })
              | .brk b => (.val .null, st, { acc with dict := dictSet acc.dict vk (.inr b) })
              | .raise => (.thrown .err, st, acc)
            | (r, st) => (r, st, acc)
          | none =>
            match eval fuel st env v with
            | (.val vv, st) =>
              match acc.cata.give vv with   -- a fresh catamorphism per key (acc.cata is the template)
              | .ok c' => (.val .null, st, { acc with dict := acc.dict ++ [(vk, .inl c')] })
              | .brk b => (.val .null, st, { acc with dict := acc.dict ++ [(vk, .inr b)] })
              | .raise => (.thrown .err, st, acc)
            | (r, st) => (r, st, acc)
      | (r, st) => (r, st, acc)

  /-- finish every per-key catamorphism (and apply the non-cata `into` function) -/
  def finishDict : Nat → State → Nat → Option Val → List (Val × (Cata ⊕ Val)) → List (Val × Val) → Res × State
    | 0, st, _, _, _, _ => (.fuelOut, st)
    | _ + 1, st, _, _, [], done => (.val (.dict done), st)
    | fuel + 1, st, env, post, (k, .inr v) :: rest, done => finishDict fuel st env post rest (done ++ [(k, v)])
    | fuel + 1, st, env, post, (k, .inl c) :: rest, done =>
      match c.finish with
      | .raise => (.thrown .err, st)
      | .ok v =>
        match post with
        | none => finishDict fuel st env post rest (done ++ [(k, v)])
        | some f =>
          match callVal fuel st env f [v] with
          | (.val v', st) => finishDict fuel st env post rest (done ++ [(k, v')])
          | r => r

  /-- `Func::run` for closures (`Closure::run`) and the handful of builtins the vocabulary calls -/
  def callVal : Nat → State → Nat → Val → List Val → Res × State
    | 0, st, _, _, _ => (.fuelOut, st)
    | fuel + 1, st, _env, f, args =>
      match f with
      | .closure params body cenv =>
        let (st, ee) := newFrame st cenv
        -- `eval_lvalue` of every parameter: the type annotations are evaluated first, left to right, in
        -- the new (still empty) scope; any exit of an annotation (also `return`) leaves the call
        match evalList fuel st ee (params.filterMap Param.ann) with
        | (.stop r, st) => (r, st)
        | (.ok tvs, st) =>
          -- `assign_all`: the scan for the defaults in play; without a splat the arity is checked BEFORE
          -- the defaults are evaluated, with a splat after (inside `bindArgs`); the defaults in play are
          -- evaluated in the new scope before any parameter is bound
          match defaultsInPlay args.length params 0 false [] with
          | none => (.thrown .err, st)
          | some inPlay =>
            if !params.any Param.isSplat && params.length != args.length + inPlay.length then (.thrown .err, st)
            else
              match evalList fuel st ee inPlay with
              | (.stop r, st) => (r, st)
              | (.ok dvs, st) =>
                match bindArgs params args dvs with
                | none => (.thrown .err, st)
                | some binds =>
                  match st.frames[ee]? with
                  | none => (.thrown .err, st)
                  | some fr =>
                    -- parameters are bound one by one, each annotated one after its type check; a failing
                    -- check raises with the earlier parameters bound, the body does not run
                    match checkBinds (annSlots params tvs) binds [] [] with
                    | (false, vars, tys) =>
                      (.thrown .err, { st with frames := st.frames.setIfInBounds ee { fr with vars := vars, tys := tys } })
                    | (true, vars, tys) =>
                      let st := { st with frames := st.frames.setIfInBounds ee { fr with vars := vars, tys := tys } }
                      match eval fuel st ee body with
                      | (.ret v, st) => (.val v, st)
                      | r => r
      | .builtin "print" =>
        ({ st with out := (joinWith " " (args.map Val.display)) :: st.out } |> fun st => (.val .null, st))
      | .builtin "len" =>
        match args with
        | [.list xs] => (.val (.int xs.length), st)
        | [.str s] => (.val (.int s.utf8ByteSize), st)
        | [.dict kvs] => (.val (.int kvs.length), st)
        | _ => (.thrown .err, st)
      | .builtin "sum" =>
        match args with
        | [.list xs] =>
          (match xs.foldl (fun acc x => match acc with | some a => (match applyOp "+" a x with | .ok v => some v | .raise => none) | none => none) (some (.int 0)) with
           | some v => .val v | none => .thrown .err, st)
        | _ => (.thrown .err, st)
      | .builtin name =>
        -- an operator called in function form: `+(a, b)`; unary `-(a)` negates
        if opNames.contains name then
          match args with
          | [a, b] => (match applyOp name a b with | .ok v => .val v | .raise => .thrown .err, st)
          | [.int a] => if name = "-" then (.val (.int (-a)), st) else (.thrown .err, st)
          | _ => (.thrown .err, st)
        else (.thrown .err, st)
      | _ => (.thrown .err, st)

end


/-- a fresh interpreter: one top-level frame -/
def State.init : State := { frames := #[{ vars := [], parent := none }], out := [] }

def runProgram (fuel : Nat) (e : Expr) : Res × State := eval fuel State.init 0 e

end Noulith.Core
