/-
C01: the abstraction function from the reference-counted heap (Impl/Heap.lean) to trees
(Spec/Store.lean) — reading every cell back — and the canonical text of a tree.  Core Lean only.
-/
import NoulithModel.Impl.Heap
import NoulithModel.Spec.Store

namespace Noulith.RcHeap
open Noulith.Store (Tree)

/-- read a value back into a tree; `fuel` bounds the nesting depth (a handle met at fuel 0 reads as
null — `Theorems/C01.lean` shows that every sufficiently large fuel gives the represented tree) -/
def readback : Nat → Heap → Val → Tree
  | _, _, .null => .null
  | _, _, .int n => .int n
  | 0, _, .ref _ => .null
  | f + 1, h, .ref id =>
    match keysOf h id with
    | none => .list ((payloadOf h id).map (readback f h))
    | some ks => .dict ks ((payloadOf h id).map (readback f h))

/-- fuel used by the driver: one more than the number of allocations (the depth of an acyclic heap
cannot exceed the number of allocations) -/
def absFuel (s : State) : Nat := s.h.allocs.length + 1

def abs (s : State) : List Tree := s.cells.map (readback (absFuel s) s.h)

end Noulith.RcHeap

namespace Noulith.Store

/-- `k1:v1,k2:v2,…` with the entries sorted by the rendered key text (as `vharness::canon` does) -/
def renderEntries (ks : List Int) (vs : List String) : String :=
  let es := (ks.map toString).zip vs
  let sorted := es.mergeSort (fun a b => decide (a.1 ≤ b.1))
  joinWith "," (sorted.map fun e => e.1 ++ ":" ++ e.2)

mutual
def Tree.render : Tree → String
  | .null => "null"
  | .int n => toString n
  | .list ts => "[" ++ renderList ts ++ "]"
  | .dict ks vs => "{" ++ renderEntries ks (renderEach vs) ++ "}"
def renderList : List Tree → String
  | [] => ""
  | [t] => t.render
  | t :: t2 :: ts => t.render ++ "," ++ renderList (t2 :: ts)
def renderEach : List Tree → List String
  | [] => []
  | t :: ts => t.render :: renderEach ts
end

/-- rendering with dict entries in stored (insertion) order — kernel-reducible, used by the `example`s -/
def rawEntries : List Int → List String → String
  | k :: k2 :: ks, v :: v2 :: vs => toString k ++ ":" ++ v ++ "," ++ rawEntries (k2 :: ks) (v2 :: vs)
  | k :: _, v :: _ => toString k ++ ":" ++ v
  | _, _ => ""

mutual
def Tree.renderRaw : Tree → String
  | .null => "null"
  | .int n => toString n
  | .list ts => "[" ++ rawList ts ++ "]"
  | .dict ks vs => "{" ++ rawEntries ks (rawEach vs) ++ "}"
def rawList : List Tree → String
  | [] => ""
  | [t] => t.renderRaw
  | t :: t2 :: ts => t.renderRaw ++ "," ++ rawList (t2 :: ts)
def rawEach : List Tree → List String
  | [] => []
  | t :: ts => t.renderRaw :: rawEach ts
end

end Noulith.Store
