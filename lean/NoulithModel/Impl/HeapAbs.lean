/-
C01: the abstraction function from the reference-counted heap (Impl/Heap.lean) to trees
(Spec/Store.lean) — reading every cell back — and the canonical text of a tree.  Core Lean only.
-/
import NoulithModel.Impl.Heap
import NoulithModel.Spec.Store

namespace Noulith.RcHeap
open Noulith.Store (Tree)

/-- read a value back into a tree; `fuel` bounds the nesting depth (a handle met at fuel 0 reads as
null — `Theorems/C01.lean` shows that every sufficiently large fuel gives the represented tree) -/
def readback : Nat → Heap → Val → Tree
  | _, _, .null => .null
  | _, _, .int n => .int n
  | 0, _, .ref _ => .null
  | f + 1, h, .ref id => .list ((payloadOf h id).map (readback f h))

/-- fuel used by the driver: one more than the number of allocations (the depth of an acyclic heap
cannot exceed the number of allocations) -/
def absFuel (s : State) : Nat := s.h.allocs.length + 1

def abs (s : State) : List Tree := s.cells.map (readback (absFuel s) s.h)

end Noulith.RcHeap

namespace Noulith.Store

mutual
def Tree.render : Tree → String
  | .null => "null"
  | .int n => toString n
  | .list ts => "[" ++ renderList ts ++ "]"
def renderList : List Tree → String
  | [] => ""
  | [t] => t.render
  | t :: t2 :: ts => t.render ++ "," ++ renderList (t2 :: ts)
end

end Noulith.Store
