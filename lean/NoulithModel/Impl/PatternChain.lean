/-
Impl model for C12, part 3 — infix operator patterns (`Lvalue::ChainDestructure`).

`eval_lvalue` (eval.rs ~389) feeds the operands and operators of an unparenthesised operator
pattern `p0 f1 p1 f2 p2 …` to an `LvalueChainEvaluator` (eval.rs ~213), the pattern-side copy of
`ChainEvaluator`: a pending operator is reduced to a `Destructure(f, operands)` node when it is
`tighter_than_when_before` the arriving one, comparison operators merge (`try_chain`).  This file
instantiates C03's transcription of that algorithm (`Impl/Chain.lean`) with patterns as operands;
the Spec (`Spec/Match.lean`'s grouping) is the tree the *expression* grammar builds
(`Spec/ChainTree.lean`, precedence climbing).

Core Lean only.
-/
import NoulithModel.Impl.Pattern
import NoulithModel.Impl.Chain
import NoulithModel.Spec.ChainTree

namespace Noulith.C12
open Noulith.Chain

/-- the precedence a builtin is registered with (`default_precedence` of the operator's name):
comparisons 1, `+ - .+ +. ++` 4, `* / // %` 5; `.+` (prepend) associates to the right.
`other n` stands for a builtin without a `destructure` of its own registered at level `n`. -/
def biPrecedence : Bi → Precedence
  | .plus => ⟨.fin 4, .left⟩
  | .minus => ⟨.fin 4, .left⟩
  | .times => ⟨.fin 5, .left⟩
  | .divide => ⟨.fin 5, .left⟩
  | .append => ⟨.fin 4, .left⟩
  | .prepend => ⟨.fin 4, .right⟩
  | .cmp _ => ⟨.fin 1, .left⟩
  | .other n => ⟨.fin n, .left⟩

/-- `ComparisonOperator::try_chain`: a comparison merges with a following comparison; no other
builtin of the model chains -/
def biTryChain : Bi → Bi → Option Bi
  | .cmp a, .cmp b => some (.cmp (a ++ b))
  | _, _ => none

/-- `LvalueChainEvaluator::run_top_popped` for a builtin operator -/
def chainRun (b : Bi) (operands : List Pat) : Out Pat := .ok (.destr b operands)

/-- `eval_lvalue`'s `ChainDestructure` arm: the pattern an operator chain evaluates to -/
def resolveChain (first : Pat) (ops : List (Bi × Pat)) : Out Pat :=
  evalChain chainRun biTryChain first (ops.map fun bp => (bp.1, biPrecedence bp.1, bp.2))

/-- the chain as the expression grammar sees it -/
def chainOf (first : Pat) (ops : List (Bi × Pat)) : ChainOf Bi Pat :=
  ⟨first, ops.map fun bp => (⟨bp.1, biPrecedence bp.1⟩, bp.2)⟩

/-- Spec: the operator pattern is grouped exactly as the expression with the same text -/
def specResolveChain (first : Pat) (ops : List (Bi × Pat)) : Out Pat :=
  semM chainRun biTryChain id (climbTree biTryChain (chainOf first ops))

end Noulith.C12
