/-
C04 — Impl model of function application: the three entry points of a builtin, the
partial-application wrappers and the underscore sections.

Mirrors (hand transcription, tied to /repo by harness/src/bin/c04.rs):
  * core.rs   `trait Builtin { run, run1 (default run(vec![a])), run2 (default run(vec![a, b])) }`
  * lib.rs    every `impl Builtin for X` that is registered by `initialize` (one `Family`
              constructor per dispatch shape; `Family.ofStruct` maps the Rust struct names),
              `clone_and_part_app_2`, `clone_and_part_app_last`
  * eval.rs   `Func::run` / `run1` / `run2`, `call`, `call1`, `call2`, `call_or_part_apply`,
              `apply_section`, `splat_section_eval`, the `Call`, `Chain` (one operator), `List`
              and `OpAssign` arms of `evaluate`, `ChainEvaluator` for a single operator
  * lib.rs    the bodies of `.`, `.>`, `then`, `<.`, `apply`, `of`, `flip`, `>>>`, `<<<`, `on`

The *bodies* of builtins and closures are parameters (`World`): the model is about which entry
point is reached with which arguments in which order, and which partial-application value is built.
Core Lean only.
-/
import NoulithModel.Common

namespace Noulith.Apply
open Noulith

/-- value kinds the dispatch code distinguishes (`Obj::Null`, `Obj::Num`, the `Seq` variants,
`Obj::Instance`); `opq` is the kind of a value produced by an opaque body in the *symbolic*
world of the driver (its real kind is not known to the model). -/
inductive Kind where
  | null | num | vec | str | list | dict | bytes | stream | inst | opq
  deriving DecidableEq, Repr, Inhabited

/-- how the three entry points of a builtin are derived from its bodies — one constructor per
dispatch shape found in lib.rs (see `Family.ofStruct` for the Rust struct names). -/
inductive Family where
  /-- only `run` is written (BasicBuiltin, First, Last, Set, Parallel, Fanout, LiftedEquals,
  Preposition, NumsBuiltin …): `run1`/`run2` are the trait defaults -/
  | runOnly
  /-- OneArgBuiltin, OneNumBuiltin, EnvOneArgBuiltin: `run = run1 ∘ expect_one`, `run1 = body` -/
  | oneArg
  /-- TwoArgBuiltin, EnvTwoArgBuiltin: `run` = few2 {One a ⇒ PartialApp2, Two ⇒ run2}, `run2 = body` -/
  | twoArg
  /-- Plus, TwoNumsToNumsBuiltin, TwoNumsBuiltin: `run` = few2 {One ⇒ run1, Two ⇒ run2};
  `run1` partially applies numbers and vectors only; `run2 = body` -/
  | twoNums
  /-- Minus: one argument is unary minus (not a section) -/
  | minus
  /-- Times: `run` has the partial-application arm inline, `run2` overridden, `run1` default -/
  | times
  /-- Divide: like Times but `run2` is the default too -/
  | divide
  /-- ComparisonOperator (unchained, as registered): few {Zero ⇒ error, One ⇒ PartialApp2, Many ⇒ body} -/
  | comparison
  /-- Append, Prepend: `run1` always partially applies -/
  | append
  /-- Extremum (max, min): few {Zero ⇒ error, One(Seq) ⇒ body, One(a) ⇒ PartialAppLast, Many ⇒ body} -/
  | extremum
  /-- Count: few2 {Zero ⇒ error, One(Seq) ⇒ body, One(a) ⇒ PartialAppLast, Two ⇒ body, Many ⇒ error} -/
  | count
  /-- CountDistinct: few2 {One(Seq) ⇒ body, One(Func) ⇒ PartialAppLast, Two(Seq, Func) ⇒ body, _ ⇒ error} -/
  | countDistinct
  /-- TilBuiltin, Split, RSplit, SplitRe: few3 {One ⇒ PartialApp2, _ ⇒ body} -/
  | part2Few3
  /-- ToBuiltin: few3 {One ⇒ PartialApp2, Two ⇒ run2, Three ⇒ body, _ ⇒ error}; `run2` overridden -/
  | toB
  /-- Zip, ZipLongest, LazyZip, Merge, Lift: few {Zero ⇒ error, One ⇒ PartialAppLast, Many ⇒ body} -/
  | partLastFew
  /-- CartesianProduct: few {Zero ⇒ error, One ⇒ PartialApp2, Many ⇒ body} -/
  | part2Few
  /-- Fold, Scan: few3 {Zero ⇒ error, One ⇒ PartialApp2, _ ⇒ body} -/
  | fold
  /-- Group: few2 {One(Seq) ⇒ body, One(a) ⇒ PartialApp2, _ ⇒ body} -/
  | group
  /-- Sort: few2 {One(Seq) ⇒ body, One(Func) ⇒ PartialApp2, Two(Seq, Func) ⇒ body, _ ⇒ error} -/
  | sort
  /-- Rearrange: few3 {One(String) ⇒ PartialApp2, _ ⇒ body} -/
  | rearrange
  /-- Replace: few3 {Two(String a, String b) ⇒ PartialAppLast(PartialAppLast(self, b), a), _ ⇒ body} -/
  | replace
  /-- SeqAndMappedFoldBuiltin: `run1` folds a sequence / partially applies a function;
  `run` and `run2` both carry the (Seq, Func) guard -/
  | seqFold
  deriving DecidableEq, Repr, Inhabited

mutual
/-- runtime values as far as application can tell them apart -/
inductive Val where
  /-- a data value of kind `k`; `id` names it (the harness uses the argument position) -/
  | atom (k : Kind) (id : Nat)
  /-- a list built by the evaluator itself (`[a, b]` literals, splats) -/
  | list (xs : List Val)
  /-- symbolic world only: "the value the opaque body `label` returned for `args`" -/
  | opq (label : String) (args : List Val)
  | func (f : Func)
/-- a section slot: `Ok(e)` or `Err(is_splat)` of eval.rs -/
inductive Slot where
  | val (v : Val)
  | hole (splat : Bool)
/-- `enum Func` of core.rs (variants not named here are `other`) -/
inductive Func where
  | builtin (id : Nat) (fam : Family)
  | closure (id : Nat)
  | partialApp1 (f : Func) (x : Val)
  | partialApp2 (f : Func) (x : Val)
  | partialAppLast (f : Func) (x : Val)
  | composition (f g : Func)
  | onComposition (f g : Func)
  | flip (f : Func)
  | listSection (xs : List Slot)
  /-- `CallSection(Some(callee), args)` -/
  | callSection (callee : Val) (xs : List Slot)
  /-- `CallSection(None, args)`: the callee is the first argument -/
  | callSectionU (xs : List Slot)
  /-- `ChainSection(seed, [(op, prec, operand)])` with exactly one operator -/
  | chainSection1 (seed : Option Val) (op : Func) (opd : Option Val)
  /-- `ChainSection` with two or more operators (precedence resolution is C03's subject) -/
  | chainSectionN (id : Nat)
  | indexSection (x i : Option Val)
  | typeF (id : Nat)
  /-- InternalLambda, Parallel, Fanout, OnFanoutConst, UpdateSection, SliceSection, StructField,
  SymbolAccess, Memoized -/
  | other (id : Nat)
end

instance : Inhabited Val := ⟨.atom .null 0⟩
instance : Inhabited Func := ⟨.closure 0⟩

/-- the opaque bodies of one builtin: what it computes once the dispatch code has decided that it
is a real call with one / two / some other number of arguments -/
structure Bodies where
  b1 : Val → Out Val
  b2 : Val → Val → Out Val
  bn : List Val → Out Val

/-- everything application treats as a black box -/
structure World where
  bodies : Nat → Bodies
  /-- `Closure::run` of a user-defined function -/
  closure : Nat → List Val → Out Val
  /-- `mut_obj_into_iter(..).collect()` on a data value (splat, `apply`, `of`) -/
  iter : Val → Out (List Val)
  /-- eval.rs `index` -/
  index : Val → Val → Out Val
  /-- `call_type` -/
  callType : Nat → List Val → Out Val
  /-- calls whose callee arrives as an *argument* of a modelled combinator (`_(a, b)` sections):
  outside the structurally recursive fragment -/
  callDyn : Val → List Val → Out Val
  chainN : Nat → List Val → Out Val
  other : Nat → List Val → Out Val

/-! ### argument-count classification (few.rs) -/
inductive Few2 where
  | zero | one (a : Val) | two (a b : Val) | many (xs : List Val)
def few2 : List Val → Few2
  | [] => .zero
  | [a] => .one a
  | [a, b] => .two a b
  | xs => .many xs

inductive Few where
  | zero | one (a : Val) | many (xs : List Val)
def few : List Val → Few
  | [] => .zero
  | [a] => .one a
  | xs => .many xs

inductive Few3 where
  | zero | one (a : Val) | two (a b : Val) | three (a b c : Val) | many (xs : List Val)
def few3 : List Val → Few3
  | [] => .zero
  | [a] => .one a
  | [a, b] => .two a b
  | [a, b, c] => .three a b c
  | xs => .many xs

/-! ### kind tests used by the guards -/
def Val.isNum : Val → Bool
  | .atom .num _ => true
  | _ => false
def Val.isVec : Val → Bool
  | .atom .vec _ => true
  | _ => false
def Val.isStr : Val → Bool
  | .atom .str _ => true
  | _ => false
/-- `Obj::Seq(_)` -/
def Val.isSeq : Val → Bool
  | .atom .vec _ | .atom .str _ | .atom .list _ | .atom .dict _ | .atom .bytes _ | .atom .stream _ => true
  | .list _ => true
  | _ => false
def Val.isFunc : Val → Bool
  | .func _ => true
  | _ => false

/-- `clone_and_part_app_2` -/
def part2 (self : Func) (x : Val) : Out Val := .ok (.func (.partialApp2 self x))
/-- `clone_and_part_app_last` -/
def partLast (self : Func) (x : Val) : Out Val := .ok (.func (.partialAppLast self x))

namespace Family

/-- `Builtin::run1` of each family (`none` = not overridden: the trait default `run(vec![a])`) -/
def run1Override (F : Family) (B : Bodies) (self : Func) (a : Val) : Option (Out Val) :=
  match F with
  | .oneArg => some (B.b1 a)
  | .twoNums => some (if a.isNum || a.isVec then part2 self a else .throw)
  | .minus => some (B.b1 a)
  | .append => some (part2 self a)
  | .seqFold => some (if a.isSeq then B.b1 a else if a.isFunc then part2 self a else .throw)
  | _ => none

/-- `Builtin::run2` of each family (`none` = the trait default `run(vec![a, b])`) -/
def run2Override (F : Family) (B : Bodies) (a b : Val) : Option (Out Val) :=
  match F with
  | .twoArg => some (B.b2 a b)
  | .twoNums => some (B.b2 a b)
  | .minus => some (B.b2 a b)
  | .times => some (B.b2 a b)
  | .append => some (B.b2 a b)
  | .toB => some (B.b2 a b)
  | .seqFold => some (if a.isSeq && b.isFunc then B.b2 a b else .throw)
  | _ => none

/-- the override if there is one (used where `run` itself says `self.run1(..)` / `self.run2(..)`) -/
def selfRun1 (F : Family) (B : Bodies) (self : Func) (a : Val) : Out Val :=
  (run1Override F B self a).getD .throw
def selfRun2 (F : Family) (B : Bodies) (a b : Val) : Out Val :=
  (run2Override F B a b).getD .throw

/-- `Builtin::run` (the vector entry point) of each family -/
def run (F : Family) (B : Bodies) (self : Func) (args : List Val) : Out Val :=
  match F with
  | .runOnly => B.bn args
  | .oneArg =>
    -- self.run1(env, expect_one(args)?)
    match few args with
    | .one a => B.b1 a
    | _ => .throw
  | .twoArg =>
    match few2 args with
    | .one a => part2 self a
    | .two a b => B.b2 a b            -- self.run2
    | _ => .throw
  | .twoNums =>
    match few2 args with
    | .one a => if a.isNum || a.isVec then part2 self a else .throw   -- self.run1
    | .two a b => B.b2 a b                                           -- self.run2
    | _ => .throw
  | .minus =>
    match few2 args with
    | .zero => .throw
    | .one a => B.b1 a
    | .two a b => B.b2 a b
    | .many _ => .throw
  | .times | .divide =>
    match few2 args with
    | .one a => if a.isNum || a.isVec then part2 self a else .throw
    | .two a b => B.b2 a b
    | _ => .throw
  | .comparison =>
    match few args with
    | .zero => .throw
    | .one a => part2 self a
    | .many xs => B.bn xs
  | .append =>
    match few2 args with
    | .one a => part2 self a           -- self.run1
    | .two a b => B.b2 a b             -- self.run2
    | _ => .throw
  | .extremum =>
    match few args with
    | .zero => .throw
    | .one a => if a.isSeq then B.b1 a else partLast self a
    | .many xs => B.bn xs
  | .count =>
    match few2 args with
    | .zero => .throw
    | .one a => if a.isSeq then B.b1 a else partLast self a
    | .two a b => B.b2 a b
    | .many _ => .throw
  | .countDistinct =>
    match few2 args with
    | .one a => if a.isSeq then B.b1 a else if a.isFunc then partLast self a else .throw
    | .two a b => if a.isSeq && b.isFunc then B.b2 a b else .throw
    | _ => .throw
  | .part2Few3 =>
    match few3 args with
    | .one a => part2 self a
    | _ => B.bn args
  | .toB =>
    match few3 args with
    | .one a => part2 self a
    | .two a b => B.b2 a b             -- self.run2
    | .three a b c => B.bn [a, b, c]
    | _ => .throw
  | .partLastFew =>
    match few args with
    | .zero => .throw
    | .one a => partLast self a
    | .many xs => B.bn xs
  | .part2Few =>
    match few args with
    | .zero => .throw
    | .one a => part2 self a
    | .many xs => B.bn xs
  | .fold =>
    match few3 args with
    | .zero => .throw
    | .one a => part2 self a
    | _ => B.bn args
  | .group =>
    match few2 args with
    | .one a => if a.isSeq then B.b1 a else part2 self a
    | _ => B.bn args
  | .sort =>
    match few2 args with
    | .one a => if a.isSeq then B.b1 a else if a.isFunc then part2 self a else .throw
    | .two a b => if a.isSeq && b.isFunc then B.b2 a b else .throw
    | _ => .throw
  | .rearrange =>
    match few3 args with
    | .one a => if a.isStr then part2 self a else .throw
    | _ => B.bn args
  | .replace =>
    match few3 args with
    | .two a b =>
      if a.isStr && b.isStr then .ok (.func (.partialAppLast (.partialAppLast self b) a)) else B.bn args
    | _ => B.bn args
  | .seqFold =>
    match few2 args with
    | .one a => if a.isSeq then B.b1 a else if a.isFunc then part2 self a else .throw  -- self.run1
    | .two a b => if a.isSeq && b.isFunc then B.b2 a b else .throw
    | _ => .throw

/-- `b.run1(env, a)` as the trait dispatches it -/
def run1 (F : Family) (B : Bodies) (self : Func) (a : Val) : Out Val :=
  match run1Override F B self a with
  | some r => r
  | none => run F B self [a]

/-- `b.run2(env, a, b)` as the trait dispatches it -/
def run2 (F : Family) (B : Bodies) (self : Func) (a b : Val) : Out Val :=
  match run2Override F B a b with
  | some r => r
  | none => run F B self [a, b]

/-- does a one-argument call take the partial-application arm (the family's own guard), and
which wrapper does it build?  `some false` = PartialApp2, `some true` = PartialAppLast -/
def partArm (F : Family) (a : Val) : Option Bool :=
  match F with
  | .twoArg | .comparison | .append | .part2Few3 | .toB | .part2Few | .fold => some false
  | .twoNums | .times | .divide => if a.isNum || a.isVec then some false else none
  | .extremum | .count => if a.isSeq then none else some true
  | .countDistinct => if a.isSeq then none else if a.isFunc then some true else none
  | .partLastFew => some true
  | .group => if a.isSeq then none else some false
  | .sort | .seqFold => if a.isSeq then none else if a.isFunc then some false else none
  | .rearrange => if a.isStr then some false else none
  | .runOnly | .oneArg | .minus | .replace => none

/-- which Rust struct is which family; `none` = not modelled (fails the coverage obligation) -/
def ofStruct : String → Option Family
  | "BasicBuiltin" | "First" | "Last" | "Set" | "Parallel" | "Fanout" | "LiftedEquals"
  | "Preposition" | "NumsBuiltin" => some .runOnly
  | "OneArgBuiltin" | "OneNumBuiltin" | "EnvOneArgBuiltin" => some .oneArg
  | "TwoArgBuiltin" | "EnvTwoArgBuiltin" => some .twoArg
  | "Plus" | "TwoNumsToNumsBuiltin" | "TwoNumsBuiltin" => some .twoNums
  | "Minus" => some .minus
  | "Times" => some .times
  | "Divide" => some .divide
  | "ComparisonOperator" => some .comparison
  | "Append" | "Prepend" => some .append
  | "Extremum" => some .extremum
  | "Count" => some .count
  | "CountDistinct" => some .countDistinct
  | "TilBuiltin" | "Split" | "RSplit" | "SplitRe" => some .part2Few3
  | "ToBuiltin" => some .toB
  | "Zip" | "ZipLongest" | "LazyZip" | "Merge" | "Lift" => some .partLastFew
  | "CartesianProduct" => some .part2Few
  | "Fold" | "Scan" => some .fold
  | "Group" => some .group
  | "Sort" => some .sort
  | "Rearrange" => some .rearrange
  | "Replace" => some .replace
  | "SeqAndMappedFoldBuiltin" => some .seqFold
  | _ => none

/-- (overrides run1, overrides run2) as modelled — compared with the extracted table as a
fidelity diagnostic -/
def overrides (F : Family) : Bool × Bool :=
  let B : Bodies := ⟨fun _ => .throw, fun _ _ => .throw, fun _ => .throw⟩
  ((run1Override F B default default).isSome, (run2Override F B default default).isSome)

end Family

/-! ### sections -/

/-- `mut_obj_into_iter(..).collect()`: evaluator-built lists are iterated here, functions are not
iterable, data is the world's business -/
def iterVal (W : World) : Val → Out (List Val)
  | .list xs => .ok xs
  | .func _ => .throw
  | v => W.iter v

/-- eval.rs `apply_section` -/
def applySection (W : World) : List Slot → List Val → Out (List Val)
  | [], _ => .ok []
  | .val e :: rest, args => (applySection W rest args).map (e :: ·)
  | .hole _ :: _, [] => .throw
  | .hole false :: rest, a :: args => (applySection W rest args).map (a :: ·)
  | .hole true :: rest, a :: args =>
    match iterVal W a with
    | .ok xs => (applySection W rest args).map (xs ++ ·)
    | .throw => .throw
    | .panic => .panic

/-- arguments of a call / items of a list literal after evaluation of the sub-expressions -/
inductive ArgE where
  | val (v : Val)
  | splat (v : Val)
  | under
  | splatUnder

/-- eval.rs `splat_section_eval`: `Ok(values)` when there is no underscore, else the slot list -/
def splatSectionEval (W : World) : List ArgE → (acc : Sum (List Val) (List Slot)) → Out (Sum (List Val) (List Slot))
  | [], acc => .ok acc
  | .val e :: rest, .inl v => splatSectionEval W rest (.inl (v ++ [e]))
  | .val e :: rest, .inr v => splatSectionEval W rest (.inr (v ++ [.val e]))
  | .splat e :: rest, .inl v =>
    match iterVal W e with
    | .ok xs => splatSectionEval W rest (.inl (v ++ xs))
    | .throw => .throw
    | .panic => .panic
  | .splat e :: rest, .inr v =>
    match iterVal W e with
    | .ok xs => splatSectionEval W rest (.inr (v ++ xs.map .val))
    | .throw => .throw
    | .panic => .panic
  | .under :: rest, .inl v => splatSectionEval W rest (.inr (v.map .val ++ [.hole false]))
  | .under :: rest, .inr v => splatSectionEval W rest (.inr (v ++ [.hole false]))
  | .splatUnder :: rest, .inl v => splatSectionEval W rest (.inr (v.map .val ++ [.hole true]))
  | .splatUnder :: rest, .inr v => splatSectionEval W rest (.inr (v ++ [.hole true]))

/-! ### `Func::run`, `run1`, `run2` -/

/-- `f.run2(env, a, b)` for a sub-callable `f` whose `run` is `rf` (`Func::run2`: builtins go to
their own `run2`, everything else to `run(vec![a, b])`) -/
def run2Of (W : World) (f : Func) (rf : List Val → Out Val) (a b : Val) : Out Val :=
  match f with
  | .builtin id F => Family.run2 F (W.bodies id) f a b
  | _ => rf [a, b]

/-- `f.run1(env, a)` for a sub-callable (`Func::run1` has two more arms, for PartialApp1/2, which
do what `run(vec![a])` does on them: `run1_eq_run1Of`) -/
def run1Of (W : World) (f : Func) (rf : List Val → Out Val) (a : Val) : Out Val :=
  match f with
  | .builtin id F => Family.run1 F (W.bodies id) f a
  | _ => rf [a]

/-- sequencing of a `for … { …? }` loop over already-computed outcomes: the first failure wins -/
def seqOut : List (Out Val) → Out (List Val)
  | [] => .ok []
  | .ok v :: rest => (seqOut rest).map (v :: ·)
  | .throw :: _ => .throw
  | .panic :: _ => .panic

/-- `impl Func { pub fn run }` (eval.rs).  Structural recursion on the callable. -/
def Func.run (W : World) : Func → List Val → Out Val
  | .builtin id F, args => Family.run F (W.bodies id) (.builtin id F) args
  | .closure c, args => W.closure c args
  | .partialApp1 f x, args =>
    match few args with
    | .one a => run2Of W f (Func.run W f) x a
    | _ => .throw
  | .partialApp2 f x, args =>
    match few args with
    | .one a => run2Of W f (Func.run W f) a x
    | _ => .throw
  | .partialAppLast f x, args => Func.run W f (args ++ [x])
  | .composition f g, args =>
    match Func.run W g args with
    | .ok r => run1Of W f (Func.run W f) r
    | .throw => .throw
    | .panic => .panic
  | .onComposition f g, args =>
    match seqOut (args.map (run1Of W g (Func.run W g))) with
    | .ok mapped => Func.run W f mapped
    | .throw => .throw
    | .panic => .panic
  | .flip f, args =>
    match few2 args with
    | .one a => .ok (.func (.partialApp1 f a))
    | .two a b => run2Of W f (Func.run W f) b a
    | _ => .throw
  | .listSection xs, args => (applySection W xs args).map .list
  | .callSection callee xs, args =>
    match applySection W xs args with
    | .ok real =>
      -- call(env, callee, real_args)
      match callee with
      | .func ff => Func.run W ff real
      | _ => .throw
    | .throw => .throw
    | .panic => .panic
  | .callSectionU xs, args =>
    match args with
    | [] => .throw
    | callee :: rest =>
      match applySection W xs rest with
      | .ok real => W.callDyn callee real
      | .throw => .throw
      | .panic => .panic
  | .chainSection1 seed op opd, args =>
    -- ChainEvaluator::new(lhs); give(op, prec, rhs) pushes ([lhs], op); finish runs op.run([lhs, rhs])
    match seed, opd, args with
    | some a, some b, [] => Func.run W op [a, b]
    | some a, none, [b] => Func.run W op [a, b]
    | none, some b, [a] => Func.run W op [a, b]
    | none, none, [a, b] => Func.run W op [a, b]
    | _, _, _ => .throw
  | .chainSectionN id, args => W.chainN id args
  | .indexSection x i, args =>
    match x, i, args with
    | some x, some i, _ => W.index x i
    | some x, none, i :: _ => W.index x i
    | none, some i, x :: _ => W.index x i
    | none, none, x :: i :: _ => W.index x i
    | _, _, _ => .throw
  | .typeF t, args => W.callType t args
  | .other id, args => W.other id args

/-- `impl Func { pub fn run2 }` -/
def Func.run2 (W : World) (f : Func) (a b : Val) : Out Val :=
  match f with
  | .builtin id F => Family.run2 F (W.bodies id) (.builtin id F) a b
  | _ => Func.run W f [a, b]

/-- `impl Func { pub fn run1 }` -/
def Func.run1 (W : World) (f : Func) (a : Val) : Out Val :=
  match f with
  | .builtin id F => Family.run1 F (W.bodies id) (.builtin id F) a
  | .partialApp1 g x => Func.run2 W g x a
  | .partialApp2 g x => Func.run2 W g a x
  | _ => Func.run W f [a]

/-! ### `call`, `call1`, `call2`, `call_or_part_apply` (eval.rs) -/
def call (W : World) (f : Val) (args : List Val) : Out Val :=
  match f with
  | .func ff => ff.run W args
  | _ => .throw
def call1 (W : World) (f : Val) (a : Val) : Out Val :=
  match f with
  | .func ff => ff.run1 W a
  | _ => .throw
def call2 (W : World) (f : Val) (a b : Val) : Out Val :=
  match f with
  | .func ff => ff.run2 W a b
  | _ => .throw

def callOrPartApply (W : World) (f : Val) (args : List Val) : Out Val :=
  match f with
  | .func ff => ff.run W args
  | f =>
    match few args with
    | .one (.func f2) => .ok (.func (.partialApp1 f2 f))
    | _ => .throw

/-! ### the arms of `evaluate` that apply functions (sub-expressions already evaluated) -/

/-- `Expr::Call(f, args, _)`; `f = none` is the underscore callee.  Parenthesised, bang and
juxtaposition calls all build this node (core.rs `CallSyntax` is not looked at by `evaluate`). -/
def evalCall (W : World) (f : Option Val) (args : List ArgE) : Out Val :=
  match splatSectionEval W args (.inl []) with
  | .ok (.inl v) =>
    match f with
    | some f => callOrPartApply W f v
    | none => .ok (.func (.callSectionU (v.map .val)))
  | .ok (.inr slots) =>
    match f with
    | some f => .ok (.func (.callSection f slots))
    | none => .ok (.func (.callSectionU slots))
  | .throw => .throw
  | .panic => .panic

/-- `Expr::Chain(op1, [(op, opd)])` with one operator; `none` operands are underscores.  The
backtick form builds the same node. -/
def evalChain1 (W : World) (lhs : Option Val) (op : Val) (rhs : Option Val) : Out Val :=
  match lhs, rhs with
  | some a, some b =>
    match op with
    | .func f => f.run2 W a b
    | _ => .throw
  | l, r =>
    match op with
    | .func f => .ok (.func (.chainSection1 l f r))
    | _ => .throw

/-- `Expr::List(xs)` -/
def evalList (W : World) (items : List ArgE) : Out Val :=
  match splatSectionEval W items (.inl []) with
  | .ok (.inl v) => .ok (.list v)
  | .ok (.inr slots) => .ok (.func (.listSection slots))
  | .throw => .throw
  | .panic => .panic

/-- `Expr::OpAssign(false, x, op, rhs)` on a plain untyped variable holding `x`: the new value of
the variable (`lhs_value = x; drop_lhs; combined = ff.run2(lhs_value, rhs); assign`). -/
def evalOpAssign (W : World) (x : Val) (op : Val) (rhs : Val) : Out Val :=
  match op with
  | .func ff => ff.run2 W x rhs
  | _ => .throw

/-- right-hand sides of an op-assignment that may mention the target variable itself -/
inductive RhsE where
  /-- an expression that does not mention the target, already evaluated -/
  | const (b : Val)
  /-- `x` -/
  | target
  /-- `g(x)` -/
  | app (g : Func)
  /-- `(x; b)`: reads the target, yields `b` -/
  | seqTarget (b : Val)
  /-- an expression that raises (`throw 1`) -/
  | fails

/-- evaluation of the right-hand side: the variable still holds `x` (eval.rs evaluates `rhs`
BEFORE `drop_lhs` nulls the slot) -/
def evalRhs (W : World) (x : Val) : RhsE → Out Val
  | .const b => .ok b
  | .target => .ok x
  | .app g => g.run W [x]
  | .seqTarget b => .ok b
  | .fails => .throw

/-- the `null` a dropped slot holds -/
def nullVal : Val := .atom .null 999

/-- `x f= rhs; x` on a plain untyped variable, in the order of the hot path of `Expr::OpAssign`:
`lhs_value = x`; evaluate the operator; evaluate `rhs` (slot still `x`); `drop_lhs` (slot := null);
`combined = ff.run2(lhs_value, rhs_value)`; `assign`; then the read of `x` -/
def opAssignThenRead (W : World) (x : Val) (op : Val) (rhs : RhsE) : Out Val :=
  match op with
  | .func ff => (evalRhs W x rhs).bind fun r => ff.run2 W x r
  | _ => .throw

/-- what the variable holds after the statement, raised or not: untouched when the operator is
not a function or the right-hand side raises, `null` when the operator itself raises (documented:
the slot is null while the operator runs), the combined value otherwise -/
def opAssignSlot (W : World) (x : Val) (op : Val) (rhs : RhsE) : Val :=
  match op with
  | .func ff =>
    match evalRhs W x rhs with
    | .ok r =>
      match ff.run2 W x r with
      | .ok c => c
      | _ => nullVal
    | _ => x
  | _ => x

/-! ### the library's application operators (bodies of lib.rs ~3756–3850, ~4860), reached through
`EnvTwoArgBuiltin` / `TwoArgBuiltin` / `OneArgBuiltin` dispatch with *these* bodies -/

/-- bodies of the `EnvTwoArgBuiltin`s `.`, `.>`, `then` (`call1(env, b, a)`) -/
def revApplyBodies (W : World) : Bodies :=
  ⟨fun _ => .throw, fun a b => call1 W b a, fun _ => .throw⟩
/-- `<.` (`call1(env, a, b)`) -/
def fwdApplyBodies (W : World) : Bodies :=
  ⟨fun _ => .throw, fun a b => call1 W a b, fun _ => .throw⟩
/-- `apply` (`call(env, b, iter(a))`) -/
def applyBodies (W : World) : Bodies :=
  ⟨fun _ => .throw, fun a b => (iterVal W a).bind (call W b ·), fun _ => .throw⟩
/-- `of` (`call(env, a, iter(b))`) -/
def ofBodies (W : World) : Bodies :=
  ⟨fun _ => .throw, fun a b => (iterVal W b).bind (call W a ·), fun _ => .throw⟩
/-- `flip` (OneArgBuiltin) -/
def flipBodies : Bodies :=
  ⟨fun a => match a with
    | .func f => .ok (.func (.flip f))
    | _ => .throw, fun _ _ => .throw, fun _ => .throw⟩
/-- `<<<` / `∘` (TwoArgBuiltin); `>>>` is the same with the arguments exchanged -/
def composeBodies : Bodies :=
  ⟨fun _ => .throw, fun a b => match a, b with
    | .func f, .func g => .ok (.func (.composition f g))
    | _, _ => .throw, fun _ => .throw⟩
/-- `on` -/
def onBodies : Bodies :=
  ⟨fun _ => .throw, fun a b => match a, b with
    | .func f, .func g => .ok (.func (.onComposition f g))
    | _, _ => .throw, fun _ => .throw⟩

/-- `a op b` for one of the library operators above: the `Chain` arm calls `b.run2` on the
registered builtin, whose family is `twoArg` (`self` only matters for one-argument calls) -/
def chainKnown2 (B : Bodies) (self : Func) (a b : Val) : Out Val :=
  Family.run2 .twoArg B self a b

end Noulith.Apply

namespace Noulith.Apply
open Noulith

/-! ### surface forms of application (README "operators are functions"; tests/test.rs
`sections_etc`, `quick_operators`, `function_stuff`) evaluated through the arms above -/

/-- one piece of a call (or list literal) that mixes plain arguments, `...[…]` spreads, `_`
placeholders and `..._` spread placeholders; the pieces consume the argument tuple left to right -/
inductive Mix where
  /-- `k` arguments written plainly: `a, b` -/
  | lit (k : Nat)
  /-- `k` arguments inside one spread: `...[a, b]` -/
  | spread (k : Nat)
  /-- `_`, filled by one argument of the second call -/
  | hole
  /-- `..._`, filled by a list of `k` arguments in the second call -/
  | spreadHole (k : Nat)
  deriving DecidableEq, Repr

/-- the first call's argument expressions and the second call's argument values -/
def mixBuild : List Mix → List Val → List ArgE × List Val
  | [], _ => ([], [])
  | .lit k :: ps, args =>
    ((args.take k).map .val ++ (mixBuild ps (args.drop k)).1, (mixBuild ps (args.drop k)).2)
  | .spread k :: ps, args =>
    (.splat (.list (args.take k)) :: (mixBuild ps (args.drop k)).1, (mixBuild ps (args.drop k)).2)
  | .hole :: ps, args =>
    (.under :: (mixBuild ps (args.drop 1)).1, (args.take 1) ++ (mixBuild ps (args.drop 1)).2)
  | .spreadHole k :: ps, args =>
    (.splatUnder :: (mixBuild ps (args.drop k)).1, .list (args.take k) :: (mixBuild ps (args.drop k)).2)

/-- number of arguments a pattern consumes -/
def mixSize : List Mix → Nat
  | [] => 0
  | .lit k :: ps => k + mixSize ps
  | .spread k :: ps => k + mixSize ps
  | .hole :: ps => 1 + mixSize ps
  | .spreadHole k :: ps => k + mixSize ps

def Mix.isHole : Mix → Bool
  | .hole | .spreadHole _ => true
  | _ => false

/-- the forms the property names, for a callable `f` and an argument tuple -/
inductive Form where
  /-- `f(a, b, …)` -/
  | call
  /-- `f ! a, b, …` (same `Expr::Call` node, `CallSyntax::Bang`) -/
  | bang
  /-- `a f b` -/
  | infixOp
  /-- ``a `f` b`` (the operator position holds an expression; same `Expr::Chain` node) -/
  | backtick
  /-- `f(a, _, c)(b)`: an underscore at position `i`, then the missing argument -/
  | secHole (i : Nat)
  /-- `f(_, _, …)(a, b, …)` -/
  | secAll
  /-- `(_ f b)(a)` -/
  | chainR
  /-- `(a f _)(b)` -/
  | chainL
  /-- `(_ f _)(a, b)` -/
  | chainBoth
  /-- `[a, b, …] apply f` -/
  | apply
  /-- `f of [a, b, …]` -/
  | of_
  /-- `(a f)(b)` — `a` not a function -/
  | juxt
  /-- `f(b)(a)` — right section, when `f(b)` is a function -/
  | rsec
  /-- `x := a; x f= b; x` -/
  | opAssign
  /-- `f(...[a, b, …])` -/
  | splatAll
  /-- `f(a, ...[b, …])` -/
  | splatTail
  /-- `a.f`, `a .> f`, `a then f` -/
  | dot
  /-- `f <. a` -/
  | fwdDot
  /-- a call section mixing `_`, `..._`, plain arguments and `...[…]` spreads in any order, then
  the call that fills it: `f(_, ...[b, c])(a)`, `f(...[a], _, c)(b)`, `f(..._, c)([a, b])` … -/
  | secMix (pat : List Mix)
  /-- the same for a list section: `[_, ...[b, c]](a)` denotes the list `[a, b, c]` -/
  | listMix (pat : List Mix)
  /-- a call section whose CALLEE is a placeholder too: `_(_, b)(f, a)`, `_(a, _, c)(f, b)`,
  `_(a, b)(f)`, `_(..._, c)(f, [a, b])` …: the first supplied argument is the callee, the others
  fill the argument slots left to right -/
  | calleeMix (pat : List Mix)
  /-- `x := a; x f= x; x` (also `x := [a]; x[0] f= x[0]; x[0]`) -/
  | opSelf
  /-- `x := a; x f= g(x); x` for the user-defined function `g = closure c` -/
  | opSelfApp (c : Nat)
  /-- `x := a; x f= (x; b); x` -/
  | opSeq
  /-- `x := a; try x f= throw 1 catch _ -> 0; x` -/
  | opRhsFails
  deriving DecidableEq, Repr

/-- `f(a, _, c)`: the call arguments with an underscore at position `i` -/
def sectionArgs (i : Nat) (args : List Val) : List ArgE :=
  (args.take i).map .val ++ [.under] ++ (args.drop (i + 1)).map .val

/-- the builtin value used as `self` of a library operator (only its identity matters, and only
for one-argument calls, which the forms below never make) -/
def libSelf : Func := .builtin 0 .twoArg

/-- evaluate one surface form through the modelled arms of `evaluate` -/
def evalForm (W : World) (form : Form) (f : Func) (args : List Val) : Out Val :=
  let fv : Val := .func f
  match form, args with
  | .call, _ | .bang, _ => evalCall W (some fv) (args.map .val)
  | .infixOp, [a, b] | .backtick, [a, b] => evalChain1 W (some a) fv (some b)
  | .secHole i, _ =>
    match args[i]? with
    | some x => (evalCall W (some fv) (sectionArgs i args)).bind fun g => evalCall W (some g) [.val x]
    | none => .throw
  | .secAll, _ =>
    (evalCall W (some fv) (args.map fun _ => .under)).bind fun g => evalCall W (some g) (args.map .val)
  | .chainR, [a, b] => (evalChain1 W none fv (some b)).bind fun g => evalCall W (some g) [.val a]
  | .chainL, [a, b] => (evalChain1 W (some a) fv none).bind fun g => evalCall W (some g) [.val b]
  | .chainBoth, [a, b] => (evalChain1 W none fv none).bind fun g => evalCall W (some g) [.val a, .val b]
  | .apply, _ => (evalList W (args.map .val)).bind fun l => chainKnown2 (applyBodies W) libSelf l fv
  | .of_, _ => (evalList W (args.map .val)).bind fun l => chainKnown2 (ofBodies W) libSelf fv l
  | .juxt, [a, b] => (evalCall W (some a) [.val fv]).bind fun g => evalCall W (some g) [.val b]
  | .rsec, [a, b] => (evalCall W (some fv) [.val b]).bind fun g => evalCall W (some g) [.val a]
  | .opAssign, [a, b] => evalOpAssign W a fv b
  | .splatAll, _ => (evalList W (args.map .val)).bind fun l => evalCall W (some fv) [.splat l]
  | .splatTail, a :: rest =>
    (evalList W (rest.map .val)).bind fun l => evalCall W (some fv) [.val a, .splat l]
  | .dot, [a] => chainKnown2 (revApplyBodies W) libSelf a fv
  | .fwdDot, [a] => chainKnown2 (fwdApplyBodies W) libSelf fv a
  | .secMix pat, _ =>
    (evalCall W (some fv) (mixBuild pat args).1).bind fun g =>
      evalCall W (some g) ((mixBuild pat args).2.map .val)
  | .listMix pat, _ =>
    (evalList W (mixBuild pat args).1).bind fun g =>
      evalCall W (some g) ((mixBuild pat args).2.map .val)
  | .calleeMix pat, _ =>
    (evalCall W none (mixBuild pat args).1).bind fun g =>
      evalCall W (some g) (.val fv :: (mixBuild pat args).2.map .val)
  | .opSelf, [a] => opAssignThenRead W a fv .target
  | .opSelfApp c, [a] => opAssignThenRead W a fv (.app (.closure c))
  | .opSeq, [a, b] => opAssignThenRead W a fv (.seqTarget b)
  | .opRhsFails, [a] => .ok (opAssignSlot W a fv .fails)
  | _, _ => .throw

end Noulith.Apply
