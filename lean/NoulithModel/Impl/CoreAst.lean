/-
Deep embedding of the core statement vocabulary of C05 / C17 (mirrors the `Expr`, `Lvalue`,
`ForIteration`, `ForBody` constructors of src/core.rs that the properties name).
Programs are exchanged as ASTs: the Rust harness generates an AST, pretty-prints it to Noulith source
for the real interpreter and serialises the same AST as an S-expression for the driver.
-/
import NoulithModel.Common

namespace Noulith.Core

/-- patterns that the core vocabulary binds with (`Lvalue`): a name, `_`, an undelimited
comma sequence `a, b`, or an integer literal -/
inductive Pat where
  | ident (x : String)
  | underscore
  | seq (ps : List Pat)
  | lit (n : Int)
  deriving Repr, Inhabited

inductive IterKind where
  | normal    -- `x <- e`
  | item      -- `k, v <<- e`
  | declare   -- `x := e` inside a for header
  deriving Repr, DecidableEq, Inhabited

mutual
  inductive Expr where
    | null
    | int (n : Int)
    | str (s : String)
    | ident (x : String)
    | list (xs : List Expr)
    | op (name : String) (a b : Expr)          -- one-operator chain `a name b` with a builtin operator
    | index (a i : Expr)
    | call (f : Expr) (args : List Expr)
    | and_ (a b : Expr)
    | or_ (a b : Expr)
    | coalesce (a b : Expr)
    | seq (xs : List Expr) (semi : Bool)
    | ite (c t : Expr) (e : Option Expr)
    | while_ (c b : Expr)
    | for_ (its : List ForIt) (body : ForBody)
    | declare (p : Pat) (e : Expr)               -- `p := e`
    | assign (x : String) (e : Expr)             -- `x = e`
    | opassign (x : String) (opn : String) (e : Expr)   -- `x opn= e`
    | lambda (params : List Param) (body : Expr)
    | brk (n : Nat) (e : Option Expr)
    | cont (n : Nat)
    | ret (e : Option Expr)
    | throw_ (e : Expr)
    | try_ (b : Expr) (p : Pat) (c : Expr)
    | switch_ (scrutinee : Expr) (arms : List SwitchArm)   -- `switch (e) case p -> body …`
    | evalSrc (e : Expr)                          -- `eval "<source of e>"`
    | frozen (v : Nat)                            -- C17: `Expr::Frozen`, index into a table of values
    | freeze (e : Expr)                           -- C17: `freeze e`
  inductive ForIt where
    | iter (kind : IterKind) (p : Pat) (e : Expr)
    | guard (e : Expr)
  inductive ForBody where
    | exec (e : Expr)
    | yield (e : Expr) (into : Option Expr)
    | yieldItem (k v : Expr) (into : Option Expr)
  /-- a lambda parameter `[...]name [: ann] [= dflt]` (`Lvalue::WithDefault(Lvalue::Annotation(name,
  Some(ann)), dflt)`, the nesting the parser's `parameter_list` produces); `ann` is an arbitrary
  expression, evaluated at CALL time, that must denote a type -/
  inductive Param where
    | mk (name : String) (dflt : Option Expr) (splat : Bool) (ann : Option Expr)
  inductive SwitchArm where
    | mk (p : Pat) (body : Expr)
end

instance : Inhabited Expr := ⟨.null⟩
instance : Inhabited ForBody := ⟨.exec .null⟩
instance : Inhabited Param := ⟨.mk "" none false none⟩
instance : Inhabited SwitchArm := ⟨.mk .underscore .null⟩

def Param.name : Param → String
  | .mk n _ _ _ => n
def Param.dflt : Param → Option Expr
  | .mk _ d _ _ => d
def Param.isSplat : Param → Bool
  | .mk _ _ s _ => s
def Param.ann : Param → Option Expr
  | .mk _ _ _ a => a

end Noulith.Core
