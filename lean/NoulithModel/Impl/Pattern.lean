/-
Impl model for C12 — patterns, destructuring, switch and runtime type annotations.

Mirrors (hand transcription, tied to /repo by the differential run of `./check C12`):
  * src/eval.rs  `EvaluatedLvalue`, `assign`, `assign_all` (splat / default pre-pass and the usize
    arithmetic of the drain), `assign_all_basic`, `insert_declare`, `assign_respecting_type`,
    `set_index` (list / dict arms), `eval_lvalue_as_obj`, `drop_lhs`, `assign_every`, `modify_every`,
    `Expr::Switch`, `Expr::Try` (catch clause), `Expr::Assign`, `Expr::OpAssign`, `Expr::Swap`,
    `is_type`;
  * src/core.rs  `ObjType`, `type_of`, `to_type`, `call_type` (struct construction), `Env::insert`,
    `PartialEq for Obj/Seq/NNum`, the default `Builtin::destructure`;
  * src/lib.rs   `destructure` of `Plus`, `Minus`, `Times`, `Divide`, `Append`, `Prepend`,
    `ComparisonOperator`, and the constructors `+ - * / append prepend` they invert, `uncons`, `unsnoc`.

The model is written in the *post-fix* form of the three defects recorded for this property
(F2: `is_type` arms for `rational` and `struct_instance`; F12: length check before the usize
subtraction in `assign_all`; zero literal in `Times::destructure`).  The unchecked machine arithmetic
that remains in the code keeps its `panic` arm here; `Theorems/C12.lean` proves those arms unreachable.

Core Lean only.
-/
import NoulithModel.Common

namespace Noulith.C12

/-! ## Values and types -/

/-- `ObjType` (core.rs ~581).  Struct types are identified by their id; a `satisfying(f)` type by
the index of `f` in the predicate table `predEval`. -/
inductive Ty where
  | null | int | rational | float | complex | number | string | list | dict | vector | bytes
  | stream | func | type | any | structInstance
  | struct (id : Nat)
  | satisfying (p : Nat)
  deriving DecidableEq, Repr, Inhabited

/-- `Obj`.  Floats and complex numbers are carried as their IEEE bit patterns (decoded exactly for
`==` and ordering, never computed with); strings are lists of code points; dicts are parallel key /
value lists without default ("dict-lite"); finite streams are carried as the list they force to;
functions are opaque tokens; `type t` is `Obj::Func(Func::Type(t))`. -/
inductive Val where
  | null
  | int (n : Int)
  | rat (q : Rat)
  | float (bits : Nat)
  | complex (re im : Nat)
  | str (cs : List Nat)
  | list (xs : List Val)
  | dict (ks vs : List Val)
  | vector (xs : List Val)
  | bytes (bs : List Nat)
  | stream (xs : List Val)
  | streamInf
  | func (tok : Nat)
  | type (t : Ty)
  | inst (sid : Nat) (fields : List Val)
  deriving Inhabited

/-- `EvaluatedIndexOrSlice`: one step of an index path -/
inductive Ix where
  | idx (v : Val)
  | slice (lo hi : Option Val)
  deriving Inhabited

/-! ### exact reading of numbers (`project_to_reals`, nnum.rs ~598) -/

/-- an extended real: what an `NNumReal` denotes -/
inductive XReal where
  | nan
  | inf (neg : Bool)
  | fin (q : Rat)
  deriving DecidableEq, Inhabited

def pow2 (k : Nat) : Nat := 2 ^ k

/-- exact value of an IEEE-754 binary64 bit pattern -/
def floatReal (bits : Nat) : XReal :=
  let b := bits % 18446744073709551616
  let neg := b / 9223372036854775808 == 1
  let e := b / 4503599627370496 % 2048
  let m := b % 4503599627370496
  if e == 2047 then (if m == 0 then .inf neg else .nan)
  else
    let mant : Nat := if e == 0 then m else m + 4503599627370496
    let ex : Int := (if e == 0 then 1 else (e : Int)) - 1075
    let mag : Rat := if ex ≥ 0 then ((mant * pow2 ex.toNat : Nat) : Rat) else mkRat mant (pow2 (-ex).toNat)
    .fin (if neg then -mag else mag)

def XReal.eq : XReal → XReal → Bool
  | .fin a, .fin b => a == b
  | .inf a, .inf b => a == b
  | _, _ => false

/-- `partial_cmp` of two extended reals (`none` when a NaN is involved) -/
def XReal.cmp : XReal → XReal → Option Ordering
  | .nan, _ => none
  | _, .nan => none
  | .fin a, .fin b => some (if a < b then .lt else if a == b then .eq else .gt)
  | .inf a, .inf b => some (if a == b then .eq else if a then .lt else .gt)
  | .inf a, .fin _ => some (if a then .lt else .gt)
  | .fin _, .inf b => some (if b then .gt else .lt)

/-- `project_to_reals`: (real part, imaginary part) of a number; `none` for non-numbers -/
def numReals : Val → Option (XReal × XReal)
  | .int n => some (.fin n, .fin 0)
  | .rat q => some (.fin q, .fin 0)
  | .float b => some (floatReal b, .fin 0)
  | .complex r i => some (floatReal r, floatReal i)
  | _ => none

def isNum : Val → Bool
  | .int _ | .rat _ | .float _ | .complex _ _ => true
  | _ => false

/-! ### `==` on objects (core.rs ~1160) -/

mutual
/-- `PartialEq for Obj`: numbers by value across representations, sequences of the same kind
elementwise, instances of the same struct fieldwise; functions (and types) are never equal, not
even to themselves.  Dicts: the model keeps the entries of a dict in the canonical key order of
the line protocol, so map equality is entrywise equality of the two entry lists. -/
def veq : Val → Val → Bool
  | .null, .null => true
  | .int a, .int b => a == b
  | .int a, .rat b => (a : Rat) == b
  | .rat a, .int b => a == (b : Rat)
  | .rat a, .rat b => a == b
  | .int a, .float b => XReal.eq (.fin a) (floatReal b)
  | .float a, .int b => XReal.eq (floatReal a) (.fin b)
  | .rat a, .float b => XReal.eq (.fin a) (floatReal b)
  | .float a, .rat b => XReal.eq (floatReal a) (.fin b)
  | .float a, .float b => XReal.eq (floatReal a) (floatReal b)
  | .complex r i, .complex r' i' => XReal.eq (floatReal r) (floatReal r') && XReal.eq (floatReal i) (floatReal i')
  | .complex r i, .int b => XReal.eq (floatReal r) (.fin b) && XReal.eq (floatReal i) (.fin 0)
  | .complex r i, .rat b => XReal.eq (floatReal r) (.fin b) && XReal.eq (floatReal i) (.fin 0)
  | .complex r i, .float b => XReal.eq (floatReal r) (floatReal b) && XReal.eq (floatReal i) (.fin 0)
  | .int b, .complex r i => XReal.eq (.fin b) (floatReal r) && XReal.eq (.fin 0) (floatReal i)
  | .rat b, .complex r i => XReal.eq (.fin b) (floatReal r) && XReal.eq (.fin 0) (floatReal i)
  | .float b, .complex r i => XReal.eq (floatReal b) (floatReal r) && XReal.eq (.fin 0) (floatReal i)
  | .str a, .str b => a == b
  | .list a, .list b => veqList a b
  | .vector a, .vector b => veqList a b
  | .bytes a, .bytes b => a == b
  | .dict ks vs, .dict ks' vs' => veqList ks ks' && veqList vs vs'
  | .inst s a, .inst s' b => s == s' && veqList a b
  | _, _ => false
def veqList : List Val → List Val → Bool
  | [], [] => true
  | a :: as, b :: bs => veq a b && veqList as bs
  | _, _ => false
end

/-! ### types: `type_of`, `is_type`, `to_type` -/

/-- `type_of` (core.rs ~628) -/
def typeOf : Val → Ty
  | .null => .null
  | .int _ => .int
  | .rat _ => .rational
  | .float _ => .float
  | .complex _ _ => .complex
  | .list _ => .list
  | .str _ => .string
  | .dict _ _ => .dict
  | .vector _ => .vector
  | .bytes _ => .bytes
  | .stream _ => .stream
  | .streamInf => .stream
  | .type _ => .type
  | .func _ => .func
  | .inst _ _ => .structInstance

def utf8Len1 (c : Nat) : Nat := if c < 128 then 1 else if c < 2048 then 2 else if c < 65536 then 3 else 4
/-- byte length of a string (what `len` and `Seq::len` report) -/
def utf8Len (cs : List Nat) : Nat := (cs.map utf8Len1).sum

/-- `Seq::len` as the interpreter reports it; `none` for non-sequences and infinite streams
(an infinite stream has `len() == None`). -/
def seqLen : Val → Option Nat
  | .list xs => some xs.length
  | .str cs => some (utf8Len cs)
  | .dict ks _ => some ks.length
  | .vector xs => some xs.length
  | .bytes bs => some bs.length
  | .stream xs => some xs.length
  | _ => none

/-- the length `assign` announces to `assign_all` for a right-hand side that is a sequence: the
number of elements it yields (post-fix: a string counts its characters, as its iteration does,
not its bytes) -/
def patLen : Val → Option Nat
  | .str cs => some cs.length
  | v => seqLen v

def truthy : Val → Bool
  | .null => false
  | .int n => n != 0
  | .rat q => q != 0
  | .float b => !(XReal.eq (floatReal b) (.fin 0))
  | .complex r i => !(XReal.eq (floatReal r) (.fin 0) && XReal.eq (floatReal i) (.fin 0))
  | .str cs => !cs.isEmpty
  | .list xs => !xs.isEmpty
  | .dict ks _ => !ks.isEmpty
  | .vector xs => !xs.isEmpty
  | .bytes bs => !bs.isEmpty
  | .stream xs => !xs.isEmpty
  | .streamInf => true
  | .func _ => true
  | .type _ => true
  | .inst _ _ => true

/-- exact value of an int / rational operand (the arithmetic patterns are modelled on exact
numbers; float and complex operands are outside the model, see `assumptions`) -/
def exactNum : Val → Option Rat
  | .int n => some n
  | .rat q => some q
  | _ => none

/-- The predicate table behind `satisfying(f)` types.  The differential run uses these six source
functions; every theorem treats `predEval` as an arbitrary pure function of the value (it is never
unfolded in `Theorems/C12.lean`).
  0 `\x -> x > 0`   1 `\x -> len(x) == 2`   2 `\x -> 1`   3 `\x -> 0`   4 `\x -> x is int`
  5 `\x -> throw "no"`   6 `\x -> x is list and len(x) > 0 and x[0] is int`   7 `\x -> x is list and sum(x) < 10`
  8 `\x -> x is list and all(x map \e -> e is int)`
  9 `\x -> x is list and len(x) > 0 and x[0] is list and len(x[0]) > 0 and x[0][0] is int`
  (anything else: raises) -/
def predEval (p : Nat) (v : Val) : Out Bool :=
  match p with
  | 0 => match numReals v with
         | some (re, im) =>
           -- `ncmp` compares the (re, im) projections lexicographically; NaN is incomparable -> raises
           match XReal.cmp re (.fin 0) with
           | some .gt => .ok true
           | some .lt => .ok false
           | some .eq => (match XReal.cmp im (.fin 0) with
                          | some .gt => .ok true
                          | some _ => .ok false
                          | none => .throw)
           | none => .throw
         | none => .throw
  | 1 => match v, seqLen v with
         | .streamInf, _ => .ok false      -- `len` of an infinite stream is the float infinity
         | _, some n => .ok (n == 2)
         | _, none => .throw
  | 2 => .ok true
  | 3 => .ok false
  | 4 => .ok (match v with | .int _ => true | _ => false)
  | 5 => .throw
  | 6 => .ok (match v with | .list (.int _ :: _) => true | _ => false)
  | 7 => match v with
         | .list xs =>
           -- `sum` adds the elements with `+` (raises on a non-number; exact numbers in the run)
           (match xs.mapM exactNum with
            | some qs => .ok (decide (qs.foldl (· + ·) 0 < 10))
            | none => .throw)
         | _ => .ok false
  | 8 => .ok (match v with
         | .list xs => xs.all fun x => match x with | .int _ => true | _ => false
         | _ => false)
  | 9 => .ok (match v with | .list (.list (.int _ :: _) :: _) => true | _ => false)
  | _ => .throw

/-- `is_type` (eval.rs ~3256), post-F2: with the `Rational` and `StructInstance` arms. -/
def isType : Ty → Val → Out Bool
  | .null, .null => .ok true
  | .int, .int _ => .ok true
  | .rational, .rat _ => .ok true
  | .float, .float _ => .ok true
  | .complex, .complex _ _ => .ok true
  | .number, v => .ok (isNum v)
  | .list, .list _ => .ok true
  | .string, .str _ => .ok true
  | .dict, .dict _ _ => .ok true
  | .vector, .vector _ => .ok true
  | .bytes, .bytes _ => .ok true
  | .stream, .stream _ => .ok true
  | .stream, .streamInf => .ok true
  | .func, .func _ => .ok true
  | .func, .type _ => .ok true
  | .type, .type _ => .ok true
  | .any, _ => .ok true
  | .structInstance, .inst _ _ => .ok true
  | .struct s, .inst s' _ => .ok (s == s')
  | .satisfying p, v => predEval p v
  | _, _ => .ok false

/-- `to_type` (core.rs ~844): what an annotation expression's value means as a type -/
def toType : Val → Out Ty
  | .null => .ok .null
  | .type t => .ok t
  | _ => .throw

/-! ## Patterns -/

inductive CmpOp where
  | lt | le | gt | ge | eq | ne
  deriving DecidableEq, Repr, Inhabited

/-- the builtins a `Destructure` pattern can name -/
inductive Bi where
  | plus | minus | times | divide | append | prepend
  /-- a `ComparisonOperator`, possibly chained: `accept` followed by `chained` -/
  | cmp (ops : List CmpOp)
  /-- any other builtin: the trait's default `destructure` raises -/
  | other (tok : Nat)
  deriving DecidableEq, Repr, Inhabited

/-- `EvaluatedLvalue` (eval.rs ~38).  Index paths hold `Index` entries only (no slices); default
expressions are constants. -/
inductive Pat where
  | underscore
  | ident (x : Nat) (ixs : List Ix)
  | anno (p : Pat) (t : Option Val)
  | withDefault (p : Pat) (d : Val)
  | seq (ps : List Pat) (delimited : Bool)
  | splat (p : Pat)
  | or (a b : Pat)
  | and (a b : Pat)
  | lit (v : Val)
  | destr (b : Bi) (args : List Pat)
  | destrStruct (sid : Nat) (args : List Pat)
  deriving Inhabited

/-! ## Environment: frames of (declared type, value) cells (core.rs `Env.vars`, ~4612) -/

structure Cell where
  name : Nat
  ty : Ty
  val : Val
  deriving Inhabited

abbrev Frame := List Cell
/-- innermost frame first; `Env::with_parent` pushes an empty frame -/
abbrev Env := List Frame

def Frame.has (f : Frame) (x : Nat) : Bool := f.any (·.name == x)

def Frame.get? : Frame → Nat → Option Cell
  | [], _ => none
  | c :: f, x => if c.name == x then some c else Frame.get? f x

def Frame.set : Frame → Nat → Val → Frame
  | [], _, _ => []
  | c :: f, x, v => if c.name == x then { c with val := v } :: f else c :: Frame.set f x v

/-- variable lookup through the parent chain (`Env::get_var` / `modify_existing_var`) -/
def Env.get? : Env → Nat → Option Cell
  | [], _ => none
  | f :: e, x => match f.get? x with
    | some c => some c
    | none => Env.get? e x

/-- overwrite the value of the innermost cell named `x` (no type check: callers check) -/
def Env.set : Env → Nat → Val → Env
  | [], _, _ => []
  | f :: e, x, v => if f.has x then f.set x v :: e else f :: Env.set e x v

/-- `Env::insert` (core.rs ~4836) with `allow_redeclaration == false`: refuses a name that the
innermost frame already holds -/
def Env.insert (e : Env) (x : Nat) (ty : Ty) (v : Val) : Env × Out Unit :=
  match e with
  | [] => (e, .throw)
  | f :: rest => if f.has x then (e, .throw) else (({ name := x, ty := ty, val := v } :: f) :: rest, .ok ())

/-- `insert_declare` (eval.rs ~2491) -/
def insertDeclare (e : Env) (x : Nat) (ty : Ty) (v : Val) : Env × Out Unit :=
  match isType ty v with
  | .ok true => e.insert x ty v
  | .ok false => (e, .throw)
  | .throw => (e, .throw)
  | .panic => (e, .panic)

/-! ### `set_index` (eval.rs ~2135): list and dict arms, `Index` entries only -/

/-- `pythonic_index`: the position an index object denotes in a sequence of length `len` -/
def pyIndex (len : Nat) : Val → Option Nat
  | .int n => if 0 ≤ n ∧ n < len then some n.toNat
              else if n < 0 ∧ 0 ≤ n + len then some (n + len).toNat else none
  | _ => none

/-- `check_if_valid_key` (the key kinds the differential run uses) -/
def validKey : Val → Bool
  | .null | .int _ | .rat _ | .float _ | .str _ => true
  | _ => false

def dictFind (k : Val) : List Val → Option Nat
  | [] => none
  | k' :: ks => if veq k k' then some 0 else (dictFind k ks).map (· + 1)

def listSet {α} : List α → Nat → α → List α
  | [], _, _ => []
  | _ :: xs, 0, a => a :: xs
  | x :: xs, n + 1, a => x :: listSet xs n a

/-- `clamped_pythonic_index` -/
def clampIndex (len : Nat) (i : Int) : Nat :=
  if i ≥ 0 then min i.toNat len else (i + len).toNat

/-- `pythonic_slice_obj`: the half-open range a slice denotes; `none` = a bound is not an integer -/
def pySlice (len : Nat) (lo hi : Option Val) : Option (Nat × Nat) :=
  let b (x : Option Val) (dflt : Nat) : Option Nat :=
    match x with
    | none => some dflt
    | some (.int n) => some (clampIndex len n)
    | some _ => none
  match b lo 0, b hi len with
  | some a, some c => some (a, c)
  | _, _ => none

/-- apply `f` to the elements at positions `[lo, hi)` (counting from `i`), left to right, stopping
at the first failure -/
def mapRange (f : Val → Out Val) : List Val → Nat → Nat → Nat → Out (List Val)
  | [], _, _, _ => .ok []
  | x :: xs, i, lo, hi =>
    if lo ≤ i ∧ i < hi then
      match f x with
      | .ok y => (mapRange f xs (i + 1) lo hi).map (y :: ·)
      | .throw => .throw
      | .panic => .panic
    else (mapRange f xs (i + 1) lo hi).map (x :: ·)

/-- `set_index lhs ixs value every` through lists, dicts, vectors, bytes and (ASCII) strings.
`value = none` is the LHS-dropping call of `drop_lhs` (stores null); a slice step is accepted only
under `every` (every element of the range is set). -/
def setIndex : Val → List Ix → Option Val → Bool → Out Val
  | _, [], value, _ => .ok (value.getD .null)
  | lhs, .slice lo hi :: rest, value, every =>
    match lhs with
    | .list xs =>
      if every then
        match pySlice xs.length lo hi with
        | some (a, b) => (mapRange (fun x => setIndex x rest value every) xs 0 a b).map Val.list
        | none => .throw
      else .throw        -- "can't assign to a list slice (only every-assignment …)"
    | .stream xs =>      -- forced to a list first
      if every then
        match pySlice xs.length lo hi with
        | some (a, b) => (mapRange (fun x => setIndex x rest value every) xs 0 a b).map Val.list
        | none => .throw
      else .throw
    | .dict ks vs =>
      -- `(Seq::Dict(v, _), Slice(None, None)) if rest.is_empty()`: every value is set
      match lo, hi, rest with
      | none, none, [] => if every then .ok (.dict ks (vs.map fun _ => value.getD .null)) else .throw
      | _, _, _ => .throw
    | _ => .throw
  | lhs, .idx i :: rest, value, every =>
    match lhs with
    | .list xs =>
      match pyIndex xs.length i with
      | some k =>
        match xs[k]? with
        | some old => (setIndex old rest value every).map fun nv => .list (listSet xs k nv)
        | none => .throw
      | none => .throw
    | .stream xs =>     -- "hack": a stream is forced to a list before indexing into it
      match pyIndex xs.length i with
      | some k =>
        match xs[k]? with
        | some old => (setIndex old rest value every).map fun nv => .list (listSet xs k nv)
        | none => .throw
      | none => .throw
    | .dict ks vs =>
      if !validKey i then .throw else
      if rest.isEmpty then
        match dictFind i ks with
        | some k => .ok (.dict ks (listSet vs k (value.getD .null)))
        | none => .ok (.dict (ks ++ [i]) (vs ++ [value.getD .null]))
      else
        match dictFind i ks with
        | some k =>
          match vs[k]? with
          | some old => (setIndex old rest value every).map fun nv => .dict ks (listSet vs k nv)
          | none => .throw
        | none => .throw
    | .vector xs =>
      -- `(Seq::Vector(v), Index(i)) if rest.is_empty()`: only a number may be stored
      if !rest.isEmpty then .throw else
      match value with
      | none => .ok (.vector xs)
      | some n =>
        if isNum n then
          match pyIndex xs.length i with
          | some k => .ok (.vector (listSet xs k n))
          | none => .throw
        else .throw
    | .bytes bs =>
      -- `(Seq::Bytes(v), Index(i)) if rest.is_empty()`: an integer 0..255 (`to_u8`)
      if !rest.isEmpty then .throw else
      match value with
      | none => .ok (.bytes bs)
      | some (.int n) =>
        (match pyIndex bs.length i with
         | some k => if 0 ≤ n ∧ n < 256 then .ok (.bytes (listSet bs k n.toNat)) else .throw
         | none => .throw)
      | some _ => .throw
    | .str cs =>
      -- `(Seq::String(s), Index(i)) if rest.is_empty()`: one byte is overwritten by a one-byte
      -- string (modelled for ASCII strings; the differential run keeps history strings ASCII)
      if !rest.isEmpty then .throw else
      match value with
      | none => .ok (.str cs)              -- LHS-dropping: nothing to do
      | some (.str [c]) =>
        if c < 128 ∧ cs.all (· < 128) then
          match pyIndex cs.length i with
          | some k => .ok (.str (listSet cs k c))
          | none => .throw
        else .throw
      | some _ => .throw
    | _ => .throw

/-- `index_or_slice` for reading along an `Index` path (lists and dicts) -/
def getIndex : Val → List Ix → Out Val
  | v, [] => .ok v
  | v, .slice lo hi :: rest =>
    -- `slice_seq` (lists; other kinds are read only by statements that raise afterwards anyway)
    match v with
    | .list xs =>
      (match pySlice xs.length lo hi with
       | some (a, b) => getIndex (.list ((xs.drop a).take (b - a))) rest
       | none => .throw)
    | _ => .throw
  | v, .idx i :: rest =>
    match v with
    | .list xs =>
      match pyIndex xs.length i with
      | some k => match xs[k]? with
        | some x => getIndex x rest
        | none => .throw
      | none => .throw
    | .dict ks vs =>
      if !validKey i then .throw else
      match dictFind i ks with
      | some k => match vs[k]? with
        | some x => getIndex x rest
        | none => .throw
      | none => .throw
    | .vector xs =>
      match pyIndex xs.length i with
      | some k => match xs[k]? with
        | some x => getIndex x rest
        | none => .throw
      | none => .throw
    | .bytes bs =>
      match pyIndex bs.length i with
      | some k => match bs[k]? with
        | some b => getIndex (.int b) rest
        | none => .throw
      | none => .throw
    | .stream xs =>
      match pyIndex xs.length i with
      | some k => match xs[k]? with
        | some x => getIndex x rest
        | none => .throw
      | none => .throw
    | .str cs =>
      -- byte-based (`weird_string_as_bytes_index`); modelled for ASCII strings
      if cs.all (· < 128) then
        match pyIndex cs.length i with
        | some k => match cs[k]? with
          | some c => getIndex (.str [c]) rest
          | none => .throw
        | none => .throw
      else .throw
    | _ => .throw

/-- `assign_respecting_type` (eval.rs ~2503): eager check when the index path is empty, late check
(after the write) otherwise -/
def assignRespectingType (e : Env) (x : Nat) (ixs : List Ix) (rhs : Val) (every : Bool := false) : Env × Out Unit :=
  match e.get? x with
  | none => (e, .throw)
  | some c =>
    match ixs with
    | [] =>
      match isType c.ty rhs with
      | .ok true => (e.set x rhs, .ok ())
      | .ok false => (e, .throw)
      | .throw => (e, .throw)
      | .panic => (e, .panic)
    | _ :: _ =>
      match setIndex c.val ixs (some rhs) every with
      | .ok nv =>
        let e' := e.set x nv
        match isType c.ty nv with
        | .ok true => (e', .ok ())
        | .ok false => (e', .throw)     -- "LATE type check failed (the assignment still happened)"
        | .throw => (e', .throw)
        | .panic => (e', .panic)
      | .throw => (e, .throw)
      | .panic => (e, .panic)

/-! ## Destructuring builtins (lib.rs ~118-605) and the constructors they invert -/

def isRatVal : Val → Bool
  | .rat _ => true
  | _ => false

/-- result representation of a binary arithmetic operation on exact numbers: rational as soon as
one operand is (`NNum` coercion, C07) -/
def mkNum (ratLevel : Bool) (q : Rat) : Val :=
  if ratLevel then .rat q else .int q.num

/-- the binary builtins `+ - *` on exact numbers (`expect_nums_and_vectorize_2_nums`, scalars only) -/
def arith (op : Rat → Rat → Rat) (a b : Val) : Out Val :=
  match exactNum a, exactNum b with
  | some x, some y => .ok (mkNum (isRatVal a || isRatVal b) (op x y))
  | _, _ => .throw

def ratFloor (q : Rat) : Int := q.num / (q.den : Int)

/-- `NNum::rem` on exact numbers (truncated remainder; rational `%` is `x - y * trunc(x/y)`).
Division by an exact zero is a Rust panic. -/
def remNum (a b : Val) : Out Val :=
  match exactNum a, exactNum b with
  | some x, some y =>
    if y == 0 then .panic
    else
      let q := x / y
      let t : Int := if q ≥ 0 then ratFloor q else -(ratFloor (-q))
      .ok (mkNum (isRatVal a || isRatVal b) (x - y * t))
  | _, _ => .throw

/-- `NNum::div_floor` on exact numbers (`dumb_rational_div_floor` = floor of the quotient, kept
at the rational level) -/
def divFloorNum (a b : Val) : Out Val :=
  match exactNum a, exactNum b with
  | some x, some y =>
    if y == 0 then .panic
    else .ok (mkNum (isRatVal a || isRatVal b) (ratFloor (x / y)))
  | _, _ => .throw

def isNonzero (v : Val) : Bool :=
  match exactNum v with
  | some q => q != 0
  | none => true

def negFloatBits (b : Nat) : Nat :=
  let b := b % 18446744073709551616
  if b ≥ 9223372036854775808 then b - 9223372036854775808 else b + 9223372036854775808

/-- unary minus (`expect_nums_and_vectorize_1 (|x| -x)`): exact on every number kind -/
def negVal : Val → Out Val
  | .int n => .ok (.int (-n))
  | .rat q => .ok (.rat (-q))
  | .float b => .ok (.float (negFloatBits b))
  | .complex r i => .ok (.complex (negFloatBits r) (negFloatBits i))
  | .vector xs => .ok (.vector (xs.map fun
      | .int n => .int (-n)
      | .rat q => .rat (-q)
      | .float b => .float (negFloatBits b)
      | .complex r i => .complex (negFloatBits r) (negFloatBits i)
      | v => v))
  | _ => .throw

def strOfChar (c : Nat) : Val := .str [c]

/-- the elements a sequence yields when iterated (`seq_to_cloning_iter`); `none` for non-sequences
and infinite streams -/
def seqItems : Val → Option (List Val)
  | .list xs => some xs
  | .str cs => some (cs.map strOfChar)
  | .dict ks _ => some ks
  | .vector xs => some xs
  | .bytes bs => some (bs.map fun (b : Nat) => Val.int (Int.ofNat b))
  | .stream xs => some xs
  | _ => none

/-- `uncons` (lib.rs ~2941) on the kinds the model carries (dict order is unspecified: not modelled) -/
def uncons : Val → Out (Option (Val × Val))
  | .list [] => .ok none
  | .list (x :: xs) => .ok (some (x, .list xs))
  | .str [] => .ok none
  | .str (c :: cs) => .ok (some (strOfChar c, .str cs))
  | .vector [] => .ok none
  | .vector (x :: xs) => .ok (some (x, .vector xs))
  | .bytes [] => .ok none
  | .bytes (b :: bs) => .ok (some (.int b, .bytes bs))
  | .stream [] => .ok none
  | .stream (x :: xs) => .ok (some (x, .stream xs))
  | .dict [] _ => .ok none
  | .dict (k :: ks) (v :: vs) => .ok (some (.list [k, v], .dict ks vs))
  | _ => .throw

/-- `unsnoc` (lib.rs ~2995); a stream is forced to a list first -/
def unsnoc : Val → Out (Option (Val × Val))
  | .list xs => match xs.getLast? with
    | none => .ok none
    | some l => .ok (some (.list xs.dropLast, l))
  | .str cs => match cs.getLast? with
    | none => .ok none
    | some l => .ok (some (.str cs.dropLast, strOfChar l))
  | .vector xs => match xs.getLast? with
    | none => .ok none
    | some l => .ok (some (.vector xs.dropLast, l))
  | .bytes bs => match bs.getLast? with
    | none => .ok none
    | some l => .ok (some (.bytes bs.dropLast, .int l))
  | .stream xs => match xs.getLast? with
    | none => .ok none
    | some l => .ok (some (.list xs.dropLast, l))
  | .dict [] _ => .ok none
  | .dict (k :: ks) (v :: vs) => .ok (some (.dict ks vs, .list [k, v]))
  | _ => .throw

mutual
/-- `PartialOrd for Obj` / `for Seq` (core.rs ~1187): null with null, numbers with numbers, lists,
strings, vectors and bytes with their own kind (lexicographically, stopping at the first pair that
is not equal — or not comparable); everything else is incomparable -/
def vcmp : Val → Val → Option Ordering
  | .null, .null => some .eq
  | .str x, .str y => some (compare x y)
  | .bytes x, .bytes y => some (compare x y)
  | .list xs, .list ys => vcmpList xs ys
  | .vector xs, .vector ys => vcmpList xs ys
  | a, b =>
    match numReals a, numReals b with
    | some (ra, ia), some (rb, ib) =>
      (match XReal.cmp ra rb with
       | some .eq => XReal.cmp ia ib
       | r => r)
    | _, _ => none
def vcmpList : List Val → List Val → Option Ordering
  | [], [] => some .eq
  | [], _ :: _ => some .lt
  | _ :: _, [] => some .gt
  | a :: as, b :: bs =>
    match vcmp a b with
    | some .eq => vcmpList as bs
    | r => r
end

def isSeqVal : Val → Bool
  | .str _ | .list _ | .dict _ _ | .vector _ | .bytes _ | .stream _ | .streamInf => true
  | _ => false

/-- `ncmp` (lib.rs ~308): numbers with numbers, sequences with sequences; raises when the two are
not comparable -/
def ncmp (a b : Val) : Out Ordering :=
  if (isNum a && isNum b) || (isSeqVal a && isSeqVal b) then
    match vcmp a b with
    | some o => .ok o
    | none => .throw
  else .throw

def CmpOp.accept (op : CmpOp) (a b : Val) : Out Bool :=
  match op with
  | .eq => .ok (veq a b)
  | .ne => .ok (!veq a b)
  | .lt => (ncmp a b).map (· == .lt)
  | .gt => (ncmp a b).map (· == .gt)
  | .le => (ncmp a b).map (· != .gt)
  | .ge => (ncmp a b).map (· != .lt)

/-- `ComparisonOperator::run` on a full argument list: every adjacent pair must be accepted by the
operator at that position, left to right, stopping at the first refusal -/
def cmpChain : List CmpOp → List Val → Out Bool
  | op :: ops, a :: b :: rest =>
    match op.accept a b with
    | .ok true => cmpChain ops (b :: rest)
    | r => r
  | _, _ => .ok true

/-- fill the `None` slots of `lhs` from `rvalues`, left to right (ComparisonOperator::destructure) -/
def fillSlots : List (Option Val) → List Val → Option (List Val)
  | [], [] => some []
  | [], _ :: _ => none                       -- "too many rvalues"
  | some x :: lhs, rv => (fillSlots lhs rv).map (x :: ·)
  | none :: _, [] => none                    -- "ran out of ok rvalues"
  | none :: lhs, r :: rv => (fillSlots lhs rv).map (r :: ·)

/-- `Builtin::destructure` for each builtin; `known` holds the literal operands (`Some`) and the
open slots (`None`), as `assign` computes them. -/
def destructure (b : Bi) (rvalue : Val) (known : List (Option Val)) : Out (List Val) :=
  match b with
  | .plus =>
    match known with
    | [some a, none] =>
      if isNum rvalue && isNum a then
        match arith (· - ·) rvalue a with
        | .ok diff => (match exactNum diff with
            | some d => if d ≥ 0 then .ok [a, diff] else .throw
            | none => .throw)
        | r => r.map fun _ => []
      else .throw
    | [none, some a] =>
      if isNum rvalue && isNum a then
        match arith (· - ·) rvalue a with
        | .ok diff => (match exactNum diff with
            | some d => if d ≥ 0 then .ok [diff, a] else .throw
            | none => .throw)
        | r => r.map fun _ => []
      else .throw
    | _ => .throw
  | .minus =>
    match known with
    | [_] => (negVal rvalue).map fun v => [v]
    | _ => .throw
  | .times =>
    match known with
    | [some a, none] =>
      if isNum rvalue && isNum a then
        if !isNonzero a then .throw        -- post-fix guard: a zero factor cannot be inverted
        else match remNum rvalue a with
          | .ok r => if isNonzero r then .throw else (divFloorNum rvalue a).map fun k => [a, k]
          | r => r.map fun _ => []
      else .throw
    | [none, some a] =>
      if isNum rvalue && isNum a then
        if !isNonzero a then .throw
        else match remNum rvalue a with
          | .ok r => if isNonzero r then .throw else (divFloorNum rvalue a).map fun k => [k, a]
          | r => r.map fun _ => []
      else .throw
    | _ => .throw
  | .divide =>
    match rvalue with
    | .int n => .ok [.int n, .int 1]
    | .rat q => .ok [.int q.num, .int q.den]
    | _ => .throw
  | .append =>
    match unsnoc rvalue with
    | .ok (some (butlast, last)) => .ok [butlast, last]
    | .ok none => .throw
    | .throw => .throw
    | .panic => .panic
  | .prepend =>
    match uncons rvalue with
    | .ok (some (head, tail)) => .ok [head, tail]
    | .ok none => .throw
    | .throw => .throw
    | .panic => .panic
  | .cmp ops =>
    if ops.length + 1 != known.length then .throw
    else
      let slots := (known.filter Option.isNone).length
      if slots == 0 then .throw
      else
        let rvalues : Option (List Val) := if slots == 1 then some [rvalue] else seqItems rvalue
        match rvalues with
        | none => .throw
        | some rvs =>
          match fillSlots known rvs with
          | none => .throw
          | some ret =>
            match cmpChain ops ret with
            | .ok true => .ok ret
            | .ok false => .throw
            | .throw => .throw
            | .panic => .panic
  | .other _ => .throw

/-- struct definitions: number of fields and the per-field defaults (`Struct.fields`) -/
structure StructDef where
  nfields : Nat
  defaults : List (Option Val)

/-- `call_type` on a struct (core.rs ~776): missing trailing arguments are filled from the field
defaults; extra arguments are kept (the code does not reject them) -/
def callStruct (sid : Nat) (sd : StructDef) (args : List Val) : Out Val :=
  let rec fill (fuel : Nat) (args : List Val) : Out (List Val) :=
    match fuel with
    | 0 => .ok args
    | fuel + 1 =>
      if args.length < sd.nfields then
        match sd.defaults[args.length]? with
        | some (some d) => fill fuel (args ++ [d])
        | _ => .throw
      else .ok args
  (fill sd.nfields args).map fun a => .inst sid a

/-- the constructors the operator patterns invert (`Plus::run2` … `Prepend::run2`) -/
def construct (b : Bi) (args : List Val) : Out Val :=
  match b, args with
  | .plus, [a, c] => arith (· + ·) a c
  | .minus, [a] => negVal a
  | .times, [a, c] => arith (· * ·) a c
  | .divide, [a, c] =>
    match exactNum a, exactNum c with
    | some x, some y => if y == 0 then .throw else .ok (.rat (x / y))
    | _, _ => .throw
  | .append, [.list xs, x] => .ok (.list (xs ++ [x]))
  | .append, [.vector xs, x] => if isNum x then .ok (.vector (xs ++ [x])) else .throw
  | .append, [.bytes bs, .int n] => if 0 ≤ n ∧ n < 256 then .ok (.bytes (bs ++ [n.toNat])) else .throw
  | .prepend, [x, .list xs] => .ok (.list (x :: xs))
  | .prepend, [x, .vector xs] => if isNum x then .ok (.vector (x :: xs)) else .throw
  | .prepend, [.int n, .bytes bs] => if 0 ≤ n ∧ n < 256 then .ok (.bytes (n.toNat :: bs)) else .throw
  | _, _ => .throw

/-! ## `assign_all`: the splat / default pre-pass and the drain arithmetic (eval.rs ~2022) -/

/-- what the pre-pass records about the splat, if any -/
structure PrePass where
  /-- index of the splat item -/
  splat : Option Nat
  /-- defaults "in play", in order -/
  defaults : List Val

def isSplatItem : Pat → Bool
  | .splat _ => true
  | .anno (.splat _) _ => true
  | _ => false

/-- the `for (i, lhs1) in lhs.iter().enumerate()` loop of `assign_all`.
`i` is the index of the head of `lhs`.  `throw` = one of the two syntax errors. -/
def prePass (rhsLen : Nat) : List Pat → Nat → Option Nat → List Val → Out PrePass
  | [], _, splat, defs => .ok { splat := splat, defaults := defs }
  | p :: ps, i, splat, defs =>
    match p with
    | .splat _ =>
      (match splat with
       | some _ => .throw          -- "Can't have two splats in same sequence"
       | none => prePass rhsLen ps (i + 1) (some i) defs)
    | .anno (.splat _) _ =>
      (match splat with
       | some _ => .throw
       | none => prePass rhsLen ps (i + 1) (some i) defs)
    | .withDefault _ d =>
      -- `let prev_non_splat_args = if splat.is_some() { i - 1 } else { i }` (usize)
      let prev : Int := if splat.isSome then (i : Int) - 1 else i
      if prev < 0 then .panic
      else if (rhsLen : Int) ≤ prev then prePass rhsLen ps (i + 1) splat (defs ++ [d])
      else prePass rhsLen ps (i + 1) splat defs
    | _ =>
      if !defs.isEmpty then .throw   -- "Can't have no-default after default"
      else prePass rhsLen ps (i + 1) splat defs

/-- `assign_all` up to the point where the pieces are handed to `assign` / `assign_all_basic`:
returns the right-hand sides arranged one per left-hand item (the splat item receives the list of
the items it swallows).  The three calls `assign_all_basic(lhs[..si])`, `assign(inner)`,
`assign_all_basic(lhs[si+1..])` of the code are one left-to-right pass over the arranged list in
`assignItems` below; their length checks are decided here.

`rhsLen` is the length the caller announced (`ls.len()` / `seq.len()` / `res.len()`), `rhs` the
items the lazy right-hand side yields (they differ for non-ASCII strings). -/
def arrange (lhs : List Pat) (rhsLen : Nat) (rhs : List Val) : Out (List Val) :=
  match prePass rhsLen lhs 0 none [] with
  | .throw => .throw
  | .panic => .panic
  | .ok pp =>
    match pp.splat with
    | some si =>
      let rhs := rhs ++ pp.defaults
      -- post-fix (F12): `if rhs.len() + 1 < lhs.len() { value error }`
      if rhs.length + 1 < lhs.length then .throw
      else
        -- `rhs.drain(rhs.len() + si + 1 - lhs.len()..)` (usize arithmetic and slice bounds)
        let start : Int := (rhs.length : Int) + si + 1 - lhs.length
        if start < 0 ∨ start > rhs.length then .panic
        else
          let rrhs := rhs.drop start.toNat
          let rhs1 := rhs.take start.toNat
          -- `rhs.drain(si..)`
          if si > rhs1.length then .panic
          else
            let srhs := rhs1.drop si
            let rhs2 := rhs1.take si
            -- assign_all_basic(lhs[..si], rhs2) and assign_all_basic(lhs[si+1..], rrhs) length checks
            if rhs2.length != si then .throw
            else if rrhs.length != lhs.length - (si + 1) then .throw
            else .ok (rhs2 ++ [.list srhs] ++ rrhs)
    | none =>
      if lhs.length == rhsLen + pp.defaults.length then
        let rhs := rhs ++ pp.defaults
        -- assign_all_basic(lhs, rhs)
        if lhs.length == rhs.length then .ok rhs else .throw
      else .throw

/-! ## `assign` (eval.rs ~2534) -/

def knownOf : Pat → Option Val
  | .lit v => some v
  | _ => none

/- The environment is threaded through and returned in every case: a failing `assign` leaves the
bindings it had already made (the code has no rollback). -/
mutual
def assign (e : Env) : Pat → Option Ty → Val → Env × Out Unit
  | .underscore, rt, rhs =>
    match rt with
    | some ty =>
      match isType ty rhs with
      | .ok true => (e, .ok ())
      | .ok false => (e, .throw)
      | .throw => (e, .throw)
      | .panic => (e, .panic)
    | none => (e, .ok ())
  | .ident x ixs, rt, rhs =>
    match rt with
    | some ty =>
      match ixs with
      | [] => insertDeclare e x ty rhs
      | _ :: _ => (e, .throw)         -- "Can't declare new value into index expression"
    | none => assignRespectingType e x ixs rhs
  | .seq ss d, rt, rhs =>
    -- "assigning [1, 2] to [a, b]: vector doesn't mean a and b are vectors"
    let rtr : Out (Option Ty) :=
      if d then
        match rt with
        | some outer =>
          match isType outer rhs with
          | .ok true => .ok (some .any)
          | .ok false => .throw
          | .throw => .throw
          | .panic => .panic
        | none => .ok none
      else .ok rt
    match rtr with
    | .throw => (e, .throw)
    | .panic => (e, .panic)
    | .ok rt' =>
      match patLen rhs, seqItems rhs with
      | some len, some items =>
        match arrange ss len items with
        | .ok arranged => assignItems e ss rt' arranged
        | .throw => (e, .throw)
        | .panic => (e, .panic)
      | _, _ => (e, .throw)            -- not iterable / infinite sequence
  | .anno s ann, _, rhs =>
    match ann with
    | none => assign e s (some .any) rhs
    | some t =>
      match toType t with
      | .ok ty => assign e s (some ty) rhs
      | .throw => (e, .throw)
      | .panic => (e, .panic)
  | .withDefault s _, rt, rhs => assign e s rt rhs
  | .splat _, _, _ => (e, .throw)      -- "Can't assign to raw splat"
  | .or a b, rt, rhs =>
    match assign e a rt rhs with
    | (e', .ok ()) => (e', .ok ())
    | (e', .panic) => (e', .panic)
    | (e', .throw) => assign e' b rt rhs
  | .and a b, rt, rhs =>
    match assign e a rt rhs with
    | (e', .ok ()) => assign e' b rt rhs
    | r => r
  | .lit v, _, rhs => if veq v rhs then (e, .ok ()) else (e, .throw)
  | .destr f args, rt, rhs =>
    match destructure f rhs (args.map knownOf) with
    | .ok res =>
      if res.length == args.length then
        match arrange args res.length res with
        | .ok arranged => assignItems e args rt arranged
        | .throw => (e, .throw)
        | .panic => (e, .panic)
      else (e, .throw)
    | .throw => (e, .throw)
    | .panic => (e, .panic)
  | .destrStruct sid args, rt, rhs =>
    match rhs with
    | .inst sid' vs =>
      if sid == sid' then
        match arrange args vs.length vs with
        | .ok arranged => assignItems e args rt arranged
        | .throw => (e, .throw)
        | .panic => (e, .panic)
      else (e, .throw)
    | _ => (e, .throw)
/- the `assign` calls `assign_all` makes, left to right over the arranged right-hand sides: an
item that is the splat receives `assign(inner, rt, list)` (with the annotation's type when the
splat is annotated), every other item `assign(item, rt, value)` -/
def assignItems (e : Env) : List Pat → Option Ty → List Val → Env × Out Unit
  | [], _, _ => (e, .ok ())
  | _ :: _, _, [] => (e, .throw)
  | p :: ps, rt, v :: vs =>
    let r : Env × Out Unit :=
      match p with
      | .splat inner => assign e inner rt v
      | .anno (.splat inner) ann =>
        (match ann with
         | none => assign e inner (some .any) v
         | some t =>
           match toType t with
           | .ok ty => assign e inner (some ty) v
           | .throw => (e, .throw)
           | .panic => (e, .panic))
      | q => assign e q rt v
    match r with
    | (e', .ok ()) => assignItems e' ps rt vs
    | r => r
end

/-! ## `switch` and `catch` (eval.rs ~1367, ~1405) -/

/-- `Expr::Switch`: the index of the first arm whose `assign` (in a fresh child frame, declaring
with type `anything`) succeeds, together with the environment its body runs in; `throw` when no
arm matches.  A panic inside `assign` propagates (it is not an `Err`). -/
def switchArm (e : Env) (s : Val) : List Pat → Nat → Out (Nat × Env)
  | [], _ => .throw
  | p :: arms, i =>
    match assign ([] :: e) p (some .any) s with
    | (ee, .ok ()) => .ok (i, ee)
    | (_, .panic) => .panic
    | (_, .throw) => switchArm e s arms (i + 1)

/-- the catch clause of `Expr::Try`: the handler runs (in a fresh frame) iff the pattern accepts
the thrown value; otherwise the original error is re-raised -/
def catchClause (e : Env) (p : Pat) (thrown : Val) : Out Env :=
  match assign ([] :: e) p (some .any) thrown with
  | (ee, .ok ()) => .ok ee
  | (_, .panic) => .panic
  | (_, .throw) => .throw

/-- `Closure::run` parameter binding: `assign_all(params, Some(Any), args)` in a fresh frame -/
def bindParams (e : Env) (params : List Pat) (args : List Val) : Env × Out Unit :=
  match arrange params args.length args with
  | .ok arranged => assignItems ([] :: e) params (some .any) arranged
  | .throw => ([] :: e, .throw)
  | .panic => ([] :: e, .panic)

end Noulith.C12
