/-
Impl model for C12, part 2 — the statements that write to (annotated) variables:
`Expr::Assign` (plain and `every`), `Expr::OpAssign` (plain and `every`), `Expr::Swap`, with
`eval_lvalue_as_obj` (eval.rs ~1855), `drop_lhs` (~2701), `assign_every` (~2735), `modify_every`
(~2837) and `modify_every_existing_index` (~2420).  Index paths hold `Index` entries only.

Core Lean only.
-/
import NoulithModel.Impl.Pattern

namespace Noulith.C12

/-- the operators the differential run uses in operator-assignments -/
inductive Op where
  | plus | minus | times | floorDiv | append | prepend | concat
  deriving DecidableEq, Repr, Inhabited

def outMapM {α β} (f : α → Out β) : List α → Out (List β)
  | [] => .ok []
  | x :: xs =>
    match f x with
    | .ok y => (outMapM f xs).map (y :: ·)
    | .throw => .throw
    | .panic => .panic

def zipOut (f : Val → Val → Out Val) : List Val → List Val → Out (List Val)
  | x :: xs, y :: ys =>
    (match f x y with
     | .ok z => (zipOut f xs ys).map (z :: ·)
     | .throw => .throw
     | .panic => .panic)
  | _, _ => .ok []

/-- `expect_nums_and_vectorize_2(_nums)` (lib.rs ~2220): number with number, and elementwise over
vectors (two vectors need the same length) -/
def vectorize2 (f : Val → Val → Out Val) (a b : Val) : Out Val :=
  match a, b with
  | .vector xs, .vector ys =>
    if xs.length == ys.length then (zipOut f xs ys).map Val.vector else .throw
  | .vector xs, b => if isNum b then (outMapM (fun x => f x b) xs).map Val.vector else .throw
  | a, .vector ys => if isNum a then (outMapM (fun y => f a y) ys).map Val.vector else .throw
  | a, b => if isNum a && isNum b then f a b else .throw

def floorDivNum (a b : Val) : Out Val :=
  match exactNum a, exactNum b with
  | some x, some y => if y == 0 then .throw else .ok (mkNum (isRatVal a || isRatVal b) (ratFloor (x / y)))
  | _, _ => .throw

/-- `ff.run2(env, lhs, rhs)` for those operators, on the operand kinds the histories use (exact
numbers and vectors of them, strings, lists, dicts, bytes; anything else raises as the builtin's
argument check does) -/
def applyOp (op : Op) (a b : Val) : Out Val :=
  match op with
  | .plus => vectorize2 (arith (· + ·)) a b
  | .minus => vectorize2 (arith (· - ·)) a b
  | .times => vectorize2 (arith (· * ·)) a b
  | .floorDiv => vectorize2 floorDivNum a b
  | .append => construct .append [a, b]
  | .prepend => construct .prepend [a, b]
  | .concat =>
    match a, b with
    | .list xs, .list ys => .ok (.list (xs ++ ys))
    | .vector xs, .vector ys => .ok (.vector (xs ++ ys))
    | .bytes xs, .bytes ys => .ok (.bytes (xs ++ ys))
    | _, _ => .throw

/-- number of fields of the struct with this id (the structs the differential run declares:
`S0(a)`, `S1(a, b)`, `S2(a, b, c)`) -/
def structArity (sid : Nat) : Nat := sid + 1

def outAll {α} : List (Out α) → Out (List α)
  | [] => .ok []
  | x :: xs =>
    match x with
    | .ok a => (outAll xs).map (a :: ·)
    | .throw => .throw
    | .panic => .panic

mutual
/-- `eval_lvalue_as_obj`: the current value of what the pattern denotes -/
def evalLvalue (e : Env) : Pat → Out Val
  | .underscore => .throw
  | .ident x ixs =>
    match e.get? x with
    | some c => getIndex c.val ixs
    | none => .throw
  | .anno s _ => evalLvalue e s
  | .withDefault s d =>
    match s with
    | .ident x ixs =>
      (match e.get? x with
       | none => .throw
       | some c =>
         match ixs.getLast? with
         | none => .ok c.val
         | some (.slice _ _) => .throw
         | some (.idx last) =>
           match getIndex c.val ixs.dropLast with
           | .ok (.dict ks vs) =>
             if !validKey last then .throw else
             (match dictFind last ks with
              | some k => (match vs[k]? with | some v => .ok v | none => .throw)
              | none => .ok d)
           | .ok _ => .throw
           | .throw => .throw
           | .panic => .panic)
    | _ => .throw
  | .seq ps _ => (evalLvalues e ps).map Val.list
  | .splat _ => .throw
  | .or _ _ => .throw
  | .and _ _ => .throw
  | .lit v => .ok v
  | .destr f ps =>
    match evalLvalues e ps with
    | .ok vs => construct f vs
    | .throw => .throw
    | .panic => .panic
  | .destrStruct sid ps =>
    match evalLvalues e ps with
    | .ok vs => if vs.length == structArity sid then .ok (.inst sid vs) else .throw
    | .throw => .throw
    | .panic => .panic
def evalLvalues (e : Env) : List Pat → Out (List Val)
  | [] => .ok []
  | p :: ps =>
    match evalLvalue e p with
    | .ok v => (evalLvalues e ps).map (v :: ·)
    | .throw => .throw
    | .panic => .panic
end

/-- `Env::modify_ident(env, s, |_ty, ptr| set_index(ptr, ixs, None, true))`: store null at the
path, *ignoring the declared type* ("overriding type!!") -/
def dropIdent (e : Env) (x : Nat) (ixs : List Ix) : Env × Out Unit :=
  match e.get? x with
  | none => (e, .throw)
  | some c =>
    match setIndex c.val ixs none true with
    | .ok nv => (e.set x nv, .ok ())
    | .throw => (e, .throw)
    | .panic => (e, .panic)

mutual
/-- `drop_lhs` -/
def dropLhs (e : Env) : Pat → Env × Out Unit
  | .underscore => (e, .ok ())
  | .ident x ixs => dropIdent e x ixs
  | .seq ps _ => dropLhsAll e ps
  | .anno _ _ => (e, .throw)
  | .withDefault s _ => dropLhs e s
  | .splat _ => (e, .throw)
  | .or _ _ => (e, .throw)
  | .and a b =>
    match dropLhs e a with
    | (e', .ok ()) => dropLhs e' b
    | r => r
  | .lit _ => (e, .ok ())
  | .destr _ ps => dropLhsAll e ps
  | .destrStruct _ ps => dropLhsAll e ps
/-- `drop_lhs_all`: a splat item drops its inner pattern -/
def dropLhsAll (e : Env) : List Pat → Env × Out Unit
  | [] => (e, .ok ())
  | p :: ps =>
    let r := match p with
      | .splat inner => dropLhs e inner
      | q => dropLhs e q
    match r with
    | (e', .ok ()) => dropLhsAll e' ps
    | r => r
end

mutual
/-- `assign_every`: every target of the pattern receives the whole right-hand side -/
def assignEvery (e : Env) : Pat → Option Ty → Val → Env × Out Unit
  | .underscore, _, _ => (e, .ok ())
  | .ident x ixs, rt, rhs =>
    match rt with
    | some ty =>
      match ixs with
      | [] => insertDeclare e x ty rhs
      | _ :: _ => (e, .throw)
    | none => assignRespectingType e x ixs rhs true
  | .seq ps _, rt, rhs => assignEveryAll e ps rt rhs
  | .anno s ann, _, rhs =>
    match ann with
    | none => assignEvery e s (some .any) rhs
    | some t =>
      match toType t with
      | .ok ty => assignEvery e s (some ty) rhs
      | .throw => (e, .throw)
      | .panic => (e, .panic)
  | .withDefault _ _, _, _ => (e, .throw)
  | .splat _, _, _ => (e, .throw)
  | .or _ _, _, _ => (e, .throw)
  | .and a b, rt, rhs =>
    match assignEvery e a rt rhs with
    | (e', .ok ()) => assignEvery e' b rt rhs
    | r => r
  | .lit v, _, rhs => if veq v rhs then (e, .ok ()) else (e, .throw)
  | .destr f args, rt, rhs =>
    -- "destructure then assign_all" (not `every` any more)
    match destructure f rhs (args.map knownOf) with
    | .ok res =>
      if res.length == args.length then
        match arrange args res.length res with
        | .ok arranged => assignItems e args rt arranged
        | .throw => (e, .throw)
        | .panic => (e, .panic)
      else (e, .throw)
    | .throw => (e, .throw)
    | .panic => (e, .panic)
  | .destrStruct _ _, _, _ => (e, .throw)
def assignEveryAll (e : Env) : List Pat → Option Ty → Val → Env × Out Unit
  | [], _, _ => (e, .ok ())
  | p :: ps, rt, rhs =>
    match assignEvery e p rt rhs with
    | (e', .ok ()) => assignEveryAll e' ps rt rhs
    | r => r
end

/-- `modify_every_existing_index` along an `Index` path: replace the element at the path by
`f(element)` -/
def modifyIndex (f : Val → Out Val) : Val → List Ix → Out Val
  | v, [] => f v
  | v, .slice lo hi :: rest =>
    match v with
    | .list xs =>
      (match pySlice xs.length lo hi with
       | some (a, b) => (mapRange (fun x => modifyIndex f x rest) xs 0 a b).map Val.list
       | none => .throw)
    | .stream xs =>
      (match pySlice xs.length lo hi with
       | some (a, b) => (mapRange (fun x => modifyIndex f x rest) xs 0 a b).map Val.list
       | none => .throw)
    | _ => .throw
  | v, .idx i :: rest =>
    match v with
    | .list xs =>
      match pyIndex xs.length i with
      | some k => match xs[k]? with
        | some old => (modifyIndex f old rest).map fun nv => .list (listSet xs k nv)
        | none => .throw
      | none => .throw
    | .stream xs =>
      match pyIndex xs.length i with
      | some k => match xs[k]? with
        | some old => (modifyIndex f old rest).map fun nv => .list (listSet xs k nv)
        | none => .throw
      | none => .throw
    | .dict ks vs =>
      if !validKey i then .throw else
      match dictFind i ks with
      | some k => match vs[k]? with
        | some old => (modifyIndex f old rest).map fun nv => .dict ks (listSet vs k nv)
        | none => .throw
      | none => .throw          -- no default: "nothing at key"
    | _ => .throw

mutual
/-- `modify_every`: every target of the pattern is replaced by `f(its current value)` -/
def modifyEvery (f : Val → Out Val) (e : Env) : Pat → Env × Out Unit
  | .underscore => (e, .throw)
  | .ident x ixs =>
    match e.get? x with
    | none => (e, .throw)
    | some c =>
      match ixs with
      | [] =>
        match f c.val with
        | .ok nv =>
          -- `Env::modify_ident(|ty, ptr| if is_type(ty, &new) { *ptr = new } else { name error })`
          (match isType c.ty nv with
           | .ok true => (e.set x nv, .ok ())
           | .ok false => (e, .throw)
           | .throw => (e, .throw)
           | .panic => (e, .panic))
        | .throw => (e, .throw)
        | .panic => (e, .panic)
      | _ :: _ =>
        match modifyIndex f c.val ixs with
        | .ok nv => assignRespectingType e x [] nv
        | .throw => (e, .throw)
        | .panic => (e, .panic)
  | .seq ps _ => modifyEveryAll f e ps
  | .anno _ _ => (e, .throw)
  | .withDefault _ _ => (e, .throw)
  | .splat _ => (e, .throw)
  | .or _ _ => (e, .throw)
  | .and a b =>
    match modifyEvery f e a with
    | (e', .ok ()) => modifyEvery f e' b
    | r => r
  | .lit _ => (e, .throw)
  | .destr _ _ => (e, .throw)
  | .destrStruct _ _ => (e, .throw)
def modifyEveryAll (f : Val → Out Val) (e : Env) : List Pat → Env × Out Unit
  | [] => (e, .ok ())
  | p :: ps =>
    match modifyEvery f e p with
    | (e', .ok ()) => modifyEveryAll f e' ps
    | r => r
end

/-- statements that write to variables -/
inductive Stmt where
  /-- `p = v` (also `p := v` / `p: T = v`, which the parser turns into annotations inside `p`) -/
  | assign (p : Pat) (v : Val)
  /-- `every p = v` -/
  | assignEvery (p : Pat) (v : Val)
  /-- `p op= v` -/
  | opAssign (p : Pat) (op : Op) (v : Val)
  /-- `every p op= v` -/
  | opAssignEvery (p : Pat) (op : Op) (v : Val)
  /-- `swap a, b` -/
  | swap (a b : Pat)
  deriving Inhabited

/-- `evaluate` on these statement forms (eval.rs ~841, ~919, ~928); the hot path of `OpAssign`
(the top-level `and` "party trick" is not modelled: the differential run has no top-level `and`
in operator-assignments) -/
def execStmt (e : Env) : Stmt → Env × Out Unit
  | .assign p v => assign e p none v
  | .assignEvery p v => assignEvery e p none v
  | .opAssign p op v =>
    match evalLvalue e p with
    | .ok lhsValue =>
      -- "Drop the Rc from the lvalue so that functions can try to consume it"
      (match dropLhs e p with
       | (e1, .ok ()) =>
         (match applyOp op lhsValue v with
          | .ok combined => assign e1 p none combined
          | .throw => (e1, .throw)
          | .panic => (e1, .panic))
       | r => r)
    | .throw => (e, .throw)
    | .panic => (e, .panic)
  | .opAssignEvery p op v => modifyEvery (fun x => applyOp op x v) e p
  | .swap a b =>
    match evalLvalue e a, evalLvalue e b with
    | .ok ao, .ok bo =>
      (match assign e a none bo with
       | (e1, .ok ()) => assign e1 b none ao
       | r => r)
    | .panic, _ => (e, .panic)
    | _, .panic => (e, .panic)
    | _, _ => (e, .throw)

/-- a history: statements run until the first one that raises -/
def execHistory (e : Env) : List Stmt → List (Env × Out Unit)
  | [] => []
  | s :: ss =>
    match execStmt e s with
    | (e', .ok ()) => (e', .ok ()) :: execHistory e' ss
    | r => [r]

end Noulith.C12
