/-
C13 — concrete layer of the sequence-library model: the value type the differential run uses,
equality / ordering / truthiness as in core.rs, the family of named Noulith closures, the kind
dispatch of `multi!` / `multimulti!` / take / drop, and `call`, the table that maps a builtin name
and its arguments to the generic algorithm (one record `Lib` of algorithms: `implLib` here mirrors
lib.rs, `specLib` in Spec/SeqLibCall.lean is the reference).  Core Lean only.
-/
import NoulithModel.Impl.SeqLib

namespace Noulith.SeqLib
open Noulith

/-! ## values -/

/-- the values that occur in the differential run.  `stream` is a finite lazy sequence (given by
its elements), `dkeys` a dictionary seen through iteration (its keys in iteration order), `dict` a
dictionary *result* (keys, values, optional default; printed sorted by key).  `wrapped items pos`
is `stream(seq)`, core.rs `WrappedVec(items, pos)`: a stream over a materialised sequence with a
read position (elements before `pos` have been consumed by `next` / `drop` / `tail` / uncons).
`frac isFloat twice` is a float (`isFloat`) or a rational whose exact value is `twice / 2`: numbers that
are `==` to (and hash like) other numbers but print differently (`1`, `1.0`, `1/1`). -/
inductive Val where
  | null
  | int (i : Int)
  | frac (isFloat : Bool) (twice : Int)
  | str (cs : List Char)
  | list (xs : List Val)
  | bytes (bs : List Nat)
  | vec (ns : List Int)
  | stream (xs : List Val)
  | wrapped (items : List Val) (pos : Nat)
  | dkeys (ks : List Val)
  | dict (ks : List Val) (vs : List Val) (dflt : List Val)
  deriving Inhabited

namespace Val

mutual
/-- Noulith `==` (`Obj::eq`, core.rs:1160) on this value domain; also the `ObjKey` equality
(`total_eq_of_keys`) because the domain has no floats.  Streams are never equal. -/
def beq : Val → Val → Bool
  | null, null => true
  | int a, int b => a == b
  | int a, frac _ b => 2 * a == b
  | frac _ a, int b => a == 2 * b
  | frac _ a, frac _ b => a == b
  | str a, str b => a == b
  | list a, list b => beqList a b
  | bytes a, bytes b => a == b
  | vec a, vec b => a == b
  | dkeys a, dkeys b => beqList a b
  | _, _ => false
def beqList : List Val → List Val → Bool
  | [], [] => true
  | x :: xs, y :: ys => beq x y && beqList xs ys
  | _, _ => false
end

instance : BEq Val := ⟨beq⟩

def cmpInt (a b : Int) : Ordering := compare a b
def cmpNat (a b : Nat) : Ordering := compare a b

/-- lexicographic `partial_cmp` of slices / strings over a total element order -/
def lexTotal {τ : Type} (c : τ → τ → Ordering) : List τ → List τ → Ordering
  | [], [] => .eq
  | [], _ :: _ => .lt
  | _ :: _, [] => .gt
  | x :: xs, y :: ys => match c x y with
    | .eq => lexTotal c xs ys
    | o => o

mutual
/-- `Obj::partial_cmp` (core.rs:1187): null/null equal, num/num, seq/seq of the same kind
(lists lexicographic with early `None`), everything else incomparable -/
def pcmp : Val → Val → Option Ordering
  | null, null => some .eq
  | int a, int b => some (cmpInt a b)
  | int a, frac _ b => some (cmpInt (2 * a) b)
  | frac _ a, int b => some (cmpInt a (2 * b))
  | frac _ a, frac _ b => some (cmpInt a b)
  | str a, str b => some (lexTotal (fun x y => cmpNat x.toNat y.toNat) a b)
  | list a, list b => pcmpList a b
  | bytes a, bytes b => some (lexTotal cmpNat a b)
  | vec a, vec b => some (lexTotal cmpInt a b)
  | _, _ => none
def pcmpList : List Val → List Val → Option Ordering
  | [], [] => some .eq
  | [], _ :: _ => some .lt
  | _ :: _, [] => some .gt
  | x :: xs, y :: ys => match pcmp x y with
    | some .eq => pcmpList xs ys
    | r => r
end

/-- `ncmp` (lib.rs:308): like `partial_cmp` but null/null is an error too -/
def ncmp (a b : Val) : Out Ordering :=
  match a, b with
  | null, _ => .throw
  | _, null => .throw
  | a, b => match pcmp a b with
    | some o => .ok o
    | none => .throw

/-- `WrappedVec::next` repeated until `None` (core.rs:443): what iteration (`clone_box` + `next`)
sees of a positioned stream; `fuel` = number of elements left -/
def wIterGo (items : List Val) : Nat → Nat → List Val
  | 0, _ => []
  | fuel + 1, pos =>
    match items[pos]? with
    | some x => x :: wIterGo items fuel (pos + 1)
    | none => []
def wIter (items : List Val) (pos : Nat) : List Val := wIterGo items (items.length - pos) pos
/-- `WrappedVec::force` (core.rs:479): `self.0[self.1..]` -/
def wForce (items : List Val) (pos : Nat) : List Val := items.drop pos

/-- `Obj::truthy` (core.rs:1114) -/
def truthy : Val → Bool
  | null => false
  | int i => i != 0
  | frac _ t => t != 0
  | str cs => !cs.isEmpty
  | list xs => !xs.isEmpty
  | bytes bs => !bs.isEmpty
  | vec ns => !ns.isEmpty
  | stream xs => !xs.isEmpty
  | wrapped items pos => items.length - pos != 0   -- `WrappedVec::len`
  | dkeys ks => !ks.isEmpty
  | dict ks _ _ => !ks.isEmpty

def ofBool (b : Bool) : Val := int (if b then 1 else 0)

/-! ### canonical text (the format of `vharness::canon`) -/

def hexPad16 (n : Nat) : String :=
  String.ofList ((List.range 16).reverse.map fun i => hexDigitChar (n / 16 ^ i % 16))

/-- IEEE-754 binary64 bit pattern of `twice / 2` (exact for |twice| < 2^53; zero is `+0.0`) -/
def floatBits (twice : Int) : Nat :=
  if twice == 0 then 0 else
  let k := twice.natAbs
  let b := Nat.log2 k
  (if twice < 0 then 2 ^ 63 else 0) + (b + 1022) * 2 ^ 52 + (k - 2 ^ b) * 2 ^ (52 - b)

/-- `Ratio` prints as `numer/denom` in lowest terms -/
def ratText (twice : Int) : String :=
  if twice % 2 == 0 then toString (twice / 2) ++ "/1" else toString twice ++ "/2"

/-- the value `twice / 2` behind a bit pattern, when it is a multiple of one half -/
def twiceOfBits (bits : Nat) : Option Int :=
  if bits == 0 then some 0 else
  let neg := bits / 2 ^ 63 % 2 == 1
  let e := bits / 2 ^ 52 % 2048
  let m := 2 ^ 52 + bits % 2 ^ 52
  -- value = m * 2^(e - 1075), twice = m * 2^(e - 1074)
  let t : Option Nat :=
    if e ≥ 1074 then some (m * 2 ^ (e - 1074))
    else if m % 2 ^ (1074 - e) == 0 then some (m / 2 ^ (1074 - e)) else none
  t.map fun t => if neg then - (t : Int) else (t : Int)

def utf8Hex (cs : List Char) : String := hexOfBytes ((String.ofList cs).toUTF8.toList.map (·.toNat))

/-- insertion sort of rendered dictionary entries by key text (byte order, as Rust's `sort`) -/
def insertEntry (e : String × String) : List (String × String) → List (String × String)
  | [] => [e]
  | h :: t => if e.1 < h.1 || (e.1 == h.1 && e.2 ≤ h.2) then e :: h :: t else h :: insertEntry e t

mutual
def render : Val → String
  | null => "null"
  | int i => toString i
  | frac true t => "f:" ++ hexPad16 (floatBits t)
  | frac false t => ratText t
  | str cs => "s:" ++ utf8Hex cs
  | list xs => "[" ++ joinWith "," (renderList xs) ++ "]"
  | bytes bs => "b:" ++ hexOfBytes bs
  | vec ns => "v[" ++ joinWith "," (ns.map toString) ++ "]"
  | stream xs => "stream[" ++ joinWith "," (renderList xs) ++ "]"
  | wrapped items pos => "stream[" ++ joinWith "," ((renderList items).drop pos) ++ "]"
  | dkeys ks => "d[" ++ joinWith "," (renderList ks) ++ "]"
  | dict ks vs d =>
    let entries := ((renderList ks).zip (renderList vs)).foldr insertEntry []
    "{" ++ joinWith "," (entries.map fun e => e.1 ++ ":" ++ e.2) ++ "}" ++
      (match renderList d with
       | [] => ""
       | t :: _ => "|d=" ++ t)
def renderList : List Val → List String
  | [] => []
  | x :: xs => render x :: renderList xs
end

end Val

/-! ### parsing canonical text (requests of the line protocol) -/
namespace Parse
open Val

def isDigit (c : Char) : Bool := '0' ≤ c && c ≤ '9'
def isHex (c : Char) : Bool := isDigit c || ('a' ≤ c && c ≤ 'f')

def spanP (p : Char → Bool) : List Char → List Char × List Char
  | [] => ([], [])
  | c :: cs => if p c then let (a, b) := spanP p cs; (c :: a, b) else ([], c :: cs)

def natOf (ds : List Char) : Nat := ds.foldl (fun n c => 10 * n + (c.toNat - '0'.toNat)) 0

def bytesOfHex (h : List Char) : Option (List Nat) := unhexChars h

def strOfHex (h : List Char) : Option (List Char) :=
  match unhexChars h with
  | none => none
  | some bs =>
    match String.fromUTF8? (ByteArray.mk (bs.map (·.toUInt8)).toArray) with
    | some s => some s.toList
    | none => none

/-- a comma separated list of integers up to `]` -/
def ints : Nat → List Char → Option (List Int × List Char)
  | 0, _ => none
  | _, ']' :: rest => some ([], rest)
  | fuel + 1, cs =>
    let (neg, cs) := match cs with
      | '-' :: r => (true, r)
      | _ => (false, cs)
    let (ds, rest) := spanP isDigit cs
    if ds.isEmpty then none else
    let v : Int := if neg then - (natOf ds : Int) else (natOf ds : Int)
    match rest with
    | ',' :: r => (ints fuel r).map fun (vs, r') => (v :: vs, r')
    | ']' :: r => some ([v], r)
    | _ => none

mutual
/-- one value; `fuel` bounds the recursion (input length suffices) -/
def value : Nat → List Char → Option (Val × List Char)
  | 0, _ => none
  | fuel + 1, cs =>
    match cs with
    | 'n' :: 'u' :: 'l' :: 'l' :: rest => some (null, rest)
    | 's' :: 't' :: 'r' :: 'e' :: 'a' :: 'm' :: '[' :: rest =>
      (values fuel rest).map fun (xs, r) => (stream xs, r)
    | 'f' :: ':' :: rest =>
      let (h, r) := spanP isHex rest
      (match twiceOfBits (h.foldl (fun n c => 16 * n + (hexDigitVal c).getD 0) 0) with
       | some t => some (frac true t, r)
       | none => none)
    | 's' :: ':' :: rest => let (h, r) := spanP isHex rest; (strOfHex h).map fun s => (str s, r)
    | 'b' :: ':' :: rest => let (h, r) := spanP isHex rest; (bytesOfHex h).map fun b => (bytes b, r)
    | 'v' :: '[' :: rest => (ints (fuel + 1) rest).map fun (ns, r) => (vec ns, r)
    | 'd' :: '[' :: rest => (values fuel rest).map fun (xs, r) => (dkeys xs, r)
    | 'm' :: '[' :: rest =>
      (values fuel rest).map fun (xs, r) =>
        -- alternating keys and values
        let rec split2 : List Val → List Val × List Val
          | k :: v :: t => let (ks, vs) := split2 t; (k :: ks, v :: vs)
          | _ => ([], [])
        let (ks, vs) := split2 xs
        (dict ks vs [], r)
    | 'w' :: rest =>
      let (ds, r) := spanP isDigit rest
      (match r with
       | '[' :: r' => (values fuel r').map fun (xs, r'') => (wrapped xs (natOf ds), r'')
       | _ => none)
    | '[' :: rest => (values fuel rest).map fun (xs, r) => (list xs, r)
    | '-' :: rest =>
      let (ds, r) := spanP isDigit rest
      if ds.isEmpty then none else
      (match r with
       | '/' :: '1' :: r' => some (frac false (-2 * (natOf ds : Int)), r')
       | '/' :: '2' :: r' => some (frac false (- (natOf ds : Int)), r')
       | _ => some (int (- (natOf ds : Int)), r))
    | _ =>
      let (ds, r) := spanP isDigit cs
      if ds.isEmpty then none else
      (match r with
       | '/' :: '1' :: r' => some (frac false (2 * (natOf ds : Int)), r')
       | '/' :: '2' :: r' => some (frac false (natOf ds : Int), r')
       | _ => some (int (natOf ds : Int), r))
/-- comma separated values up to the closing `]` -/
def values : Nat → List Char → Option (List Val × List Char)
  | 0, _ => none
  | _, ']' :: rest => some ([], rest)
  | fuel + 1, cs =>
    match value fuel cs with
    | none => none
    | some (v, ',' :: rest) => (values fuel rest).map fun (vs, r) => (v :: vs, r)
    | some (v, ']' :: rest) => some ([v], rest)
    | some _ => none
end

def parseVal (s : String) : Option Val :=
  match value (s.length + 2) s.toList with
  | some (v, []) => some v
  | _ => none

end Parse

/-! ## the closure family
Every function argument of the differential run is one of these named Noulith lambdas (source
text in harness/src/bin/c13.rs, same names).  `k` is the constant the lambda mentions. -/

structure Fn where
  name : String
  k : Val
  deriving Inhabited

namespace Fn
open Val

/-- collect element results, failing at the first failure -/
def allOk : List (Out Int) → Out (List Int)
  | [] => .ok []
  | .ok x :: rest => (allOk rest).map (x :: ·)
  | .throw :: _ => .throw
  | .panic :: _ => .panic

/-- `expect_nums_and_vectorize_2` (lib.rs:2294) on integers: the arithmetic operators work on two
numbers, a number and a vector, or two vectors of equal length (element-wise) -/
def intOp (f : Int → Int → Out Int) (a b : Val) : Out Val :=
  match a, b with
  | int x, int y => (f x y).map int
  | int x, vec ys => (allOk (ys.map (f x))).map vec
  | vec xs, int y => (allOk (xs.map (f · y))).map vec
  | vec xs, vec ys =>
    if xs.length == ys.length then (allOk (List.zipWith f xs ys)).map vec else .throw
  | _, _ => .throw

/-- `a <=> b` -/
def spaceship (a b : Val) : Out Val :=
  match ncmp a b with
  | .ok .lt => .ok (int (-1))
  | .ok .eq => .ok (int 0)
  | .ok .gt => .ok (int 1)
  | .throw => .throw
  | .panic => .panic

/-- `a %% m` on integers (floor modulo; zero divisor raises) -/
def modFloor (a m : Val) : Out Val :=
  intOp (fun x y => if y == 0 then .throw else .ok (Int.fmod x y)) a m

def ltV (a b : Val) : Out Val :=
  match ncmp a b with
  | .ok o => .ok (ofBool (o == .lt))
  | .throw => .throw
  | .panic => .panic

def leV (a b : Val) : Out Val :=
  match ncmp a b with
  | .ok o => .ok (ofBool (o != .gt))
  | .throw => .throw
  | .panic => .panic

/-- call the named lambda on an argument list (wrong arity raises, as `Closure::run` does) -/
def apply (f : Fn) (args : List Val) : Out Val :=
  match f.name, args with
  -- unary
  | "k1", [_] => .ok (int 1)
  | "k0", [_] => .ok (int 0)
  | "id", [x] => .ok x
  | "nul", [_] => .ok null
  | "lt", [x] => ltV x f.k
  | "eq", [x] => .ok (ofBool (x == f.k))
  | "mod", [x] => modFloor x f.k
  | "neg", [x] => intOp (fun a b => .ok (a - b)) (int 0) x
  | "wrap", [x] => .ok (list [x])
  | "dup", [x] => .ok (list [x, x])
  | "raise", [x] => if x == f.k then .throw else .ok x
  | "raise1", [x] => if x == f.k then .throw else .ok (int 1)
  -- binary
  | "add", [a, b] => intOp (fun x y => .ok (x + y)) a b
  | "sub", [a, b] => intOp (fun x y => .ok (x - y)) a b
  | "pair", [a, b] => .ok (list [a, b])
  | "fst", [a, _] => .ok a
  | "snd", [_, b] => .ok b
  | "cmp", [a, b] => spaceship a b
  | "rcmp", [a, b] => spaceship b a
  | "cmpmod", [a, b] =>
    (match modFloor a f.k with
     | .ok x => (match modFloor b f.k with
                 | .ok y => spaceship x y
                 | .throw => .throw
                 | .panic => .panic)
     | .throw => .throw
     | .panic => .panic)
  | "eq2", [a, b] => .ok (ofBool (a == b))
  | "lt2", [a, b] => ltV a b
  | "le2", [a, b] => leV a b
  | "b0", [_, _] => .ok (int 0)
  | "b1", [_, _] => .ok (int 1)
  | "bstr", [_, _] => .ok (str ['x'])
  | "raisecmp", [a, b] => if a == f.k || b == f.k then .throw else spaceship a b
  | "raisepair", [a, b] => if a == f.k || b == f.k then .throw else .ok (list [a, b])
  -- variadic
  | "nlist", xs => .ok (list xs)
  | "nrev", xs => .ok (list xs.reverse)
  | "nraise", xs => if xs.any (· == f.k) then .throw else .ok (list xs)
  | _, _ => .throw

def call1 (f : Fn) (x : Val) : Out Val := f.apply [x]
def call2 (f : Fn) (a b : Val) : Out Val := f.apply [a, b]

/-- "call, take truthiness" -/
def pred (f : Fn) (x : Val) : Out Bool := (f.call1 x).map truthy
def pred2 (f : Fn) (a b : Val) : Out Bool := (f.call2 a b).map truthy

/-- `ncmp(f(a, b)?, 0)?`: the comparator protocol of `sort` / `min` / `max` with a function -/
def cmp0 (f : Fn) (a b : Val) : Out Ordering :=
  match f.call2 a b with
  | .ok r => ncmp r (int 0)
  | .throw => .throw
  | .panic => .panic

end Fn

/-! ## sequence kinds and the `multi!` dispatch -/

inductive Kind where
  | list | string | dict | vector | bytes | stream
  deriving DecidableEq, Repr, Inhabited

/-- the result kind of everything implemented through `multi!` / `multimulti!` (lib.rs:2600,
3051) and of `take` with a predicate: the same kind for list / string / vector / bytes, a list for
dictionaries (iterated as keys) and streams (forced) -/
def kindRule : Kind → Kind
  | .list => .list
  | .string => .string
  | .dict => .list
  | .vector => .vector
  | .bytes => .bytes
  | .stream => .list

namespace Val

def kind? : Val → Option Kind
  | list _ => some .list
  | str _ => some .string
  | dkeys _ => some .dict
  | dict _ _ _ => some .dict
  | vec _ => some .vector
  | bytes _ => some .bytes
  | stream _ => some .stream
  | wrapped _ _ => some .stream
  | _ => none

/-- the elements an iteration over the sequence yields (`mut_seq_into_iter`, `multi!`'s
conversions: chars as one-char strings, bytes and vector entries as numbers, dict keys) -/
def elems? : Val → Option (List Val)
  | list xs => some xs
  | str cs => some (cs.map fun c => str [c])
  | dkeys ks => some ks
  | dict ks _ _ => some ks
  | vec ns => some (ns.map int)
  | bytes bs => some (bs.map fun b => int (Int.ofNat b))
  | stream xs => some xs
  | wrapped items pos => some (wIter items pos)
  | _ => none

/-- the elements `Stream::force` returns (`multi!`, `reversed`, `unsnoc`); same as iteration for
every non-stream kind -/
def forced? : Val → Option (List Val)
  | wrapped items pos => some (wForce items pos)
  | v => v.elems?

/-- `mut_obj_into_iter`: non-sequences raise a type error -/
def iter (v : Val) : Out (List Val) :=
  match v.elems? with
  | some xs => .ok xs
  | none => .throw

/-- pack elements as a sequence of the given kind (`collect::<String>()`, `Seq::Vector(…)`, …);
elements that do not fit the kind are dropped — never happens for elements that came out of a
sequence of that kind -/
def pack : Kind → List Val → Val
  | .list, xs => list xs
  | .string, xs => str (xs.flatMap fun | str cs => cs | _ => [])
  | .dict, xs => list xs
  | .vector, xs => vec (xs.filterMap fun | int i => some i | _ => none)
  | .bytes, xs => bytes (xs.filterMap fun | int i => some i.toNat | _ => none)
  | .stream, xs => stream xs

end Val
open Val

/-- `multi!(v, expr)`: run `expr` on the element vector, wrap with the kind rule -/
def multi (s : Val) (g : List Val → Out (List Val)) : Out Val :=
  match s.kind?, s.forced? with
  | some k, some xs => (g xs).map (pack (kindRule k))
  | _, _ => .throw

/-- `multimulti!(v, expr, multi_vec_map)`: every group is wrapped with the kind rule -/
def multimulti (s : Val) (g : List Val → Out (List (List Val))) : Out Val :=
  match s.kind?, s.elems? with
  | some k, some xs => (g xs).map fun groups => list (groups.map (pack (kindRule k)))
  | _, _ => .throw

/-- `multi_suffixes` (lib.rs:3109) reverses first (`multi_reverse`, which forces a stream) -/
def multimultiForced (s : Val) (g : List Val → Out (List (List Val))) : Out Val :=
  match s.kind?, s.forced? with
  | some k, some xs => (g xs).map fun groups => list (groups.map (pack (kindRule k)))
  | _, _ => .throw

/-- `char::is_whitespace` (the Unicode `White_Space` property): U+0009–U+000D, space, NEL U+0085,
NBSP U+00A0, U+1680, U+2000–U+200A, U+2028, U+2029, U+202F, U+205F, U+3000 -/
def isWs (c : Char) : Bool :=
  let n := c.toNat
  (9 ≤ n && n ≤ 13) || n == 0x20 || n == 0x85 || n == 0xA0 || n == 0x1680 ||
  (0x2000 ≤ n && n ≤ 0x200A) || n == 0x2028 || n == 0x2029 || n == 0x202F || n == 0x205F || n == 0x3000

/-- `str::trim_start` / `trim_end` / `trim` (std): drop the whitespace run at that end -/
def trimStart (s : List Char) : List Char := s.dropWhile isWs
def trimEnd (s : List Char) : List Char := (s.reverse.dropWhile isWs).reverse
def trimBoth (s : List Char) : List Char := trimEnd (trimStart s)

/-! ## the algorithms, as a record (Impl and Spec instantiate it) -/

structure Lib where
  filter : (Val → Out Bool) → Bool → List Val → Out (List Val)
  sortWith : (Val → Val → Out Ordering) → List Val → Out (List Val)
  sortedOn : (Val → Out Val) → (Val → Val → Out Ordering) → List Val → Out (List Val)
  unique : List Val → Out (List Val)
  reverse : List Val → List Val
  grouped : List Val → Nat → Bool → Out (List (List Val))
  groupedBy : (Val → Val → Out Bool) → List Val → Out (List (List Val))
  classified : (Val → Out Val) → List Val → Out (List (Val × List Val))
  frequencies : List Val → Out (List (Val × Nat))
  windowed : List Val → Nat → List (List Val)
  prefixes : List Val → List (List Val)
  suffixes : List Val → List (List Val)
  takeWhile : (Val → Out Bool) → List Val → Out (List Val)
  dropWhile : (Val → Out Bool) → List Val → Out (List Val)
  map : (Val → Out Val) → List Val → Out (List Val)
  each : (Val → Out Val) → List Val → Out Unit
  flatMap : (Val → Out (List Val)) → List Val → Out (List Val)
  partition : (Val → Out Bool) → List Val → Out (List Val × List Val)
  pairwise : (Val → Val → Out Val) → List Val → Out (List Val)
  enumerate : List Val → List (Nat × Val)
  find : (Val → Out Bool) → List Val → Out (Option Val)
  locate : (Val → Out Bool) → List Val → Out (Option Nat)
  count : (Val → Out Bool) → List Val → Out Nat
  any : (Val → Out Bool) → List Val → Out Bool
  all : (Val → Out Bool) → List Val → Out Bool
  sumLike : Val → (Val → Val → Out Val) → (Val → Out Val) → List Val → Out Val
  extremum : (Val → Val → Out Ordering) → Ordering → List Val → Out Val
  foldFrom : (Val → Val → Out Val) → Val → List Val → Out Val
  fold1 : (Val → Val → Out Val) → List Val → Out Val
  scanFrom : (Val → Val → Out Val) → Val → List Val → Out (List Val)
  scan1 : (Val → Val → Out Val) → List Val → Out (List Val)
  zip : (List Val → Out Val) → List (List Val) → Out (List Val)
  zipLongest : (List Val → Out Val) → List (List Val) → Out (List Val)
  product : List (List Val) → List (List Val)
  repeatSeq : List Val → Int → List Val
  power : List Val → Nat → List (List Val)
  subsequences : List Val → List (List Val)
  combinations : List Val → Nat → List (List Val)
  permutations : List Val → List (List Val)
  join : List Char → (Val → List Char) → List Val → List Char
  split : List Char → List Char → List (List Char)
  words : List Char → List (List Char)
  lines : List Char → List (List Char)
  uncons : List Val → Option (Val × List Val)
  unsnoc : List Val → Option (List Val × Val)
  findSub : List Char → List Char → Option Nat
  splitn : List Char → List Char → Nat → List (List Char)
  rsplit : List Char → List Char → List (List Char)
  rsplitn : List Char → List Char → Nat → List (List Char)
  merge : Option (Val → Val → Out Val) → List (List (Val × Val)) → Out (List (Val × Val))
  joinE : List Nat → (Val → Out (List Nat)) → List Val → Out (List Nat)

/-- lib.rs, loop for loop -/
def implLib : Lib where
  filter p neg xs := filtered p xs neg
  sortWith := sortWith
  sortedOn := sortedOn
  unique xs := uniqued (fun x => .ok x) xs
  reverse xs := xs.reverse
  grouped := grouped
  groupedBy := groupedBy
  classified key xs := classifiedWith key xs
  frequencies xs := frequencies (fun x => .ok x) xs
  windowed := windowed
  prefixes := prefixes
  suffixes := suffixes
  takeWhile := takeWhile
  dropWhile := dropWhile
  map := map
  each := each
  flatMap := flatMap
  partition := partition
  pairwise := pairwise
  enumerate := enumerate
  find := find
  locate := locate
  count := count
  any := any
  all := all
  sumLike := sumLike
  extremum := extremum
  foldFrom := foldFrom
  fold1 := fold1
  scanFrom := scanFrom
  scan1 := scan1
  zip := zip
  zipLongest := zipLongest
  product := cartesianProduct
  repeatSeq := cartesianScalar
  power := cartesianPower
  subsequences := subsequences
  combinations := combinations
  permutations := permutations
  join := join
  split := split
  words := words isWs
  lines := lines '\n'
  uncons := uncons
  unsnoc := unsnoc
  findSub := findSub
  splitn := splitn
  rsplit := rsplit
  rsplitn := rsplitn
  merge := merge
  joinE := joinE

/-! ## `call`: builtin name + arguments ↦ result -/

inductive Arg where
  | v (x : Val)
  | f (f : Fn)

/-- `to_usize_ok` on a non-negative integer argument (negative raises) -/
def usizeOf (i : Int) : Out Nat := if i < 0 then .throw else .ok i.toNat

/-- the vectorising `+` / `*` of `sum` / `product` restricted to this value domain -/
def numOp (op : Int → Int → Int) (a b : Val) : Out Val :=
  match a, b with
  | .int x, .int y => .ok (.int (op x y))
  | .int x, .vec ys => .ok (.vec (ys.map (op x)))
  | .vec xs, .int y => .ok (.vec (xs.map (op · y)))
  | .vec xs, .vec ys => if xs.length == ys.length then .ok (.vec (List.zipWith op xs ys)) else .throw
  | _, _ => .throw

/-- `Display` of an element, for `join` -/
def display : Val → List Char
  | .int i => (toString i).toList
  | .str cs => cs
  | .null => "null".toList
  | v => v.render.toList

def natVal (n : Nat) : Val := .int n

def optVal : Option Val → Val
  | some v => v
  | none => .null

/-- the batch function of `zip`: the optional Noulith function, else "make a list" -/
def batchFn (f : Option Fn) (batch : List Val) : Out Val :=
  match f with
  | some f => f.apply batch
  | none => .ok (.list batch)

/-- split the trailing optional function off an argument list -/
def splitFn : List Arg → Option (List Val × Option Fn)
  | [] => some ([], none)
  | [.f f] => some ([], some f)
  | .v x :: rest => (splitFn rest).map fun (vs, f) => (x :: vs, f)
  | .f _ :: _ => none

def iterAll : List Val → Out (List (List Val))
  | [] => .ok []
  | v :: vs =>
    match v.iter with
    | .ok xs => (iterAll vs).map (xs :: ·)
    | .throw => .throw
    | .panic => .panic

/-- `to_byte` -/
def toByte : Val → Out Nat
  | .int i => if 0 ≤ i ∧ i < 256 then .ok i.toNat else .throw
  | _ => .throw

/-- `uncons` (lib.rs:2941): the head as a value, the rest in the same kind (a stream stays a
stream, a dictionary loses the entry); `none` = empty -/
def unconsV (L : Lib) (s : Val) : Out (Option (Val × Val)) :=
  match s with
  | .dict ks vs d =>
    (match ks, vs with
     | k :: ks', v :: vs' => .ok (some (.list [k, v], .dict ks' vs' d))
     | _, _ => .ok none)
  | .dkeys ks =>
    (match L.uncons ks with
     | some (k, ks') => .ok (some (.list [k, .null], .dict ks' (ks'.map fun _ => .null) []))
     | none => .ok none)
  | s =>
    match s.kind?, s.elems? with
    | some k, some xs =>
      (match L.uncons xs with
       | some (h, t) => .ok (some (h, pack k t))
       | none => .ok none)
    | _, _ => .throw

/-- `unsnoc` (lib.rs:2995): a stream is forced first (and becomes a list); a dictionary goes
through `uncons` -/
def unsnocV (L : Lib) (s : Val) : Out (Option (Val × Val)) :=
  match s with
  | .dict _ _ _ => (unconsV L s).map fun r => r.map fun p => (p.2, p.1)
  | .dkeys _ => (unconsV L s).map fun r => r.map fun p => (p.2, p.1)
  | s =>
    match s.kind?, s.forced? with
    | some k, some xs =>
      (match L.unsnoc xs with
       | some (t, e) => .ok (some (pack (kindRule k) t, e))
       | none => .ok none)
    | _, _ => .throw

/-- byte offset of the `i`-th char (`str::find` answers in bytes) -/
def byteOffset (s : List Char) (i : Nat) : Nat := (String.ofList (s.take i)).utf8ByteSize

/-- `obj_in(a, b)` (lib.rs:2497) -/
def objIn (L : Lib) (a b : Val) : Out Bool :=
  match a, b with
  | .str p, .str t => .ok (L.findSub p t).isSome
  | a, b =>
    match b.kind?, b.elems? with
    | some _, some xs => L.any (fun e => .ok (e == a)) xs
    | _, _ => .throw

/-- the entries of a dictionary value -/
def entries? : Val → Option (List (Val × Val))
  | .dict ks vs _ => some (ks.zip vs)
  | .dkeys ks => some (ks.map fun k => (k, .null))
  | _ => none

def allEntries : List Val → Option (List (List (Val × Val)))
  | [] => some []
  | v :: vs =>
    match entries? v, allEntries vs with
    | some e, some es => some (e :: es)
    | _, _ => none

def dictOf (m : List (Val × Val)) : Val := .dict (m.map (·.1)) (m.map (·.2)) []

/-- the elements the callback of `each` gets to see: up to and including the first one it fails on -/
def visited (f : Val → Out Val) : List Val → List Val
  | [] => []
  | x :: xs =>
    match f x with
    | .ok _ => x :: visited f xs
    | _ => [x]

/-- the bytes of one piece of a bytes-`join`: iterate it, `to_byte` every element -/
def bytesOfPieceGo : List Val → Out (List Nat)
  | [] => .ok []
  | x :: xs =>
    match toByte x with
    | .ok b => (bytesOfPieceGo xs).map (b :: ·)
    | .throw => .throw
    | .panic => .panic

def bytesOfPiece (v : Val) : Out (List Nat) := andThen v.iter bytesOfPieceGo

def call (L : Lib) (name : String) (args : List Arg) : Out Val :=
  match name, args with
  -- multi!
  | "filter", [.v s, .f f] => multi s (L.filter f.pred false)
  | "reject", [.v s, .f f] => multi s (L.filter f.pred true)
  | "sort", [.v s] => multi s (L.sortWith fun a b => match pcmp a b with | some o => .ok o | none => .throw)
  | "sort", [.v s, .f f] => multi s (L.sortWith f.cmp0)
  | "sort_on", [.v s, .f f] => multi s (L.sortedOn f.call1 ncmp)
  | "unique", [.v s] => multi s L.unique
  | "reverse", [.v s] => multi s fun xs => .ok (L.reverse xs)
  -- multimulti!
  | "group", [.v s] => multimulti s (L.groupedBy fun a b => .ok (a == b))
  | "group", [.v s, .v (.int n)] =>
    andThen (usizeOf n) fun n => if n = 0 then .throw else multimulti s fun xs => L.grouped xs n false
  | "group'", [.v s, .v (.int n)] =>
    andThen (usizeOf n) fun n => if n = 0 then .throw else multimulti s fun xs => L.grouped xs n true
  | "group", [.v s, .f f] => multimulti s (L.groupedBy f.pred2)
  | "group_all", [.v s, .f f] =>
    multimulti s fun xs => (L.classified f.call1 xs).map fun m => m.map (·.2)
  | "classify", [.v s, .f f] =>
    (match s.kind?, s.elems? with
     | some k, some xs =>
       (L.classified f.call1 xs).map fun m =>
         .dict (m.map (·.1)) (m.map fun e => pack (kindRule k) e.2) []
     | _, _ => .throw)
  | "window", [.v s, .v (.int n)] =>
    andThen (usizeOf n) fun n => if n = 0 then .throw else multimulti s fun xs => .ok (L.windowed xs n)
  | "prefixes", [.v s] => multimulti s fun xs => .ok (L.prefixes xs)
  | "suffixes", [.v s] => multimultiForced s fun xs => .ok (L.suffixes xs)
  | "frequencies", [.v s] =>
    andThen s.iter fun xs => (L.frequencies xs).map fun m =>
      .dict (m.map (·.1)) (m.map fun e => natVal e.2) [.int 0]
  -- take / drop with a predicate: own kind dispatch (lib.rs:2849, 2904)
  | "take", [.v s, .f f] => multi s (L.takeWhile f.pred)
  | "drop", [.v s, .f f] =>
    (match s with
     | .stream xs => (L.dropWhile f.pred xs).map .stream
     | .wrapped items pos => (L.dropWhile f.pred (wIter items pos)).map .stream   -- peek / next from `pos`
     | s => multi s (L.dropWhile f.pred))
  -- one-line registrations over `mut_obj_into_iter`
  | "map", [.v s, .f f] => andThen s.iter fun xs => (L.map f.call1 xs).map .list
  | "each", [.v s, .f f] => andThen s.iter fun xs => (L.each f.call1 xs).map fun _ => .null
  | "each!", [.v s, .f f] =>
    -- `try each(s, \x -> (ACC = ACC +. x; f(x))) catch e -> "T"` and the recorded `ACC`
    andThen s.iter fun xs =>
      match L.each f.call1 xs with
      | .ok _ => .ok (.list [.null, .list xs])
      | .throw => .ok (.list [.str ['T'], .list (visited f.call1 xs)])
      | .panic => .panic
  | "flat_map", [.v s, .f f] =>
    andThen s.iter fun xs => (L.flatMap (fun x => andThen (f.call1 x) Val.iter) xs).map .list
  | "flatten", [.v s] => andThen s.iter fun xs => (L.flatMap Val.iter xs).map .list
  | "partition", [.v s, .f f] =>
    andThen s.iter fun xs => (L.partition f.pred xs).map fun r => .list [.list r.1, .list r.2]
  | "pairwise", [.v s, .f f] => andThen s.iter fun xs => (L.pairwise f.call2 xs).map .list
  | "enumerate", [.v s] =>
    andThen s.iter fun xs => .ok (.list ((L.enumerate xs).map fun e => .list [natVal e.1, e.2]))
  | "find", [.v s, .f f] =>
    andThen s.iter fun xs => andThen (L.find f.pred xs) fun r =>
      match r with
      | some x => .ok x
      | none => .throw
  | "find?", [.v s, .f f] => andThen s.iter fun xs => (L.find f.pred xs).map optVal
  | "locate", [.v s, .f f] =>
    andThen s.iter fun xs => andThen (L.locate f.pred xs) fun r =>
      match r with
      | some i => .ok (natVal i)
      | none => .throw
  | "locate?", [.v s, .f f] =>
    andThen s.iter fun xs => (L.locate f.pred xs).map fun r => optVal (r.map natVal)
  -- substring search (answers a byte offset)
  | "locate", [.v (.str t), .v (.str p)] =>
    (match L.findSub p t with
     | some i => .ok (natVal (byteOffset t i))
     | none => .throw)
  | "locate?", [.v (.str t), .v (.str p)] =>
    (match L.findSub p t with
     | some i => .ok (natVal (byteOffset t i))
     | none => .ok .null)
  | "locate", [.v s, .v b] =>
    andThen s.iter fun xs => andThen (L.locate (fun x => .ok (x == b)) xs) fun r =>
      match r with
      | some i => .ok (natVal i)
      | none => .throw
  | "locate?", [.v s, .v b] =>
    andThen s.iter fun xs => (L.locate (fun x => .ok (x == b)) xs).map fun r => optVal (r.map natVal)
  | "count", [.v s] => andThen s.iter fun xs => (L.count (fun x => .ok x.truthy) xs).map natVal
  | "count", [.v s, .f f] => andThen s.iter fun xs => (L.count f.pred xs).map natVal
  | "count", [.v s, .v b] => andThen s.iter fun xs => (L.count (fun x => .ok (x == b)) xs).map natVal
  | "any", [.v s] => andThen s.iter fun xs => (L.any (fun x => .ok x.truthy) xs).map ofBool
  | "any", [.v s, .f f] => andThen s.iter fun xs => (L.any f.pred xs).map ofBool
  | "all", [.v s] => andThen s.iter fun xs => (L.all (fun x => .ok x.truthy) xs).map ofBool
  | "all", [.v s, .f f] => andThen s.iter fun xs => (L.all f.pred xs).map ofBool
  | "sum", [.v s] => andThen s.iter fun xs => L.sumLike (.int 0) (numOp (· + ·)) .ok xs
  | "sum", [.v s, .f f] => andThen s.iter fun xs => L.sumLike (.int 0) (numOp (· + ·)) f.call1 xs
  | "product", [.v s] => andThen s.iter fun xs => L.sumLike (.int 1) (numOp (· * ·)) .ok xs
  | "product", [.v s, .f f] => andThen s.iter fun xs => L.sumLike (.int 1) (numOp (· * ·)) f.call1 xs
  | "min", [.v s] => andThen s.iter fun xs => L.extremum ncmp .lt xs
  | "max", [.v s] => andThen s.iter fun xs => L.extremum ncmp .gt xs
  | "min", [.v s, .f f] => andThen s.iter fun xs => L.extremum f.cmp0 .lt xs
  | "max", [.v s, .f f] => andThen s.iter fun xs => L.extremum f.cmp0 .gt xs
  -- `min(a, b, …[, f])`: two or more values are compared themselves (sequences included)
  | "min", .v a :: .v b :: rest =>
    (match splitFn (.v a :: .v b :: rest) with
     | some (vals, none) => L.extremum ncmp .lt vals
     | some (vals, some f) => L.extremum f.cmp0 .lt vals
     | none => .throw)
  | "max", .v a :: .v b :: rest =>
    (match splitFn (.v a :: .v b :: rest) with
     | some (vals, none) => L.extremum ncmp .gt vals
     | some (vals, some f) => L.extremum f.cmp0 .gt vals
     | none => .throw)
  -- uncons / unsnoc and their soft forms
  | "uncons", [.v s] => andThen (unconsV L s) fun r =>
      match r with
      | some (h, t) => .ok (.list [h, t])
      | none => .throw
  | "uncons?", [.v s] => andThen (unconsV L s) fun r =>
      match r with
      | some (h, t) => .ok (.list [h, t])
      | none => .ok .null
  | "unsnoc", [.v s] => andThen (unsnocV L s) fun r =>
      match r with
      | some (t, e) => .ok (.list [t, e])
      | none => .throw
  | "unsnoc?", [.v s] => andThen (unsnocV L s) fun r =>
      match r with
      | some (t, e) => .ok (.list [t, e])
      | none => .ok .null
  -- distinct elements
  | "count_distinct", [.v s] => andThen s.iter fun xs => (L.unique xs).map fun u => natVal u.length
  | "count_distinct", [.v s, .f f] =>
    andThen s.iter fun xs => andThen (L.map f.call1 xs) fun ks => (L.unique ks).map fun u => natVal u.length
  | "set", [.v s] =>
    andThen s.iter fun xs => (L.unique xs).map fun u => .dict u (u.map fun _ => .null) []
  -- nested maps
  | "mapmap", [.v s, .f f] =>
    andThen s.iter fun xs =>
      (L.map (fun e => andThen e.iter fun ys => (L.map f.call1 ys).map Val.list) xs).map Val.list
  | "mapply", [.v s, .f f] =>
    andThen s.iter fun xs => (L.map (fun e => andThen e.iter fun ys => f.apply ys) xs).map Val.list
  | "vector_map", [.v s, .f f] =>
    andThen s.iter fun xs =>
      (L.map (fun e => andThen (f.call1 e) fun r =>
          match r with
          | .int i => .ok (.int i)
          | _ => .throw) xs).map (pack .vector)
  -- join with a fixed separator
  | "unwords", [.v s] => andThen s.iter fun xs => .ok (.str (L.join [' '] display xs))
  | "unlines", [.v s] => andThen s.iter fun xs => .ok (.str (L.join ['\n'] display xs ++ ['\n']))
  -- membership
  | "in", [.v a, .v b] => (objIn L a b).map ofBool
  | "not_in", [.v a, .v b] => (objIn L a b).map fun r => ofBool (!r)
  | "contains", [.v b, .v a] => (objIn L a b).map ofBool
  -- index / value views
  | "keys", [.v s] =>
    (match s with
     | .dkeys ks => .ok (.list ks)
     | .dict ks _ _ => .ok (.list ks)
     | s => andThen s.iter fun xs => .ok (.list ((L.enumerate xs).map fun e => natVal e.1)))
  | "values", [.v s] =>
    (match s with
     | .dkeys ks => .ok (.list (ks.map fun _ => .null))
     | .dict _ vs _ => .ok (.list vs)
     | s => andThen s.iter fun xs => .ok (.list ((L.enumerate xs).map fun e => e.2)))
  -- bounded / right-to-left split
  | "split", [.v (.str s), .v (.str sep), .v (.int n)] =>
    .ok (.list ((L.splitn s sep n.toNat).map .str))
  | "rsplit", [.v (.str s), .v (.str sep)] => .ok (.list ((L.rsplit s sep).map .str))
  | "rsplit", [.v (.str s), .v (.str sep), .v (.int n)] =>
    .ok (.list ((L.rsplitn s sep n.toNat).map .str))
  -- dictionaries
  | "merge", a :: b :: rest =>
    (match splitFn (a :: b :: rest) with
     | some (ds, f) =>
       (match allEntries ds with
        | some es => (L.merge (f.map fun f => f.call2) es).map dictOf
        | none => .throw)
     | none => .throw)
  | "fold", [.v s, .f f] => andThen s.iter fun xs => L.fold1 f.call2 xs
  | "fold", [.v s, .f f, .v z] => andThen s.iter fun xs => L.foldFrom f.call2 z xs
  | "scan", [.v s, .f f] => andThen s.iter fun xs => (L.scan1 f.call2 xs).map .list
  | "scan", [.v s, .f f, .v z] => andThen s.iter fun xs => (L.scanFrom f.call2 z xs).map .list
  -- n-ary combinators
  | "zip", a :: b :: rest =>
    (match splitFn (a :: b :: rest) with
     | some (seqs, f) =>
       if seqs.isEmpty then .throw else
       andThen (iterAll seqs) fun its => (L.zip (batchFn f) its).map .list
     | none => .throw)
  | "ziplongest", a :: b :: rest =>
    (match splitFn (a :: b :: rest) with
     | some (seqs, f) =>
       if seqs.isEmpty then .throw else
       andThen (iterAll seqs) fun its =>
         (L.zipLongest (fun batch => match f with
            | some f => reduceBatch f.call2 batch
            | none => .ok (.list batch)) its).map .list
     | none => .throw)
  | "transpose", [.v s] =>
    andThen s.iter fun rows => andThen (iterAll rows) fun its =>
      (L.zipLongest (fun batch => .ok (.list batch)) its).map .list
  | "**", [.v s, .v (.int n)] => andThen s.iter fun xs => .ok (.list (L.repeatSeq xs n))
  | "**", [.v (.int n), .v s] => andThen s.iter fun xs => .ok (.list (L.repeatSeq xs n))
  | "**", .v a :: .v b :: rest =>
    (match splitFn (.v a :: .v b :: rest) with
     | some (seqs, none) =>
       andThen (iterAll seqs) fun its => .ok (.list ((L.product its).map .list))
     | _ => .throw)
  | "^^", [.v s, .v (.int n)] =>
    andThen s.iter fun xs => andThen (usizeOf n) fun n => .ok (.stream ((L.power xs n).map .list))
  | "subsequences", [.v s] => andThen s.iter fun xs => .ok (.stream ((L.subsequences xs).map .list))
  | "combinations", [.v s, .v (.int k)] =>
    andThen s.iter fun xs => andThen (usizeOf k) fun k => .ok (.stream ((L.combinations xs k).map .list))
  | "permutations", [.v s] => andThen s.iter fun xs => .ok (.stream ((L.permutations xs).map .list))
  -- list operators
  | "++", [.v (.list a), .v (.list b)] => .ok (.list (a ++ b))
  | "++", [.v (.vec a), .v (.vec b)] => .ok (.vec (a ++ b))
  | "++", [.v (.bytes a), .v (.bytes b)] => .ok (.bytes (a ++ b))
  | ".+", [.v x, .v (.list b)] => .ok (.list (x :: b))
  | ".+", [.v (.int x), .v (.vec b)] => .ok (.vec (x :: b))
  | ".+", [.v x, .v (.bytes b)] => (toByte x).map fun y => .bytes (y :: b)
  | "+.", [.v (.list a), .v x] => .ok (.list (a ++ [x]))
  | "+.", [.v (.vec a), .v (.int x)] => .ok (.vec (a ++ [x]))
  | "+.", [.v (.bytes a), .v x] => (toByte x).map fun y => .bytes (a ++ [y])
  | "..", [.v a, .v b] => .ok (.list [a, b])
  | ".*", [.v a, .v (.int n)] => .ok (.list (List.replicate n.toNat a))
  | "*.", [.v (.int n), .v b] => .ok (.list (List.replicate n.toNat b))
  -- strings
  | "join", [.v s, .v (.bytes sep)] => andThen s.iter fun xs => (L.joinE sep bytesOfPiece xs).map .bytes
  | "join", [.v s, .v (.str sep)] => andThen s.iter fun xs => .ok (.str (L.join sep display xs))
  | "split", [.v (.str s), .v (.str sep)] => .ok (.list ((L.split s sep).map .str))
  | "words", [.v (.str s)] => .ok (.list ((L.words s).map .str))
  | "strip", [.v (.str s)] => .ok (.str (trimBoth s))
  | "trim", [.v (.str s)] => .ok (.str (trimBoth s))
  | "strip_start", [.v (.str s)] => .ok (.str (trimStart s))
  | "trim_start", [.v (.str s)] => .ok (.str (trimStart s))
  | "strip_end", [.v (.str s)] => .ok (.str (trimEnd s))
  | "trim_end", [.v (.str s)] => .ok (.str (trimEnd s))
  | "is_space", [.v (.str s)] => .ok (ofBool (s.all isWs))
  | "lines", [.v (.str s)] => .ok (.list ((L.lines s).map .str))
  | _, _ => .throw

/-! ## chained infix forms: `a zip b zip c with f`
`ChainEvaluator` asks the pending function `f.try_chain(g)` when the next operator `g` of the same
precedence arrives: the self-chaining combinators answer with themselves, so the operand is added
to ONE n-ary call; otherwise the pending call is made and its result becomes the left operand. -/

/-- `try_chain` of `Zip` (lib.rs:1106), `ZipLongest` (lib.rs:1179), `CartesianProduct` (lib.rs:1326) -/
def chains (f g : String) : Bool :=
  match f, g with
  | "zip", "zip" => true
  | "zip", "with" => true
  | "ziplongest", "ziplongest" => true
  | "ziplongest", "with" => true
  | "**", "**" => true
  | "merge", "merge" => true
  | "merge", "with" => true
  | _, _ => false

def evalChainGo (L : Lib) : String → List Arg → List (String × Arg) → Out Val
  | f, args, [] => call L f args
  | f, args, (g, x) :: rest =>
    if chains f g then evalChainGo L f (args ++ [x]) rest
    else andThen (call L f args) fun r => evalChainGo L g [.v r, x] rest

/-- `x0 g1 x1 g2 x2 …`, all operators of one precedence, left to right -/
def evalChain (L : Lib) (x0 : Arg) : List (String × Arg) → Out Val
  | [] => .throw
  | (g, x1) :: rest => evalChainGo L g [x0, x1] rest

/-! ## number of callback calls of `name(s, f)` (observed through a counting predicate) -/

def isOkFalse : Out Bool → Bool
  | .ok false => true
  | _ => false
def isOkTrue : Out Bool → Bool
  | .ok true => true
  | _ => false
def isOk {τ : Type} : Out τ → Bool
  | .ok _ => true
  | _ => false

/-- the Impl side: `any` / `all` through the instrumented fold loop, the other builtins through
their stop rule -/
def callsImpl (name : String) (s : Val) (f : Fn) : Nat :=
  match s.elems? with
  | none => 0
  | some xs =>
    match name with
    | "any" => (seqFoldGoN f.pred anyBody false 0 xs).2
    | "all" => (seqFoldGoN f.pred allBody true 0 xs).2
    | "find" | "find?" | "locate" | "locate?" => callsUntil (fun o => !isOkFalse o) f.pred xs
    | "take" | "drop" => callsUntil (fun o => !isOkTrue o) f.pred xs
    | _ => callsUntil (fun o => !isOk o) f.call1 xs

/-- the reference: index of the deciding (or failing) element + 1, else the length -/
def callsSpec (name : String) (s : Val) (f : Fn) : Nat :=
  match s.elems? with
  | none => 0
  | some xs =>
    let decided : Out Bool → Bool :=
      match name with
      | "any" | "find" | "find?" | "locate" | "locate?" => fun o => !isOkFalse o
      | "all" | "take" | "drop" => fun o => !isOkTrue o
      | _ => fun _ => false
    match name with
    | "any" | "all" | "find" | "find?" | "locate" | "locate?" | "take" | "drop" =>
      match xs.findIdx? fun x => decided (f.pred x) with
      | some i => i + 1
      | none => xs.length
    | _ =>
      match xs.findIdx? fun x => !isOk (f.call1 x) with
      | some i => i + 1
      | none => xs.length

end Noulith.SeqLib
