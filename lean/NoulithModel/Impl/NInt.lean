/-
Impl model of src/nint.rs (`NInt`) and of the integer arms of src/nnum.rs + the integer builtin
registrations of src/lib.rs.  Mirrors the code's case splits: `small` is the `i64` fast path,
`big` is `NInt::Big(BigInt)`, which may hold ANY integer (also small ones).
External code modelled, not verified: num-bigint's `BigInt` `+ - * / % div_floor mod_floor pow gcd
lcm sqrt & | ^ ! << >>`, modelled as the exact operation on Lean's `Int`.
-/
import NoulithModel.Common

namespace Noulith

inductive NInt where
  | small (v : Int)   -- NInt::Small(i64); well-formed iff inI64 v
  | big (v : Int)     -- NInt::Big(BigInt); any integer
  deriving Repr, DecidableEq, Inhabited

namespace NInt

def val : NInt → Int
  | small v => v
  | big v => v

/-- representation invariant: a `Small` holds an `i64` -/
def WF : NInt → Prop
  | small v => inI64 v
  | big _ => True

def isBig : NInt → Bool
  | small _ => false
  | big _ => true

/-- `impl From<BigInt> for NInt`: normalise -/
def ofBigInt (v : Int) : NInt := if inI64 v then small v else big v

/-! #### two's-complement bit operations on `Int`, defined from `Nat` bit operations
(core Lean has no `Int.land`; `Theorems/C06.lean` proves these equal Mathlib's and the
`testBit` characterisation). `bnot x = -x - 1`. -/
def bnot (x : Int) : Int := -x - 1

/-- bits of `m` that are not in `n` (`m AND NOT n` on naturals): `m XOR (m AND n)` -/
def natDiff (m n : Nat) : Nat := m ^^^ (m &&& n)

def band (a b : Int) : Int :=
  if 0 ≤ a then
    if 0 ≤ b then ((a.toNat &&& b.toNat : Nat) : Int)
    else ((natDiff a.toNat (bnot b).toNat : Nat) : Int)                  -- a & ~nb
  else
    if 0 ≤ b then ((natDiff b.toNat (bnot a).toNat : Nat) : Int)
    else bnot (((bnot a).toNat ||| (bnot b).toNat : Nat) : Int)          -- ~(na | nb)

def bor (a b : Int) : Int :=
  if 0 ≤ a then
    if 0 ≤ b then ((a.toNat ||| b.toNat : Nat) : Int)
    else bnot ((natDiff (bnot b).toNat a.toNat : Nat) : Int)             -- ~(nb & ~a)
  else
    if 0 ≤ b then bnot ((natDiff (bnot a).toNat b.toNat : Nat) : Int)
    else bnot (((bnot a).toNat &&& (bnot b).toNat : Nat) : Int)

def bxor (a b : Int) : Int :=
  if 0 ≤ a then
    if 0 ≤ b then ((a.toNat ^^^ b.toNat : Nat) : Int)
    else bnot ((a.toNat ^^^ (bnot b).toNat : Nat) : Int)
  else
    if 0 ≤ b then bnot (((bnot a).toNat ^^^ b.toNat : Nat) : Int)
    else (((bnot a).toNat ^^^ (bnot b).toNat : Nat) : Int)

/-- bit `i` of the infinite two's-complement expansion of `x` -/
def tbit (x : Int) (i : Nat) : Bool :=
  if 0 ≤ x then x.toNat.testBit i else !((bnot x).toNat.testBit i)

/-! #### `impl_binary_checked!`: checked i64 fast path, BigInt fallback -/
def add : NInt → NInt → NInt
  | small a, small b => if inI64 (a + b) then small (a + b) else big (a + b)
  | x, y => big (x.val + y.val)

def sub : NInt → NInt → NInt
  | small a, small b => if inI64 (a - b) then small (a - b) else big (a - b)
  | x, y => big (x.val - y.val)

def mul : NInt → NInt → NInt
  | small a, small b => if inI64 (a * b) then small (a * b) else big (a * b)
  | x, y => big (x.val * y.val)

/-- `Rem::rem`: `i64::checked_rem` is `None` for a zero divisor and for `MIN % -1`; the fallback
is `BigInt % BigInt`, which panics on a zero divisor and is exact otherwise. -/
def rem : NInt → NInt → Out NInt
  | small a, small b =>
    if b ≠ 0 ∧ inI64 (Int.tdiv a b) then .ok (small (Int.tmod a b))
    else if b = 0 then .panic else .ok (big (Int.tmod a b))
  | x, y => if y.val = 0 then .panic else .ok (big (Int.tmod x.val y.val))

/-- `Div::div` (truncating); same shape as `rem` -/
def tdiv : NInt → NInt → Out NInt
  | small a, small b =>
    if b ≠ 0 ∧ inI64 (Int.tdiv a b) then .ok (small (Int.tdiv a b))
    else if b = 0 then .panic else .ok (big (Int.tdiv a b))
  | x, y => if y.val = 0 then .panic else .ok (big (Int.tdiv x.val y.val))

/-! #### `impl_binary!` for the bit operators: i64 operation on two smalls, BigInt otherwise -/
def and : NInt → NInt → NInt
  | small a, small b => small (band a b)
  | x, y => big (band x.val y.val)
def or : NInt → NInt → NInt
  | small a, small b => small (bor a b)
  | x, y => big (bor x.val y.val)
def xor : NInt → NInt → NInt
  | small a, small b => small (bxor a b)
  | x, y => big (bxor x.val y.val)

def neg (x : NInt) : NInt := ofBigInt (-x.val)          -- NInt::from(-self.into_bigint())
def not : NInt → NInt
  | small a => small (bnot a)
  | big a => big (bnot a)

/-! #### comparison, equality, hashing -/
/-- `PartialEq`: `Small` vs `Big` goes through `to_i64` -/
def beq : NInt → NInt → Bool
  | small a, small b => a == b
  | small a, big b => if inI64 b then a == b else false
  | big a, small b => if inI64 a then a == b else false
  | big a, big b => a == b

def cmp (x y : NInt) : Ordering := compare x.val y.val    -- both arms compare exact values

/-- the sequence of `Hasher` writes `Hash for NInt` performs: `i64 v` = `write_i64(v)`,
`bigint v` = the `BigInt` hash of a value outside the i64 range -/
inductive HashWrite where
  | i64 (v : Int)
  | bigint (v : Int)
  deriving Repr, DecidableEq

def hashWrites : NInt → List HashWrite
  | small a => [.i64 a]
  | big a => if inI64 a then [.i64 a] else [.bigint a]

/-! #### the `impl NInt` block -/
def divFloor (x y : NInt) : NInt := big (Int.fdiv x.val y.val)
def modFloor (x y : NInt) : NInt := big (Int.fmod x.val y.val)

def abs : NInt → NInt
  | small x => if x = -9223372036854775808 then big (-x) else small (if x < 0 then -x else x)  -- checked_abs
  | big x => big (if x < 0 then -x else x)

/-- `NInt::signum`.  Since the `fix:` commit for finding F1 the `Big` arm returns the sign of the
value (the pinned snapshot had the `Minus`/`Plus` arms swapped). -/
def signum : NInt → NInt
  | small a => small (if a > 0 then 1 else if a < 0 then -1 else 0)
  | big a => if a < 0 then small (-1) else if a = 0 then small 0 else small 1

/-- `a ^ n` computed so that the bases 0, 1, -1 take constant time for astronomically large exponents
(as num-bigint's `Pow<&BigUint>` does); `Theorems/C06.ipow_eq` proves it equal to `a ^ n` -/
def ipow (a : Int) (n : Nat) : Int :=
  if a = 0 then (if n = 0 then 1 else 0)
  else if a = 1 then 1
  else if a = -1 then (if n % 2 = 0 then 1 else -1)
  else a ^ n

/-- `pow_maybe_recip`: (reciprocal?, |base|^|exp|) -/
def powMaybeRecip (x y : NInt) : Bool × NInt :=
  if y.val = 0 then (false, small 1)
  else if 0 < y.val then (false, big (ipow x.val y.val.toNat))
  else (true, big (ipow x.val (-y.val).toNat))

def gcd (x y : NInt) : NInt := big (Int.gcd x.val y.val)
def lcm (x y : NInt) : NInt := big (Int.lcm x.val y.val)
/-- `BigInt::sqrt` (truncating; panics for negatives) – only reached with values ≥ 4 -/
def sqrt (x : NInt) : NInt := big (Nat.sqrt x.val.toNat)

def shl (x : NInt) (s : Nat) : NInt := big (x.val * 2 ^ s)
def shr (x : NInt) (s : Nat) : NInt := big (x.val >>> s)   -- arithmetic shift = floor division by 2^s

/-- the `loop` of `lazy_is_prime`, from candidate `f` (always ≡ 5 mod 6) with root bound `s` -/
def isPrimeLoop (n s : Nat) : Nat → Nat → Bool
  | 0, _ => true
  | fuel + 1, f =>
    if f > s then true
    else if n % f = 0 then false
    else if f + 2 > s then true
    else if n % (f + 2) = 0 then false
    else isPrimeLoop n s fuel (f + 6)

def lazyIsPrime (x : NInt) : Bool :=
  let n := x.val
  if n ≤ 1 then false
  else if n ≤ 3 then true
  else if Int.tmod n 2 = 0 ∨ Int.tmod n 3 = 0 then false
  else isPrimeLoop n.toNat (Nat.sqrt n.toNat) n.toNat 5

/-! #### `lazy_factorize` (nnum.rs) on a positive magnitude -/
/-- divide `a` by `f` as often as possible: (remaining, multiplicity) -/
def stripFactor (f : Nat) : Nat → Nat → Nat → Nat × Nat
  | 0, a, m => (a, m)
  | fuel + 1, a, m => if f ≤ 1 then (a, m) else if a % f = 0 ∧ a ≠ 0 then stripFactor f fuel (a / f) (m + 1) else (a, m)

structure FState where
  a : Nat
  acc : List (Int × Nat)

/-- the closure `test`: returns (done?, state) -/
def factorTest (st : FState) (f : Nat) : Bool × FState :=
  if f * f > st.a then
    (true, if st.a > 1 then { st with acc := st.acc ++ [((st.a : Int), 1)] } else st)
  else
    let (a', m) := stripFactor f st.a st.a 0
    (false, { a := a', acc := if m > 0 then st.acc ++ [((f : Int), m)] else st.acc })

def factorLoop : Nat → FState → Nat → List (Int × Nat)
  | 0, st, _ => st.acc
  | fuel + 1, st, f =>
    match factorTest st f with
    | (true, st1) => st1.acc
    | (false, st1) =>
      match factorTest st1 (f + 2) with
      | (true, st2) => st2.acc
      | (false, st2) => factorLoop fuel st2 (f + 6)

def lazyFactorize (x : Int) : List (Int × Nat) :=
  if x = 0 then []
  else
    let acc0 : List (Int × Nat) := if x < 0 then [(-1, 1)] else []
    let st : FState := { a := x.natAbs, acc := acc0 }
    match factorTest st 2 with
    | (true, st1) => st1.acc
    | (false, st1) =>
      match factorTest st1 3 with
      | (true, st2) => st2.acc
      | (false, st2) => factorLoop x.natAbs st2 5

end NInt

/-! ### What a program sees: the integer builtins (lib.rs registrations + nnum.rs int arms)
Results that leave the integers (`^` with a negative exponent, shifts by a non-`usize`) are part of
the observable behaviour and are represented explicitly. -/
inductive IRes where
  | int (n : NInt)
  | ratRecip (den : Int)        -- the rational 1/den produced by `^` with a negative exponent
  | nan                          -- `NNum::Float(NAN)`
  | inf                          -- `NNum::Float(+INFINITY)`
  | list (xs : List (Int × Nat)) -- factorize
  deriving Repr, DecidableEq

namespace IntOps
open NInt

def binop (op : String) (a b : NInt) : Out IRes :=
  match op with
  | "+" => .ok (.int (add a b))
  | "-" => .ok (.int (sub a b))
  | "*" => .ok (.int (mul a b))
  -- `%`: since the `fix:` commit for F9 the registration guards the zero divisor like `//`
  | "%" => if b.val = 0 then .throw else (rem a b).map .int
  | "//" => if b.val = 0 then .throw else .ok (.int (divFloor a b))
  | "%%" => if b.val = 0 then .throw else .ok (.int (modFloor a b))
  | "/!" =>
    if b.val = 0 then .throw
    else if (modFloor a b).val ≠ 0 then .throw else .ok (.int (divFloor a b))
  | "^" =>
    match powMaybeRecip a b with
    | (false, r) => .ok (.int r)
    -- since the `fix:` commit for F10 a zero base with a negative exponent is float infinity (like 1/0)
    | (true, r) => if r.val = 0 then .ok .inf else .ok (.ratRecip r.val)
  | "&" => .ok (.int (and a b))
  | "|" => .ok (.int (or a b))
  | "~" => .ok (.int (xor a b))
  | "<<" => if inUsize b.val then .ok (.int (shl a b.val.toNat)) else .ok .nan
  | ">>" => if inUsize b.val then .ok (.int (shr a b.val.toNat)) else .ok .nan
  | "gcd" => .ok (.int (gcd a b))
  | "lcm" => .ok (.int (lcm a b))
  | "==" => .ok (.int (small (if beq a b then 1 else 0)))
  | "!=" => .ok (.int (small (if beq a b then 0 else 1)))
  | "<" => .ok (.int (small (if cmp a b == .lt then 1 else 0)))
  | "<=" => .ok (.int (small (if cmp a b != .gt then 1 else 0)))
  | ">" => .ok (.int (small (if cmp a b == .gt then 1 else 0)))
  | ">=" => .ok (.int (small (if cmp a b != .lt then 1 else 0)))
  | "<=>" => .ok (.int (small (match cmp a b with | .lt => -1 | .eq => 0 | .gt => 1)))
  | _ => .throw

def unop (op : String) (a : NInt) : Out IRes :=
  match op with
  | "neg" => .ok (.int (neg a))
  | "not" => .ok (.int (not a))
  | "abs" => .ok (.int (abs a))
  | "signum" => .ok (.int (signum a))
  | "even" => .ok (.int (small (if (modFloor a (small 2)).val = 0 then 1 else 0)))
  | "odd" => .ok (.int (small (if (modFloor a (small 2)).val = 1 then 1 else 0)))
  | "is_prime" => .ok (.int (small (if lazyIsPrime a then 1 else 0)))
  | "factorize" => .ok (.list (NInt.lazyFactorize a.val))
  | _ => .throw

end IntOps
end Noulith
