/-
C13 — the reference side of `call`: the same table of builtin names as Impl/SeqLibVal.lean, with
every algorithm replaced by its one-line specification from Spec/SeqLibSpec.lean.
-/
import NoulithModel.Impl.SeqLibVal
import NoulithModel.Spec.SeqLibSpec

namespace Noulith.SeqLib
open Noulith

def specLib : Lib where
  filter p neg xs := SeqSpec.filterE p neg xs
  sortWith := SeqSpec.sortE
  sortedOn := SeqSpec.sortOnE
  unique xs := .ok (SeqSpec.uniqueBy id xs)
  reverse xs := xs.reverse
  grouped := SeqSpec.chunksE
  groupedBy := SeqSpec.groupByE
  classified key xs := SeqSpec.groupAllE key xs
  frequencies xs := .ok (SeqSpec.frequencies id xs)
  windowed := SeqSpec.window
  prefixes := SeqSpec.prefixes
  suffixes := SeqSpec.suffixes
  takeWhile := SeqSpec.takeWhileE
  dropWhile := SeqSpec.dropWhileE
  map := SeqSpec.mapE
  each := SeqSpec.eachE
  flatMap := SeqSpec.flatMapE
  partition := SeqSpec.partitionE
  pairwise := SeqSpec.pairwiseE
  enumerate := SeqSpec.enumerate
  find := SeqSpec.findE
  locate := SeqSpec.locateE
  count := SeqSpec.countE
  any := SeqSpec.anyE
  all := SeqSpec.allE
  sumLike := SeqSpec.sumE
  extremum := SeqSpec.extremumE
  foldFrom := SeqSpec.foldlE
  fold1 := SeqSpec.fold1E
  scanFrom := SeqSpec.scanlE
  scan1 := SeqSpec.scan1E
  zip f its := if its.isEmpty then .throw else SeqSpec.mapE f (SeqSpec.zip its)
  zipLongest f its := SeqSpec.mapE f (SeqSpec.zipLongest its)
  product := SeqSpec.product
  repeatSeq := SeqSpec.repeatSeq
  power := SeqSpec.power
  subsequences := SeqSpec.subsequences
  combinations := SeqSpec.combinations
  permutations := SeqSpec.permutations
  join := SeqSpec.join
  split := SeqSpec.split
  words := SeqSpec.words isWs
  lines := SeqSpec.lines '\n'
  uncons xs := match xs.head? with | some h => some (h, xs.tail) | none => none
  unsnoc xs := match xs.getLast? with | some e => some (xs.dropLast, e) | none => none
  findSub := SeqSpec.findSub
  splitn := SeqSpec.splitn
  rsplit := SeqSpec.rsplit
  rsplitn := SeqSpec.rsplitn
  merge := SeqSpec.mergeE
  joinE := SeqSpec.joinE

end Noulith.SeqLib
