/-
Spec for C12 — patterns in `for` clauses.

The documented reading of `for (p <- xs) body`: **for each element, in order**: the pattern `p` is
evaluated in the store the loop has produced so far (its annotations and callees are expressions
like any other and mean what they mean *now*); the element is matched against the resulting
pattern in a scope of its own (the reference matcher `specAssign`, i.e. the relation `Matches`
followed by the declarations); the rest of the loop runs in that scope; the scope ends.  The loop
stops at the first element whose pattern evaluation, match or body raises.  An empty iteratee
evaluates nothing.

The loop is a left fold of that single step over the elements.  Expressions and body statements
are taken from the ambient evaluator (`evalPE`, `execB`): they are not this property's subject.

Core Lean only.
-/
import NoulithModel.Impl.PatternFor
import NoulithModel.Spec.Match

namespace Noulith.C12

/-- an interpreter result read as "environment afterwards, completed without raising" -/
def okB (r : Env × Out Unit) : Env × Bool :=
  (r.1, match r.2 with | .ok _ => true | _ => false)

/-- one element: evaluate the pattern now, match, continue, leave the scope -/
def specElement (k : Env → Env × Bool) (pat : UPat) (e : Env) (x : Val) : Env × Bool :=
  match evalU ([] :: e) pat with
  | (e1, .ok p) =>
    (match specAssign e1 p (some .any) x with
     | some e2 => ((k e2).1.tail, (k e2).2)
     | none => (e1.tail, false))           -- the element is refused: nothing of the scope survives
  | (e1, _) => (e1.tail, false)

/-- the elements, in order, until the first one that raises -/
def specItems (k : Env → Env × Bool) (pat : UPat) (e : Env) (items : List Val) : Env × Bool :=
  items.foldl (fun st x => if st.2 then specElement k pat st.1 x else st) (e, true)

def specClauses (body : List BStmt) : List Clause → Env → Env × Bool
  | [], e => okB (runBody e body)
  | c :: cs, e =>
    match evalIter e c.iter with
    | .ok v =>
      (match clauseItems c.item v with
       | some items => specItems (fun e' => specClauses body cs e') c.pat e items
       | none => (e, false))
    | _ => (e, false)

end Noulith.C12
