/-
Spec for C12 — what binding a value to a pattern *means*, stated without the interpreter's
machinery (no pre-pass counters, no drains, no environment threading through failures).

  * `HasType v T`        the type classification `v is T` has to implement;
  * `Arranged ps items arr`  how a sequence of `items` is distributed over the sub-patterns `ps`
                         (equal length, except around one splat; trailing defaults fill);
  * `Inverts f known v parts`  the operator patterns as inverse images of their constructors;
  * `Matches p T v β`    the relational matcher for declaring contexts (`:=`, `switch`, `catch`,
                         `for`, lambda parameters): pattern, ambient declared type, value, bindings;
  * `specAssign`         the executable reference used in the differential run: matching is a
                         *transaction* (an alternative of `or` that fails leaves nothing behind);
  * `specSwitch`         the first arm that matches.

Core Lean only.
-/
import NoulithModel.Impl.Pattern

namespace Noulith.C12

/-! ## Types -/

/-- `v is T`: the classification by `type(v)` (base types), the numeric tower (`number`), the
constructors (`struct`), callables (`func` also covers type objects) and `satisfying` predicates -/
def HasType (v : Val) : Ty → Prop
  | .any => True
  | .number => typeOf v = .int ∨ typeOf v = .rational ∨ typeOf v = .float ∨ typeOf v = .complex
  | .func => typeOf v = .func ∨ typeOf v = .type
  | .struct s => ∃ fs, v = .inst s fs
  | .satisfying p => predEval p v = .ok true
  | T => typeOf v = T

/-- executable form of `HasType` (a `satisfying` predicate may itself raise) -/
def specIs (v : Val) : Ty → Out Bool
  | .any => .ok true
  | .number => .ok (typeOf v == .int || typeOf v == .rational || typeOf v == .float || typeOf v == .complex)
  | .func => .ok (typeOf v == .func || typeOf v == .type)
  | .struct s => .ok (match v with | .inst s' _ => s == s' | _ => false)
  | .satisfying p => predEval p v
  | T => .ok (typeOf v == T)

/-! ## Sequences: equal length except around one splat, trailing defaults fill -/

def defaultOf : Pat → Option Val
  | .withDefault _ d => some d
  | _ => none

/-- no item of `ps` is a splat -/
def NoSplat (ps : List Pat) : Prop := ∀ p ∈ ps, isSplatItem p = false

/-- `ds` are the defaults of the patterns `qs`, all of which have one -/
def DefaultsOf (qs : List Pat) (ds : List Val) : Prop := qs.map defaultOf = ds.map some

/-- `arr` distributes `items` over the sub-patterns `ps`, one entry per sub-pattern.
Without a splat the lengths must agree once the patterns beyond the supplied items have
contributed their defaults; with exactly one splat the items before and after it are matched
positionally and the splat receives the (possibly empty) list in between. -/
def Arranged (ps : List Pat) (items arr : List Val) : Prop :=
  (NoSplat ps ∧ ∃ ds, DefaultsOf (ps.drop items.length) ds ∧ arr = items ++ ds ∧ arr.length = ps.length)
  ∨ (∃ pre s post a mid c ds,
      ps = pre ++ s :: post ∧ isSplatItem s = true ∧ NoSplat pre ∧ NoSplat post ∧
      DefaultsOf ((pre ++ post).drop items.length) ds ∧
      items ++ ds = a ++ mid ++ c ∧ a.length = pre.length ∧ c.length = post.length ∧
      arr = a ++ Val.list mid :: c)

/-- positions of the splat items of `ps`, counted from `i` -/
def splatIdxs : List Pat → Nat → List Nat
  | [], _ => []
  | p :: ps, i => if isSplatItem p then i :: splatIdxs ps (i + 1) else splatIdxs ps (i + 1)

/-- executable form of `Arranged` -/
def specArrange (ps : List Pat) (items : List Val) : Option (List Val) :=
  match splatIdxs ps 0 with
  | [] =>
    match ((ps.drop items.length).mapM defaultOf) with
    | some ds => if (items ++ ds).length = ps.length then some (items ++ ds) else none
    | none => none
  | [si] =>
    let qs := ps.take si ++ ps.drop (si + 1)
    match ((qs.drop items.length).mapM defaultOf) with
    | some ds =>
      let filled := items ++ ds
      if filled.length < qs.length then none
      else
        let nPost := ps.length - (si + 1)
        some (filled.take si ++ Val.list ((filled.drop si).take (filled.length - si - nPost)) ::
              filled.drop (filled.length - nPost))
    | none => none
  | _ => none

/-- the (coherent) sequence view of a value: its elements in iteration order.  Pattern matching
counts a string's characters. -/
def seqView (v : Val) : Option (List Val) := seqItems v

/-! ## Operator patterns: inverse images of the constructors -/

/-- `parts` are the operands the pattern `f(…)` must bind when matched against `v`, given which
operands are literals (`known`). -/
def Inverts (f : Bi) (known : List (Option Val)) (v : Val) (parts : List Val) : Prop :=
  match f with
  | .plus =>
    -- N+K: `v = a + d` with the literal `a` on either side and `d ≥ 0` (exact numbers: ints, rationals)
    (∃ a d x, known = [some a, none] ∧ parts = [a, d] ∧ construct .plus [a, d] = .ok x ∧ veq x v = true ∧
        isRatVal d = (isRatVal v || isRatVal a) ∧ (∃ q, exactNum d = some q ∧ q ≥ 0) ∧ (∃ qv, exactNum v = some qv))
    ∨ (∃ a d x, known = [none, some a] ∧ parts = [d, a] ∧ construct .plus [d, a] = .ok x ∧ veq x v = true ∧
        isRatVal d = (isRatVal v || isRatVal a) ∧ (∃ q, exactNum d = some q ∧ q ≥ 0) ∧ (∃ qv, exactNum v = some qv))
  | .minus => ∃ x, known.length = 1 ∧ parts = [x] ∧ negVal v = .ok x
  | .times =>
    -- `v = a * k` with the literal `a ≠ 0` on either side and `k` a whole number
    (∃ a k x, known = [some a, none] ∧ parts = [a, k] ∧ construct .times [a, k] = .ok x ∧ veq x v = true ∧
        isRatVal k = (isRatVal v || isRatVal a) ∧ isNonzero a = true ∧ (∃ q, exactNum k = some q ∧ q.den = 1) ∧ (∃ qv, exactNum v = some qv))
    ∨ (∃ a k x, known = [none, some a] ∧ parts = [k, a] ∧ construct .times [k, a] = .ok x ∧ veq x v = true ∧
        isRatVal k = (isRatVal v || isRatVal a) ∧ isNonzero a = true ∧ (∃ q, exactNum k = some q ∧ q.den = 1) ∧ (∃ qv, exactNum v = some qv))
  | .divide =>
    -- numerator and denominator in lowest terms, denominator positive
    ∃ n d q, exactNum v = some q ∧ parts = [.int n, .int d] ∧ d > 0 ∧ q = mkRat n d.toNat ∧ Nat.Coprime n.natAbs d.toNat
  | .prepend => ∃ h t, parts = [h, t] ∧ uncons v = .ok (some (h, t))
  | .append => ∃ t l, parts = [t, l] ∧ unsnoc v = .ok (some (t, l))
  | .cmp ops =>
    -- the open slots are filled from `v` (the value itself when there is one slot, its elements
    -- otherwise) and the whole chain must hold
    ops.length + 1 = known.length ∧
    ∃ rvs, (if (known.filter Option.isNone).length = 1 then rvs = [v]
            else (known.filter Option.isNone).length ≠ 0 ∧ seqItems v = some rvs) ∧
      fillSlots known rvs = some parts ∧ cmpChain ops parts = .ok true
  | .other _ => False

/-! ## The relational matcher (declaring contexts) -/

abbrev Binding := List (Nat × Ty × Val)

mutual
/-- `Matches p T v β`: in a context that declares with ambient type `T`, pattern `p` accepts `v`
and binds exactly `β` (names in left-to-right order, each with its declared type). -/
def Matches : Pat → Ty → Val → Binding → Prop
  | .underscore, T, v, β => isType T v = .ok true ∧ β = []
  | .ident x ixs, T, v, β => ixs = [] ∧ isType T v = .ok true ∧ β = [(x, T, v)]
  | .anno p none, _, v, β => Matches p .any v β
  | .anno p (some t), _, v, β => ∃ T', toType t = .ok T' ∧ Matches p T' v β
  | .withDefault p _, T, v, β => Matches p T v β
  | .seq ps d, T, v, β =>
    (d = true → isType T v = .ok true) ∧
    ∃ items arr, seqView v = some items ∧ Arranged ps items arr ∧
      MatchesItems ps (if d then .any else T) arr β
  | .splat _, _, _, _ => False
  | .or a b, T, v, β => Matches a T v β ∨ ((∀ β', ¬ Matches a T v β') ∧ Matches b T v β)
  | .and a b, T, v, β => ∃ β1 β2, Matches a T v β1 ∧ Matches b T v β2 ∧ β = β1 ++ β2
  | .lit l, _, v, β => veq l v = true ∧ β = []
  | .destr f args, T, v, β =>
    ∃ parts arr, Inverts f (args.map knownOf) v parts ∧ parts.length = args.length ∧
      Arranged args parts arr ∧ MatchesItems args T arr β
  | .destrStruct sid args, T, v, β =>
    ∃ fields arr, v = .inst sid fields ∧ Arranged args fields arr ∧ MatchesItems args T arr β
/-- sub-patterns against their arranged values, left to right; the splat item matches its inner
pattern (under its own annotation, if it has one) against the list it received -/
def MatchesItems : List Pat → Ty → List Val → Binding → Prop
  | [], _, [], β => β = []
  | p :: ps, T, v :: vs, β =>
    ∃ β1 β2, MatchesItems ps T vs β2 ∧ β = β1 ++ β2 ∧
      (match p with
       | .splat inner => Matches inner T v β1
       | .anno (.splat inner) none => Matches inner .any v β1
       | .anno (.splat inner) (some t) => ∃ T', toType t = .ok T' ∧ Matches inner T' v β1
       | q => Matches q T v β1)
  | _, _, _, _ => False
end

/-- declare the bindings one after the other in the innermost frame; a name that frame already
holds (from before, or from earlier in the same pattern) is refused -/
def declareAll (e : Env) : Binding → Option Env
  | [] => some e
  | (x, T, v) :: β =>
    match e.insert x T v with
    | (e', .ok ()) => declareAll e' β
    | _ => none

/-! ## The executable reference: matching as a transaction -/

def outToOption {α} : Out α → Option α
  | .ok a => some a
  | _ => none

mutual
/-- `specAssign e p rt v`: the environment after binding `v` to `p`, or `none` when the pattern does
not accept the value (the statement raises).  `rt = some T` declares with ambient type `T`,
`rt = none` assigns to existing variables under their declared types.  An `or` tries its
alternatives in order, each against the *original* environment. -/
def specAssign (e : Env) : Pat → Option Ty → Val → Option Env
  | .underscore, rt, v =>
    match rt with
    | some T => if isType T v = .ok true then some e else none
    | none => some e
  | .ident x ixs, rt, v =>
    match rt with
    | some T => if ixs.isEmpty ∧ isType T v = .ok true then outToOption (match e.insert x T v with | (e', r) => r.map fun _ => e') else none
    | none => (match assignRespectingType e x ixs v with | (e', .ok ()) => some e' | _ => none)
  | .anno p none, _, v => specAssign e p (some .any) v
  | .anno p (some t), _, v =>
    match toType t with
    | .ok T' => specAssign e p (some T') v
    | _ => none
  | .withDefault p _, rt, v => specAssign e p rt v
  | .seq ps d, rt, v =>
    let ok : Bool := match d, rt with
      | true, some T => isType T v = .ok true
      | _, _ => true
    if ok then
      match seqView v with
      | some items =>
        match specArrange ps items with
        | some arr => specAssignItems e ps (if d then rt.map fun _ => .any else rt) arr
        | none => none
      | none => none
    else none
  | .splat _, _, _ => none
  | .or a b, rt, v =>
    match specAssign e a rt v with
    | some e' => some e'
    | none => specAssign e b rt v
  | .and a b, rt, v =>
    match specAssign e a rt v with
    | some e' => specAssign e' b rt v
    | none => none
  | .lit l, _, v => if veq l v then some e else none
  | .destr f args, rt, v =>
    match destructure f v (args.map knownOf) with
    | .ok parts =>
      if parts.length = args.length then
        match specArrange args parts with
        | some arr => specAssignItems e args rt arr
        | none => none
      else none
    | _ => none
  | .destrStruct sid args, rt, v =>
    match v with
    | .inst sid' fields =>
      if sid = sid' then
        match specArrange args fields with
        | some arr => specAssignItems e args rt arr
        | none => none
      else none
    | _ => none
def specAssignItems (e : Env) : List Pat → Option Ty → List Val → Option Env
  | [], _, [] => some e
  | p :: ps, rt, v :: vs =>
    let r : Option Env :=
      match p with
      | .splat inner => specAssign e inner rt v
      | .anno (.splat inner) none => specAssign e inner (some .any) v
      | .anno (.splat inner) (some t) =>
        (match toType t with
         | .ok T' => specAssign e inner (some T') v
         | _ => none)
      | q => specAssign e q rt v
    match r with
    | some e' => specAssignItems e' ps rt vs
    | none => none
  | _, _, _ => none
end

/-- `switch`: the first arm whose pattern accepts the scrutinee (in a fresh frame, declaring with
type `anything`), and the environment its body sees; `none` = "no case matched" is raised -/
def specSwitch (e : Env) (s : Val) : List Pat → Nat → Option (Nat × Env)
  | [], _ => none
  | p :: arms, i =>
    match specAssign ([] :: e) p (some .any) s with
    | some ee => some (i, ee)
    | none => specSwitch e s arms (i + 1)

/-- lambda parameters: the argument list against the parameter patterns, in a fresh frame -/
def specBindParams (e : Env) (params : List Pat) (args : List Val) : Option Env :=
  match specArrange params args with
  | some arr => specAssignItems ([] :: e) params (some .any) arr
  | none => none

end Noulith.C12
