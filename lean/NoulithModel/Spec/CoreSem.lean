/-
C05 — the SPECIFICATION layer of the core language: a relational big-step semantics.

`Impl/CoreEval.lean` is an executable interpreter: eleven mutually recursive functions that count down a
fuel.  This file states the documented semantics (README.md of the interpreter: "Things that introduce
scopes: functions, loops, `switch`, `try`"; "`:=` declares"; "short-circuiting `and` and `or` … `coalesce` …
only takes its RHS if its LHS is precisely `null`"; "`break` `continue` `return` work … break out of multiple
loops by repeating it"; `for` clauses `x <- xs`, `i, x <<- xs`, `x := y`, `if g`, `yield`, `yield … into`)
as INFERENCE RULES, one inductive relation per syntactic judgment, without any fuel:

    BigStep  st env e        r st'      expression `e`, evaluated in scope `env` from state `st`, ends as `r` in `st'`
    SwitchStep st env v arms r st'      the arms of a `switch` on the value `v`
    SeqStep  st env es       r st'      `e₁; e₂; …`
    ListStep st env es       rs st'     `e₁, e₂, …` left to right (list items, call arguments, defaults)
    IntoStep st env into     c st'      the `into f` clause of a `yield`
    WhileStep st env c b     r st'      `while (c) b`
    ForStep  st env its body acc r st' acc'     the clauses of a `for`, left to right
    ItemsStep st env p items its body acc r st' acc'   one `p <- …` clause over the remaining items
    BodyStep st env body acc r st' acc'  the body of a `for` (executed / `yield e` / `yield k: v`)
    FinishStep st env post d done r st'  finishing the per-key folds of `yield k: v`
    CallStep st env f args   r st'      calling the value `f`

A state is a store of scopes (frames with a parent link), the printed output and the table of frozen values;
a result is a value or one of the four exits `brk n v? | cont n | ret v | thrown v`.  No rule produces
`Res.fuelOut`, and a program that loops forever simply has no derivation.

The rules use the total, non-recursive helpers of the store (`State.lookup`, `State.assign`, `bindPat`, …),
of the builtin operators (`applyOp`, `indexVal`, `Cata.give`, …) and of parameter binding (`bindArgs`,
`defaultsInPlay`, `checkBinds`) — plain functions with their own theorems in Theorems/C05.lean — but never the
evaluator.  Theorems/C05Rel.lean proves that the evaluator refines this relation (soundness), that every
derivation is found by the evaluator with enough fuel (completeness), and the documented laws as corollaries.
Core Lean only.
-/
import NoulithModel.Impl.CoreEval

set_option autoImplicit true
set_option relaxedAutoImplicit true

namespace Noulith.Core

/-! ### vocabulary of the rules -/

/-- the four exits: `break`, `continue`, `return`, `throw` (a result that is not a value) -/
def Res.isExit : Res → Bool
  | .brk _ _ | .cont _ | .ret _ | .thrown _ => true
  | _ => false

def Res.isThrown : Res → Bool
  | .thrown _ => true
  | _ => false

def Res.isRet : Res → Bool
  | .ret _ => true
  | _ => false

/-- an iteration of `while` that lets the loop go on: the body produced a value, or `continue` (level 0) -/
def Res.nextIteration : Res → Bool
  | .val _ | .cont 0 => true
  | _ => false

/-- exits that a `while` loop does not touch -/
def Res.isRetOrThrown : Res → Bool
  | .ret _ | .thrown _ => true
  | _ => false

/-- How a `for` loop whose clauses stopped with `r` looks from outside ("a loop absorbs level 0 and
decrements the rest"): it ran to completion (or was left by a valueless `break`), it was left by
`break v`, or the exit travels on — `break`/`continue` with one level fewer, everything else unchanged. -/
inductive LoopEnd where
  | completed
  | broke (v : Val)
  | exit (r : Res)

def loopEnd : Res → LoopEnd
  | .val _ | .brk 0 none => .completed
  | .brk 0 (some v) => .broke v
  | .brk (n + 1) v => .exit (.brk n v)
  | .cont (n + 1) => .exit (.cont n)
  | r => .exit r

/-- bind the pattern `p` to `v` by DECLARING its names in scope `env` (`:=`, loop variables, `catch` and
`switch` patterns): `(matched?, state)`; a name that already exists in `env` itself makes the match fail -/
def bindPat (st : State) (env : Nat) (p : Pat) (v : Val) : Bool × State :=
  declarePat (patDepth p + 1) st env p v

/-- `x = v`: overwrite the NEAREST ENCLOSING declaration of `x` seen from `env`; `none` if there is no
declaration (nothing is ever declared by `=`) or the declared type refuses `v` -/
def State.assign (st : State) (env : Nat) (x : String) (v : Val) : Option State :=
  match assignVar st.frames (st.frames.size + 1) env x v with
  | some fs => some { st with frames := fs }
  | none => none

/-- the first half of `x op= e`: the slot of the nearest enclosing declaration is emptied -/
def State.drop (st : State) (env : Nat) (x : String) : Option State :=
  match dropVar st.frames (st.frames.size + 1) env x with
  | some fs => some { st with frames := fs }
  | none => none

/-- what a name denotes in scope `env`: the nearest enclosing variable, else a builtin -/
def scopeLook (st : State) (env : Nat) : String → Option Val := fun x =>
  match st.lookup env x with
  | some v => some v
  | none => if builtinNames.contains x then some (.builtin x) else none

/-- functions are not valid dictionary keys -/
def Val.isFunc : Val → Bool
  | .closure .. | .builtin _ => true
  | _ => false

/-- the catamorphism a value used after `into` stands for, if any -/
def cataOfVal : Val → Option Cata
  | .builtin name => cataOfBuiltin name
  | _ => none

/-- the fold each key of `yield k: v [into f]` starts with: without `into` the last value wins; with a
catamorphism `into` that catamorphism; with any other function the values are collected into a list (to which
the function is applied at the end) -/
def itemCata (into : Option Expr) (cata0 : Cata) (post : Option Val) : Cata :=
  match into, post with
  | none, _ => .last none
  | some _, some _ => .list []
  | some _, none => cata0

/-- without a splat the number of arguments plus defaults in play must be the number of parameters
(checked before any default is evaluated) -/
def arityRefused (params : List Param) (nargs : Nat) (inPlay : List Expr) : Bool :=
  !params.any Param.isSplat && params.length != nargs + inPlay.length

/-- bind the parameters in the call's scope `ee`, left to right, each annotated one after its type check:
`none` = the arguments do not fit the parameter list; `some (false, st')` = a type check failed (the earlier
parameters are bound in `st'`); `some (true, st')` = all bound -/
def bindParams (st : State) (ee : Nat) (params : List Param) (tvs args dvs : List Val) : Option (Bool × State) :=
  match bindArgs params args dvs with
  | none => none
  | some binds =>
    match st.frames[ee]? with
    | none => none
    | some fr =>
      match checkBinds (annSlots params tvs) binds [] [] with
      | (ok, vars, tys) =>
        some (ok, { st with frames := st.frames.setIfInBounds ee { fr with vars := vars, tys := tys } })

/-- `sum` of a list -/
def sumVals (xs : List Val) : Option Val :=
  xs.foldl (fun acc x => match acc with
    | some a => (match applyOp "+" a x with | .ok v => some v | .raise => none)
    | none => none) (some (.int 0))

/-- the pure builtins of the vocabulary (everything but `print`): `len`, `sum`, and the operators called in
function form (`+(a, b)`; unary `-(a)` negates) -/
def callBuiltin (name : String) (args : List Val) : OpRes :=
  match name with
  | "len" =>
    match args with
    | [.list xs] => .ok (.int xs.length)
    | [.str s] => .ok (.int s.utf8ByteSize)
    | [.dict kvs] => .ok (.int kvs.length)
    | _ => .raise
  | "sum" =>
    match args with
    | [.list xs] => (match sumVals xs with | some v => .ok v | none => .raise)
    | _ => .raise
  | name =>
    if opNames.contains name then
      match args with
      | [a, b] => applyOp name a b
      | [.int a] => if name = "-" then .ok (.int (-a)) else .raise
      | _ => .raise
    else .raise

/-! ### the rules -/

mutual

  /-- `BigStep st env e r st'`: expression `e` in scope `env` -/
  inductive BigStep : State → Nat → Expr → Res → State → Prop where
    /- literals and names -/
    | null : BigStep st env .null (.val .null) st
    | int : BigStep st env (.int n) (.val (.int n)) st
    | str : BigStep st env (.str s) (.val (.str s)) st
    | frozen : st.frozenTab[i]? = some v → BigStep st env (.frozen i) (.val v) st
    | frozen_missing : st.frozenTab[i]? = none → BigStep st env (.frozen i) (.thrown .err) st
    /-- a name denotes the nearest enclosing declaration, seen from the scope the expression is in -/
    | ident : st.lookup env x = some v → BigStep st env (.ident x) (.val v) st
    | ident_builtin : st.lookup env x = none → builtinNames.contains x = true →
        BigStep st env (.ident x) (.val (.builtin x)) st
    | ident_undefined : st.lookup env x = none → builtinNames.contains x = false →
        BigStep st env (.ident x) (.thrown .err) st
    | list : ListStep st env xs (.ok vs) st1 → BigStep st env (.list xs) (.val (.list vs)) st1
    | list_exit : ListStep st env xs (.stop r) st1 → BigStep st env (.list xs) r st1
    /- operators, indexing: left to right -/
    | op : BigStep st env a (.val va) st1 → BigStep st1 env b (.val vb) st2 → applyOp name va vb = .ok v →
        BigStep st env (.op name a b) (.val v) st2
    | op_raise : BigStep st env a (.val va) st1 → BigStep st1 env b (.val vb) st2 → applyOp name va vb = .raise →
        BigStep st env (.op name a b) (.thrown .err) st2
    | op_exit_left : BigStep st env a r st1 → r.isExit = true → BigStep st env (.op name a b) r st1
    | op_exit_right : BigStep st env a (.val va) st1 → BigStep st1 env b r st2 → r.isExit = true →
        BigStep st env (.op name a b) r st2
    | index : BigStep st env a (.val va) st1 → BigStep st1 env i (.val vi) st2 → indexVal va vi = .ok v →
        BigStep st env (.index a i) (.val v) st2
    | index_raise : BigStep st env a (.val va) st1 → BigStep st1 env i (.val vi) st2 → indexVal va vi = .raise →
        BigStep st env (.index a i) (.thrown .err) st2
    | index_exit_left : BigStep st env a r st1 → r.isExit = true → BigStep st env (.index a i) r st1
    | index_exit_right : BigStep st env a (.val va) st1 → BigStep st1 env i r st2 → r.isExit = true →
        BigStep st env (.index a i) r st2
    /- calls: the function, then the arguments left to right, then the call -/
    | call : BigStep st env f (.val vf) st1 → ListStep st1 env args (.ok vs) st2 → CallStep st2 env vf vs r st3 →
        BigStep st env (.call f args) r st3
    | call_exit_fn : BigStep st env f r st1 → r.isExit = true → BigStep st env (.call f args) r st1
    | call_exit_args : BigStep st env f (.val vf) st1 → ListStep st1 env args (.stop r) st2 →
        BigStep st env (.call f args) r st2
    /- short-circuit `and` / `or` / `coalesce`: the result is the deciding operand; the right operand is
       evaluated only when the left one does not decide -/
    | and_short : BigStep st env a (.val va) st1 → va.truthy = false → BigStep st env (.and_ a b) (.val va) st1
    | and_right : BigStep st env a (.val va) st1 → va.truthy = true → BigStep st1 env b r st2 →
        BigStep st env (.and_ a b) r st2
    | and_exit : BigStep st env a r st1 → r.isExit = true → BigStep st env (.and_ a b) r st1
    | or_short : BigStep st env a (.val va) st1 → va.truthy = true → BigStep st env (.or_ a b) (.val va) st1
    | or_right : BigStep st env a (.val va) st1 → va.truthy = false → BigStep st1 env b r st2 →
        BigStep st env (.or_ a b) r st2
    | or_exit : BigStep st env a r st1 → r.isExit = true → BigStep st env (.or_ a b) r st1
    | coalesce_short : BigStep st env a (.val va) st1 → va ≠ .null → BigStep st env (.coalesce a b) (.val va) st1
    | coalesce_right : BigStep st env a (.val .null) st1 → BigStep st1 env b r st2 →
        BigStep st env (.coalesce a b) r st2
    | coalesce_exit : BigStep st env a r st1 → r.isExit = true → BigStep st env (.coalesce a b) r st1
    /- sequencing, conditional -/
    | seq : SeqStep st env xs (.val v) st1 → BigStep st env (.seq xs semi) (.val (if semi then .null else v)) st1
    | seq_exit : SeqStep st env xs r st1 → r.isExit = true → BigStep st env (.seq xs semi) r st1
    | ite_true : BigStep st env c (.val vc) st1 → vc.truthy = true → BigStep st1 env t r st2 →
        BigStep st env (.ite c t e) r st2
    | ite_false : BigStep st env c (.val vc) st1 → vc.truthy = false → BigStep st1 env e r st2 →
        BigStep st env (.ite c t (some e)) r st2
    | ite_false_no_else : BigStep st env c (.val vc) st1 → vc.truthy = false →
        BigStep st env (.ite c t none) (.val .null) st1
    | ite_exit : BigStep st env c r st1 → r.isExit = true → BigStep st env (.ite c t e) r st1
    /- loops -/
    | while_ : WhileStep st env c b r st1 → BigStep st env (.while_ c b) r st1
    /-- `for (clauses) body`: a loop absorbs level-0 `break`, decrements the rest -/
    | for_completed : ForStep st env its (.exec b) default r st1 acc1 → loopEnd r = .completed →
        BigStep st env (.for_ its (.exec b)) (.val .null) st1
    | for_broke : ForStep st env its (.exec b) default r st1 acc1 → loopEnd r = .broke v →
        BigStep st env (.for_ its (.exec b)) (.val v) st1
    | for_exit : ForStep st env its (.exec b) default r st1 acc1 → loopEnd r = .exit r' →
        BigStep st env (.for_ its (.exec b)) r' st1
    /-- `for (clauses) yield e [into f]`: the `into` clause first; the yielded values are folded by the
    catamorphism; `break v` makes `v` the value of the loop; a non-catamorphism `f` is applied to the result -/
    | yield_into_exit : IntoStep st env into (.inr r) st1 → BigStep st env (.for_ its (.yield e into)) r st1
    | yield_exit : IntoStep st env into (.inl (c0, post)) st1 →
        ForStep st1 env its (.yield e into) { cata := c0, dict := [] } r st2 acc2 → loopEnd r = .exit r' →
        BigStep st env (.for_ its (.yield e into)) r' st2
    | yield_finish_raise : IntoStep st env into (.inl (c0, post)) st1 →
        ForStep st1 env its (.yield e into) { cata := c0, dict := [] } r st2 acc2 → loopEnd r = .completed →
        acc2.cata.finish = .raise →
        BigStep st env (.for_ its (.yield e into)) (.thrown .err) st2
    | yield_completed : IntoStep st env into (.inl (c0, none)) st1 →
        ForStep st1 env its (.yield e into) { cata := c0, dict := [] } r st2 acc2 → loopEnd r = .completed →
        acc2.cata.finish = .ok v →
        BigStep st env (.for_ its (.yield e into)) (.val v) st2
    | yield_completed_post : IntoStep st env into (.inl (c0, some f)) st1 →
        ForStep st1 env its (.yield e into) { cata := c0, dict := [] } r st2 acc2 → loopEnd r = .completed →
        acc2.cata.finish = .ok v → CallStep st2 env f [v] r' st3 →
        BigStep st env (.for_ its (.yield e into)) r' st3
    | yield_broke : IntoStep st env into (.inl (c0, none)) st1 →
        ForStep st1 env its (.yield e into) { cata := c0, dict := [] } r st2 acc2 → loopEnd r = .broke v →
        BigStep st env (.for_ its (.yield e into)) (.val v) st2
    | yield_broke_post : IntoStep st env into (.inl (c0, some f)) st1 →
        ForStep st1 env its (.yield e into) { cata := c0, dict := [] } r st2 acc2 → loopEnd r = .broke v →
        CallStep st2 env f [v] r' st3 →
        BigStep st env (.for_ its (.yield e into)) r' st3
    /-- `for (clauses) yield k: v [into f]`: a dictionary, one fold per key -/
    | item_into_exit : IntoStep st env into (.inr r) st1 → BigStep st env (.for_ its (.yieldItem k v into)) r st1
    | item_completed : IntoStep st env into (.inl (c0, post)) st1 →
        ForStep st1 env its (.yieldItem k v into) { cata := itemCata into c0 post, dict := [] } r st2 acc2 →
        loopEnd r = .completed → FinishStep st2 env post acc2.dict [] r' st3 →
        BigStep st env (.for_ its (.yieldItem k v into)) r' st3
    | item_broke : IntoStep st env into (.inl (c0, post)) st1 →
        ForStep st1 env its (.yieldItem k v into) { cata := itemCata into c0 post, dict := [] } r st2 acc2 →
        loopEnd r = .broke w →
        BigStep st env (.for_ its (.yieldItem k v into)) (.val w) st2
    | item_exit : IntoStep st env into (.inl (c0, post)) st1 →
        ForStep st1 env its (.yieldItem k v into) { cata := itemCata into c0 post, dict := [] } r st2 acc2 →
        loopEnd r = .exit r' →
        BigStep st env (.for_ its (.yieldItem k v into)) r' st2
    /- declaration and assignment -/
    /-- `p := e` declares the names of `p` in the CURRENT scope; a name already declared there raises -/
    | declare : BigStep st env e (.val v) st1 → bindPat st1 env p v = (true, st2) →
        BigStep st env (.declare p e) (.val .null) st2
    | declare_refused : BigStep st env e (.val v) st1 → bindPat st1 env p v = (false, st2) →
        BigStep st env (.declare p e) (.thrown .err) st2
    | declare_exit : BigStep st env e r st1 → r.isExit = true → BigStep st env (.declare p e) r st1
    /-- `x = e` assigns to the nearest enclosing declaration and raises if there is none -/
    | assign : BigStep st env e (.val v) st1 → st1.assign env x v = some st2 →
        BigStep st env (.assign x e) (.val .null) st2
    | assign_refused : BigStep st env e (.val v) st1 → st1.assign env x v = none →
        BigStep st env (.assign x e) (.thrown .err) st1
    | assign_exit : BigStep st env e r st1 → r.isExit = true → BigStep st env (.assign x e) r st1
    /-- `x op= e`: read `x`, evaluate `e`, empty the slot, apply the operator, assign -/
    | opassign : st.lookup env x = some old → BigStep st env e (.val v) st1 → st1.drop env x = some st2 →
        applyOp opn old v = .ok nv → st2.assign env x nv = some st3 →
        BigStep st env (.opassign x opn e) (.val .null) st3
    | opassign_undeclared : st.lookup env x = none → BigStep st env (.opassign x opn e) (.thrown .err) st
    | opassign_exit : st.lookup env x = some old → BigStep st env e r st1 → r.isExit = true →
        BigStep st env (.opassign x opn e) r st1
    | opassign_drop_refused : st.lookup env x = some old → BigStep st env e (.val v) st1 → st1.drop env x = none →
        BigStep st env (.opassign x opn e) (.thrown .err) st1
    | opassign_op_raise : st.lookup env x = some old → BigStep st env e (.val v) st1 → st1.drop env x = some st2 →
        applyOp opn old v = .raise →
        BigStep st env (.opassign x opn e) (.thrown .err) st2
    | opassign_assign_refused : st.lookup env x = some old → BigStep st env e (.val v) st1 →
        st1.drop env x = some st2 → applyOp opn old v = .ok nv → st2.assign env x nv = none →
        BigStep st env (.opassign x opn e) (.thrown .err) st2
    /-- a lambda is a closure over the scope it is written in (static scoping) -/
    | lambda : BigStep st env (.lambda params body) (.val (.closure params body env)) st
    /- exits -/
    | brk : BigStep st env (.brk n none) (.brk n none) st
    | brk_value : BigStep st env e (.val v) st1 → BigStep st env (.brk n (some e)) (.brk n (some v)) st1
    | brk_exit : BigStep st env e r st1 → r.isExit = true → BigStep st env (.brk n (some e)) r st1
    | cont : BigStep st env (.cont n) (.cont n) st
    | ret : BigStep st env (.ret none) (.ret .null) st
    | ret_value : BigStep st env e (.val v) st1 → BigStep st env (.ret (some e)) (.ret v) st1
    | ret_exit : BigStep st env e r st1 → r.isExit = true → BigStep st env (.ret (some e)) r st1
    | throw_ : BigStep st env e (.val v) st1 → BigStep st env (.throw_ e) (.thrown v) st1
    | throw_exit : BigStep st env e r st1 → r.isExit = true → BigStep st env (.throw_ e) r st1
    /-- `try b catch p -> c` intercepts ONLY `throw`: values, `break`, `continue`, `return` pass through -/
    | try_pass : BigStep st env b r st1 → r.isThrown = false → BigStep st env (.try_ b p c) r st1
    /-- the thrown value is matched against the pattern in a FRESH scope, in which the handler runs -/
    | try_catch : BigStep st env b (.thrown v) st1 → newFrame st1 env = (st2, ee) → bindPat st2 ee p v = (true, st3) →
        BigStep st3 ee c r st4 →
        BigStep st env (.try_ b p c) r st4
    | try_rethrow : BigStep st env b (.thrown v) st1 → newFrame st1 env = (st2, ee) →
        bindPat st2 ee p v = (false, st3) →
        BigStep st env (.try_ b p c) (.thrown v) st3
    | switch_ : BigStep st env sc (.val v) st1 → SwitchStep st1 env v arms r st2 →
        BigStep st env (.switch_ sc arms) r st2
    | switch_exit : BigStep st env sc r st1 → r.isExit = true → BigStep st env (.switch_ sc arms) r st1
    /-- `eval` runs the parsed text in the calling scope -/
    | evalSrc : BigStep st env e r st1 → BigStep st env (.evalSrc e) r st1
    /-- `freeze e`: the free names of `e` are resolved now, against the current scope; the rewritten
    expression then runs in the current scope (C17) -/
    | freeze : freezeExpr (scopeLook st env) { bound := [], tab := st.frozenTab } e = .ok (e', fs) →
        BigStep { st with frozenTab := fs.tab } env e' r st1 →
        BigStep st env (.freeze e) r st1
    | freeze_refused : freezeExpr (scopeLook st env) { bound := [], tab := st.frozenTab } e = .error err →
        BigStep st env (.freeze e) (.thrown .err) st

  /-- `switch`: the first arm whose pattern binds the scrutinee, each arm tried in a FRESH scope -/
  inductive SwitchStep : State → Nat → Val → List SwitchArm → Res → State → Prop where
    | no_arm : SwitchStep st env v [] (.thrown .err) st
    | arm : newFrame st env = (st1, ee) → bindPat st1 ee p v = (true, st2) → BigStep st2 ee body r st3 →
        SwitchStep st env v (.mk p body :: rest) r st3
    | next : newFrame st env = (st1, ee) → bindPat st1 ee p v = (false, st2) → SwitchStep st2 env v rest r st3 →
        SwitchStep st env v (.mk p body :: rest) r st3

  /-- `e₁; …; eₙ`: the value of the last expression; the first exit ends the sequence -/
  inductive SeqStep : State → Nat → List Expr → Res → State → Prop where
    | nil : SeqStep st env [] (.val .null) st
    | last : BigStep st env x r st1 → SeqStep st env [x] r st1
    | cons : BigStep st env x (.val v) st1 → SeqStep st1 env (y :: ys) r st2 → SeqStep st env (x :: y :: ys) r st2
    | exit : BigStep st env x r st1 → r.isExit = true → SeqStep st env (x :: y :: ys) r st1

  /-- expressions evaluated left to right into a list of values; the first exit stops -/
  inductive ListStep : State → Nat → List Expr → ResL → State → Prop where
    | nil : ListStep st env [] (.ok []) st
    | cons : BigStep st env x (.val v) st1 → ListStep st1 env xs (.ok vs) st2 → ListStep st env (x :: xs) (.ok (v :: vs)) st2
    | exit_tail : BigStep st env x (.val v) st1 → ListStep st1 env xs (.stop r) st2 →
        ListStep st env (x :: xs) (.stop r) st2
    | exit_head : BigStep st env x r st1 → r.isExit = true → ListStep st env (x :: xs) (.stop r) st1

  /-- the `into` clause: a catamorphism builtin folds directly; any other function is applied to the
  collected list afterwards -/
  inductive IntoStep : State → Nat → Option Expr → ((Cata × Option Val) ⊕ Res) → State → Prop where
    | none : IntoStep st env none (.inl (.list [], none)) st
    | cata : BigStep st env e (.val f) st1 → cataOfVal f = some c → IntoStep st env (some e) (.inl (c, none)) st1
    | func : BigStep st env e (.val f) st1 → cataOfVal f = none → IntoStep st env (some e) (.inl (.list [], some f)) st1
    | exit : BigStep st env e r st1 → r.isExit = true → IntoStep st env (some e) (.inr r) st1

  /-- `while (c) b`: EVERY ITERATION gets a fresh scope (holding condition and body); level-0 `break` ends
  the loop with its value, level-0 `continue` goes to the next iteration, higher levels lose one level,
  `return` and `throw` pass through -/
  inductive WhileStep : State → Nat → Expr → Expr → Res → State → Prop where
    | done : newFrame st env = (st1, ee) → BigStep st1 ee c (.val vc) st2 → vc.truthy = false →
        WhileStep st env c b (.val .null) st2
    | cond_exit : newFrame st env = (st1, ee) → BigStep st1 ee c r st2 → r.isExit = true →
        WhileStep st env c b r st2
    | next : newFrame st env = (st1, ee) → BigStep st1 ee c (.val vc) st2 → vc.truthy = true →
        BigStep st2 ee b rb st3 → rb.nextIteration = true → WhileStep st3 env c b r st4 →
        WhileStep st env c b r st4
    | break_ : newFrame st env = (st1, ee) → BigStep st1 ee c (.val vc) st2 → vc.truthy = true →
        BigStep st2 ee b (.brk 0 v) st3 →
        WhileStep st env c b (.val (v.getD .null)) st3
    | break_outer : newFrame st env = (st1, ee) → BigStep st1 ee c (.val vc) st2 → vc.truthy = true →
        BigStep st2 ee b (.brk (n + 1) v) st3 →
        WhileStep st env c b (.brk n v) st3
    | continue_outer : newFrame st env = (st1, ee) → BigStep st1 ee c (.val vc) st2 → vc.truthy = true →
        BigStep st2 ee b (.cont (n + 1)) st3 →
        WhileStep st env c b (.cont n) st3
    | pass : newFrame st env = (st1, ee) → BigStep st1 ee c (.val vc) st2 → vc.truthy = true →
        BigStep st2 ee b r st3 → r.isRetOrThrown = true →
        WhileStep st env c b r st3

  /-- the clauses of a `for`, left to right; `acc` is the state of the `yield` folds -/
  inductive ForStep : State → Nat → List ForIt → ForBody → ForAcc → Res → State → ForAcc → Prop where
    /-- no clause left: the body runs; level-0 `continue` ends just this run of the body -/
    | body : BodyStep st env body acc r st1 acc1 → r ≠ .cont 0 → ForStep st env [] body acc r st1 acc1
    | body_continue : BodyStep st env body acc (.cont 0) st1 acc1 → ForStep st env [] body acc (.val .null) st1 acc1
    /-- `if g` -/
    | guard_true : BigStep st env g (.val v) st1 → v.truthy = true → ForStep st1 env rest body acc r st2 acc2 →
        ForStep st env (.guard g :: rest) body acc r st2 acc2
    | guard_false : BigStep st env g (.val v) st1 → v.truthy = false →
        ForStep st env (.guard g :: rest) body acc (.val .null) st1 acc
    | guard_exit : BigStep st env g r st1 → r.isExit = true → ForStep st env (.guard g :: rest) body acc r st1 acc
    | iter_exit : BigStep st env e r st1 → r.isExit = true → ForStep st env (.iter kind p e :: rest) body acc r st1 acc
    /-- `p := e` in a `for` header: one fresh scope for the rest of the clauses -/
    | declare : BigStep st env e (.val v) st1 → newFrame st1 env = (st2, ee) → bindPat st2 ee p v = (true, st3) →
        ForStep st3 ee rest body acc r st4 acc4 →
        ForStep st env (.iter .declare p e :: rest) body acc r st4 acc4
    | declare_refused : BigStep st env e (.val v) st1 → newFrame st1 env = (st2, ee) →
        bindPat st2 ee p v = (false, st3) →
        ForStep st env (.iter .declare p e :: rest) body acc (.thrown .err) st3 acc
    /-- `p <- e`: the items of `e` -/
    | each : BigStep st env e (.val v) st1 → iterValues v = some items →
        ItemsStep st1 env p items rest body acc r st2 acc2 →
        ForStep st env (.iter .normal p e :: rest) body acc r st2 acc2
    | each_not_iterable : BigStep st env e (.val v) st1 → iterValues v = none →
        ForStep st env (.iter .normal p e :: rest) body acc (.thrown .err) st1 acc
    /-- `p <<- e`: the `[index, value]` / `[key, value]` pairs of `e` -/
    | each_pair : BigStep st env e (.val v) st1 → iterPairs v = some items →
        ItemsStep st1 env p items rest body acc r st2 acc2 →
        ForStep st env (.iter .item p e :: rest) body acc r st2 acc2
    | each_pair_not_iterable : BigStep st env e (.val v) st1 → iterPairs v = none →
        ForStep st env (.iter .item p e :: rest) body acc (.thrown .err) st1 acc

  /-- one `p <- …` clause over the remaining items: EVERY ITEM gets a fresh scope, in which the pattern is
  bound and the remaining clauses run; any exit of those ends the iteration -/
  inductive ItemsStep : State → Nat → Pat → List Val → List ForIt → ForBody → ForAcc → Res → State → ForAcc → Prop where
    | done : ItemsStep st env p [] rest body acc (.val .null) st acc
    | bind_refused : newFrame st env = (st1, ee) → bindPat st1 ee p x = (false, st2) →
        ItemsStep st env p (x :: xs) rest body acc (.thrown .err) st2 acc
    | next : newFrame st env = (st1, ee) → bindPat st1 ee p x = (true, st2) →
        ForStep st2 ee rest body acc (.val w) st3 acc3 → ItemsStep st3 env p xs rest body acc3 r st4 acc4 →
        ItemsStep st env p (x :: xs) rest body acc r st4 acc4
    | exit : newFrame st env = (st1, ee) → bindPat st1 ee p x = (true, st2) →
        ForStep st2 ee rest body acc r st3 acc3 → r.isExit = true →
        ItemsStep st env p (x :: xs) rest body acc r st3 acc3

  /-- the body of a `for` -/
  inductive BodyStep : State → Nat → ForBody → ForAcc → Res → State → ForAcc → Prop where
    | exec : BigStep st env e (.val v) st1 → BodyStep st env (.exec e) acc (.val .null) st1 acc
    | exec_exit : BigStep st env e r st1 → r.isExit = true → BodyStep st env (.exec e) acc r st1 acc
    /-- `yield e`: the value is given to the catamorphism, which may stop the loop (`first`) or raise -/
    | yield : BigStep st env e (.val v) st1 → acc.cata.give v = .ok c →
        BodyStep st env (.yield e into) acc (.val .null) st1 { acc with cata := c }
    | yield_stop : BigStep st env e (.val v) st1 → acc.cata.give v = .brk w →
        BodyStep st env (.yield e into) acc (.brk 0 (some w)) st1 acc
    | yield_raise : BigStep st env e (.val v) st1 → acc.cata.give v = .raise →
        BodyStep st env (.yield e into) acc (.thrown .err) st1 acc
    | yield_exit : BigStep st env e r st1 → r.isExit = true → BodyStep st env (.yield e into) acc r st1 acc
    /-- `yield k: v`: the key first; the value is NOT evaluated when the fold of that key is closed -/
    | key_exit : BigStep st env k r st1 → r.isExit = true → BodyStep st env (.yieldItem k v into) acc r st1 acc
    | key_is_function : BigStep st env k (.val vk) st1 → vk.isFunc = true →
        BodyStep st env (.yieldItem k v into) acc (.thrown .err) st1 acc
    | key_closed : BigStep st env k (.val vk) st1 → vk.isFunc = false → dictFind acc.dict vk = some (.inr w) →
        BodyStep st env (.yieldItem k v into) acc (.val .null) st1 acc
    | key_open : BigStep st env k (.val vk) st1 → vk.isFunc = false → dictFind acc.dict vk = some (.inl c) →
        BigStep st1 env v (.val vv) st2 → c.give vv = .ok c' →
        BodyStep st env (.yieldItem k v into) acc (.val .null) st2 { acc with dict := dictSet acc.dict vk (.inl c') }
    | key_open_stop : BigStep st env k (.val vk) st1 → vk.isFunc = false → dictFind acc.dict vk = some (.inl c) →
        BigStep st1 env v (.val vv) st2 → c.give vv = .brk w →
        BodyStep st env (.yieldItem k v into) acc (.val .null) st2 { acc with dict := dictSet acc.dict vk (.inr w) }
    | key_open_raise : BigStep st env k (.val vk) st1 → vk.isFunc = false → dictFind acc.dict vk = some (.inl c) →
        BigStep st1 env v (.val vv) st2 → c.give vv = .raise →
        BodyStep st env (.yieldItem k v into) acc (.thrown .err) st2 acc
    | key_open_exit : BigStep st env k (.val vk) st1 → vk.isFunc = false → dictFind acc.dict vk = some (.inl c) →
        BigStep st1 env v r st2 → r.isExit = true →
        BodyStep st env (.yieldItem k v into) acc r st2 acc
    | key_new : BigStep st env k (.val vk) st1 → vk.isFunc = false → dictFind acc.dict vk = none →
        BigStep st1 env v (.val vv) st2 → acc.cata.give vv = .ok c' →
        BodyStep st env (.yieldItem k v into) acc (.val .null) st2 { acc with dict := acc.dict ++ [(vk, .inl c')] }
    | key_new_stop : BigStep st env k (.val vk) st1 → vk.isFunc = false → dictFind acc.dict vk = none →
        BigStep st1 env v (.val vv) st2 → acc.cata.give vv = .brk w →
        BodyStep st env (.yieldItem k v into) acc (.val .null) st2 { acc with dict := acc.dict ++ [(vk, .inr w)] }
    | key_new_raise : BigStep st env k (.val vk) st1 → vk.isFunc = false → dictFind acc.dict vk = none →
        BigStep st1 env v (.val vv) st2 → acc.cata.give vv = .raise →
        BodyStep st env (.yieldItem k v into) acc (.thrown .err) st2 acc
    | key_new_exit : BigStep st env k (.val vk) st1 → vk.isFunc = false → dictFind acc.dict vk = none →
        BigStep st1 env v r st2 → r.isExit = true →
        BodyStep st env (.yieldItem k v into) acc r st2 acc

  /-- finish every per-key fold of `yield k: v` (and apply the non-catamorphism `into` function) -/
  inductive FinishStep : State → Nat → Option Val → List (Val × (Cata ⊕ Val)) → List (Val × Val) → Res → State → Prop where
    | done : FinishStep st env post [] done (.val (.dict done)) st
    | closed : FinishStep st env post rest (done ++ [(k, v)]) r st1 →
        FinishStep st env post ((k, .inr v) :: rest) done r st1
    | raise : c.finish = .raise → FinishStep st env post ((k, .inl c) :: rest) done (.thrown .err) st
    | open_ : c.finish = .ok v → FinishStep st env none rest (done ++ [(k, v)]) r st1 →
        FinishStep st env none ((k, .inl c) :: rest) done r st1
    | post : c.finish = .ok v → CallStep st env f [v] (.val v') st1 →
        FinishStep st1 env (some f) rest (done ++ [(k, v')]) r st2 →
        FinishStep st env (some f) ((k, .inl c) :: rest) done r st2
    | post_exit : c.finish = .ok v → CallStep st env f [v] r st1 → r.isExit = true →
        FinishStep st env (some f) ((k, .inl c) :: rest) done r st1

  /-- calling a value.  A closure runs in a FRESH scope whose parent is the scope the lambda was written in
  (`cenv`) — the caller's scope `env` plays no role (static scoping).  In that scope, in this order: the
  parameter annotations are evaluated; the defaults in play are determined and (without a splat) the arity
  is checked; the defaults in play are evaluated; the parameters are bound (each annotated one after its type
  check); the body runs.  A call absorbs `return`, and nothing else. -/
  inductive CallStep : State → Nat → Val → List Val → Res → State → Prop where
    | annotation_exit : newFrame st cenv = (st0, ee) → ListStep st0 ee (params.filterMap Param.ann) (.stop r) st1 →
        CallStep st env (.closure params body cenv) args r st1
    | defaults_refused : newFrame st cenv = (st0, ee) → ListStep st0 ee (params.filterMap Param.ann) (.ok tvs) st1 →
        defaultsInPlay args.length params 0 false [] = none →
        CallStep st env (.closure params body cenv) args (.thrown .err) st1
    | arity_refused : newFrame st cenv = (st0, ee) → ListStep st0 ee (params.filterMap Param.ann) (.ok tvs) st1 →
        defaultsInPlay args.length params 0 false [] = some inPlay → arityRefused params args.length inPlay = true →
        CallStep st env (.closure params body cenv) args (.thrown .err) st1
    | default_exit : newFrame st cenv = (st0, ee) → ListStep st0 ee (params.filterMap Param.ann) (.ok tvs) st1 →
        defaultsInPlay args.length params 0 false [] = some inPlay → arityRefused params args.length inPlay = false →
        ListStep st1 ee inPlay (.stop r) st2 →
        CallStep st env (.closure params body cenv) args r st2
    | bind_refused : newFrame st cenv = (st0, ee) → ListStep st0 ee (params.filterMap Param.ann) (.ok tvs) st1 →
        defaultsInPlay args.length params 0 false [] = some inPlay → arityRefused params args.length inPlay = false →
        ListStep st1 ee inPlay (.ok dvs) st2 → bindParams st2 ee params tvs args dvs = none →
        CallStep st env (.closure params body cenv) args (.thrown .err) st2
    | type_refused : newFrame st cenv = (st0, ee) → ListStep st0 ee (params.filterMap Param.ann) (.ok tvs) st1 →
        defaultsInPlay args.length params 0 false [] = some inPlay → arityRefused params args.length inPlay = false →
        ListStep st1 ee inPlay (.ok dvs) st2 → bindParams st2 ee params tvs args dvs = some (false, st3) →
        CallStep st env (.closure params body cenv) args (.thrown .err) st3
    | returned : newFrame st cenv = (st0, ee) → ListStep st0 ee (params.filterMap Param.ann) (.ok tvs) st1 →
        defaultsInPlay args.length params 0 false [] = some inPlay → arityRefused params args.length inPlay = false →
        ListStep st1 ee inPlay (.ok dvs) st2 → bindParams st2 ee params tvs args dvs = some (true, st3) →
        BigStep st3 ee body (.ret v) st4 →
        CallStep st env (.closure params body cenv) args (.val v) st4
    | body : newFrame st cenv = (st0, ee) → ListStep st0 ee (params.filterMap Param.ann) (.ok tvs) st1 →
        defaultsInPlay args.length params 0 false [] = some inPlay → arityRefused params args.length inPlay = false →
        ListStep st1 ee inPlay (.ok dvs) st2 → bindParams st2 ee params tvs args dvs = some (true, st3) →
        BigStep st3 ee body r st4 → r.isRet = false →
        CallStep st env (.closure params body cenv) args r st4
    | print : CallStep st env (.builtin "print") args (.val .null)
        { st with out := joinWith " " (args.map Val.display) :: st.out }
    | builtin : name ≠ "print" → callBuiltin name args = .ok v → CallStep st env (.builtin name) args (.val v) st
    | builtin_raise : name ≠ "print" → callBuiltin name args = .raise →
        CallStep st env (.builtin name) args (.thrown .err) st
    | not_callable : f.isFunc = false → CallStep st env f args (.thrown .err) st

end

/-- a whole program: evaluated in the top-level scope of a fresh interpreter -/
def ProgramRuns (e : Expr) (r : Res) (st' : State) : Prop := BigStep State.init 0 e r st'

end Noulith.Core
