/-
Spec for C12 — binding *as the interpreter documents it*: there is no rollback.  `specAssignNR`
returns the environment afterwards together with whether the pattern accepted; a pattern that
refuses keeps whatever it had already bound, and the second alternative of an `or` is tried on the
environment the failed first alternative left behind.  Everything else is as in `specAssign`
(declarative arrangement of sequences, no machine arithmetic, no panic outcome).

`Theorems/C12NoRollback.lean` proves `assign = specAssignNR` for EVERY pattern; the difference to the
transactional reading `specAssign` (the known finding `or-no-rollback`) is isolated in one theorem.
Core Lean only.
-/
import NoulithModel.Spec.Match

namespace Noulith.C12

mutual
def specAssignNR (e : Env) : Pat → Option Ty → Val → Env × Bool
  | .underscore, rt, v =>
    match rt with
    | some T => (e, decide (isType T v = .ok true))
    | none => (e, true)
  | .ident x ixs, rt, v =>
    match rt with
    | some T =>
      if ixs.isEmpty ∧ isType T v = .ok true then
        (match e.insert x T v with
         | (e', .ok ()) => (e', true)
         | (e', _) => (e', false))
      else (e, false)
    | none =>
      -- the (possibly late) type check; a late failure leaves the element written
      (match assignRespectingType e x ixs v with
       | (e', .ok ()) => (e', true)
       | (e', _) => (e', false))
  | .anno p none, _, v => specAssignNR e p (some .any) v
  | .anno p (some t), _, v =>
    match toType t with
    | .ok T' => specAssignNR e p (some T') v
    | _ => (e, false)
  | .withDefault p _, rt, v => specAssignNR e p rt v
  | .seq ps d, rt, v =>
    let ok : Bool := match d, rt with
      | true, some T => isType T v = .ok true
      | _, _ => true
    if ok then
      match seqView v with
      | some items =>
        match specArrange ps items with
        | some arr => specAssignItemsNR e ps (if d then rt.map fun _ => .any else rt) arr
        | none => (e, false)
      | none => (e, false)
    else (e, false)
  | .splat _, _, _ => (e, false)
  | .or a b, rt, v =>
    match specAssignNR e a rt v with
    | (e', true) => (e', true)
    | (e', false) => specAssignNR e' b rt v      -- no rollback: `b` starts from what `a` left
  | .and a b, rt, v =>
    match specAssignNR e a rt v with
    | (e', true) => specAssignNR e' b rt v
    | (e', false) => (e', false)
  | .lit l, _, v => (e, veq l v)
  | .destr f args, rt, v =>
    match destructure f v (args.map knownOf) with
    | .ok parts =>
      if parts.length = args.length then
        match specArrange args parts with
        | some arr => specAssignItemsNR e args rt arr
        | none => (e, false)
      else (e, false)
    | _ => (e, false)
  | .destrStruct sid args, rt, v =>
    match v with
    | .inst sid' fields =>
      if sid = sid' then
        match specArrange args fields with
        | some arr => specAssignItemsNR e args rt arr
        | none => (e, false)
      else (e, false)
    | _ => (e, false)
def specAssignItemsNR (e : Env) : List Pat → Option Ty → List Val → Env × Bool
  | [], _, _ => (e, true)
  | _ :: _, _, [] => (e, false)
  | p :: ps, rt, v :: vs =>
    let r : Env × Bool :=
      match p with
      | .splat inner => specAssignNR e inner rt v
      | .anno (.splat inner) ann =>
        (match ann with
         | none => specAssignNR e inner (some .any) v
         | some t =>
           match toType t with
           | .ok T' => specAssignNR e inner (some T') v
           | _ => (e, false))
      | q => specAssignNR e q rt v
    match r with
    | (e', true) => specAssignItemsNR e' ps rt vs
    | r => r
end

/-- the interpreter-side rendering of a no-rollback result -/
def nrOut : Env × Bool → Env × Out Unit
  | (e, true) => (e, .ok ())
  | (e, false) => (e, .throw)

end Noulith.C12
