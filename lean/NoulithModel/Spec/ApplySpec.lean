/-
C04 — Spec: "operators are ordinary functions".

A callable denotes ONE function of its argument tuple, `Spec.app W f args` — what the plain call
`f(a, b, …)` computes.  The property says that every surface form of applying `f` to the tuple
denotes that same value (equal result, or all fail), under the side conditions the property text
attaches to two of the forms.  Nothing here mentions entry points, partial-application wrappers or
sections.  Core Lean only.
-/
import NoulithModel.Impl.Apply

namespace Noulith.ApplySpec
open Noulith Noulith.Apply

/-- the reference: the plain call `f(args…)` -/
def app (W : World) (f : Func) (args : List Val) : Out Val := call W (.func f) args

/-- number of arguments a form is written with (`none` = any) -/
def arity : Form → Option Nat
  | .infixOp | .backtick | .chainR | .chainL | .chainBoth | .juxt | .rsec | .opAssign | .opSeq => some 2
  | .dot | .fwdDot | .opSelf | .opSelfApp _ | .opRhsFails => some 1
  | _ => none

/-- side conditions of the property text -/
def precond (W : World) (form : Form) (f : Func) (args : List Val) : Prop :=
  (match arity form with
   | some n => args.length = n
   | none => True) ∧
  (match form, args with
   | .secHole i, _ => i < args.length
   | .splatTail, _ => args ≠ []
   | .secAll, _ => args ≠ []
   | .secMix pat, _ => mixSize pat = args.length ∧ pat.any Mix.isHole = true
   | .listMix pat, _ => mixSize pat = args.length ∧ pat.any Mix.isHole = true
   /- callee-slot sections: any mix of 0 or more slots; the world's dynamic call IS `call` here -/
   | .calleeMix pat, _ => mixSize pat = args.length ∧ W.callDyn (.func f) args = call W (.func f) args
   /- "(a f)(b) agrees with them when a is not itself a function" -/
   | .juxt, a :: _ => a.isFunc = false
   /- "whenever the two-argument call f(a, b) succeeds and f(b) is a function" -/
   | .rsec, [a, b] => (∃ g, app W f [b] = .ok (.func g)) ∧ (∃ v, app W f [a, b] = .ok v)
   | _, _ => True)

/-- what a form denotes: the plain call — except a list section, which denotes the list -/
def denotes (W : World) (form : Form) (f : Func) (args : List Val) : Out Val :=
  match form, args with
  | .listMix _, _ => .ok (.list args)
  /- `x f= x` is `f(x, x)`, `x f= g(x)` is `f(x, g(x))`, with the value `x` had BEFORE the statement -/
  | .opSelf, [a] => app W f [a, a]
  | .opSelfApp c, [a] => (app W (.closure c) [a]).bind fun r => app W f [a, r]
  /- a right-hand side that raises leaves the variable alone -/
  | .opRhsFails, [a] => .ok a
  | _, _ => app W f args

/-- The property, for one form: it denotes the plain call. -/
def FormAgrees (W : World) (form : Form) (f : Func) (args : List Val) : Prop :=
  precond W form f args → evalForm W form f args = denotes W form f args

/-- what the differential harness must compare the real interpreter's answer for a form with:
the real plain call (`always`), or the real plain call provided the side condition of the right
section law holds on the real interpreter (`ifSection`) -/
inductive Ref where
  | always
  | ifSection
  | ifNotFunc
  /-- list sections: the list literal `[a, b, …]` -/
  | listLit
  /-- `f(a, a)` -/
  | selfPair
  /-- `f(a, g(a))` -/
  | selfApp
  /-- the first argument itself -/
  | argA
  deriving DecidableEq, Repr

def refOf : Form → Ref
  | .rsec => .ifSection
  | .juxt => .ifNotFunc
  | .listMix _ => .listLit
  | .opSelf => .selfPair
  | .opSelfApp _ => .selfApp
  | .opRhsFails => .argA
  | _ => .always

end Noulith.ApplySpec
