/-
Spec for C10: Python's indexing and slicing rule on mathematical integers — no machine words, no
representation.  `pyIndex`/`pySlice` are the whole content; the value-level functions below only say
which list of elements each sequence kind exposes and in which kind a slice is re-wrapped.

  s[i]    = element i           for 0 ≤ i < len
          = element len + i     for -len ≤ i < 0
          = index error         otherwise (every other integer, however large; every non-integer)
  s[a:b]  = elements l, l+1, …, h-1 where l = clamp a (default 0), h = clamp b (default len),
            clamp x = max 0 (len + x) for x < 0, min x len for x ≥ 0; empty when h ≤ l

Documented limits that the Spec states rather than hides: a slice bound (and the index of `!%`)
must fit a machine word (`isize`) or the operation raises; `!?` and `!%` are defined on lists,
strings, vectors and bytes (streams raise a type error); `pop`, `remove` and `|..` on lists.
Core Lean only.
-/
import NoulithModel.Impl.Index

namespace Noulith.PyIndex
open Noulith Noulith.Index

/-! ### the rule -/

/-- Python's index normalisation: the position addressed by index `i` in a sequence of length `len` -/
def pyIndex (len i : Int) : Option Int :=
  if 0 ≤ i ∧ i < len then some i
  else if -len ≤ i ∧ i < 0 then some (len + i)
  else none

/-- Python's clamp of one slice bound -/
def pyClamp (len i : Int) : Int :=
  if i < 0 then max 0 (len + i) else min i len

/-- Python's `slice(lo, hi).indices(len)` for step 1, as a half-open range `[l, h)` with `l ≤ h` -/
def pySlice (len : Int) (lo hi : Option Int) : Int × Int :=
  let l := match lo with
    | some a => pyClamp len a
    | none => 0
  let h := match hi with
    | some b => pyClamp len b
    | none => len
  (l, max h l)

/-- the elements selected by `xs[lo:hi]` -/
def sliceOf {α} (xs : List α) (lo hi : Option Int) : List α :=
  let p := pySlice xs.length lo hi
  (xs.drop p.1.toNat).take (p.2 - p.1).toNat

/-- the element selected by `xs[i]` -/
def elemOf {α} (xs : List α) (i : Int) : Option α :=
  match pyIndex xs.length i with
  | some k => xs[k.toNat]?
  | none => none

/-! ### sequence kinds -/

/-- one byte of a string, as indexing returns it: a one-character string for an ASCII byte, a
one-byte `bytes` value otherwise -/
def byteItem (b : Nat) : Val := softFromUtf8 [b]

/-- the elements of a finite sequence, as `s[i]` returns them -/
def items : Val → Option (List Val)
  | .list xs => some xs
  | .vec xs => some xs
  | .stream xs => some xs
  | .bytes bs => some (bs.map fun (b : Nat) => Val.int (b : Int))
  | .str bs => some (bs.map byteItem)
  | _ => none

/-- an integer index object -/
def asInt : Val → Option Int
  | .int v => some v
  | _ => none

/-- a slice bound: absent, or an integer that fits a machine word; anything else raises -/
def bound : Option Val → Out (Option Int)
  | none => .ok none
  | some (.int v) => if inI64 v then .ok (some v) else .throw
  | some _ => .throw

def ofOpt {α} : Option α → Out α
  | some a => .ok a
  | none => .throw

/-- `s[i]` -/
def index (s i : Val) : Out Val :=
  match s, asInt i with
  | .rep x, some n => if inI64 n then .ok x else .throw
  | .cyc xs pos, some n =>
    if inI64 n then ofOpt xs[((pos + n) % xs.length).toNat]? else .throw
  | s, some n =>
    match items s with
    | some xs => ofOpt (elemOf xs n)
    | none => .throw
  | _, none => .throw

/-- `s[lo:hi]` -/
def slice (s : Val) (lo hi : Option Val) : Out Val :=
  (bound lo).bind fun lo =>
  (bound hi).bind fun hi =>
  match s with
  | .list xs => .ok (.list (sliceOf xs lo hi))
  | .vec xs => .ok (.vec (sliceOf xs lo hi))
  | .bytes bs => .ok (.bytes (sliceOf bs lo hi))
  | .str bs => .ok (softFromUtf8 (sliceOf bs lo hi))
  | .stream xs =>
    -- a suffix taken from a non-negative position stays a (lazy) stream, anything else is a list
    if hi.isNone ∧ 0 ≤ lo.getD 0 then .ok (.stream (sliceOf xs lo hi))
    else .ok (.list (sliceOf xs lo hi))
  | .rep x =>
    -- positions of an infinite sequence are `k ≥ 0` (from the start) or `∞ + k`, `k < 0`;
    -- an absent upper bound is `∞ + 0`
    let l := lo.getD 0
    match hi with
    | none => if l < 0 then .ok (.list (List.replicate (-l).toNat x)) else .ok (.rep x)
    | some h =>
      if (l < 0) = (h < 0) then .ok (.list (List.replicate (h - l).toNat x))
      else if l < 0 then .ok (.list [])
      else .ok (.rep x)
  | .cyc xs pos =>
    let l := lo.getD 0
    if xs.length = 0 then .throw
    else match hi with
    | none => if l < 0 then .throw else .ok (.cyc xs ((pos + l.toNat) % xs.length))
    | some h =>
      if l < 0 ∨ h < 0 then .throw
      else .ok (.list ((List.range (h - l).toNat).map fun j =>
              xs.getD ((pos + (l.toNat + j)) % xs.length) .null))
  | _ => .throw

def isFinite (s : Val) : Bool := (items s).isSome

/-- the accessors as the index / slice expression the property names for each -/
def accessor1 (name : String) (s : Val) : Out Val :=
  match name with
  | "first" => index s (.int 0)
  | "second" => index s (.int 1)
  | "third" => index s (.int 2)
  | "last" => index s (.int (-1))
  | "tail" => slice s (some (.int 1)) none
  | "butlast" => slice s none (some (.int (-1)))
  | "uncons" =>
    (index s (.int 0)).bind fun h => (slice s (some (.int 1)) none).bind fun t => .ok (.list [h, t])
  | "unsnoc" =>
    if isFinite s then
      (slice s none (some (.int (-1)))).bind fun t => (index s (.int (-1))).bind fun e => .ok (.list [t, e])
    else .throw            -- an infinite stream has no last element
  | "only" =>
    match items s with
    | some xs => if xs.length = 1 then index s (.int 0) else .throw
    | none => .throw
  | _ => .throw

def isStrict : Val → Bool
  | .list _ | .vec _ | .bytes _ | .str _ => true
  | _ => false

/-- `s !? i` -/
def safeAt (s a : Val) : Out Val :=
  -- `s[i]` for 0 ≤ i < len, null for every other index object (and for a null sequence)
  match s with
  | .null => .ok .null
  | s =>
    if isStrict s then
      match items s, asInt a with
      | some xs, some n => if 0 ≤ n ∧ n < xs.length then ofOpt xs[n.toNat]? else .ok .null
      | _, _ => .ok .null
    else .throw

def accessor2 (name : String) (s a : Val) : Out Val :=
  match name with
  | "!!" => index s a
  | "index" => index s a
  | "take" => slice s none (some a)
  | "drop" => slice s (some a) none
  | "!?" => safeAt s a
  | "index?" => safeAt s a
  | "!%" =>
    -- `s[i mod len]`
    if isStrict s then
      match items s, asInt a with
      | some xs, some n =>
        if inI64 n ∧ xs.length ≠ 0 then ofOpt xs[(n % (xs.length : Int)).toNat]? else .throw
      | _, _ => .throw
    else .throw
  | _ => .throw

/-! ### writes address the positions reads do -/

/-- `x[i₁][i₂]…[iₙ] = v` and (with `every`) `every x[…][a:b]… = v`: the new value of `x` -/
def setPath (x : Val) (ixs : List Ix) (v : Val) (every : Bool := false) : Out Val :=
  match ixs with
  | [] => .ok v
  | .index i :: rest =>
    match x, asInt i with
    | .list xs, some n | .stream xs, some n =>
      match pyIndex xs.length n with
      | some k =>
        (ofOpt xs[k.toNat]?).bind fun old =>
        (setPath old rest v every).bind fun new => .ok (.list (xs.set k.toNat new))
      | none => .throw
    | .vec xs, some n =>
      if rest.isEmpty ∧ isNum v then
        match pyIndex xs.length n with
        | some k => .ok (.vec (xs.set k.toNat v))
        | none => .throw
      else .throw
    | .bytes bs, some n =>
      match rest, toU8 v, pyIndex bs.length n with
      | [], some b, some k => .ok (.bytes (bs.set k.toNat b))
      | _, _, _ => .throw
    | .str bs, some n =>
      match rest, v, pyIndex bs.length n with
      | [], .str [b], some k =>
        -- the string must stay UTF-8
        if validUtf8 (bs.set k.toNat b) then .ok (.str (bs.set k.toNat b)) else .throw
      | _, _, _ => .throw
    | _, _ => .throw
  | .slice lo hi :: rest =>
    if !every then .throw          -- plain slice assignment is not part of the language
    else match x with
    | .list xs | .stream xs =>
      (bound lo).bind fun lo =>
      (bound hi).bind fun hi =>
      let p := pySlice xs.length lo hi
      (mapOut (fun e => setPath e rest v true) (sliceOf xs lo hi)).bind fun mid =>
      .ok (.list (xs.take p.1.toNat ++ mid ++ xs.drop p.2.toNat))
    | _ => .throw

/-- `x[i] += d` on an integer element -/
def addAt (x i : Val) (d : Int) : Out Val :=
  (index x i).bind fun old =>
  match old with
  | .int o => setPath x [.index i] (.int (o + d))
  | _ => .throw

/-- `pop x`: (`x[-1]`, `x[:-1]`) -/
def pop (x : Val) : Out (Val × Val) :=
  match x with
  | .list xs =>
    match elemOf xs (-1) with
    | some e => .ok (e, .list (sliceOf xs none (some (-1))))
    | none => .throw
  | _ => .throw

/-- `remove x[i]`: (`x[i]`, x without position `pyIndex len i`) -/
def removeIndex (x i : Val) : Out (Val × Val) :=
  match x, asInt i with
  | .list xs, some n =>
    match pyIndex xs.length n with
    | some k => (ofOpt xs[k.toNat]?).map fun e => (e, .list (xs.eraseIdx k.toNat))
    | none => .throw
  | _, _ => .throw

/-- `remove x[a:b]`: (`x[a:b]`, `x[:a] ++ x[b:]` with the clamped bounds) -/
def removeSlice (x : Val) (lo hi : Option Val) : Out (Val × Val) :=
  match x with
  | .list xs =>
    (bound lo).bind fun lo =>
    (bound hi).bind fun hi =>
    let p := pySlice xs.length lo hi
    .ok (.list (sliceOf xs lo hi), .list (xs.take p.1.toNat ++ xs.drop p.2.toNat))
  | _ => .throw

/-- apply `f` at the place `x[i₁]…[iₙ]` (index steps through nested lists) -/
def atPath (x : Val) (ixs : List Ix) (f : Val → Out (Val × Val)) : Out (Val × Val) :=
  match ixs with
  | [] => f x
  | .index i :: rest =>
    match x, asInt i with
    | .list xs, some n | .stream xs, some n =>
      match pyIndex xs.length n with
      | some k =>
        (ofOpt xs[k.toNat]?).bind fun old =>
        (atPath old rest f).bind fun p => .ok (p.1, .list (xs.set k.toNat p.2))
      | none => .throw
    | _, _ => .throw
  | .slice _ _ :: _ => .throw

/-! ### the state after a write, also a failed one

A write that raises leaves the variable as it was.  Three documented refinements: a stream that is
indexed into on the left is forced into a list (same elements) whether or not the write then
succeeds; `every x[a:b]… = v` writes element by element, so the elements before the first failing
one are written; `x[i] op= v` drops the slot (null) before it runs the operator. -/

/-- `every`-loop: written up to and including the first failing element -/
def eachS (f : Val → Val × Bool) : List Val → List Val × Bool
  | [] => ([], true)
  | x :: xs =>
    let r := f x
    if r.2 then
      let rs := eachS f xs
      (r.1 :: rs.1, rs.2)
    else (r.1 :: xs, false)

/-- `x<steps> = v` as (new value of `x`, succeeded) -/
def setPathS (x : Val) (ixs : List Ix) (v : Option Val) (every : Bool) : Val × Bool :=
  match ixs with
  | [] => (v.getD .null, true)
  | step :: rest =>
    match x with
    | .list xs | .stream xs =>
      match step with
      | .index i =>
        match (asInt i).bind (pyIndex xs.length) with
        | some k =>
          match xs[k.toNat]? with
          | some old =>
            let r := setPathS old rest v every
            (.list (xs.set k.toNat r.1), r.2)
          | none => (.list xs, false)
        | none => (.list xs, false)
      | .slice lo hi =>
        if every then
          match bound lo, bound hi with
          | .ok lo, .ok hi =>
            let p := pySlice xs.length lo hi
            let r := eachS (fun e => setPathS e rest v true) (sliceOf xs lo hi)
            (.list (xs.take p.1.toNat ++ r.1 ++ xs.drop p.2.toNat), r.2)
          | _, _ => (.list xs, false)
        else (.list xs, false)
    | x =>
      -- strings, vectors, bytes: all or nothing
      match v with
      | some v =>
        match setPath x (step :: rest) v every with
        | .ok x' => (x', true)
        | _ => (x, false)
      | none =>
        -- dropping a slot of a homogeneous sequence is a no-op (when the slot can be addressed at all)
        match step, rest, x with
        | .index _, [], .str _ | .index _, [], .vec _ | .index _, [], .bytes _ => (x, true)
        | _, _, _ => (x, false)

/-- apply `f` at `x<steps>` as (new value of `x`, result when it succeeded) -/
def atPathS (x : Val) (ixs : List Ix) (f : Val → Out (Val × Val)) : Val × Option Val :=
  match ixs with
  | [] =>
    match f x with
    | .ok p => (p.2, some p.1)
    | _ => (x, none)
  | step :: rest =>
    match x with
    | .list xs | .stream xs =>
      match step with
      | .index i =>
        match (asInt i).bind (pyIndex xs.length) with
        | some k =>
          match xs[k.toNat]? with
          | some old =>
            let r := atPathS old rest f
            (.list (xs.set k.toNat r.1), r.2)
          | none => (.list xs, none)
        | none => (.list xs, none)
      | .slice _ _ => (.list xs, none)
    | x => (x, none)

/-- `x[i] += d` as (new value of `x`, succeeded) -/
def addAtS (x i : Val) (d : Int) : Val × Bool :=
  match index x i with
  | .ok old =>
    let r1 := setPathS x [.index i] none false
    if r1.2 then
      match old with
      | .int o => setPathS r1.1 [.index i] (some (.int (o + d))) false
      | _ => (r1.1, false)
    else r1
  | _ => (x, false)

/-- `a |.. [k, v]` -/
def updateAt (a k v : Val) : Out Val :=
  match a with
  | .list _ => setPath a [.index k] v
  | _ => .throw

end Noulith.PyIndex
