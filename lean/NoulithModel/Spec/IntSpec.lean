/-
Spec for C06: the integer builtins as plain mathematics on `Int` — no representations, no machine
words.  `//` floors (`Int.fdiv`), `%%` takes the divisor's sign (`Int.fmod`), `%` truncates
(`Int.tmod`), shifts are multiplication / floor division by powers of two, bit operators are the
two's-complement ones (`NInt.band/bor/bxor`, characterised bit-by-bit in Theorems/C06.lean).
-/
import NoulithModel.Impl.NInt

namespace Noulith

inductive SRes where
  | int (v : Int)
  | ratRecip (den : Int)
  | nan
  | inf
  | list (xs : List (Int × Nat))
  deriving Repr, DecidableEq

def IRes.abs : IRes → SRes
  | .int n => .int n.val
  | .ratRecip d => .ratRecip d
  | .nan => .nan
  | .inf => .inf
  | .list xs => .list xs

namespace IntSpec

def isPrime (n : Int) : Bool :=
  decide (2 ≤ n) && (List.range n.toNat).all fun d => d < 2 || n.toNat % d != 0

def b2i (b : Bool) : Int := if b then 1 else 0

def binop (op : String) (a b : Int) : Out SRes :=
  match op with
  | "+" => .ok (.int (a + b))
  | "-" => .ok (.int (a - b))
  | "*" => .ok (.int (a * b))
  | "%" => if b = 0 then .throw else .ok (.int (Int.tmod a b))
  | "//" => if b = 0 then .throw else .ok (.int (Int.fdiv a b))
  | "%%" => if b = 0 then .throw else .ok (.int (Int.fmod a b))
  | "/!" => if b = 0 then .throw else if Int.fmod a b ≠ 0 then .throw else .ok (.int (Int.fdiv a b))
  | "^" =>
    if 0 ≤ b then .ok (.int (NInt.ipow a b.toNat))          -- = a ^ b (Theorems/C06.ipow_eq)
    else if a = 0 then .ok .inf else .ok (.ratRecip (NInt.ipow a (-b).toNat))   -- 0^(-n) = 1/0: float infinity, like `/`
  | "&" => .ok (.int (NInt.band a b))
  | "|" => .ok (.int (NInt.bor a b))
  | "~" => .ok (.int (NInt.bxor a b))
  | "<<" => if inUsize b then .ok (.int (a * 2 ^ b.toNat)) else .ok .nan
  | ">>" => if inUsize b then .ok (.int (a >>> b.toNat)) else .ok .nan   -- = a / 2^b (floor), see Theorems/C06.shr_is_floor_div
  | "gcd" => .ok (.int (Int.gcd a b))
  | "lcm" => .ok (.int (Int.lcm a b))
  | "==" => .ok (.int (b2i (decide (a = b))))
  | "!=" => .ok (.int (b2i (decide (a ≠ b))))
  | "<" => .ok (.int (b2i (decide (a < b))))
  | "<=" => .ok (.int (b2i (decide (a ≤ b))))
  | ">" => .ok (.int (b2i (decide (a > b))))
  | ">=" => .ok (.int (b2i (decide (a ≥ b))))
  | "<=>" => .ok (.int (if a < b then -1 else if a = b then 0 else 1))
  | _ => .throw

def unop (op : String) (a : Int) : Out SRes :=
  match op with
  | "neg" => .ok (.int (-a))
  | "not" => .ok (.int (-a - 1))
  | "abs" => .ok (.int (a.natAbs : Int))
  | "signum" => .ok (.int (Int.sign a))
  | "even" => .ok (.int (b2i (decide (a % 2 = 0))))
  | "odd" => .ok (.int (b2i (decide (a % 2 = 1))))
  | _ => .throw

end IntSpec
end Noulith
