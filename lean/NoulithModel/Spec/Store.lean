/-
C01 Spec: the pure copy-on-assignment store.  A value is a tree (no sharing, no counts); the store is
one tree per variable; every statement is the obvious functional update of the addressed slot of the
named variable.  Nothing here mentions allocations, handles or reference counts.
Core Lean only.
-/
import NoulithModel.Impl.Heap

namespace Noulith.Store
open Noulith.RcHeap (Atom Rhs Stmt)

inductive Tree where
  | null
  | int (n : Int)
  | list (ts : List Tree)
  /-- a dict with integer keys: i-th key `ks[i]`, i-th value `vs[i]` (the order carries no meaning:
  every observation sorts by key) -/
  | dict (ks : List Int) (vs : List Tree)
  deriving Repr, Inhabited

/-- containers (lists and dicts) and their parts -/
def Tree.isCont : Tree → Bool
  | .list _ => true
  | .dict _ _ => true
  | _ => false
/-- the elements of a list / the values of a dict -/
def Tree.kids : Tree → List Tree
  | .list ts => ts
  | .dict _ vs => vs
  | _ => []
/-- `none` for a list, the key list for a dict -/
def Tree.keysT : Tree → Option (List Int)
  | .dict ks _ => some ks
  | _ => none
/-- the same container with other elements / values -/
def Tree.withKids : Tree → List Tree → Tree
  | .list _, ts => .list ts
  | .dict ks _, vs => .dict ks vs
  | t, _ => t

/-- a dict has as many keys as values (vacuous for the other trees) -/
def Tree.dictWF (t : Tree) : Prop := ∀ ks, t.keysT = some ks → ks.length = t.kids.length
theorem Tree.dictWF_list (ts : List Tree) : (Tree.list ts).dictWF := by intro ks h; simp [Tree.keysT] at h
theorem Tree.dictWF_dict {ks : List Int} {vs : List Tree} (h : ks.length = vs.length) : (Tree.dict ks vs).dictWF := by
  intro ks' e; simp [Tree.keysT] at e; subst e; simpa [Tree.kids] using h
theorem Tree.dictWF_withKids {t : Tree} {vs : List Tree} (hw : t.dictWF) (hl : vs.length = t.kids.length) :
    (t.withKids vs).dictWF := by
  cases t with
  | null => intro ks h; simp [Tree.withKids, Tree.keysT] at h
  | int n => intro ks h; simp [Tree.withKids, Tree.keysT] at h
  | list ts => exact Tree.dictWF_list _
  | dict ks vs0 =>
    have := hw ks rfl
    exact Tree.dictWF_dict (by simp [Tree.kids] at this hl; omega)

@[simp] theorem Tree.isCont_list (ts : List Tree) : (Tree.list ts).isCont = true := rfl
@[simp] theorem Tree.isCont_dict (ks : List Int) (vs : List Tree) : (Tree.dict ks vs).isCont = true := rfl
@[simp] theorem Tree.isCont_null : Tree.null.isCont = false := rfl
@[simp] theorem Tree.isCont_int (n : Int) : (Tree.int n).isCont = false := rfl
@[simp] theorem Tree.kids_list (ts : List Tree) : (Tree.list ts).kids = ts := rfl
@[simp] theorem Tree.kids_dict (ks : List Int) (vs : List Tree) : (Tree.dict ks vs).kids = vs := rfl
@[simp] theorem Tree.keysT_list (ts : List Tree) : (Tree.list ts).keysT = none := rfl
@[simp] theorem Tree.keysT_dict (ks : List Int) (vs : List Tree) : (Tree.dict ks vs).keysT = some ks := rfl
@[simp] theorem Tree.withKids_list (ts ts' : List Tree) : (Tree.list ts).withKids ts' = .list ts' := rfl
@[simp] theorem Tree.withKids_dict (ks : List Int) (vs vs' : List Tree) : (Tree.dict ks vs).withKids vs' = .dict ks vs' := rfl
theorem Tree.withKids_isCont {t : Tree} (vs : List Tree) (h : t.isCont = true) : (t.withKids vs).isCont = true := by
  cases t <;> simp_all [Tree.isCont, Tree.withKids]
theorem Tree.withKids_kids {t : Tree} (vs : List Tree) (h : t.isCont = true) : (t.withKids vs).kids = vs := by
  cases t <;> simp_all [Tree.isCont, Tree.withKids, Tree.kids]
theorem Tree.withKids_keysT {t : Tree} (vs : List Tree) : (t.withKids vs).keysT = t.keysT := by
  cases t <;> simp [Tree.withKids, Tree.keysT]
theorem Tree.withKids_self {t : Tree} : t.withKids t.kids = t := by
  cases t <;> simp [Tree.withKids, Tree.kids]

/-- Python's index rule: `0 ≤ i < len` is itself, `-len ≤ i < 0` counts from the end -/
def pyIdx (len : Nat) (i : Int) : Option Nat :=
  if 0 ≤ i ∧ i < len then some i.toNat
  else if i < 0 ∧ 0 ≤ i + len then some (i + len).toNat
  else none

/-- position of a key in a dict's key list -/
def keyIdx : List Int → Int → Option Nat
  | [], _ => none
  | k :: ks, i => if k = i then some 0 else (keyIdx ks i).map (· + 1)

/-- position of key `i` among the entries of a dict -/
def dictSlot (ks : List Int) (n : Nat) (i : Int) : Option Nat :=
  match keyIdx ks i with
  | some j => if j < n then some j else none
  | none => none

/-- the sub-tree at an index path (list indices / dict keys) -/
def getPath : Tree → List Int → Option Tree
  | t, [] => some t
  | .list ts, i :: rest =>
    match pyIdx ts.length i with
    | none => none
    | some j => getPath (ts.getD j .null) rest
  | .dict ks vs, i :: rest =>
    match dictSlot ks vs.length i with
    | none => none
    | some j => getPath (vs.getD j .null) rest
  | _, _ :: _ => none

/-- a slot transformation `old ↦ (new, result)` (`none` = raises), together with the value an index
assignment stores under a dict key that is not present yet (`none` for pop / remove / consume) -/
structure LeafT where
  act : Tree → Option (Tree × Tree)
  ins : Option Tree

/-- transform the slot at an index path with `φ : old ↦ (new, result)`; `none` = the statement raises -/
def modPath (φ : LeafT) : Tree → List Int → Option (Tree × Tree)
  | t, [] => φ.act t
  | .list ts, i :: rest =>
    match pyIdx ts.length i with
    | none => none
    | some j =>
      match modPath φ (ts.getD j .null) rest with
      | none => none
      | some (t', r) => some (.list (ts.set j t'), r)
  | .dict ks vs, i :: rest =>
    match dictSlot ks vs.length i with
    | some j =>
      match modPath φ (vs.getD j .null) rest with
      | none => none
      | some (t', r) => some (.dict ks (vs.set j t'), r)
    | none =>
      -- an index assignment whose last index is a new key inserts it
      match rest, φ.ins with
      | [], some new => some (.dict (ks ++ [i]) (vs ++ [new]), .null)
      | _, _ => none
  | _, _ :: _ => none

def setφ (new : Tree) : LeafT := ⟨fun _old => some (new, .null), some new⟩
def takeφ : LeafT := ⟨fun old => some (.null, old), none⟩
def popAct : Tree → Option (Tree × Tree)
  | .list ts =>
    match ts.getLast? with
    | some x => some (.list ts.dropLast, x)
    | none => none
  | _ => none
def popφ : LeafT := ⟨popAct, none⟩
def removeAct (i : Int) : Tree → Option (Tree × Tree)
  | .list ts =>
    match pyIdx ts.length i with
    | some j => some (.list (ts.eraseIdx j), ts.getD j .null)
    | none => none
  | .dict ks vs =>
    match dictSlot ks vs.length i with
    | some j => some (.dict (ks.eraseIdx j) (vs.eraseIdx j), vs.getD j .null)
    | none => none
  | _ => none
def removeφ (i : Int) : LeafT := ⟨removeAct i, none⟩

def setPath (t : Tree) (path : List Int) (new : Tree) : Option Tree :=
  (modPath (setφ new) t path).map (·.1)

abbrev Store := List Tree

def Store.init (nvars : Nat) : Store := List.replicate nvars .null

def get (σ : Store) (x : Nat) : Tree := σ.getD x .null

def evalAtom (σ : Store) : Atom → Tree
  | .null => .null
  | .int n => .int n
  | .var x => get σ x

def evalRhs (σ : Store) : Rhs → Tree
  | .atom a => evalAtom σ a
  | .list as => .list (as.map (evalAtom σ))
  | .rep a n => .list (List.replicate n (evalAtom σ a))
  | .dict kvs => .dict (kvs.map (·.1)) ((kvs.map (·.2)).map (evalAtom σ))

def declared (σ : Store) (x : Nat) : Bool := x < σ.length

/-- `y = <op> x[path]` for pop / remove / consume -/
def extract (σ : Store) (φ : LeafT) (y x : Nat) (path : List Int) : Store × Bool :=
  if declared σ x ∧ declared σ y then
    match modPath φ (get σ x) path with
    | none => (σ, false)
    | some (t', r) => ((σ.set x t').set y r, true)
  else (σ, false)

/-- second half of `x[path] append= …` given the OLD value `tl` of the slot and the value `tv` of the
right-hand side: the slot becomes `tl ++ [tv]`; if `tl` is not a list the operator raises and the slot
is left null (documented); if the slot can no longer be addressed the statement raises -/
def appendFinish (σ : Store) (x : Nat) (path : List Int) (tl tv : Tree) : Store × Bool :=
  match tl with
  | .list ts =>
    match setPath (get σ x) path (.list (ts ++ [tv])) with
    | some t' => (σ.set x t', true)
    | none => (σ, false)
  | _ =>
    match setPath (get σ x) path .null with
    | some t' => (σ.set x t', false)
    | none => (σ, false)

/-- one statement; the flag is `false` when the statement raises.  A raising statement leaves the store
unchanged, with the one documented exception: an operator-assignment whose operator raises leaves the
addressed slot null (README: the left-hand side is null while the operator runs). -/
def step (σ : Store) : Stmt → Store × Bool
  | .assign x r => if declared σ x then (σ.set x (evalRhs σ r), true) else (σ, false)
  | .setIdx x path r =>
    if declared σ x then
      match setPath (get σ x) path (evalRhs σ r) with
      | some t' => (σ.set x t', true)
      | none => (σ, false)
    else (σ, false)
  | .append x path r =>
    if declared σ x then
      match getPath (get σ x) path with
      | none => (σ, false)
      | some tl => appendFinish σ x path tl (evalRhs σ r)
    else (σ, false)
  | .pop y x path => extract σ popφ y x path
  | .remove y x path i => extract σ (removeφ i) y x path
  | .consume y x path => extract σ takeφ y x path
  | .swap x px y py =>
    if declared σ x ∧ declared σ y then
      match getPath (get σ x) px, getPath (get σ y) py with
      | some a, some b =>
        match setPath (get σ x) px b with
        | none => (σ, false)
        | some tx =>
          let σ1 := σ.set x tx
          match setPath (get σ1 y) py a with
          | none => (σ1, false)
          | some ty => (σ1.set y ty, true)
      | _, _ => (σ, false)
    else (σ, false)
  | .update y x i a =>
    if declared σ x ∧ declared σ y then
      match setPath (get σ x) [i] (evalAtom σ a) with
      | some t' => (σ.set y t', true)
      | none => (σ, false)
    else (σ, false)
  | .callAppend y x a =>
    if declared σ x ∧ declared σ y then
      match get σ x with
      | .list ts => (σ.set y (.list (ts ++ [evalAtom σ a])), true)
      | _ => (σ, false)
    else (σ, false)
  | .appendPop x path y ypath =>
    if declared σ x ∧ declared σ y then
      -- the old value of the slot is read BEFORE the right-hand side pops
      match getPath (get σ x) path with
      | none => (σ, false)
      | some tl =>
        match modPath popφ (get σ y) ypath with
        | none => (σ, false)
        | some (ty, r) => appendFinish (σ.set y ty) x path tl r
    else (σ, false)

def run (σ : Store) : List Stmt → Store
  | [] => σ
  | st :: rest => run (step σ st).1 rest

end Noulith.Store
