/-
C01 Spec: the pure copy-on-assignment store.  A value is a tree (no sharing, no counts); the store is
one tree per variable; every statement is the obvious functional update of the addressed slot of the
named variable.  Nothing here mentions allocations, handles or reference counts.
Core Lean only.
-/
import NoulithModel.Impl.Heap

namespace Noulith.Store
open Noulith.RcHeap (Atom Rhs Stmt)

inductive Tree where
  | null
  | int (n : Int)
  | list (ts : List Tree)
  deriving Repr, Inhabited

/-- Python's index rule: `0 ≤ i < len` is itself, `-len ≤ i < 0` counts from the end -/
def pyIdx (len : Nat) (i : Int) : Option Nat :=
  if 0 ≤ i ∧ i < len then some i.toNat
  else if i < 0 ∧ 0 ≤ i + len then some (i + len).toNat
  else none

/-- the sub-tree at an index path -/
def getPath : Tree → List Int → Option Tree
  | t, [] => some t
  | .list ts, i :: rest =>
    match pyIdx ts.length i with
    | none => none
    | some j => getPath (ts.getD j .null) rest
  | _, _ :: _ => none

/-- transform the slot at an index path with `φ : old ↦ (new, result)`; `none` = the statement raises -/
def modPath (φ : Tree → Option (Tree × Tree)) : Tree → List Int → Option (Tree × Tree)
  | t, [] => φ t
  | .list ts, i :: rest =>
    match pyIdx ts.length i with
    | none => none
    | some j =>
      match modPath φ (ts.getD j .null) rest with
      | none => none
      | some (t', r) => some (.list (ts.set j t'), r)
  | _, _ :: _ => none

def setφ (new : Tree) (_old : Tree) : Option (Tree × Tree) := some (new, .null)
def takeφ (old : Tree) : Option (Tree × Tree) := some (.null, old)
def popφ : Tree → Option (Tree × Tree)
  | .list ts =>
    match ts.getLast? with
    | some x => some (.list ts.dropLast, x)
    | none => none
  | _ => none
def removeφ (i : Int) : Tree → Option (Tree × Tree)
  | .list ts =>
    match pyIdx ts.length i with
    | some j => some (.list (ts.eraseIdx j), ts.getD j .null)
    | none => none
  | _ => none

def setPath (t : Tree) (path : List Int) (new : Tree) : Option Tree :=
  (modPath (setφ new) t path).map (·.1)

abbrev Store := List Tree

def Store.init (nvars : Nat) : Store := List.replicate nvars .null

def get (σ : Store) (x : Nat) : Tree := σ.getD x .null

def evalAtom (σ : Store) : Atom → Tree
  | .null => .null
  | .int n => .int n
  | .var x => get σ x

def evalRhs (σ : Store) : Rhs → Tree
  | .atom a => evalAtom σ a
  | .list as => .list (as.map (evalAtom σ))
  | .rep a n => .list (List.replicate n (evalAtom σ a))

def declared (σ : Store) (x : Nat) : Bool := x < σ.length

/-- `y = <op> x[path]` for pop / remove / consume -/
def extract (σ : Store) (φ : Tree → Option (Tree × Tree)) (y x : Nat) (path : List Int) : Store × Bool :=
  if declared σ x ∧ declared σ y then
    match modPath φ (get σ x) path with
    | none => (σ, false)
    | some (t', r) => ((σ.set x t').set y r, true)
  else (σ, false)

/-- second half of `x[path] append= …` given the OLD value `tl` of the slot and the value `tv` of the
right-hand side: the slot becomes `tl ++ [tv]`; if `tl` is not a list the operator raises and the slot
is left null (documented); if the slot can no longer be addressed the statement raises -/
def appendFinish (σ : Store) (x : Nat) (path : List Int) (tl tv : Tree) : Store × Bool :=
  match tl with
  | .list ts =>
    match setPath (get σ x) path (.list (ts ++ [tv])) with
    | some t' => (σ.set x t', true)
    | none => (σ, false)
  | _ =>
    match setPath (get σ x) path .null with
    | some t' => (σ.set x t', false)
    | none => (σ, false)

/-- one statement; the flag is `false` when the statement raises.  A raising statement leaves the store
unchanged, with the one documented exception: an operator-assignment whose operator raises leaves the
addressed slot null (README: the left-hand side is null while the operator runs). -/
def step (σ : Store) : Stmt → Store × Bool
  | .assign x r => if declared σ x then (σ.set x (evalRhs σ r), true) else (σ, false)
  | .setIdx x path r =>
    if declared σ x then
      match setPath (get σ x) path (evalRhs σ r) with
      | some t' => (σ.set x t', true)
      | none => (σ, false)
    else (σ, false)
  | .append x path r =>
    if declared σ x then
      match getPath (get σ x) path with
      | none => (σ, false)
      | some tl => appendFinish σ x path tl (evalRhs σ r)
    else (σ, false)
  | .pop y x path => extract σ popφ y x path
  | .remove y x path i => extract σ (removeφ i) y x path
  | .consume y x path => extract σ takeφ y x path
  | .swap x px y py =>
    if declared σ x ∧ declared σ y then
      match getPath (get σ x) px, getPath (get σ y) py with
      | some a, some b =>
        match setPath (get σ x) px b with
        | none => (σ, false)
        | some tx =>
          let σ1 := σ.set x tx
          match setPath (get σ1 y) py a with
          | none => (σ1, false)
          | some ty => (σ1.set y ty, true)
      | _, _ => (σ, false)
    else (σ, false)
  | .update y x i a =>
    if declared σ x ∧ declared σ y then
      match setPath (get σ x) [i] (evalAtom σ a) with
      | some t' => (σ.set y t', true)
      | none => (σ, false)
    else (σ, false)
  | .callAppend y x a =>
    if declared σ x ∧ declared σ y then
      match get σ x with
      | .list ts => (σ.set y (.list (ts ++ [evalAtom σ a])), true)
      | _ => (σ, false)
    else (σ, false)
  | .appendPop x path y ypath =>
    if declared σ x ∧ declared σ y then
      -- the old value of the slot is read BEFORE the right-hand side pops
      match getPath (get σ x) path with
      | none => (σ, false)
      | some tl =>
        match modPath popφ (get σ y) ypath with
        | none => (σ, false)
        | some (ty, r) => appendFinish (σ.set y ty) x path tl r
    else (σ, false)

def run (σ : Store) : List Stmt → Store
  | [] => σ
  | st :: rest => run (step σ st).1 rest

end Noulith.Store
