/-
Spec for the registration facts C03 relies on, written by hand from the README ("Almost all builtin
functions' precedences are determined by this Scala-inspired rule …", the table below it, "the only
exceptions to this rule are `<<` and `>>`, which have precedence like `^`") and from the property
text (which operators chain with which).  The generated tables (Generated/C03Tables.lean, re-read
from /repo/src on every run) are proved equal to this in Theorems/C03.lean; the driver's Spec
column for real-builtin chains uses THIS file, its Impl column the generated tables.
Core Lean only.
-/
import NoulithModel.Impl.Chain

namespace Noulith.Chain.SpecTables

/-- the README's table: "look up each character …"; the non-ASCII operator characters are not in
the README and are listed here with the level of their ASCII counterparts -/
def specChar (c : Char) : Int :=
  if c.isAlphanum || c == '_' then 0
  else if c == '=' || c == '<' || c == '>' || c == '≤' || c == '≥' || c == '∘' || c == '∈' ||
      c == '∉' || c == '∋' || c == '∌' then 1
  else if c == '$' then 2
  else if c == '|' then 3
  else if c == '+' || c == '-' || c == '~' || c == '⊕' || c == '⧺' then 4
  else if c == '*' || c == '/' || c == '%' || c == '&' || c == '×' then 5
  else if c == '^' then 6
  else if c == '!' || c == '?' then 7
  else 8

/-- "… then take the loosest precedence of any individual character", except `<<` and `>>` -/
def specPrecedence (name : String) : Int :=
  if name == "<<" || name == ">>" then 6 else reduceMin (name.toList.map specChar)

/-- exponentiation and list prepend associate to the right, everything else to the left -/
def specRassoc (name : String) : Bool := name == "^" || name == ".+" || name == "prepend"

def comparisonNames : List String := ["==", "!=", "=~", "!~", "<", ">", "<=", "≤", ">=", "≥"]

/-- which arriving builtins (by `builtin_name`) a builtin chains with -/
def specAccepts (name : String) : List String :=
  if name == "zip" then ["zip", "with"]
  else if name == "ziplongest" then ["ziplongest", "with"]
  else if name == "lazy_zip" then ["lazy_zip", "with"]
  else if name == "merge" then ["merge", "with"]
  else if name == "**" || name == "×" then ["**"]
  else if name == "&&&" then ["&&&"]
  else if name == "***" then ["***"]
  else if name == "equals" then ["equals"]
  else if name == "til" || name == "to" || name == "split" || name == "rsplit" || name == "split_re"
    then ["by"]
  else if name == "fold" || name == "scan" then ["from"]
  else if name == "replace" || name == "rearrange" then ["with"]
  else []

/-- what `builtin_name()` answers for a registered name (aliases answer the primary name) -/
def specBuiltinName (name : String) : String :=
  if name == "≤" then "<=" else if name == "≥" then ">=" else if name == "×" then "**"
  else if name == "⧺" then "++" else if name == "∘" then "<<<" else if name == ".+" then "prepend"
  else if name == "+." then "append" else if name == "map2" then "mapmap" else name

end Noulith.Chain.SpecTables
