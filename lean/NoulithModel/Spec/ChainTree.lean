/-
Spec for C03: which expression tree an infix chain `e0 f1 e1 … fn en` denotes.

Two independent formulations:

  * `Valid` — a DECLARATIVE predicate on trees (no algorithm): an n-ary application tree is the
    grouping of the chain iff at every operator `g` of every application node
      (i)   if `g` is merged into the node (2nd, 3rd … operator of an n-ary application) then the
            node so far would have been applied before `g` (`tighter`) and declares itself
            chainable with `g`;
      (ii)  every application on the right spine of the operand to the LEFT of `g` was applied
            before `g` arrived: it is `tighter` than `g` and does not chain with `g`;
      (iii) every application on the left spine of the operand to the RIGHT of `g` waited for
            its turn: the node of `g` is not `tighter` than that application's first operator.
    In words: tighter operators apply first; on a tie (or NaN) the left operator's associativity
    decides; chainable operators merge exactly when the left one would otherwise be applied
    first; nothing else.

  * `climb` — executable textbook precedence climbing (recursive descent with the operator to
    the left as binding context), used by the harness as oracle.

Encoding of n-ary application nodes (so that the tree type is an ordinary, non-nested inductive):
`bin l g r` is a fresh application `g(l, r)`; `ext l g r` EXTENDS the application node `l` by one
more operator `g` and one more operand `r`.  So
`ext (ext (bin c0 g1 c1) g2 c2) g3 c3` is the single 4-ary application `G(c0, c1, c2, c3)` whose
function is `g1` merged with `g2` merged with `g3`.  `kids`/`merged` read the n-ary view back.
Core Lean only.
-/
import NoulithModel.Impl.Chain

namespace Noulith.Chain

/-- an operator value as it stands in a chain: `Obj::Func(fn, prec)` -/
structure Op (F : Type) where
  fn : F
  prec : Precedence
  deriving DecidableEq, Repr

/-- the chain `first g1 x1 g2 x2 …` -/
structure ChainOf (F L : Type) where
  first : L
  rest : List (Op F × L)

inductive Tree (F L : Type) where
  | leaf (v : L)
  | bin (l : Tree F L) (g : Op F) (r : Tree F L)
  | ext (l : Tree F L) (g : Op F) (r : Tree F L)
  deriving DecidableEq, Repr

/-- chain symbols, for the in-order yield -/
inductive Sym (F L : Type) where
  | opd (v : L)
  | opr (g : Op F)
  deriving DecidableEq, Repr

namespace Tree
variable {F L : Type}

def isNode : Tree F L → Bool
  | leaf _ => false
  | _ => true

/-- in-order yield: operands and operators left to right -/
def yield : Tree F L → List (Sym F L)
  | leaf v => [.opd v]
  | bin l g r => yield l ++ .opr g :: yield r
  | ext l g r => yield l ++ .opr g :: yield r

/-- first operand of the yield -/
def first : Tree F L → L
  | leaf v => v
  | bin l _ _ => first l
  | ext l _ _ => first l

/-- the yield after its first operand, as (operator, operand) pairs -/
def rest : Tree F L → List (Op F × L)
  | leaf _ => []
  | bin l g r => rest l ++ (g, first r) :: rest r
  | ext l g r => rest l ++ (g, first r) :: rest r

def chain (t : Tree F L) : ChainOf F L := ⟨t.first, t.rest⟩

/-- precedence of the application's FIRST operator (what a pending entry keeps; junk on a leaf) -/
def headPrec : Tree F L → Precedence
  | leaf _ => Precedence.zero
  | bin _ g _ => g.prec
  | ext l _ _ => headPrec l

/-- the function the application node applies: its operators merged left to right by
`tryChain`; `none` on a leaf or when some merge is refused -/
def merged (tc : F → F → Option F) : Tree F L → Option F
  | leaf _ => none
  | bin _ g _ => some g.fn
  | ext l g _ => (merged tc l).bind (fun f => tc f g.fn)

/-- the application node `t` declares itself chainable with the arriving operator `g` -/
def chains (tc : F → F → Option F) (t : Tree F L) (g : Op F) : Bool :=
  ((merged tc t).bind (fun f => tc f g.fn)).isSome

/-- last operand of the root application -/
def lastKid : Tree F L → Tree F L
  | leaf v => leaf v
  | bin _ _ r => r
  | ext _ _ r => r

/-- operands of the root application (the n-ary view) -/
def kids : Tree F L → List (Tree F L)
  | leaf _ => []
  | bin l _ r => [l, r]
  | ext l _ r => kids l ++ [r]

/-- application nodes on the right spine, root first -/
def rspine : Tree F L → List (Tree F L)
  | leaf _ => []
  | bin l g r => bin l g r :: rspine r
  | ext l g r => ext l g r :: rspine r

/-- first operators of the application nodes on the left spine, root first -/
def lspine : Tree F L → List (Op F)
  | leaf _ => []
  | bin l g _ => g :: lspine l
  | ext l _ _ => lspine l

end Tree

open Tree

section valid
variable {F L : Type} (tc : F → F → Option F)

/-- (ii): everything on the right spine of `c` (the operand to the left of `g`) was applied
before `g`: it is tighter than `g` and does not chain with it -/
def AppliedBefore (c : Tree F L) (g : Op F) : Prop :=
  ∀ t ∈ rspine c, tighter (headPrec t) g.prec = true ∧ chains tc t g = false

/-- (iii): every application on the left spine of `c` (the operand to the right of an operator
of a node with head precedence `p`) waited: the node is not tighter than its first operator -/
def Waited (p : Precedence) (c : Tree F L) : Prop :=
  ∀ h ∈ lspine c, tighter p h.prec = false

/-- the declarative grouping predicate -/
def Valid : Tree F L → Prop
  | leaf _ => True
  | bin l g r =>
    Valid l ∧ Valid r ∧ AppliedBefore tc l g ∧ Waited g.prec r
  | ext l g r =>
    isNode l = true ∧ Valid l ∧ Valid r ∧
    (tighter (headPrec l) g.prec = true ∧ chains tc l g = true) ∧   -- (i)
    AppliedBefore tc (lastKid l) g ∧                                 -- (ii)
    Waited (headPrec l) r                                            -- (iii)

instance : DecidablePred (AppliedBefore tc (L := L) c) := fun g => by
  unfold AppliedBefore; infer_instance
instance : Decidable (Waited (F := F) (L := L) p c) := by unfold Waited; infer_instance

def validDec : (t : Tree F L) → Decidable (Valid tc t)
  | leaf _ => isTrue trivial
  | bin l g r =>
    have := validDec l; have := validDec r
    by unfold Valid; infer_instance
  | ext l g r =>
    have := validDec l; have := validDec r
    by unfold Valid; infer_instance
instance : DecidablePred (Valid tc (L := L)) := validDec tc

end valid

/-! ### precedence climbing -/

section climb
variable {F L : Type} (tc : F → F → Option F)

/-- does the operator to the left (context) claim the operand before `h` can? textbook:
`prec(h) < min_prec`, resp. `<=` when the context operator is left-associative -/
def stops : Option Precedence → Op F → Bool
  | none, _ => false
  | some c, h => tighter c h.prec

/-- `climb fuel ctx lhs toks`: `lhs` is the operand parsed so far at this level, `ctx` the
precedence of the operator whose right operand is being parsed (none at top level).  Returns the
complete operand and the unconsumed input. -/
def climb : Nat → Option Precedence → Tree F L → List (Op F × L) → Tree F L × List (Op F × L)
  | 0, _, lhs, toks => (lhs, toks)
  | _ + 1, _, lhs, [] => (lhs, [])
  | fuel + 1, ctx, lhs, (h, x) :: more =>
    if isNode lhs && tighter (headPrec lhs) h.prec && chains tc lhs h then
      -- `lhs` would be applied now, but it chains with `h`: one more operand of the same node
      let r := climb fuel (some (headPrec lhs)) (leaf x) more
      climb fuel ctx (ext lhs h r.1) r.2
    else if stops ctx h then
      (lhs, (h, x) :: more)
    else
      let r := climb fuel (some h.prec) (leaf x) more
      climb fuel ctx (bin lhs h r.1) r.2

/-- the tree a chain denotes, by precedence climbing -/
def climbTree (c : ChainOf F L) : Tree F L :=
  (climb tc (c.rest.length + 1) none (leaf c.first) c.rest).1

end climb

/-! ### meaning of a tree under an interpretation of the operators -/

section sem
variable {F L V : Type} (run : F → List V → Out V) (tc : F → F → Option F) (lv : L → V)

mutual
/-- value of a tree: operands left to right, then the application (post-order); the first
failure wins -/
def semM : Tree F L → Out V
  | leaf v => .ok (lv v)
  | bin l g r =>
    (semM l).bind fun a => (semM r).bind fun b => run g.fn [a, b]
  | ext l g r =>
    (kidsM l).bind fun as => (semM r).bind fun b =>
      match merged tc (ext l g r) with
      | some f => run f (as ++ [b])
      | none => .throw
/-- values of the operands of the root application (the application itself is not run) -/
def kidsM : Tree F L → Out (List V)
  | leaf _ => .ok []
  | bin l _ r => (semM l).bind fun a => (semM r).bind fun b => .ok [a, b]
  | ext l _ r => (kidsM l).bind fun as => (semM r).bind fun b => .ok (as ++ [b])
end

end sem

/-! ### which operators a chain is made of, when operands have effects

The chain `e0 f1 e1 … fn en` is made of the function values and precedences the operator
expressions have AT THEIR POSITION in the left-to-right evaluation order: `f_i` is looked up after
`e_(i-1)` has been evaluated and before `e_i` is.  `resolveOps` is that sequence (and the state
after the last operand); the value of the chain is then the value of the valid tree over it. -/

section resolve
variable {σ E F V : Type} (J : LangS σ E F V)

def resolveOps : List (E × E) → σ → Option (List (F × Precedence × V)) × σ
  | [], s => (some [], s)
  | (oper, opd) :: rest, s =>
    match J.evaluate oper s with
    | (.ok w, s1) =>
      match J.asFunc w with
      | some (f, p) =>
        match J.evaluate opd s1 with
        | (.ok v, s2) =>
          match resolveOps rest s2 with
          | (some ts, s3) => (some ((f, p, v) :: ts), s3)
          | (none, s3) => (none, s3)
        | (_, s2) => (none, s2)
      | none => (none, s1)
    | (_, s1) => (none, s1)

end resolve

end Noulith.Chain
