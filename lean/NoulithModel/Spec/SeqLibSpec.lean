/-
C13 — Spec of the sequence library: one line per function over `List`, no accumulators, no
counters, no iterator states.

Pure functions are ordinary `List` expressions (index formulas over `List.range`, or the textbook
structural recursion).  Functions that call a Noulith function argument come in two layers:
* the `…E` form takes the callback as `α → Out β` and is the textbook left-to-right recursion in
  the `ok | throw | panic` monad ("evaluate `f` on the elements in order, the first failure is the
  result") — this is what a straightforward reference implementation in a language with
  exceptions does;
* the pure one-liner (`List.filter`, `List.map`, `List.takeWhile`, …) it collapses to when the
  callback never fails (theorems `…_pure` in Theorems/C13.lean).
Core Lean only.
-/
import NoulithModel.Common

namespace Noulith.SeqSpec
open Noulith

variable {α β γ κ : Type}

/-- sequencing in the outcome monad -/
@[inline] def bind (x : Out α) (k : α → Out β) : Out β :=
  match x with
  | .ok a => k a
  | .throw => .throw
  | .panic => .panic

@[simp] theorem bind_ok (a : α) (k : α → Out β) : bind (.ok a) k = k a := rfl
@[simp] theorem bind_throw (k : α → Out β) : bind (.throw : Out α) k = .throw := rfl
@[simp] theorem bind_panic (k : α → Out β) : bind (.panic : Out α) k = .panic := rfl

/-! ## callbacks: the textbook monadic recursions -/

/-- `map f xs` -/
def mapE (f : α → Out β) : List α → Out (List β)
  | [] => .ok []
  | x :: xs => bind (f x) fun y => bind (mapE f xs) fun ys => .ok (y :: ys)

/-- `filter p xs` (`neg = true`: `reject`) -/
def filterE (p : α → Out Bool) (neg : Bool) : List α → Out (List α)
  | [] => .ok []
  | x :: xs => bind (p x) fun b => bind (filterE p neg xs) fun r => .ok (if b != neg then x :: r else r)

/-- `partition p xs = [filter p xs, reject p xs]`, the predicate evaluated once per element -/
def partitionE (p : α → Out Bool) (xs : List α) : Out (List α × List α) :=
  bind (mapE p xs) fun bs =>
    .ok (((xs.zip bs).filter (·.2)).map (·.1), ((xs.zip bs).filter (!·.2)).map (·.1))

/-- `flat_map f xs = flatten (map f xs)` -/
def flatMapE (f : α → Out (List β)) (xs : List α) : Out (List β) :=
  bind (mapE f xs) fun ys => .ok ys.flatten

/-- `each f xs`: call `f` on every element, result `null` -/
def eachE (f : α → Out β) (xs : List α) : Out Unit := bind (mapE f xs) fun _ => .ok ()

/-- `count p xs` -/
def countE (p : α → Out Bool) (xs : List α) : Out Nat :=
  bind (mapE p xs) fun bs => .ok (bs.count true)

/-- `any p xs`: left to right, stops at the first true -/
def anyE (p : α → Out Bool) : List α → Out Bool
  | [] => .ok false
  | x :: xs => bind (p x) fun b => if b then .ok true else anyE p xs

/-- `all p xs`: left to right, stops at the first false -/
def allE (p : α → Out Bool) : List α → Out Bool
  | [] => .ok true
  | x :: xs => bind (p x) fun b => if b then allE p xs else .ok false

/-- `find p xs`: the first element satisfying `p` -/
def findE (p : α → Out Bool) : List α → Out (Option α)
  | [] => .ok none
  | x :: xs => bind (p x) fun b => if b then .ok (some x) else findE p xs

/-- `locate p xs`: the index of the first element satisfying `p` -/
def locateE (p : α → Out Bool) : List α → Out (Option Nat)
  | [] => .ok none
  | x :: xs => bind (p x) fun b => if b then .ok (some 0) else bind (locateE p xs) fun r => .ok (r.map (· + 1))

/-- `take p xs`: the longest prefix satisfying `p` -/
def takeWhileE (p : α → Out Bool) : List α → Out (List α)
  | [] => .ok []
  | x :: xs => bind (p x) fun b => if b then bind (takeWhileE p xs) fun r => .ok (x :: r) else .ok []

/-- `drop p xs`: what is left after that prefix -/
def dropWhileE (p : α → Out Bool) : List α → Out (List α)
  | [] => .ok []
  | x :: xs => bind (p x) fun b => if b then dropWhileE p xs else .ok (x :: xs)

/-- left fold -/
def foldlE (f : β → α → Out β) : β → List α → Out β
  | s, [] => .ok s
  | s, x :: xs => bind (f s x) fun s' => foldlE f s' xs

/-- `fold f xs` without a seed: the first element is the seed, empty raises -/
def fold1E (f : α → α → Out α) : List α → Out α
  | [] => .throw
  | x :: xs => foldlE f x xs

/-- `scan f s xs`: all intermediate values of the fold, starting with the seed -/
def scanlE (f : β → α → Out β) : β → List α → Out (List β)
  | s, [] => .ok [s]
  | s, x :: xs => bind (f s x) fun s' => bind (scanlE f s' xs) fun r => .ok (s :: r)

def scan1E (f : α → α → Out α) : List α → Out (List α)
  | [] => .ok []
  | x :: xs => scanlE f x xs

/-- `sum f xs = fold (+) 0 (map f xs)`, evaluated interleaved -/
def sumE (zero : γ) (op : γ → γ → Out γ) (f : α → Out γ) (xs : List α) : Out γ :=
  foldlE (fun s x => bind (f x) fun y => op s y) zero xs

/-- `pairwise f xs = zipWith f xs (tail xs)` -/
def pairwiseE (f : α → α → Out β) (xs : List α) : Out (List β) :=
  mapE (fun p => f p.1 p.2) (xs.zip xs.tail)

/-- `min` / `max` with comparator `cmp`: fold keeping the current extremum, replaced only by a
strictly better element (`cmp b r = bias`) -/
def extremumE (cmp : α → α → Out Ordering) (bias : Ordering) (xs : List α) : Out α :=
  fold1E (fun r b => bind (cmp b r) fun o => .ok (if o == bias then b else r)) xs

/-- `group f xs`: split between adjacent elements where `f prev next` is false -/
def groupByE (f : α → α → Out Bool) : List α → Out (List (List α))
  | [] => .ok []
  | [x] => .ok [[x]]
  | x :: y :: xs =>
    bind (f x y) fun b => bind (groupByE f (y :: xs)) fun r =>
      .ok (match b, r with
           | true, g :: gs => (x :: g) :: gs
           | _, gs => [x] :: gs)

/-! ## pure one-liners -/

/-- `enumerate xs = [[0, x0], [1, x1], …]` -/
def enumerate (xs : List α) : List (Nat × α) := (List.range xs.length).zip xs

/-- `unique xs`: keep the first occurrence of every key class, in order (textbook `nub`) -/
def uniqueBy [BEq κ] (key : α → κ) : List α → List α
  | [] => []
  | x :: xs => x :: (uniqueBy key xs).filter (fun y => !(key y == key x))

/-- `group xs n`: consecutive chunks of length `n`, the last one possibly shorter -/
def chunks (xs : List α) (n : Nat) : List (List α) :=
  (List.range ((xs.length + n - 1) / n)).map fun i => (xs.drop (i * n)).take n

/-- `window xs n`: all contiguous slices of length `n` -/
def window (xs : List α) (n : Nat) : List (List α) :=
  (List.range (xs.length + 1 - n)).map fun i => (xs.drop i).take n

/-- `prefixes xs`: by increasing length -/
def prefixes (xs : List α) : List (List α) := (List.range (xs.length + 1)).map fun i => xs.take i

/-- `suffixes xs`: by increasing length -/
def suffixes (xs : List α) : List (List α) :=
  (List.range (xs.length + 1)).map fun i => xs.drop (xs.length - i)

/-- `group_all key xs`: one group per key class (classes in order of first appearance — the
real order is unspecified and observers sort), each group in input order -/
def groupAll [BEq κ] (key : α → κ) (xs : List α) : List (κ × List α) :=
  (uniqueBy id (xs.map key)).map fun k => (k, xs.filter fun x => key x == k)

/-- `frequencies xs` -/
def frequencies [BEq κ] (key : α → κ) (xs : List α) : List (κ × Nat) :=
  (uniqueBy id (xs.map key)).map fun k => (k, (xs.filter fun x => key x == k).length)

/-- the `i`-th column of a ragged matrix: the `i`-th elements of the rows long enough to have one -/
def column (rows : List (List α)) (i : Nat) : List α := rows.filterMap (·[i]?)

def minLen : List (List α) → Nat
  | [] => 0
  | [r] => r.length
  | r :: rs => min r.length (minLen rs)

def maxLen : List (List α) → Nat
  | [] => 0
  | r :: rs => max r.length (maxLen rs)

/-- `zip`: the transpose truncated to the shortest argument -/
def zip (rows : List (List α)) : List (List α) := (List.range (minLen rows)).map (column rows)

/-- `ziplongest` / `transpose`: the ragged transpose -/
def zipLongest (rows : List (List α)) : List (List α) := (List.range (maxLen rows)).map (column rows)

/-- `a ** b ** …`: all ways to pick one element from each argument, leftmost slowest -/
def product : List (List α) → List (List α)
  | [] => [[]]
  | a :: rest => a.flatMap fun x => (product rest).map (x :: ·)

/-- `xs ^^ n = xs ** … ** xs` (`n` factors); in particular `xs ^^ 0 = [[]]` for every `xs` -/
def power (xs : List α) (n : Nat) : List (List α) := product (List.replicate n xs)

/-- `xs ** n` with a number: `n` copies of `xs` concatenated -/
def repeatSeq (xs : List α) (n : Int) : List α := (List.replicate n.toNat xs).flatten

/-- `subsequences xs`: every sublist, in binary-counter order with the first element as the most
significant bit -/
def subsequences : List α → List (List α)
  | [] => [[]]
  | x :: xs => subsequences xs ++ (subsequences xs).map (x :: ·)

/-- `combinations xs k`: the `k`-element sublists in lexicographic index order -/
def combinations : List α → Nat → List (List α)
  | _, 0 => [[]]
  | [], _ + 1 => []
  | x :: xs, k + 1 => (combinations xs k).map (x :: ·) ++ combinations xs (k + 1)

/-- every way to pick one element out of a list: (the element, the others in order) -/
def picks : List α → List (α × List α)
  | [] => []
  | x :: xs => (x, xs) :: (picks xs).map fun p => (p.1, x :: p.2)

/-- `permutations xs`: all orderings in lexicographic index order: choose the first element
(positions left to right), then permute the others (`n` = length, for structural recursion) -/
def permsN : Nat → List α → List (List α)
  | 0, _ => [[]]
  | n + 1, xs => (picks xs).flatMap fun p => (permsN n p.2).map (p.1 :: ·)

def permutations (xs : List α) : List (List α) := permsN xs.length xs

/-- `sort`: the stable ordered permutation (core `List.mergeSort`; characterised by
`sort_stable_perm` in Theorems/C13.lean) -/
def sort (le : α → α → Bool) (xs : List α) : List α := xs.mergeSort le

/-- `join sep xs` -/
def join (sep : List γ) (disp : α → List γ) (xs : List α) : List γ :=
  sep.intercalate (xs.map disp)

/-! ## sorting with a comparator that may fail, grouping by a key that may fail -/

/-- all pairs `(xs[i], xs[j])`, `i < j` -/
def pairs : List α → List (α × α)
  | [] => []
  | x :: r => r.map (fun y => (x, y)) ++ pairs r

def failureOf (o : Out β) : Option (Out Unit) :=
  match o with
  | .ok _ => none
  | .throw => some .throw
  | .panic => some .panic

/-- the order a comparator induces: `a` may stay in front of `b` unless `cmp a b = gt` -/
def leOfCmp (cmp : α → α → Out Ordering) (a b : α) : Bool :=
  match cmp a b with
  | .ok .gt => false
  | _ => true

/-- `sort` with comparator `cmp`: defined when every two elements compare (in both orders); then
it is the stable sort by "`a` may stay in front of `b` unless `cmp a b = gt`" -/
def sortE (cmp : α → α → Out Ordering) (xs : List α) : Out (List α) :=
  match (pairs xs).findSome? fun p => (failureOf (cmp p.1 p.2)).or (failureOf (cmp p.2 p.1)) with
  | some .throw => .throw
  | some _ => .panic
  | none => .ok (sort (leOfCmp cmp) xs)

/-- `sort_on key xs`: evaluate the keys once, left to right; sort the elements by their keys -/
def sortOnE (key : α → Out κ) (kcmp : κ → κ → Out Ordering) (xs : List α) : Out (List α) :=
  bind (mapE key xs) fun ks =>
  bind (sortE (fun p q => kcmp p.1 q.1) (ks.zip xs)) fun r => .ok (r.map (·.2))

/-- `group_all` / `classify` with a key that may fail -/
def groupAllE [BEq κ] (key : α → Out κ) (xs : List α) : Out (List (κ × List α)) :=
  bind (mapE key xs) fun ks =>
    .ok ((uniqueBy id ks).map fun k => (k, ((xs.zip ks).filter (·.2 == k)).map (·.1)))

/-- `group' xs n`: chunks, and an error when the length is not a multiple of `n` -/
def chunksE (xs : List α) (n : Nat) (strict : Bool) : Out (List (List α)) :=
  if strict && xs.length % n != 0 then .throw else .ok (chunks xs n)

/-! ## strings -/

/-- split at every element satisfying `p` (the separators are dropped) -/
def splitOnP (p : γ → Bool) : List γ → List (List γ)
  | [] => [[]]
  | c :: cs =>
    if p c then [] :: splitOnP p cs
    else match splitOnP p cs with
      | piece :: ps => (c :: piece) :: ps
      | [] => [[c]]

/-- `split s pat` for a non-empty pattern: leftmost, non-overlapping occurrences (`fuel` only
makes the recursion structural) -/
def splitPat [BEq γ] (pat : List γ) : Nat → List γ → List (List γ)
  | 0, _ => [[]]
  | _, [] => [[]]
  | fuel + 1, c :: cs =>
    if pat.isPrefixOf (c :: cs) then [] :: splitPat pat fuel ((c :: cs).drop pat.length)
    else match splitPat pat fuel cs with
      | piece :: ps => (c :: piece) :: ps
      | [] => [[c]]

def split [BEq γ] (s pat : List γ) : List (List γ) :=
  if pat.isEmpty then [[]] ++ s.map (fun c => [c]) ++ [[]] else splitPat pat (s.length + 1) s

/-- `words s`: the non-empty pieces between whitespace -/
def words (isWs : γ → Bool) (s : List γ) : List (List γ) := (splitOnP isWs s).filter (!·.isEmpty)

/-- `lines s`: split at newlines; a final newline does not start another (empty) line -/
def lines [BEq γ] (nl : γ) (s : List γ) : List (List γ) :=
  let parts := splitOnP (· == nl) s
  if parts.getLast? == some [] then parts.dropLast else parts

/-! ## more of the library -/

/-- `locate s pat` / `pat in s` on text: the first position at which `pat` is a prefix of the rest -/
def findSub [BEq γ] (pat s : List γ) : Option Nat :=
  (List.range (s.length + 1)).find? fun i => pat.isPrefixOf (s.drop i)

/-- `split s pat n`: at most `n` pieces; the last one is the unsplit remainder, i.e. the remaining
pieces joined by the separator again -/
def splitn [BEq γ] (s pat : List γ) (n : Nat) : List (List γ) :=
  let ps := split s pat
  if n = 0 then [] else if ps.length ≤ n then ps else ps.take (n - 1) ++ [pat.intercalate (ps.drop (n - 1))]

/-- `rsplit`: split from the right end (the pieces come out right to left) -/
def rsplit [BEq γ] (s pat : List γ) : List (List γ) := (split s.reverse pat.reverse).map List.reverse
def rsplitn [BEq γ] (s pat : List γ) (n : Nat) : List (List γ) :=
  (splitn s.reverse pat.reverse n).map List.reverse

/-- `merge d1 d2 …` with an optional combining function: the keys in order of first appearance;
under each key the values found for it, left to right, folded with `f` (without `f`: the last
one wins) -/
def mergeE [BEq κ] (f : Option (β → β → Out β)) (dicts : List (List (κ × β))) : Out (List (κ × β)) :=
  mapE (fun k =>
      match dicts.filterMap (fun d => d.lookup k) with
      | [] => .throw   -- cannot happen: `k` is one of the keys
      | v :: vs =>
        bind (match f with
              | none => .ok ((v :: vs).getLast?.getD v)
              | some f => foldlE f v vs) fun r => .ok (k, r))
    (uniqueBy id (dicts.flatMap fun d => d.map (·.1)))

/-- `join sep xs` when the pieces have to be converted first (bytes separator): convert all
pieces, left to right, then intercalate -/
def joinE (sep : List γ) (disp : α → Out (List γ)) (xs : List α) : Out (List γ) :=
  bind (mapE disp xs) fun ps => .ok (sep.intercalate ps)

end Noulith.SeqSpec
