/-
Spec for C08: equality and ordering as plain mathematics on exact values.

Every real number denotes a point of the extended rational line (`realValue`; a NaN denotes
nothing), every number a pair (re, im) of such points.  `==` is equality of the denoted pairs,
the order is the lexicographic order of the pairs (for two reals: the order of the values),
sequences compare lexicographically by the same element order (strings by code point), and any
comparison that meets a NaN or two different kinds has no answer (`none` → the operator raises).
No representations, no conversion paths, no hashing: dictionaries are compared as finite maps on
`≈`-classes of keys (`specKeyEq`: `==` with NaN ≈ NaN).
-/
import NoulithModel.Impl.ObjCmp

namespace Noulith
namespace OrdSpec

/-- the extended rational a real number denotes; `none` for NaN -/
def realValue : NReal → Option ERat
  | .int a => some (.fin (a.val : Rat))
  | .rat q => some (.fin q)
  | .float .nan => none
  | .float (.inf true) => some .ninf
  | .float (.inf false) => some .pinf
  | .float (.fin m e) => some (.fin ((m : Rat) * (2 : Rat) ^ e))
  | .float .nzero => some (.fin 0)

def reVal : NNum → Option ERat
  | .int a => realValue (.int a)
  | .rat q => realValue (.rat q)
  | .float f => realValue (.float f)
  | .complex re _ => realValue (.float re)

def imVal : NNum → Option ERat
  | .complex _ im => realValue (.float im)
  | _ => some (.fin 0)

/-- comparison of two optional points: defined iff both are -/
def optCmp : Option ERat → Option ERat → Option Ordering
  | some a, some b => some (ERat.cmp a b)
  | _, _ => none

/-- equality of two optional points: a NaN equals nothing -/
def optEq : Option ERat → Option ERat → Bool
  | some a, some b => decide (a = b)
  | _, _ => false

/-- `==` on numbers -/
def numEq (a b : NNum) : Bool := optEq (reVal a) (reVal b) && optEq (imVal a) (imVal b)

/-- the order on numbers: lexicographic on (re, im) -/
def numCmp (a b : NNum) : Option Ordering :=
  match optCmp (reVal a) (reVal b) with
  | some .eq => optCmp (imVal a) (imVal b)
  | o => o

def hasNan (a : NNum) : Bool := (reVal a).isNone || (imVal a).isNone

/-- `≈` on numbers: `==`, and all NaN-containing numbers are one class -/
def numKeyEq (a b : NNum) : Bool := numEq a b || (hasNan a && hasNan b)

/-! ### total orders used by `NNum::min` / `NNum::max`: NaN above resp. below everything -/
/-- rank of a component: NaN first (`nanLow`) or last -/
def compKey (nanLow : Bool) : Option ERat → Nat × ERat
  | none => (if nanLow then 0 else 2, .fin 0)
  | some v => (1, v)

def compTotalCmp (nanLow : Bool) (x y : Option ERat) : Ordering :=
  let (rx, vx) := compKey nanLow x
  let (ry, vy) := compKey nanLow y
  (compare rx ry).then (ERat.cmp vx vy)

def numTotalCmp (nanLow : Bool) (a b : NNum) : Ordering :=
  (compTotalCmp nanLow (reVal a) (reVal b)).then (compTotalCmp nanLow (imVal a) (imVal b))

/-- `min`: the smaller one with NaN counted as largest; the left one when equal -/
def numMin (a b : NNum) : NNum := if numTotalCmp false a b == .gt then b else a
/-- `max`: the larger one with NaN counted as smallest; the right one when equal -/
def numMax (a b : NNum) : NNum := if numTotalCmp true a b == .gt then a else b

/-! ### values -/

/- `≈` on keys: structural, numbers by `numKeyEq`, dicts as finite maps -/
mutual
def keyEq : Val → Val → Bool
  | .null, .null => true
  | .num a, .num b => numKeyEq a b
  | .str a, .str b => a == b
  | .bytes a, .bytes b => a == b
  | .vec a, .vec b => listEq numKeyEq a b
  | .list a, .list b => keyEqList a b
  | .dict a _, .dict b _ => a.length == b.length && keyEqEntries a b
  | _, _ => false
def keyEqList : List Val → List Val → Bool
  | [], [] => true
  | x :: xs, y :: ys => keyEq x y && keyEqList xs ys
  | _, _ => false
def keyEqEntries : List (Val × Val) → List (Val × Val) → Bool
  | [], _ => true
  | (k, v) :: rest, b =>
    (match b.find? (fun e => keyEq k e.1) with
     | some e => keyEq v e.2
     | none => false) && keyEqEntries rest b
end

/- `==`: structural, numbers by value, dicts as finite maps on `≈`-classes with `==` values -/
mutual
def eq : Val → Val → Bool
  | .null, .null => true
  | .num a, .num b => numEq a b
  | .str a, .str b => a == b
  | .bytes a, .bytes b => a == b
  | .vec a, .vec b => listEq numEq a b
  | .list a, .list b => eqList a b
  | .dict a _, .dict b _ => a.length == b.length && eqEntries a b
  | _, _ => false
def eqList : List Val → List Val → Bool
  | [], [] => true
  | x :: xs, y :: ys => eq x y && eqList xs ys
  | _, _ => false
def eqEntries : List (Val × Val) → List (Val × Val) → Bool
  | [], _ => true
  | (k, v) :: rest, b =>
    (match b.find? (fun e => keyEq k e.1) with
     | some e => eq v e.2
     | none => false) && eqEntries rest b
end

/- the order: numbers by value, sequences of the same kind lexicographically -/
mutual
def cmp : Val → Val → Option Ordering
  | .null, .null => some .eq
  | .num a, .num b => numCmp a b
  | .str a, .str b => lexCmp natCmp a b              -- by code point
  | .bytes a, .bytes b => lexCmp natCmp a b
  | .vec a, .vec b => lexCmp numCmp a b
  | .list a, .list b => cmpList a b
  | _, _ => none
def cmpList : List Val → List Val → Option Ordering
  | [], [] => some .eq
  | [], _ :: _ => some .lt
  | _ :: _, [] => some .gt
  | x :: xs, y :: ys =>
    match cmp x y with
    | some .eq => cmpList xs ys
    | o => o
end

/-- comparison as the operators see it: only number/number and sequence/sequence -/
def ncmp (a b : Val) : Out Ordering :=
  match a, b with
  | .null, _ => .throw
  | _, .null => .throw
  | x, y => match cmp x y with
    | some o => .ok o
    | none => .throw

def cmpOp (op : String) (a b : Val) : Out Val :=
  match op with
  | "==" => .ok (ofBool (eq a b))
  | "!=" => .ok (ofBool (!eq a b))
  | "<" => (ncmp a b).map fun o => ofBool (o == .lt)
  | ">" => (ncmp a b).map fun o => ofBool (o == .gt)
  | "<=" => (ncmp a b).map fun o => ofBool (o == .lt || o == .eq)
  | ">=" => (ncmp a b).map fun o => ofBool (o == .gt || o == .eq)
  | "<=>" => (ncmp a b).map fun o => .num (.int (.small (match o with | .lt => -1 | .eq => 0 | .gt => 1)))
  | ">=<" => (ncmp a b).map fun o => .num (.int (.small (match o with | .lt => 1 | .eq => 0 | .gt => -1)))
  | _ => .throw

/-- running extremum: the first element that no later element strictly beats -/
def extremumLoop (bias : Ordering) : Option Val → List Val → Out (Option Val)
  | ret, [] => .ok ret
  | none, b :: rest => extremumLoop bias (some b) rest
  | some r, b :: rest =>
    match ncmp b r with
    | .ok o => extremumLoop bias (some (if o == bias then b else r)) rest
    | .throw => .throw
    | .panic => .panic

def extremum (bias : Ordering) (xs : List Val) : Out Val :=
  match extremumLoop bias none xs with
  | .ok (some r) => .ok r
  | _ => .throw

def sortVal : Val → Out Val
  | .list xs => (sorted cmp xs).map .list
  | .vec xs => (sorted numCmp xs).map .vec
  | .bytes bs => (sorted natCmp bs).map .bytes
  | .str cs => (sorted natCmp cs).map .str
  | .dict kvs _ => (sorted cmp (kvs.map (·.1))).map .list
  | _ => .throw

end OrdSpec
end Noulith
