/-
Spec for C09: a dictionary is a finite map whose keys are the `≈`-classes of valid keys, where `≈`
(`OrdSpec.keyEq`) is `==` on values extended with NaN ≈ NaN — no hashing anywhere.  The operations
are those of `DictOps` instantiated with `≈` as the key-hit relation (an association list with one
representative per class is the finite map; `Theorems/C09.lean` proves the finite-map laws for it),
`==` on dictionaries is `OrdSpec.eq`.
-/
import NoulithModel.Impl.Dict
import NoulithModel.Spec.OrdSpec

namespace Noulith
namespace DictSpec

/-- key-hit relation of the Spec: the query addresses the stored key iff they are `≈` -/
def hit (k k' : Val) : Bool := OrdSpec.keyEq k k'

end DictSpec
end Noulith
