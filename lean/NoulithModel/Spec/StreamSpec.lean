/-
C11 Spec: what a stream *is* — a finite list or an infinite sequence given by its recurrence — and
what each observation of the property means on it (Python indexing and slicing of the list,
reversal, membership, emptiness, unpacking).  No states, no iteration protocol, no machine words.

Also the closed forms of the constructors (arithmetic progression, lexicographic permutations /
combinations / tuples, binary-order subsequences), used as the independent reference in the
differential run and in the enumeration theorems.
-/
import NoulithModel.Impl.Stream

namespace Noulith.StreamSpec
open Noulith Noulith.Stream

/-- a stream as a mathematical object -/
inductive SS (β : Type) where
  | fin (l : List β)
  | inf (g : Nat → β)

/-! ## Python indexing and slicing of a list -/

/-- `l[i]` with Python's negative indices -/
def pyIndex {α} (l : List α) (i : Int) : Option α :=
  if 0 ≤ i then l[i.toNat]?
  else if 0 ≤ i + l.length then l[(i + l.length).toNat]? else none

/-- a slice bound counted from the end when negative (no clamping needed: the slice is the set of
positions between the two normalised bounds) -/
def norm (len : Nat) (i : Int) : Int := if i < 0 then i + len else i

/-- `l[lo:hi]`: the elements at positions `j` with `norm lo ≤ j < norm hi` -/
def pySliceSpec {α} (l : List α) (lo hi : Option Int) : List α :=
  let a : Int := match lo with
    | some v => norm l.length v
    | none => 0
  let b : Int := match hi with
    | some v => norm l.length v
    | none => l.length
  ((l.zipIdx 0).filter fun p => decide (a ≤ (p.2 : Int) ∧ (p.2 : Int) < b)).map Prod.fst

/-! ## closed forms of the constructors -/

/-- number of terms of the progression `start, start+step, …` strictly before `stop` -/
def rangeCount (start stop step : Int) : Nat :=
  if step > 0 then (if start < stop then ((stop - start + step - 1) / step).toNat else 0)
  else if step < 0 then (if start > stop then ((start - stop + (-step) - 1) / (-step)).toNat else 0)
  else 0

def rangeList (start stop step : Int) : List Int :=
  (List.range (rangeCount start stop step)).map fun (i : Nat) => start + (i : Int) * step

/-- permutations in lexicographic order of positions: choose the first element in order of
position, then permute the rest (`n` = fuel = length) -/
def lexPermsAux {α} : Nat → List α → List (List α)
  | 0, _ => [[]]
  | n + 1, l =>
    (List.range l.length).flatMap fun i =>
      match l[i]? with
      | some x => (lexPermsAux n (l.eraseIdx i)).map (x :: ·)
      | none => []
def lexPerms {α} (l : List α) : List (List α) := lexPermsAux l.length l

/-- `k`-element sub-lists in lexicographic order of positions -/
def combs {α} : Nat → List α → List (List α)
  | 0, _ => [[]]
  | _ + 1, [] => []
  | k + 1, x :: xs => (combs k xs).map (x :: ·) ++ combs (k + 1) xs

/-- all sub-lists, in the order of the binary numbers whose most significant bit is the first
element's membership -/
def subseqs {α} : List α → List (List α)
  | [] => [[]]
  | x :: xs => subseqs xs ++ (subseqs xs).map (x :: ·)

/-- `k`-tuples in lexicographic order -/
def tuples {α} (base : List α) : Nat → List (List α)
  | 0 => [[]]
  | k + 1 => base.flatMap fun x => (tuples base k).map (x :: ·)

def iterN {α} (f : α → α) : Nat → α → α
  | 0, a => a
  | n + 1, a => iterN f n (f a)

/-! ## observations -/

/-- the `i`-th element (from 0) of `g` that satisfies `p`, scanning from position `from`; the
search fuel only matters for predicates that stay false (where the real code does not terminate) -/
def nthSat {β} (g : Nat → β) (p : β → Bool) : Nat → Nat → Nat → Option β
  | 0, _, _ => none
  | fuel + 1, pos, i =>
    if p (g pos) then (match i with
      | 0 => some (g pos)
      | i + 1 => nthSat g p fuel (pos + 1) i)
    else nthSat g p fuel (pos + 1) i

namespace SS
variable {β : Type}

def map {γ} (f : β → γ) : SS β → SS γ
  | fin l => fin (l.map f)
  | inf g => inf (fun i => f (g i))

def filter [Inhabited β] (p : β → Bool) : SS β → SS β
  | fin l => fin (l.filter p)
  | inf g => inf (fun i => (nthSat g p 100000 0 i).getD default)

def drop (n : Nat) : SS β → SS β
  | fin l => fin (l.drop n)
  | inf g => inf (fun i => g (i + n))

def zipCons : SS β → SS (List β) → SS (List β)
  | fin a, fin b => fin (List.zipWith (· :: ·) a b)
  | fin a, inf g => fin (a.zipIdx.map fun (x, i) => x :: g i)
  | inf g, fin b => fin (b.zipIdx.map fun (xs, i) => g i :: xs)
  | inf g, inf h => inf (fun i => g i :: h i)

def prefixOf (g : Nat → β) (n : Nat) : List β := (List.range n).map g

def dropWhileInf (g : Nat → β) (p : β → Bool) : Nat → Nat → Option Nat
  | 0, _ => none
  | fuel + 1, pos => if p (g pos) then dropWhileInf g p fuel (pos + 1) else some pos

def dropWhile (p : β → Bool) : SS β → Option (SS β)
  | fin l => some (fin (l.dropWhile p))
  | inf g => (dropWhileInf g p 100000 0).map fun k => inf (fun i => g (i + k))

def takeWhile (p : β → Bool) : SS β → Option (List β)
  | fin l => some (l.takeWhile p)
  | inf g => (dropWhileInf g p 100000 0).map fun k => prefixOf g k
end SS

end Noulith.StreamSpec
