/-
Spec for C12 — `switch` with arm bodies.

"`switch` runs the first arm whose pattern matches and raises if none does": the arm is chosen by
the patterns alone (`specSwitch`: the least index whose pattern accepts the scrutinee); the body of
that arm runs exactly once, in the scope its pattern produced, and whatever it does — its value,
its side effects, its error — is what the `switch` does.  No other body runs.

Core Lean only.
-/
import NoulithModel.Impl.PatternSwitch
import NoulithModel.Spec.Match

namespace Noulith.C12

def specSwitchRun (e : Env) (s : Val) (arms : List (Pat × ArmBody)) : Env × SwOut :=
  match specSwitch e s (arms.map Prod.fst) 0 with
  | some (i, ee) =>
    (match arms[i]? with
     | some (_, b) => runArm ee i b
     | none => (e, .noMatch))
  | none => (e, .noMatch)

end Noulith.C12
