/-
Spec for C15: what a literal *denotes*.  Plain mathematics — positional notation, the escape table,
the shape of float literals — with no reference to how the lexer works.  A literal is described
structurally (its radix form and value, its list of string items, its float parts); `render…`
gives the source spelling, `denote…` the value the spelling spells.  The property theorems
(Theorems/C15.lean) say: lexing the rendering yields the denotation.  Core Lean only.
-/
import NoulithModel.Common

namespace Noulith.LitSpec

/-! ### positional notation -/

/-- value of a digit list in base `b`, most significant digit first -/
def ofDigits (b : Nat) (ds : List Nat) : Nat := ds.foldl (fun x d => b * x + d) 0

/-- the digits of `n` in base `b` below the leading one, appended to `acc` (least significant
computed first) -/
def digitsAux (b : Nat) (fuel : Nat) (n : Nat) (acc : List Nat) : List Nat :=
  match fuel with
  | 0 => acc
  | fuel + 1 => if n < b ∨ b < 2 then n :: acc else digitsAux b fuel (n / b) (n % b :: acc)

/-- the digits of `n` in base `b ≥ 2`, most significant first; `[0]` for 0 -/
def digits (b n : Nat) : List Nat := digitsAux b (n + 1) n []

/-- `0-9` then `a-z` (or `A-Z`) -/
def digitChar (upper : Bool) (d : Nat) : Char :=
  if d < 10 then Char.ofNat (48 + d)
  else if upper then Char.ofNat (55 + d) else Char.ofNat (87 + d)

/-- the base-64 alphabet of the language: `A-Z a-z 0-9`, then `+` or `-` for 62, `/` or `_` for 63 -/
def b64Char (alt : Bool) (d : Nat) : Char :=
  if d < 26 then Char.ofNat (65 + d)
  else if d < 52 then Char.ofNat (97 + (d - 26))
  else if d < 62 then Char.ofNat (48 + (d - 52))
  else if d = 62 then (if alt then '-' else '+')
  else (if alt then '_' else '/')

/-- decimal spelling of a natural number -/
def decimal (n : Nat) : List Char := (digits 10 n).map (digitChar false)

/-- the integer-literal syntaxes of the language -/
inductive IntForm where
  | dec                                          -- 123
  | hex (upperX upperDigits : Bool)              -- 0x7b 0X7B
  | bin (upperB : Bool)                          -- 0b1111011
  | oct (upperO : Bool)                          -- 0o173
  | radix (r : Nat) (upperR upperDigits : Bool)  -- 36r3f  (2 ≤ r ≤ 36)
  | b64 (upperR alt : Bool)                      -- 64rB7
  deriving Repr, DecidableEq

def IntForm.valid : IntForm → Bool
  | .radix r _ _ => 2 ≤ r && r ≤ 36
  | _ => true

/-- source spelling of `n` in the given syntax (`lead` extra leading zero digits) -/
def renderInt (f : IntForm) (n : Nat) : List Char :=
  match f with
  | .dec => decimal n
  | .hex ux ud => '0' :: (if ux then 'X' else 'x') :: (digits 16 n).map (digitChar ud)
  | .bin ub => '0' :: (if ub then 'B' else 'b') :: (digits 2 n).map (digitChar false)
  | .oct uo => '0' :: (if uo then 'O' else 'o') :: (digits 8 n).map (digitChar false)
  | .radix r ur ud => decimal r ++ (if ur then 'R' else 'r') :: (digits r n).map (digitChar ud)
  | .b64 ur alt => '6' :: '4' :: (if ur then 'R' else 'r') :: (digits 64 n).map (b64Char alt)

/-! ### string literals: the escape table -/

inductive Bracket where
  | none | brace | paren | square | angle
  deriving Repr, DecidableEq

def Bracket.opening : Bracket → List Char
  | .none => [] | .brace => ['{'] | .paren => ['('] | .square => ['['] | .angle => ['<']
def Bracket.closing : Bracket → List Char
  | .none => [] | .brace => ['}'] | .paren => [')'] | .square => [']'] | .angle => ['>']

/-- a hex digit as written: its value (`< 16`) and whether a letter is upper case -/
structure HexDigit where
  val : Nat
  upper : Bool
  deriving Repr, DecidableEq

def HexDigit.char (h : HexDigit) : Char := digitChar h.upper h.val

/-- one item of a string literal body -/
inductive StrItem where
  | plain (c : Char)                    -- any character other than the delimiter and `\`
  | nl | cr | tab | nul                 -- \n \r \t \0
  | backslash | squote | dquote         -- \\ \' \"
  | hex (d1 d2 : HexDigit)              -- \xHH
  | uni (b : Bracket) (ds : List HexDigit)   -- \uHHHH… \u{…} \u(…) \u[…] \u<…>
  deriving Repr, DecidableEq

def StrItem.render : StrItem → List Char
  | .plain c => [c]
  | .nl => ['\\', 'n'] | .cr => ['\\', 'r'] | .tab => ['\\', 't'] | .nul => ['\\', '0']
  | .backslash => ['\\', '\\'] | .squote => ['\\', '\''] | .dquote => ['\\', '"']
  | .hex d1 d2 => ['\\', 'x', d1.char, d2.char]
  | .uni b ds => '\\' :: 'u' :: b.opening ++ ds.map HexDigit.char ++ b.closing

/-- Unicode scalar values -/
def isScalar (x : Nat) : Bool := x < 0xD800 || (0xE000 ≤ x && x ≤ 0x10FFFF)

/-- the code point an item spells (`none`: the spelled number is not a Unicode scalar value) -/
def StrItem.denote : StrItem → Option Nat
  | .plain c => some c.toNat
  | .nl => some 10 | .cr => some 13 | .tab => some 9 | .nul => some 0
  | .backslash => some 92 | .squote => some 39 | .dquote => some 34
  | .hex d1 d2 => some (16 * d1.val + d2.val)
  | .uni _ ds => let v := ofDigits 16 (ds.map HexDigit.val); if isScalar v then some v else none

/-- the item is a `\\xHH` escape -/
def StrItem.isHex : StrItem → Bool
  | .hex _ _ => true
  | _ => false

def renderBody (its : List StrItem) : List Char := its.flatMap StrItem.render

/-- the string a body denotes: the scalar values its items spell (`none` if some item spells a
number that is not a scalar value) -/
def denoteBody : List StrItem → Option (List Nat)
  | [] => some []
  | it :: its =>
    match it.denote, denoteBody its with
    | some v, some vs => some (v :: vs)
    | _, _ => none

/-- UTF-8 encoding of a scalar value -/
def utf8 (n : Nat) : List Nat :=
  if n < 0x80 then [n]
  else if n < 0x800 then [0xC0 + n / 64, 0x80 + n % 64]
  else if n < 0x10000 then [0xE0 + n / 4096, 0x80 + n / 64 % 64, 0x80 + n % 64]
  else [0xF0 + n / 262144, 0x80 + n / 4096 % 64, 0x80 + n / 64 % 64, 0x80 + n % 64]

/-- the bytes a *bytes* literal denotes: a `\xHH` escape spells the byte `HH`; every other item
spells a character, which stands for its UTF-8 encoding -/
def StrItem.denoteBytes : StrItem → Option (List Nat)
  | .hex d1 d2 => some [16 * d1.val + d2.val]
  | it => it.denote.map utf8

def denoteBodyBytes : List StrItem → Option (List Nat)
  | [] => some []
  | it :: its =>
    match it.denoteBytes, denoteBodyBytes its with
    | some v, some vs => some (v ++ vs)
    | _, _ => none

/-! ### float / imaginary / rational literals -/

/-- suffix of a numeric literal -/
inductive NumSuffix where
  | none | f (upper : Bool) | i (upper : Bool) | j (upper : Bool)
  deriving Repr, DecidableEq

def NumSuffix.chars : NumSuffix → List Char
  | .none => [] | .f u => [if u then 'F' else 'f'] | .i u => [if u then 'I' else 'i']
  | .j u => [if u then 'J' else 'j']

def NumSuffix.isImag : NumSuffix → Bool
  | .i _ => true | .j _ => true | _ => false

/-- a float literal: integer digits (non-empty), optional fraction (digits after the point, may be
empty), optional exponent (upper-case E?, minus sign?, digits — non-empty), suffix.  Suffixes are
only allowed without exponent (an `f` after an exponent is an identifier, not a suffix). -/
structure FloatLit where
  ip : List Nat
  frac : Option (List Nat)
  exp : Option (Bool × Bool × List Nat)
  suffix : NumSuffix
  deriving Repr, DecidableEq

def decDigits (ds : List Nat) : List Char := ds.map (digitChar false)

def FloatLit.render (l : FloatLit) : List Char :=
  decDigits l.ip
    ++ (match l.frac with | some fs => '.' :: decDigits fs | none => [])
    ++ (match l.exp with
        | some (upperE, neg, es) => (if upperE then 'E' else 'e') :: (if neg then ['-'] else []) ++ decDigits es
        | none => [])
    ++ l.suffix.chars

/-- the decimal text that denotes the literal's value: digits, point, fraction, `e`, sign, exponent
(what a decimal-to-binary conversion is applied to; the conversion itself is external) -/
def FloatLit.text (l : FloatLit) : List Char :=
  decDigits l.ip
    ++ (match l.frac with | some fs => '.' :: decDigits fs | none => [])
    ++ (match l.exp with
        | some (_, neg, es) => 'e' :: (if neg then ['-'] else []) ++ decDigits es
        | none => [])

/-- well-formed: digits are digits, integer part and exponent digits non-empty, a suffix only
without exponent, and it is a float at all (has a point, an exponent or a suffix) -/
def FloatLit.wf (l : FloatLit) : Bool :=
  l.ip ≠ [] && l.ip.all (· < 10)
    && (match l.frac with | some fs => fs.all (· < 10) | none => true)
    && (match l.exp with | some (_, _, es) => es ≠ [] && es.all (· < 10) | none => true)
    && (l.exp.isNone || l.suffix = .none)
    && (l.frac.isSome || l.exp.isSome || l.suffix ≠ .none)

end Noulith.LitSpec
