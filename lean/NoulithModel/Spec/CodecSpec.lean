/-
Spec for C16: what the codecs are supposed to compute, stated without reference to how the code
does it.

* integers in base `b`: positional notation (`digits` most significant first, value `ofDigits`),
  sign prefixed for negatives, `"0"` for zero;
* number syntax: the grammar `[sign] digits [. digits] [e [sign] digits]` (at least one digit around
  the point) as a structure `Dec` with its text (`render`) and its exact value in `Rat` (`value`),
  and `p/q` as `RatLit.frac`;
* Unicode scalar values; UTF-8 as the bit layout of RFC 3629; base-64 of RFC 4648 through the
  24-bit group value; hex through the byte value;
* JSON-shaped values.
Core Lean only.
-/
import NoulithModel.Impl.Codec

namespace Noulith.CodecSpec
open Noulith Noulith.Codec

/-! ## positional notation -/

/-- digits of `n` in base `b`, most significant first; `[n]` for `n < b` (so zero is `[0]`) -/
def digits (b n : Nat) : List Nat :=
  if h : b < 2 ∨ n < b then [n] else digits b (n / b) ++ [n % b]
termination_by n
decreasing_by exact Nat.div_lt_self (by omega) (by omega)

/-- value of a most-significant-first digit list -/
def ofDigits (b : Nat) (ds : List Nat) : Nat := ds.foldl (fun acc d => b * acc + d) 0

/-- the digit characters `0-9a-z` (or `0-9A-Z`) -/
def digitSym (upper : Bool) (d : Nat) : Nat :=
  if d < 10 then 48 + d else if upper then 55 + d else 87 + d

/-- text of a natural number in base `b` -/
def showNat (upper : Bool) (b n : Nat) : Str := (digits b n).map (digitSym upper)

/-- text of an integer in base `b`: `-` and the magnitude for negatives -/
def showInt (upper : Bool) (b : Nat) (v : Int) : Str :=
  if v < 0 then 45 :: showNat upper b v.natAbs else showNat upper b v.natAbs

/-- `s` is a positional notation of `n` in base `b`: digits below `b`, no leading zero except for
zero itself, and the right value -/
def IsNotation (b : Nat) (ds : List Nat) (n : Nat) : Prop :=
  ds ≠ [] ∧ (∀ d ∈ ds, d < b) ∧ (ds.length > 1 → ds.head? ≠ some 0) ∧ ofDigits b ds = n

/-- what a format flag asks for -/
def showFmt (base : FmtBase) (v : Int) : Str := showInt base.upper base.radix v

/-- padding of format strings: `len` is a minimum width -/
def padTo (align : FmtAlign) (pad len : Nat) (s : Str) : Str :=
  let k := len - s.length
  match align with
  | .left => s ++ List.replicate k pad
  | .right => List.replicate k pad ++ s
  | .center => List.replicate (k / 2) pad ++ s ++ List.replicate (k - k / 2) pad

/-! ## number syntax -/

/-- an optional sign: `none` nothing written, `some false` a `+`, `some true` a `-` -/
def signText : Option Bool → Str
  | none => []
  | some false => [43]
  | some true => [45]
def signNeg : Option Bool → Bool
  | some true => true
  | _ => false

/-- `[sign] digits [. digits] [e [sign] digits]` -/
structure Dec where
  sign : Option Bool
  ip : List Nat                       -- digits before the point
  fp : Option (List Nat)              -- `none`: no point; `some ds`: a point followed by `ds`
  exp : Option (Bool × Option Bool × List Nat)   -- upper-case `E`?, sign, digits
  deriving Repr, DecidableEq

def digitText (ds : List Nat) : Str := ds.map (48 + ·)

def Dec.fracDigits (d : Dec) : List Nat := d.fp.getD []

/-- all digits are decimal digits, there is a digit next to the point (or no point and a digit),
the exponent has a digit -/
def Dec.WF (d : Dec) : Prop :=
  (∀ x ∈ d.ip, x < 10) ∧ (∀ x ∈ d.fracDigits, x < 10) ∧ (d.ip ≠ [] ∨ d.fracDigits ≠ []) ∧
  (∀ u s ds, d.exp = some (u, s, ds) → ds ≠ [] ∧ ∀ x ∈ ds, x < 10)

def Dec.expValue (d : Dec) : Int :=
  match d.exp with
  | none => 0
  | some (_, s, ds) => if signNeg s then -(ofDigits 10 ds : Int) else (ofDigits 10 ds : Int)

def Dec.render (d : Dec) : Str :=
  signText d.sign ++ digitText d.ip
    ++ (match d.fp with
        | none => []
        | some ds => 46 :: digitText ds)
    ++ (match d.exp with
        | none => []
        | some (u, s, ds) => (if u then 69 else 101) :: (signText s ++ digitText ds))

/-- `10 ^ e` for an integer exponent -/
def pow10 (e : Int) : Rat := if 0 ≤ e then ((10 ^ e.toNat : Nat) : Rat) else 1 / ((10 ^ (-e).toNat : Nat) : Rat)

/-- the number a `Dec` denotes -/
def Dec.value (d : Dec) : Rat :=
  let mag : Rat := ((ofDigits 10 d.ip : Nat) : Rat)
    + ((ofDigits 10 d.fracDigits : Nat) : Rat) / ((10 ^ d.fracDigits.length : Nat) : Rat)
  (if signNeg d.sign then -mag else mag) * pow10 d.expValue

/-- the exponent, and the exponent minus the number of fractional digits, fit an `i32` (the code
computes with `i32`; far inside that range the power of ten already exhausts memory) -/
def Dec.InRange (d : Dec) : Prop := inI32 d.expValue ∧ inI32 (d.expValue - d.fracDigits.length)

/-- a rational literal: a decimal or `p/q` of two decimals -/
inductive RatLit where
  | dec (d : Dec)
  | frac (p q : Dec)
  deriving Repr, DecidableEq

def RatLit.render : RatLit → Str
  | .dec d => d.render
  | .frac p q => p.render ++ 47 :: q.render
def RatLit.value : RatLit → Rat
  | .dec d => d.value
  | .frac p q => p.value / q.value
def RatLit.WF : RatLit → Prop
  | .dec d => d.WF
  | .frac p q => p.WF ∧ q.WF ∧ q.value ≠ 0

def RatLit.InRange : RatLit → Prop
  | .dec d => d.InRange
  | .frac p q => p.InRange ∧ q.InRange

/-- a plain integer literal `[sign] digits` -/
structure IntLit where
  sign : Option Bool
  ds : List Nat
  deriving Repr, DecidableEq
def IntLit.WF (l : IntLit) : Prop := l.ds ≠ [] ∧ ∀ x ∈ l.ds, x < 10
def IntLit.render (l : IntLit) : Str := signText l.sign ++ digitText l.ds
def IntLit.value (l : IntLit) : Int :=
  if signNeg l.sign then -(ofDigits 10 l.ds : Int) else (ofDigits 10 l.ds : Int)

/-! ## bytes to text -/

/-- hex: two lower-case digits per byte, high nibble first -/
def hexOf (bs : Bytes) : Str := bs.flatMap fun b => [digitSym false (b / 16), digitSym false (b % 16)]

/-- RFC 4648 alphabet -/
def b64Sym (n : Nat) : Nat :=
  if n < 26 then 65 + n else if n < 52 then 71 + n else if n < 62 then n - 4 else if n = 62 then 43 else 47

/-- RFC 4648 §4: 24-bit groups are cut into four 6-bit values; a final group of 8 (16) bits is
padded with zero bits to 12 (18) and written with two (one) `=` -/
def base64Of : Bytes → Str
  | a :: b :: c :: rest =>
    let g := a * 65536 + b * 256 + c
    b64Sym (g / 262144) :: b64Sym (g / 4096 % 64) :: b64Sym (g / 64 % 64) :: b64Sym (g % 64) :: base64Of rest
  | [a, b] =>
    let g := (a * 256 + b) * 4
    [b64Sym (g / 4096), b64Sym (g / 64 % 64), b64Sym (g % 64), 61]
  | [a] =>
    let g := a * 16
    [b64Sym (g / 64), b64Sym (g % 64), 61, 61]
  | [] => []

/-! ## Unicode -/

/-- Unicode scalar value -/
def IsScalar (c : Nat) : Prop := c ≤ 1114111 ∧ ¬ (55296 ≤ c ∧ c ≤ 57343)
instance (c : Nat) : Decidable (IsScalar c) := by unfold IsScalar; infer_instance

/-- RFC 3629 bit layout -/
def utf8Of (c : Nat) : Bytes :=
  if c ≤ 127 then [c]
  else if c ≤ 2047 then [192 + c / 64, 128 + c % 64]
  else if c ≤ 65535 then [224 + c / 4096, 128 + c / 64 % 64, 128 + c % 64]
  else [240 + c / 262144, 128 + c / 4096 % 64, 128 + c / 64 % 64, 128 + c % 64]

def utf8OfStr (s : Str) : Bytes := s.flatMap utf8Of

/-! ## JSON-shaped values -/

mutual
/-- null, 64-bit integers, finite floats, strings, lists, string-keyed dicts -/
def JsonShaped : Val → Prop
  | .null => True
  | .int v => inI64 v
  | .float f => f.finite = true
  | .str _ => True
  | .bytes _ => False
  | .list xs => JsonShapedList xs
  | .dict kvs => JsonShapedKVs kvs
  | .func => False
def JsonShapedList : List Val → Prop
  | [] => True
  | x :: xs => JsonShaped x ∧ JsonShapedList xs
def JsonShapedKVs : List (Str × Val) → Prop
  | [] => True
  | (_, x) :: xs => JsonShaped x ∧ JsonShapedKVs xs
end

end Noulith.CodecSpec
