/-
Spec for C12, part 2 — annotated variables as a *typed store*: every statement that writes either
raises and is not observed further, or leaves every variable it wrote holding a value of that
variable's declared type.  Statements are transactions over `Env`; nothing is ever null in between.

Core Lean only.
-/
import NoulithModel.Spec.Match
import NoulithModel.Impl.PatternStmt

namespace Noulith.C12

/-- write `v` at path `ixs` of variable `x`; the variable's new value must have its declared type -/
def specUpdate (e : Env) (x : Nat) (ixs : List Ix) (v : Val) : Option Env :=
  match e.get? x with
  | none => none
  | some c =>
    match setIndex c.val ixs (some v) true with
    | .ok nv => if isType c.ty nv = .ok true then some (e.set x nv) else none
    | _ => none

mutual
/-- the variables (with index paths) an `every` statement writes, left to right; `none` when the
pattern has a form `every` does not accept.  `under`: is `_` accepted (it is by `every p = v`, it
is not by `every p op= v`). -/
def targets (under : Bool) : Pat → Option (List (Nat × List Ix))
  | .underscore => if under then some [] else none
  | .ident x ixs => some [(x, ixs)]
  | .seq ps _ => targetsAll under ps
  | .and a b =>
    match targets under a, targets under b with
    | some ta, some tb => some (ta ++ tb)
    | _, _ => none
  | _ => none
def targetsAll (under : Bool) : List Pat → Option (List (Nat × List Ix))
  | [] => some []
  | p :: ps =>
    match targets under p, targetsAll under ps with
    | some t, some ts => some (t ++ ts)
    | _, _ => none
end

def foldUpdate (f : Env → Nat × List Ix → Option Env) : Env → List (Nat × List Ix) → Option Env
  | e, [] => some e
  | e, t :: ts =>
    match f e t with
    | some e' => foldUpdate f e' ts
    | none => none

mutual
/-- forms an operator-assignment accepts on its left (`drop_lhs` refuses annotations, `or` and a
splat outside a sequence) -/
def opLhsOk : Pat → Bool
  | .underscore => true
  | .ident _ _ => true
  | .seq ps _ => opLhsOkAll ps
  | .anno _ _ => false
  | .withDefault s _ => opLhsOk s
  | .splat _ => false
  | .or _ _ => false
  | .and a b => opLhsOk a && opLhsOk b
  | .lit _ => true
  | .destr _ ps => opLhsOkAll ps
  | .destrStruct _ ps => opLhsOkAll ps
def opLhsOkAll : List Pat → Bool
  | [] => true
  | p :: ps =>
    (match p with
     | .splat inner => opLhsOk inner
     | q => opLhsOk q) && opLhsOkAll ps
end

/-- the typed-store meaning of a statement: the new environment, or `none` = the statement raises -/
def specStmt (e : Env) : Stmt → Option Env
  | .assign p v => specAssign e p none v
  | .assignEvery p v =>
    match targets true p with
    | some ts => foldUpdate (fun e t => specUpdate e t.1 t.2 v) e ts
    | none => none
  | .opAssign p op v =>
    if opLhsOk p then
      match evalLvalue e p with
      | .ok old =>
        (match applyOp op old v with
         | .ok nv => specAssign e p none nv
         | _ => none)
      | _ => none
    else none
  | .opAssignEvery p op v =>
    match targets false p with
    | some ts =>
      -- every element the path reaches is replaced by `op(element, v)`; the variable's new value
      -- must have its declared type
      foldUpdate (fun e t =>
        match e.get? t.1 with
        | some c =>
          (match modifyIndex (fun x => applyOp op x v) c.val t.2 with
           | .ok nv => if isType c.ty nv = .ok true then some (e.set t.1 nv) else none
           | _ => none)
        | none => none) e ts
    | none => none
  | .swap a b =>
    match evalLvalue e a, evalLvalue e b with
    | .ok ao, .ok bo =>
      (match specAssign e a none bo with
       | some e1 => specAssign e1 b none ao
       | none => none)
    | _, _ => none

def specHistory (e : Env) : List Stmt → List (Option Env)
  | [] => []
  | s :: ss =>
    match specStmt e s with
    | some e' => some e' :: specHistory e' ss
    | none => [none]

/-- every cell of every frame holds a value of its declared type -/
def WellTyped (e : Env) : Prop := ∀ f ∈ e, ∀ c ∈ f, isType c.ty c.val = .ok true

end Noulith.C12
