/-
Spec for C07: the numeric tower as plain mathematics.

* The two exact levels are ONE thing: arithmetic in ℚ (core `Rat`, lowest terms by construction).
  Integers are the rationals with denominator 1; an operation on two integers is carried out in ℚ
  and the (integral) result is read back.  `//` is `⌊a / b⌋`, `%%` is `a - b * ⌊a / b⌋`, `%` is
  `a - b * trunc (a / b)`, `round` is half away from zero.
* The level of a result is decided by the operands only: both exact → exact; else both real → the
  float operation on the operands converted to float; else the complex operation on the operands
  converted to complex.  Float / complex arithmetic itself is the abstract `FloatOps`.
* Vectors: element-wise on equal lengths, a scalar is a vector of copies of itself (`replicate`).
-/
import NoulithModel.Impl.F64Ieee

namespace Noulith.TowerSpec
open Noulith NNum

variable {F C : Type}

/-- rounding toward zero -/
def trunc (q : Rat) : Int := if 0 ≤ q then q.floor else q.ceil

/-- rounding to nearest, half-way cases away from zero -/
def roundHalfAway (q : Rat) : Int :=
  if 0 ≤ q then (q + 1 / 2).floor else (q - 1 / 2).ceil

/-- the six operators of the level rule -/
inductive AOp where
  | add | sub | mul | rem | divFloor | modFloor
  deriving DecidableEq, Repr

def ratOp : AOp → Rat → Rat → Rat
  | .add, a, b => a + b
  | .sub, a, b => a - b
  | .mul, a, b => a * b
  | .rem, a, b => a - b * (trunc (a / b) : Int)
  | .divFloor, a, b => ((a / b).floor : Int)
  | .modFloor, a, b => a - b * ((a / b).floor : Int)

def fOp (O : FloatOps F C) : AOp → F → F → F
  | .add => O.add
  | .sub => O.sub
  | .mul => O.mul
  | .rem => O.rem
  | .divFloor => O.divEuclid
  | .modFloor => O.remEuclid

def cOp (O : FloatOps F C) : AOp → C → C → C
  | .add => O.cadd
  | .sub => O.csub
  | .mul => O.cmul
  | .rem => O.crem
  | .divFloor => fun a b => O.cfloorParts (O.cdiv a b)
  | .modFloor => O.crem

/-- the exact value of an int / rational -/
def exact : NNum F C → Option Rat
  | .int i => some (i : Rat)
  | .rat r => some r
  | _ => none

/-- conversion to the float level (nothing converts a complex down) -/
def toF (O : FloatOps F C) : NNum F C → Option F
  | .int i => some (O.ofInt i)
  | .rat r => some (O.ofRat r)
  | .float f => some f
  | .complex _ => none

/-- conversion to the complex level -/
def toC (O : FloatOps F C) : NNum F C → C
  | .int i => O.cOfF (O.ofInt i)
  | .rat r => O.cOfF (O.ofRat r)
  | .float f => O.cOfF f
  | .complex z => z

/-- an exact result `q` of an operation on operands `a`, `b`: an integer when both were -/
def ofExact (a b : NNum F C) (q : Rat) : NNum F C :=
  if a.level = 0 ∧ b.level = 0 then .int q.floor else .rat q

/-- the level rule -/
def arith (O : FloatOps F C) (op : AOp) (a b : NNum F C) : NNum F C :=
  match exact a, exact b with
  | some x, some y => ofExact a b (ratOp op x y)
  | _, _ =>
    match toF O a, toF O b with
    | some x, some y => .float (fOp O op x y)
    | _, _ => .complex (cOp O op (toC O a) (toC O b))

/-- is the number zero (`NaN` is not) -/
def isZero (O : FloatOps F C) : NNum F C → Bool
  | .int i => i == 0
  | .rat r => r == 0
  | .float f => O.view f == .fin 0
  | .complex z => O.view (O.cre z) == .fin 0 && O.view (O.cim z) == .fin 0

/-- division of operands that are not both exact (or by an exact zero): at the float level when
both are real, at the complex level otherwise (a real operand stays an `f64` there, as in
`Complex64 / f64` and `f64 / Complex64`) -/
def inexactDiv (O : FloatOps F C) (a b : NNum F C) : NNum F C :=
  match toF O a, toF O b with
  | some fa, some fb => .float (O.div fa fb)
  | none, some fb => .complex (O.cdivF (toC O a) fb)
  | some fa, none => .complex (O.fdivC fa (toC O b))
  | none, none => .complex (O.cdiv (toC O a) (toC O b))

/-- `/`: the exact fraction; a zero divisor (or an inexact operand) falls back to float / complex
division of the converted operands -/
def divide (O : FloatOps F C) (a b : NNum F C) : NNum F C :=
  match exact a, exact b with
  | some x, some y => if y ≠ 0 then .rat (x / y) else inexactDiv O a b
  | _, _ => inexactDiv O a b

/-- `x ^ e` in ℚ for an integer exponent, in executable form: for the bases 0, 1, −1 the value is
read off the exponent's sign / parity (so exponents of any size can be evaluated); otherwise it is
core's `x ^ e`.  `qpow x e = x ^ e` for all `x`, `e` is proved in Theorems/C07.lean (`qpow_eq`). -/
def qpow (x : Rat) (e : Int) : Rat :=
  if x = 0 then (if e = 0 then 1 else 0)
  else if x = 1 then 1
  else if x = -1 then (if e % 2 = 0 then 1 else -1)
  else x ^ e

/-- `^`: exact for an exact base and an integer exponent (`0 ^ negative` is `1/0`, float +∞);
everything else is float / complex exponentiation, which the property does not constrain — the
Spec defers to the code's dispatch there -/
def power (O : FloatOps F C) (a b : NNum F C) : NNum F C :=
  match exact a, b with
  | some x, .int e =>
    if x = 0 ∧ e < 0 then .float O.posInf
    else if a.level = 0 ∧ 0 ≤ e then .int (qpow x e).floor
    else .rat (qpow x e)
  | _, _ => NNum.powNum O a b

def binop (O : FloatOps F C) (op : String) (a b : NNum F C) : Out (NNum F C) :=
  match op with
  | "+" => .ok (arith O .add a b)
  | "-" => .ok (arith O .sub a b)
  | "*" => .ok (arith O .mul a b)
  | "/" => .ok (divide O a b)
  | "%" =>
    -- an exact remainder by an exact zero is an error; a float zero divisor gives the float NaN
    if (exact a).isSome ∧ (exact b).isSome ∧ isZero O b then .throw else .ok (arith O .rem a b)
  | "//" => if isZero O b then .throw else .ok (arith O .divFloor a b)
  | "%%" => if isZero O b then .throw else .ok (arith O .modFloor a b)
  | "^" => .ok (power O a b)
  | _ => .throw

/-- the value of a real number as far as it is known exactly -/
def realView (O : FloatOps F C) : NNum F C → Option FView
  | .int i => some (.fin (i : Rat))
  | .rat r => some (.fin r)
  | .float f => some (O.view f)
  | .complex _ => none

/-- `floor`, `ceil`, `round`: the rounding of the exact value; NaN and ±∞ stay floats -/
def roundWith (O : FloatOps F C) (rnd : Rat → Int) (a : NNum F C) : Out (NNum F C) :=
  match realView O a with
  | none => .throw
  | some (.fin q) => .ok (.int (rnd q))
  | some _ => .ok a

def unop (O : FloatOps F C) (op : String) (a : NNum F C) : Out (NNum F C) :=
  match op with
  | "neg" =>
    match a with
    | .int i => .ok (.int (-i))
    | .rat r => .ok (.rat (-r))
    | .float f => .ok (.float (O.neg f))
    | .complex z => .ok (.complex (O.cneg z))
  | "floor" => roundWith O Rat.floor a
  | "ceil" => roundWith O Rat.ceil a
  | "round" => roundWith O roundHalfAway a
  | "int" =>
    -- the conversion to `int`: truncation of the exact value; a number without one (NaN, ±∞,
    -- complex) cannot be converted
    match realView O a with
    | some (.fin q) => .ok (.int (trunc q))
    | _ => .throw
  | "rational" =>
    match realView O a with
    | some (.fin q) => .ok (.rat q)
    | _ => .throw
  | "float" =>
    match toF O a with
    | some f => .ok (.float f)
    | none => .throw
  | "numerator" =>
    match exact a with
    | some q => .ok (.int q.num)
    | none => .throw
  | "denominator" =>
    match exact a with
    | some q => .ok (.int q.den)
    | none => .throw
  | _ => .throw

/-! ### vectors -/

def sequence {α : Type} : List (Out α) → Out (List α)
  | [] => .ok []
  | x :: xs =>
    match x with
    | .ok y => (sequence xs).map (y :: ·)
    | .throw => .throw
    | .panic => .panic

/-- element-wise on equal lengths; a scalar stands for a vector of copies of itself -/
def vec2 (body : NNum F C → NNum F C → Out (NNum F C)) : VObj F C → VObj F C → Out (VObj F C)
  | .num a, .num b => (body a b).map .num
  | .vec as, .vec bs =>
    if as.length = bs.length then (sequence (List.zipWith body as bs)).map .vec else .throw
  | .num a, .vec bs => (sequence (List.zipWith body (List.replicate bs.length a) bs)).map .vec
  | .vec as, .num b => (sequence (List.zipWith body as (List.replicate as.length b))).map .vec
  | _, _ => .throw

def vec1 (body : NNum F C → Out (NNum F C)) : VObj F C → Out (VObj F C)
  | .num a => (body a).map .num
  | .vec xs => (sequence (xs.map body)).map .vec
  | .other => .throw

def vbinop (O : FloatOps F C) (op : String) (a b : VObj F C) : Out (VObj F C) :=
  vec2 (binop O op) a b

def vunop (O : FloatOps F C) (op : String) (a : VObj F C) : Out (VObj F C) :=
  if op = "int" ∨ op = "rational" ∨ op = "float" then
    match a with
    | .num n => (unop O op n).map .num
    | _ => .throw
  else vec1 (unop O op) a

end Noulith.TowerSpec
