/-
Shared conventions of every Impl model (DESIGN.md Appendix A): outcomes, machine words as
range-restricted `Int`s, hex text.  Core Lean only (no Mathlib) so that drivers link as executables.
-/
namespace Noulith

/-- Result of running a piece of the interpreter: a value, a catchable Noulith error, or a Rust
panic (unwinding / abort) — the three classes an observer can tell apart. -/
inductive Out (α : Type) where
  | ok (a : α)
  | throw
  | panic
  deriving Repr, DecidableEq, Inhabited

namespace Out
def map {α β} (f : α → β) : Out α → Out β
  | ok a => ok (f a)
  | throw => throw
  | panic => panic
def bind {α β} (x : Out α) (f : α → Out β) : Out β :=
  match x with
  | ok a => f a
  | throw => throw
  | panic => panic
def isPanic {α} : Out α → Bool
  | panic => true
  | _ => false
def render {α} (f : α → String) : Out α → String
  | ok a => "ok " ++ f a
  | throw => "throw"
  | panic => "panic"
end Out

/-! ### machine words as range-restricted integers -/
def I64_MIN : Int := -9223372036854775808
def I64_MAX : Int := 9223372036854775807
def U64_MAX : Int := 18446744073709551615
/-- `v` fits an `i64` / `isize` -/
def inI64 (v : Int) : Prop := -9223372036854775808 ≤ v ∧ v ≤ 9223372036854775807
/-- `v` fits a `usize` / `u64` -/
def inUsize (v : Int) : Prop := 0 ≤ v ∧ v ≤ 18446744073709551615
def inU32 (v : Int) : Prop := 0 ≤ v ∧ v ≤ 4294967295
def inI32 (v : Int) : Prop := -2147483648 ≤ v ∧ v ≤ 2147483647
instance (v : Int) : Decidable (inI64 v) := by unfold inI64; infer_instance
instance (v : Int) : Decidable (inUsize v) := by unfold inUsize; infer_instance
instance (v : Int) : Decidable (inU32 v) := by unfold inU32; infer_instance
instance (v : Int) : Decidable (inI32 v) := by unfold inI32; infer_instance
/-- two's-complement reinterpretation of any integer as an `i64` -/
def wrapI64 (v : Int) : Int := ((v + 9223372036854775808) % 18446744073709551616) - 9223372036854775808

/-! ### text helpers for the line protocol -/
def hexDigitVal (c : Char) : Option Nat :=
  if '0' ≤ c ∧ c ≤ '9' then some (c.toNat - '0'.toNat)
  else if 'a' ≤ c ∧ c ≤ 'f' then some (c.toNat - 'a'.toNat + 10)
  else if 'A' ≤ c ∧ c ≤ 'F' then some (c.toNat - 'A'.toNat + 10)
  else none

def hexDigitChar (n : Nat) : Char :=
  if n < 10 then Char.ofNat ('0'.toNat + n) else Char.ofNat ('a'.toNat + (n - 10))

def unhexChars : List Char → Option (List Nat)
  | [] => some []
  | [_] => none
  | a :: b :: rest =>
    match hexDigitVal a, hexDigitVal b, unhexChars rest with
    | some x, some y, some r => some ((16 * x + y) :: r)
    | _, _, _ => none

def unhex (s : String) : Option (List Nat) := unhexChars s.toList

def hexOfBytes (bs : List Nat) : String :=
  String.ofList (bs.flatMap fun b => [hexDigitChar (b / 16 % 16), hexDigitChar (b % 16)])

def joinWith (sep : String) : List String → String
  | [] => ""
  | [x] => x
  | x :: xs => x ++ sep ++ joinWith sep xs

end Noulith
