/-
C06 (number theory part) — `is_prime` and `factorize` are correct for ALL integers.

Theorems about `NInt.lazyIsPrime` (transcribes `lazy_is_prime`, src/nint.rs) and
`NInt.lazyFactorize` (transcribes `lazy_factorize`, src/nnum.rs) of NoulithModel/Impl/NInt.lean.
No size bound: the statements quantify over every `Int`.

Trusted base: `BigInt::sqrt` is modelled as `Nat.sqrt` (only its specification
`sqrt n * sqrt n ≤ n < (sqrt n + 1) * (sqrt n + 1)` is used); the loops are modelled with fuel
(`n.toNat`, `a` resp. `|x|`), and the theorems below show that this fuel never runs out, i.e. the
fuel-indexed functions compute what the unbounded Rust `loop`s compute.

The primality specification `IsPrimeSpec` is stated in core Lean only; `isPrimeSpec_iff_natPrime`
connects it to Mathlib's `Nat.Prime`.
-/
import NoulithModel.Impl.NInt
import Mathlib.Data.Nat.Prime.Basic

namespace Noulith.C06Prime
open Noulith Noulith.NInt

/-! ## 0. specification -/

/-- `n` is a prime number: at least 2 and no divisor strictly between 1 and `n` -/
def IsPrimeSpec (n : Int) : Prop :=
  2 ≤ n ∧ ∀ d : Nat, 2 ≤ d → d < n.toNat → ¬ d ∣ n.toNat

/-- `n` has no divisor `d` with `2 ≤ d < f` (the loop invariant of both algorithms) -/
def NoDivBelow (n f : Nat) : Prop := ∀ d : Nat, 2 ≤ d → d < f → ¬ d ∣ n

theorem isPrimeSpec_natCast (m : Nat) : IsPrimeSpec (m : Int) ↔ 2 ≤ m ∧ NoDivBelow m m := by
  unfold IsPrimeSpec NoDivBelow
  simp only [Int.toNat_natCast]
  constructor
  · rintro ⟨h, h'⟩; exact ⟨by omega, h'⟩
  · rintro ⟨h, h'⟩; exact ⟨by omega, h'⟩

/-- the specification agrees with Mathlib's `Nat.Prime` -/
theorem isPrimeSpec_iff_natPrime (n : Int) : IsPrimeSpec n ↔ Nat.Prime n.toNat ∧ 2 ≤ n := by
  unfold IsPrimeSpec
  rw [Nat.prime_def_lt]
  constructor
  · rintro ⟨h2, h⟩
    refine ⟨⟨by omega, fun m hm hdvd => ?_⟩, h2⟩
    by_cases h1 : 2 ≤ m
    · exact absurd hdvd (h m h1 hm)
    · have : m ≠ 0 := by
        rintro rfl
        have := Nat.eq_zero_of_zero_dvd hdvd
        omega
      omega
  · rintro ⟨⟨_, h⟩, h2⟩
    refine ⟨h2, fun d hd hlt hdvd => ?_⟩
    have := h d hlt hdvd
    omega

/-! ## 1. the `NoDivBelow` invariant -/

theorem NoDivBelow.mono {n f g : Nat} (h : NoDivBelow n g) (hfg : f ≤ g) : NoDivBelow n f :=
  fun d h2 hd => h d h2 (by omega)

theorem NoDivBelow.step {n f : Nat} (h : NoDivBelow n f) (hf : ¬ f ∣ n) : NoDivBelow n (f + 1) := by
  intro d h2 hd hdvd
  by_cases hdf : d = f
  · subst hdf; exact hf hdvd
  · exact h d h2 (by omega) hdvd

/-- a number without the divisor 2 has no even divisor -/
theorem NoDivBelow.not_even {n f d : Nat} (h : NoDivBelow n f) (hf : 2 < f) (hd : d % 2 = 0) :
    ¬ d ∣ n := fun hdvd =>
  h 2 (by omega) hf (Nat.dvd_trans (Nat.dvd_of_mod_eq_zero hd) hdvd)

/-- a number without the divisor 3 has no divisor that is a multiple of 3 -/
theorem NoDivBelow.not_mul3 {n f d : Nat} (h : NoDivBelow n f) (hf : 3 < f) (hd : d % 3 = 0) :
    ¬ d ∣ n := fun hdvd =>
  h 3 (by omega) hf (Nat.dvd_trans (Nat.dvd_of_mod_eq_zero hd) hdvd)

/-- from a candidate `f ≡ 5 (mod 6)`: `f + 1` is even, so it need not be tried -/
theorem NoDivBelow.step5 {n f : Nat} (h : NoDivBelow n f) (hf6 : f % 6 = 5) (hf : ¬ f ∣ n) :
    NoDivBelow n (f + 2) := by
  have h1 := h.step hf
  exact h1.step (h1.not_even (by omega) (by omega))

/-- from a candidate `f ≡ 1 (mod 6)`, `f ≥ 7`: `f + 1, f + 2, f + 3` are multiples of 2 or 3 -/
theorem NoDivBelow.step1 {n f : Nat} (h : NoDivBelow n f) (hf6 : f % 6 = 1) (h7 : 3 < f)
    (hf : ¬ f ∣ n) : NoDivBelow n (f + 4) := by
  have h1 := h.step hf
  have h2 := h1.step (h1.not_even (by omega) (by omega))
  have h3 := h2.step (h2.not_mul3 (by omega) (by omega))
  exact h3.step (h3.not_even (by omega) (by omega))

/-- no divisor up to `⌊√n⌋` implies no proper divisor at all -/
theorem NoDivBelow.of_sqrt {n : Nat} (h : NoDivBelow n (Nat.sqrt n + 1)) : NoDivBelow n n := by
  intro d h2 hd hdvd
  by_cases hds : d ≤ Nat.sqrt n
  · exact h d h2 (by omega) hdvd
  · obtain ⟨k, hk⟩ := hdvd
    have hk2 : 2 ≤ k := by
      rcases k with _ | _ | k
      · omega
      · omega
      · omega
    have hks : ¬ k ≤ Nat.sqrt n := fun hle => h k hk2 (by omega) ⟨d, by rw [hk, Nat.mul_comm]⟩
    have h1 : (Nat.sqrt n + 1) * (Nat.sqrt n + 1) ≤ d * k :=
      Nat.mul_le_mul (by omega) (by omega)
    have h2 := Nat.lt_succ_sqrt n
    simp only [Nat.succ_eq_add_one] at h2
    omega

/-- more generally: no divisor below `f` and `f * f > n` implies no proper divisor -/
theorem NoDivBelow.of_sq_gt {n f : Nat} (h : NoDivBelow n f) (hff : n < f * f) :
    NoDivBelow n n := by
  intro d h2 hd hdvd
  by_cases hds : d < f
  · exact h d h2 hds hdvd
  · obtain ⟨k, hk⟩ := hdvd
    have hk2 : 2 ≤ k := by
      rcases k with _ | _ | k
      · omega
      · omega
      · omega
    have hks : ¬ k < f := fun hle => h k hk2 hle ⟨d, by rw [hk, Nat.mul_comm]⟩
    have h1 : f * f ≤ d * k := Nat.mul_le_mul (by omega) (by omega)
    omega

/-! ## 2. `lazy_is_prime` -/

/-- the trial-division loop, started at a candidate `f ≡ 5 (mod 6)` below which `n` has no
divisor and with enough fuel to get past `s`, decides "no divisor up to `s`" -/
theorem isPrimeLoop_spec (n s : Nat) : ∀ fuel f, f % 6 = 5 → NoDivBelow n f → s < f + 6 * fuel →
    (isPrimeLoop n s fuel f = true ↔ NoDivBelow n (s + 1)) := by
  intro fuel
  induction fuel with
  | zero =>
    intro f _ hnd hs
    simp only [isPrimeLoop, true_iff]
    exact hnd.mono (by omega)
  | succ k ih =>
    intro f hf hnd hs
    unfold isPrimeLoop
    split
    · simp only [true_iff]; exact hnd.mono (by omega)
    · rename_i hfs
      split
      · rename_i hdiv
        simp only [Bool.false_eq_true, false_iff]
        exact fun h => h f (by omega) (by omega) (Nat.dvd_of_mod_eq_zero hdiv)
      · rename_i hdiv
        have h2 : NoDivBelow n (f + 2) :=
          hnd.step5 hf (fun hd => hdiv (Nat.mod_eq_zero_of_dvd hd))
        split
        · simp only [true_iff]; exact h2.mono (by omega)
        · split
          · rename_i hdiv2
            simp only [Bool.false_eq_true, false_iff]
            exact fun h => h (f + 2) (by omega) (by omega) (Nat.dvd_of_mod_eq_zero hdiv2)
          · rename_i hdiv2
            have h6 : NoDivBelow n (f + 2 + 4) :=
              h2.step1 (by omega) (by omega) (fun hd => hdiv2 (Nat.mod_eq_zero_of_dvd hd))
            exact ih (f + 6) (by omega) h6 (by omega)

/-- the `Nat` core of `lazy_is_prime` for `n ≥ 4` -/
theorem isPrime_nat (m : Nat) (h4 : 4 ≤ m) :
    ((¬ (m % 2 = 0 ∨ m % 3 = 0)) ∧ isPrimeLoop m (Nat.sqrt m) m 5 = true) ↔ NoDivBelow m m := by
  constructor
  · rintro ⟨h23, hloop⟩
    have h5 : NoDivBelow m 5 := by
      intro d hd2 hd5 hdvd
      have hd : d = 2 ∨ d = 3 ∨ d = 4 := by omega
      rcases hd with rfl | rfl | rfl <;> omega
    have := (isPrimeLoop_spec m (Nat.sqrt m) m 5 rfl h5
      (by have := Nat.sqrt_le_self m; omega)).1 hloop
    exact this.of_sqrt
  · intro h
    have h2 : ¬ m % 2 = 0 := fun h2 => h 2 (by omega) (by omega) (Nat.dvd_of_mod_eq_zero h2)
    have h3 : ¬ m % 3 = 0 := fun h3 => h 3 (by omega) (by omega) (Nat.dvd_of_mod_eq_zero h3)
    refine ⟨by omega, ?_⟩
    have h5 : NoDivBelow m 5 := h.mono (by omega)
    refine (isPrimeLoop_spec m (Nat.sqrt m) m 5 rfl h5
      (by have := Nat.sqrt_le_self m; omega)).2 (h.mono ?_)
    have := Nat.sqrt_lt_self (n := m) (by omega)
    omega

/-- **is_prime is correct** for every integer, in either representation -/
theorem is_prime_correct (x : NInt) : lazyIsPrime x = true ↔ IsPrimeSpec x.val := by
  unfold lazyIsPrime
  generalize x.val = n
  simp only []
  split
  · rename_i h1
    simp only [Bool.false_eq_true, false_iff]
    exact fun h => by have := h.1; omega
  · rename_i h1
    obtain ⟨m, rfl⟩ := Int.eq_ofNat_of_zero_le (by omega : 0 ≤ n)
    rw [isPrimeSpec_natCast]
    split
    · rename_i h3
      simp only [true_iff]
      refine ⟨by omega, fun d hd2 hdm hdvd => ?_⟩
      have hm : m = 2 ∨ m = 3 := by omega
      rcases hm with rfl | rfl
      · omega
      · have : d = 2 := by omega
        subst this; omega
    · rename_i h3
      have h4 : 4 ≤ m := by omega
      have key := isPrime_nat m h4
      rw [Int.tmod_eq_emod_of_nonneg (by omega), Int.tmod_eq_emod_of_nonneg (by omega)]
      simp only [Int.toNat_natCast]
      split
      · rename_i h23
        simp only [Bool.false_eq_true, false_iff]
        rintro ⟨_, hnd⟩
        have := (key.2 hnd).1
        omega
      · rename_i h23
        constructor
        · intro hloop
          exact ⟨by omega, key.1 ⟨by omega, hloop⟩⟩
        · rintro ⟨_, hnd⟩
          exact (key.2 hnd).2

/-- corollary against Mathlib's `Nat.Prime` -/
theorem is_prime_correct_mathlib (x : NInt) :
    lazyIsPrime x = true ↔ Nat.Prime x.val.toNat ∧ 2 ≤ x.val := by
  rw [is_prime_correct, isPrimeSpec_iff_natPrime]

/-- the answer does not depend on the representation -/
theorem is_prime_repr_independent (a b : NInt) (h : a.val = b.val) :
    lazyIsPrime a = lazyIsPrime b := by
  unfold lazyIsPrime; rw [h]

/-! tests (non-vacuity): concrete evaluations -/
example : lazyIsPrime (small 97) = true := by decide +kernel
example : lazyIsPrime (big 97) = true := by decide +kernel
example : lazyIsPrime (small 91) = false := by decide +kernel
example : lazyIsPrime (small 25) = false := by decide +kernel
example : lazyIsPrime (small 49) = false := by decide +kernel
example : lazyIsPrime (small 2) = true := by decide +kernel
example : lazyIsPrime (small 1) = false := by decide +kernel
example : lazyIsPrime (small 0) = false := by decide +kernel
example : lazyIsPrime (small (-7)) = false := by decide +kernel
example : IsPrimeSpec 97 := (is_prime_correct (small 97)).1 (by decide +kernel)
example : ¬ IsPrimeSpec 91 := fun h => by
  have := (is_prime_correct (small 91)).2 h
  revert this; decide +kernel

/-! ## 3. `lazy_factorize` -/

/-- the product `∏ p ^ e` of a factor list -/
def fprod : List (Int × Nat) → Int
  | [] => 1
  | pe :: l => pe.1 ^ pe.2 * fprod l

theorem fprod_append (l₁ l₂ : List (Int × Nat)) : fprod (l₁ ++ l₂) = fprod l₁ * fprod l₂ := by
  induction l₁ with
  | nil => simp [fprod]
  | cons a l ih => simp [fprod, ih, Int.mul_assoc]

theorem fprod_snoc (l : List (Int × Nat)) (p : Int) (e : Nat) :
    fprod (l ++ [(p, e)]) = fprod l * p ^ e := by
  rw [fprod_append]; simp [fprod]

/-- `fprod` is Mathlib's `List.prod` of the prime powers -/
theorem fprod_eq_prod (l : List (Int × Nat)) : fprod l = (l.map (fun pe => pe.1 ^ pe.2)).prod := by
  induction l with
  | nil => simp [fprod]
  | cons a l ih => simp [fprod, ih]

/-- the inner `while` loop: with fuel `≥ a` it strips the factor `f ≥ 2` completely -/
theorem stripFactor_spec (f : Nat) (hf : 2 ≤ f) : ∀ fuel a m, 1 ≤ a → a ≤ fuel →
    ∃ k, (stripFactor f fuel a m).2 = m + k ∧ (stripFactor f fuel a m).1 * f ^ k = a ∧
      1 ≤ (stripFactor f fuel a m).1 ∧ ¬ f ∣ (stripFactor f fuel a m).1 ∧
      (stripFactor f fuel a m).1 ≤ a := by
  intro fuel
  induction fuel with
  | zero => intro a m h1 h2; omega
  | succ n ih =>
    intro a m h1 h2
    unfold stripFactor
    rw [if_neg (by omega)]
    split
    · rename_i h
      have hdvd : f ∣ a := Nat.dvd_of_mod_eq_zero h.1
      have hlt : a / f < a := Nat.div_lt_self (by omega) (by omega)
      have hpos : 1 ≤ a / f := Nat.div_pos (Nat.le_of_dvd (by omega) hdvd) (by omega)
      obtain ⟨k, hk1, hk2, hk3, hk4, hk5⟩ := ih (a / f) (m + 1) hpos (by omega)
      refine ⟨k + 1, by omega, ?_, hk3, hk4, by omega⟩
      rw [Nat.pow_succ, ← Nat.mul_assoc, hk2, Nat.div_mul_cancel hdvd]
    · rename_i h
      refine ⟨0, rfl, by simp, h1, ?_, Nat.le_refl _⟩
      intro hdvd; exact h ⟨Nat.mod_eq_zero_of_dvd hdvd, by omega⟩

/-- `factorTest` without the pattern-matching `let` -/
theorem factorTest_eq (st : FState) (f : Nat) : factorTest st f =
    if f * f > st.a then
      (true, if st.a > 1 then { st with acc := st.acc ++ [((st.a : Int), 1)] } else st)
    else
      (false, { a := (stripFactor f st.a st.a 0).1,
                acc := if (stripFactor f st.a st.a 0).2 > 0
                  then st.acc ++ [((f : Int), (stripFactor f st.a st.a 0).2)] else st.acc }) := by
  unfold factorTest; split <;> rfl

/-- what a finished factorisation of `x` satisfies -/
structure Good (x : Int) (l : List (Int × Nat)) : Prop where
  prod : fprod l = x
  sorted : l.Pairwise (fun p q => p.1 < q.1)
  prime : ∀ p ∈ l, (p = (-1, 1) ∧ x < 0) ∨ IsPrimeSpec p.1
  exp : ∀ p ∈ l, 1 ≤ p.2
  head : x < 0 → ∃ l', l = (-1, 1) :: l'

/-- the loop invariant of `lazy_factorize` before candidate `f` is tested -/
structure Inv (x : Int) (st : FState) (f : Nat) : Prop where
  apos : 1 ≤ st.a
  prod : fprod st.acc * (st.a : Int) = x
  nodiv : NoDivBelow st.a f
  sorted : st.acc.Pairwise (fun p q => p.1 < q.1)
  lt : ∀ p ∈ st.acc, p.1 < (f : Int)
  prime : ∀ p ∈ st.acc, (p = (-1, 1) ∧ x < 0) ∨ IsPrimeSpec p.1
  exp : ∀ p ∈ st.acc, 1 ≤ p.2
  head : x < 0 → ∃ l', st.acc = (-1, 1) :: l'

theorem Inv.weaken {x : Int} {st : FState} {f g : Nat} (h : Inv x st f) (hg : NoDivBelow st.a g)
    (hfg : f ≤ g) : Inv x st g :=
  { h with nodiv := hg, lt := fun p hp => by have := h.lt p hp; omega }

/-- appending a new largest prime power to the accumulator -/
theorem snoc_facts {x : Int} {acc : List (Int × Nat)} {f : Nat} (p e : Nat)
    (hsorted : acc.Pairwise (fun p q => p.1 < q.1))
    (hlt : ∀ q ∈ acc, q.1 < (f : Int))
    (hprime : ∀ q ∈ acc, (q = (-1, 1) ∧ x < 0) ∨ IsPrimeSpec q.1)
    (hexp : ∀ q ∈ acc, 1 ≤ q.2)
    (hhead : x < 0 → ∃ l', acc = (-1, 1) :: l')
    (hfp : f ≤ p) (hp : IsPrimeSpec (p : Int)) (he : 1 ≤ e) :
    (acc ++ [((p : Int), e)]).Pairwise (fun p q => p.1 < q.1) ∧
    (∀ q ∈ acc ++ [((p : Int), e)], q.1 < ((p + 1 : Nat) : Int)) ∧
    (∀ q ∈ acc ++ [((p : Int), e)], (q = (-1, 1) ∧ x < 0) ∨ IsPrimeSpec q.1) ∧
    (∀ q ∈ acc ++ [((p : Int), e)], 1 ≤ q.2) ∧
    (x < 0 → ∃ l', acc ++ [((p : Int), e)] = (-1, 1) :: l') := by
  refine ⟨?_, ?_, ?_, ?_, ?_⟩
  · rw [List.pairwise_append]
    refine ⟨hsorted, List.pairwise_singleton _ _, ?_⟩
    intro a ha b hb
    simp only [List.mem_singleton] at hb
    subst hb
    have := hlt a ha
    simp only
    omega
  · intro q hq
    simp only [List.mem_append, List.mem_singleton] at hq
    rcases hq with hq | rfl
    · have := hlt q hq; omega
    · simp only; omega
  · intro q hq
    simp only [List.mem_append, List.mem_singleton] at hq
    rcases hq with hq | rfl
    · exact hprime q hq
    · exact Or.inr hp
  · intro q hq
    simp only [List.mem_append, List.mem_singleton] at hq
    rcases hq with hq | rfl
    · exact hexp q hq
    · exact he
  · intro hx
    obtain ⟨l', hl'⟩ := hhead hx
    exact ⟨l' ++ [((p : Int), e)], by rw [hl']; rfl⟩

/-- one call of the closure `test` -/
theorem factorTest_spec {x : Int} {st : FState} {f : Nat} (h : Inv x st f) (hf : 2 ≤ f) :
    ((factorTest st f).1 = true → Good x (factorTest st f).2.acc) ∧
    ((factorTest st f).1 = false →
      Inv x (factorTest st f).2 (f + 1) ∧ (factorTest st f).2.a ≤ st.a ∧ f * f ≤ st.a) := by
  rw [factorTest_eq]
  split
  · -- `f * f > a`: the remaining cofactor is 1 or a prime
    rename_i hff
    refine ⟨fun _ => ?_, fun hc => by simp at hc⟩
    simp only
    split
    · rename_i ha
      have hnd : NoDivBelow st.a st.a := h.nodiv.of_sq_gt hff
      have hfa : f ≤ st.a := by
        apply Nat.le_of_not_gt
        intro hlt
        exact h.nodiv st.a (by omega) hlt (Nat.dvd_refl _)
      have hp : IsPrimeSpec (st.a : Int) := (isPrimeSpec_natCast _).2 ⟨by omega, hnd⟩
      obtain ⟨s1, _, s3, s4, s5⟩ :=
        snoc_facts st.a 1 h.sorted h.lt h.prime h.exp h.head hfa hp (Nat.le_refl 1)
      exact ⟨by simp only; rw [fprod_snoc, Int.pow_one]; exact h.prod, s1, s3, s4, s5⟩
    · rename_i ha
      have ha1 : st.a = 1 := by have := h.apos; omega
      have hprod := h.prod
      rw [ha1] at hprod
      simp only [Int.natCast_one, Int.mul_one] at hprod
      exact ⟨hprod, h.sorted, h.prime, h.exp, h.head⟩
  · -- `f * f ≤ a`: strip `f`
    rename_i hff
    refine ⟨fun hc => by simp at hc, fun _ => ?_⟩
    obtain ⟨k, hk1, hk2, hk3, hk4, hk5⟩ := stripFactor_spec f hf st.a st.a 0 h.apos (Nat.le_refl _)
    generalize stripFactor f st.a st.a 0 = r at *
    obtain ⟨a', m⟩ := r
    simp only at hk1 hk2 hk3 hk4 hk5 ⊢
    have hcast : (st.a : Int) = (a' : Int) * (f : Int) ^ k := by
      rw [← hk2]; push_cast; rfl
    have hdvd : a' ∣ st.a := ⟨f ^ k, hk2.symm⟩
    have hnd' : NoDivBelow a' (f + 1) := by
      intro d hd2 hdf hd
      by_cases hdf' : d = f
      · subst hdf'; exact hk4 hd
      · exact h.nodiv d hd2 (by omega) (Nat.dvd_trans hd hdvd)
    refine ⟨?_, hk5, by omega⟩
    split
    · rename_i hm
      have hk0 : 1 ≤ k := by omega
      have hfdvd : f ∣ st.a := by
        rw [← hk2]
        exact Nat.dvd_trans (Nat.dvd_trans (Nat.dvd_refl f) (by
          obtain ⟨j, rfl⟩ : ∃ j, k = j + 1 := ⟨k - 1, by omega⟩
          exact ⟨f ^ j, by rw [Nat.pow_succ, Nat.mul_comm]⟩)) (Nat.dvd_mul_left _ _)
      have hp : IsPrimeSpec (f : Int) := (isPrimeSpec_natCast _).2
        ⟨hf, fun d hd2 hdf hd => h.nodiv d hd2 hdf (Nat.dvd_trans hd hfdvd)⟩
      obtain ⟨s1, s2, s3, s4, s5⟩ :=
        snoc_facts f m h.sorted h.lt h.prime h.exp h.head (Nat.le_refl f) hp (by omega)
      refine ⟨hk3, ?_, hnd', s1, s2, s3, s4, s5⟩
      simp only
      rw [fprod_snoc, ← h.prod, hcast]
      have : m = k := by omega
      subst this
      rw [Int.mul_assoc, Int.mul_comm ((f : Int) ^ m)]
    · rename_i hm
      have hk0 : k = 0 := by omega
      subst hk0
      simp only [Nat.pow_zero, Nat.mul_one] at hk2
      subst hk2
      exact { h with nodiv := hnd', lt := fun p hp => by have := h.lt p hp; omega }

/-- the main loop, from a candidate `f ≡ 5 (mod 6)`; `N = |x|` bounds the cofactor, and the fuel
bookkeeping `f + 6 * fuel = 5 + 6 * N` shows the fuel is never exhausted -/
theorem factorLoop_good (x : Int) (N : Nat) : ∀ fuel st f, Inv x st f → f % 6 = 5 → st.a ≤ N →
    f + 6 * fuel = 5 + 6 * N → 1 ≤ fuel → Good x (factorLoop fuel st f) := by
  intro fuel
  induction fuel with
  | zero => intro st f _ _ _ _ h; omega
  | succ n ih =>
    intro st f hinv hf6 haN hfuel _
    unfold factorLoop
    have s1 := factorTest_spec hinv (by omega)
    split
    · rename_i st1 heq
      rw [heq] at s1
      exact s1.1 rfl
    · rename_i st1 heq
      rw [heq] at s1
      obtain ⟨hinv1, ha1, hff1⟩ := s1.2 rfl
      simp only at hinv1 ha1
      have hinv1' : Inv x st1 (f + 2) :=
        hinv1.weaken (hinv1.nodiv.step (hinv1.nodiv.not_even (by omega) (by omega))) (by omega)
      have s2 := factorTest_spec hinv1' (by omega)
      split
      · rename_i st2 heq2
        rw [heq2] at s2
        exact s2.1 rfl
      · rename_i st2 heq2
        rw [heq2] at s2
        obtain ⟨hinv2, ha2, hff2⟩ := s2.2 rfl
        simp only at hinv2 ha2
        have n3 := hinv2.nodiv
        have n4 := n3.step (n3.not_even (by omega) (by omega : (f + 2 + 1) % 2 = 0))
        have n5 := n4.step (n4.not_mul3 (by omega) (by omega : (f + 2 + 1 + 1) % 3 = 0))
        have n6 := n5.step (n5.not_even (by omega) (by omega : (f + 2 + 1 + 1 + 1) % 2 = 0))
        have hinv2' : Inv x st2 (f + 6) := hinv2.weaken n6 (by omega)
        have hle := Nat.le_mul_self (f + 2)
        exact ih st2 (f + 6) hinv2' (by omega) (by omega) (by omega) (by omega)

/-- the whole of `lazy_factorize` on a non-zero argument -/
theorem lazyFactorize_good (x : Int) (hx : x ≠ 0) : Good x (lazyFactorize x) := by
  unfold lazyFactorize
  rw [if_neg hx]
  simp only []
  have h0 : Inv x { a := x.natAbs, acc := if x < 0 then [(-1, 1)] else [] } 2 := by
    by_cases hneg : x < 0
    · rw [if_pos hneg]
      refine ⟨by simp only; omega, ?_, fun d h2 hd => by omega, List.pairwise_singleton _ _,
        ?_, ?_, ?_, fun _ => ⟨[], rfl⟩⟩
      · simp only [fprod]; omega
      · intro p hp; simp only [List.mem_singleton] at hp; subst hp; simp only; omega
      · intro p hp; simp only [List.mem_singleton] at hp; exact Or.inl ⟨hp, hneg⟩
      · intro p hp; simp only [List.mem_singleton] at hp; subst hp; exact Nat.le_refl 1
    · rw [if_neg hneg]
      refine ⟨by simp only; omega, ?_, fun d h2 hd => by omega, List.Pairwise.nil,
        ?_, ?_, ?_, fun h => absurd h hneg⟩
      · simp only [fprod]; omega
      · intro p hp; cases hp
      · intro p hp; cases hp
      · intro p hp; cases hp
  have s1 := factorTest_spec h0 (Nat.le_refl 2)
  split
  · rename_i st1 heq
    rw [heq] at s1
    exact s1.1 rfl
  · rename_i st1 heq
    rw [heq] at s1
    obtain ⟨hinv1, ha1, _⟩ := s1.2 rfl
    simp only at hinv1 ha1
    have s2 := factorTest_spec hinv1 (by omega : 2 ≤ 2 + 1)
    split
    · rename_i st2 heq2
      rw [heq2] at s2
      exact s2.1 rfl
    · rename_i st2 heq2
      rw [heq2] at s2
      obtain ⟨hinv2, ha2, _⟩ := s2.2 rfl
      simp only at hinv2 ha2
      have n4 := hinv2.nodiv
      have n5 := n4.step (n4.not_even (by omega) (by omega : (2 + 1 + 1) % 2 = 0))
      exact factorLoop_good x x.natAbs x.natAbs st2 5 (hinv2.weaken n5 (by omega)) rfl
        (by omega) (by omega) (by omega)

/-! ### the property statements -/

/-- (a) `factorize(0)` is the empty list -/
theorem factorize_zero : lazyFactorize 0 = [] := rfl

/-- (b) **the product of the prime powers is the argument** (for negatives the list starts with
`(-1, 1)`, see `factorize_neg_head`, which contributes the sign) -/
theorem factorize_product (x : Int) (hx : x ≠ 0) : fprod (lazyFactorize x) = x :=
  (lazyFactorize_good x hx).prod

/-- (b) against Mathlib's `List.prod` -/
theorem factorize_product_mathlib (x : Int) (hx : x ≠ 0) :
    ((lazyFactorize x).map (fun pe => pe.1 ^ pe.2)).prod = x := by
  rw [← fprod_eq_prod]; exact factorize_product x hx

/-- (c) the factors (including a leading `-1`) are strictly increasing -/
theorem factorize_sorted (x : Int) : (lazyFactorize x).Pairwise (fun p q => p.1 < q.1) := by
  by_cases hx : x = 0
  · subst hx; exact List.Pairwise.nil
  · exact (lazyFactorize_good x hx).sorted

/-- every entry is the sign entry `(-1, 1)` (only for negative arguments) or a prime -/
theorem factorize_entry (x : Int) (p : Int × Nat) (hp : p ∈ lazyFactorize x) :
    (p = (-1, 1) ∧ x < 0) ∨ IsPrimeSpec p.1 := by
  by_cases hx : x = 0
  · subst hx; cases hp
  · exact (lazyFactorize_good x hx).prime p hp

/-- (d) every factor other than `-1` is prime -/
theorem factorize_prime (x : Int) (p : Int × Nat) (hp : p ∈ lazyFactorize x) (h1 : p.1 ≠ -1) :
    IsPrimeSpec p.1 := by
  rcases factorize_entry x p hp with ⟨rfl, _⟩ | h
  · exact absurd rfl h1
  · exact h

/-- (d) against Mathlib's `Nat.Prime` -/
theorem factorize_prime_mathlib (x : Int) (p : Int × Nat) (hp : p ∈ lazyFactorize x)
    (h1 : p.1 ≠ -1) : Nat.Prime p.1.toNat ∧ 2 ≤ p.1 :=
  (isPrimeSpec_iff_natPrime _).1 (factorize_prime x p hp h1)

/-- (e) every exponent is at least 1 -/
theorem factorize_exp_pos (x : Int) (p : Int × Nat) (hp : p ∈ lazyFactorize x) : 1 ≤ p.2 := by
  by_cases hx : x = 0
  · subst hx; cases hp
  · exact (lazyFactorize_good x hx).exp p hp

/-- for a negative argument the list starts with the sign entry `(-1, 1)` -/
theorem factorize_neg_head (x : Int) (hx : x < 0) : ∃ l, lazyFactorize x = (-1, 1) :: l :=
  (lazyFactorize_good x (by omega)).head hx

/-- for a positive argument every factor is prime (there is no sign entry) -/
theorem factorize_pos_all_prime (x : Int) (hx : 0 < x) (p : Int × Nat)
    (hp : p ∈ lazyFactorize x) : IsPrimeSpec p.1 := by
  rcases factorize_entry x p hp with ⟨_, h⟩ | h
  · omega
  · exact h

/-- all five clauses together -/
theorem factorize_correct (x : Int) :
    (x = 0 → lazyFactorize x = []) ∧
    (x ≠ 0 → fprod (lazyFactorize x) = x) ∧
    (lazyFactorize x).Pairwise (fun p q => p.1 < q.1) ∧
    (∀ p ∈ lazyFactorize x, p.1 ≠ -1 → IsPrimeSpec p.1) ∧
    (∀ p ∈ lazyFactorize x, 1 ≤ p.2) :=
  ⟨fun h => by subst h; rfl, factorize_product x, factorize_sorted x,
   fun p hp => factorize_prime x p hp, fun p hp => factorize_exp_pos x p hp⟩

/-! tests (non-vacuity): concrete evaluations -/
example : lazyFactorize 360 = [(2, 3), (3, 2), (5, 1)] := by decide +kernel
example : lazyFactorize (-12) = [(-1, 1), (2, 2), (3, 1)] := by decide +kernel
example : lazyFactorize 1 = [] := by decide +kernel
example : lazyFactorize (-1) = [(-1, 1)] := by decide +kernel
example : lazyFactorize 97 = [(97, 1)] := by decide +kernel
example : lazyFactorize 1001 = [(7, 1), (11, 1), (13, 1)] := by decide +kernel
example : lazyFactorize 169 = [(13, 2)] := by decide +kernel
example : lazyFactorize 1849 = [(43, 2)] := by decide +kernel   -- 43 ≡ 1 (mod 6): second candidate
example : fprod (lazyFactorize 360) = 360 := factorize_product 360 (by decide)
example : fprod [(2, 3), (3, 2), (5, 1)] = 360 := by decide

end Noulith.C06Prime
