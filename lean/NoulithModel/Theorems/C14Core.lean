/-
C14, part 2 — the no-panic theorems of the modelled core, collected from the property files that
prove them (each is re-exported under this property's name with its original statement, so that a
change that breaks one of them breaks C14's obligations too).  What these cover: integer and numeric
tower operators, comparison, indexing / slicing, pattern assignment / switch / destructuring, the
lexer and literal decoding, the text and byte codecs.
-/
import NoulithModel.Theorems.C06
import NoulithModel.Theorems.C08
import NoulithModel.Theorems.C10
import NoulithModel.Theorems.C12
import NoulithModel.Theorems.C15
import NoulithModel.Theorems.C16
import NoulithModel.Theorems.C10State
import NoulithModel.Theorems.C12NoRollback

namespace Noulith.C14Core

theorem int_operators_no_panic : type_of% @Noulith.C06.binop_no_panic := @Noulith.C06.binop_no_panic
theorem comparison_no_panic : type_of% @Noulith.C08.ncmp_no_panic := @Noulith.C08.ncmp_no_panic
theorem index_never_panics : type_of% @Noulith.C10.index_never_panics := @Noulith.C10.index_never_panics
theorem slice_never_panics : type_of% @Noulith.C10.slice_never_panics := @Noulith.C10.slice_never_panics
theorem indexing_no_panic : type_of% @Noulith.C10.index_no_panic := @Noulith.C10.index_no_panic
theorem slicing_no_panic : type_of% @Noulith.C10.slice_no_panic := @Noulith.C10.slice_no_panic
theorem is_type_no_panic : type_of% @Noulith.C12.isType_no_panic := @Noulith.C12.isType_no_panic
theorem set_index_no_panic : type_of% @Noulith.C12.setIndex_no_panic := @Noulith.C12.setIndex_no_panic
theorem pattern_assign_no_panic : type_of% @Noulith.C12.assign_no_panic := @Noulith.C12.assign_no_panic
theorem unpacking_no_panic : type_of% @Noulith.C12.assignItems_no_panic := @Noulith.C12.assignItems_no_panic
theorem destructure_no_panic : type_of% @Noulith.C12.destructure_no_panic := @Noulith.C12.destructure_no_panic
theorem switch_no_panic : type_of% @Noulith.C12.switchArm_no_panic := @Noulith.C12.switchArm_no_panic
theorem lexer_never_panics : type_of% @Noulith.C15.lex_never_panics := @Noulith.C15.lex_never_panics
theorem literal_evaluation_no_panic : type_of% @Noulith.C15.parseEvalLit_no_panic := @Noulith.C15.parseEvalLit_no_panic
theorem format_scanner_no_panic : type_of% @Noulith.C15.fmtLoop_no_panic := @Noulith.C15.fmtLoop_no_panic
theorem hex_decode_no_panic : type_of% @Noulith.C16.hexDecode_no_panic := @Noulith.C16.hexDecode_no_panic
theorem base64_decode_no_panic : type_of% @Noulith.C16.b64Decode_no_panic := @Noulith.C16.b64Decode_no_panic
theorem utf8_decode_no_panic : type_of% @Noulith.C16.utf8DecodeB_no_panic := @Noulith.C16.utf8DecodeB_no_panic
theorem rational_of_str_no_panic : type_of% @Noulith.C16.rationalOfStr_no_panic := @Noulith.C16.rationalOfStr_no_panic
theorem int_of_str_no_panic : type_of% @Noulith.C16.intOfStr_no_panic := @Noulith.C16.intOfStr_no_panic
theorem str_radix_no_panic : type_of% @Noulith.C16.strRadix_no_panic := @Noulith.C16.strRadix_no_panic
theorem int_radix_no_panic : type_of% @Noulith.C16.intRadix_no_panic := @Noulith.C16.intRadix_no_panic
theorem decompress_no_panic : type_of% @Noulith.C16.decompress_no_panic := @Noulith.C16.decompress_no_panic
theorem chr_no_panic : type_of% @Noulith.C16.chr_no_panic := @Noulith.C16.chr_no_panic
theorem ord_no_panic : type_of% @Noulith.C16.ord_no_panic := @Noulith.C16.ord_no_panic

/-! the parser model always answers (accepts or rejects): no input makes it run out of its linear fuel,
so parsing never hangs -/
theorem parser_always_answers : type_of% @Noulith.C15.parse_decides := @Noulith.C15.parse_decides

/-! "after a caught error … variables not named by the failing statement keep their values", and the
named one too when the write is refused: a raising indexed write / pop / remove leaves the variable as
it was, on every sequence kind -/
theorem failed_indexed_write_preserves_variable : type_of% @Noulith.C10.failed_write_preserves := @Noulith.C10.failed_write_preserves
theorem failed_pop_remove_preserves_variable : type_of% @Noulith.C10.failed_modify_preserves := @Noulith.C10.failed_modify_preserves

/-! pattern assignment of EVERY pattern (alternatives without rollback included) ends in acceptance or a
catchable refusal with the environment the Spec states, never a panic -/
theorem pattern_assign_all_patterns : type_of% @Noulith.C12.assign_eq_specNR := @Noulith.C12.assign_eq_specNR

end Noulith.C14Core
