/-
C10 — Indexing and slicing follow Python semantics on every sequence kind.

Property theorems about the Impl model `Noulith.Index` (NoulithModel/Impl/Index.lean, a transcription
of core.rs / eval.rs / lib.rs / streams.rs) against the Spec `Noulith.PyIndex` (Python's rule on
mathematical integers).  Every statement is for ALL lengths `0 ≤ len ≤ isize::MAX` (the bound Rust
guarantees for any `Vec`/slice), ALL integers as indices / bounds, all element lists.
-/
import NoulithModel.Spec.PyIndex

namespace Noulith.C10
open Noulith Noulith.Index Noulith.PyIndex

/-! ## 0. `Out` plumbing -/

@[simp] theorem bind_ok {α β} (a : α) (f : α → Out β) : (Out.ok a).bind f = f a := rfl
@[simp] theorem bind_throw {α β} (f : α → Out β) : (Out.throw : Out α).bind f = .throw := rfl
@[simp] theorem bind_panic {α β} (f : α → Out β) : (Out.panic : Out α).bind f = .panic := rfl
@[simp] theorem map_ok {α β} (a : α) (f : α → β) : (Out.ok a).map f = .ok (f a) := rfl
@[simp] theorem map_throw {α β} (f : α → β) : (Out.throw : Out α).map f = .throw := rfl
@[simp] theorem map_panic {α β} (f : α → β) : (Out.panic : Out α).map f = .panic := rfl

/-! ## 1. the Spec: Python's rule (facts used to read the Spec, independent of the code) -/

/-- `pyIndex` returns exactly the two documented cases -/
theorem pyIndex_eq_some_iff (len i k : Int) :
    pyIndex len i = some k ↔ (0 ≤ i ∧ i < len ∧ k = i) ∨ (-len ≤ i ∧ i < 0 ∧ k = len + i) := by
  unfold pyIndex; split
  · simp; omega
  · split <;> simp <;> omega

/-- the position addressed is always a valid position -/
theorem pyIndex_range {len i k : Int} (h : pyIndex len i = some k) : 0 ≤ k ∧ k < len := by
  rw [pyIndex_eq_some_iff] at h; omega

/-- everything else is an index error: every integer below `-len` or from `len` up, however large -/
theorem pyIndex_eq_none_iff (len i : Int) (hl : 0 ≤ len) :
    pyIndex len i = none ↔ i < -len ∨ len ≤ i := by
  unfold pyIndex; split
  · simp; omega
  · split <;> simp <;> omega

/-- a negative index addresses the same position as the index `len` higher -/
theorem pyIndex_neg (len i : Int) (h1 : -len ≤ i) (h2 : i < 0) :
    pyIndex len i = pyIndex len (i + len) := by
  unfold pyIndex
  have : ¬ (0 ≤ i ∧ i < len) := by omega
  have h3 : 0 ≤ i + len ∧ i + len < len := by omega
  simp [this, h3, h1, h2]; omega

example : pyIndex 3 (-1) = some 2 ∧ pyIndex 3 2 = some 2 ∧ pyIndex 3 3 = none ∧ pyIndex 3 (-4) = none
    ∧ pyIndex 0 0 = none ∧ pyIndex 3 9223372036854775807 = none := by decide

/-- the half-open range of a slice is inside the sequence and not inverted -/
theorem pySlice_bounds (len : Int) (lo hi : Option Int) (hl : 0 ≤ len) :
    0 ≤ (pySlice len lo hi).1 ∧ (pySlice len lo hi).1 ≤ (pySlice len lo hi).2
      ∧ (pySlice len lo hi).2 ≤ len := by
  unfold pySlice pyClamp
  cases lo <;> cases hi <;> simp only <;> (repeat' split) <;> omega

/-- where a bound points before clamping: negative bounds count from the end -/
def normLo (len : Int) : Option Int → Int
  | none => 0
  | some a => if a < 0 then a + len else a
def normHi (len : Int) : Option Int → Int
  | none => len
  | some a => if a < 0 then a + len else a

/-- clamp-free characterisation of Python slicing: position `k` of the sequence is selected by
`[lo:hi]` exactly when it lies between the two (end-relative when negative) bounds -/
theorem pySlice_selects_iff (len : Int) (lo hi : Option Int) (k : Int) (hk : 0 ≤ k ∧ k < len) :
    ((pySlice len lo hi).1 ≤ k ∧ k < (pySlice len lo hi).2) ↔ (normLo len lo ≤ k ∧ k < normHi len hi) := by
  unfold pySlice pyClamp normLo normHi
  cases lo <;> cases hi <;> simp only <;> (repeat' split) <;> omega

example : pySlice 5 (some (-2)) none = (3, 5) ∧ pySlice 5 (some 1) (some (-1)) = (1, 4)
    ∧ pySlice 5 (some 4) (some 2) = (4, 4) ∧ pySlice 5 (some (-100)) (some 100) = (0, 5) := by decide

/-! ## 2. `index_is_python`: the index normalisation of core.rs is Python's rule, for every length
and every integer, and never panics -/

/-- core.rs `pythonic_index_isize` (post-F11) = `pyIndex`, for every `isize` -/
theorem index_is_python (len n : Int) (hl : lenOk len) (hn : inI64 n) :
    pythonicIndexIsize len n = (match pyIndex len n with
      | some k => .ok k
      | none => .throw) := by
  unfold lenOk at hl; unfold inI64 at hn
  unfold pythonicIndexIsize pyIndex addIsize asUsize inI64
  by_cases h1 : n ≥ 0 ∧ n < len
  · have h1' : 0 ≤ n ∧ n < len := by omega
    simp [h1]
  · have h1' : ¬ (0 ≤ n ∧ n < len) := by omega
    simp only [h1, if_false]
    by_cases h2 : n < 0
    · have hs : -9223372036854775808 ≤ n + len ∧ n + len ≤ 9223372036854775807 := by omega
      simp only [h2, hs, and_self, if_true, bind_ok]
      by_cases h3 : -len ≤ n
      · have e : (n + len) % 18446744073709551616 = n + len := by omega
        have : n + len < len := by omega
        simp [e, this, h3]; omega
      · have : ¬ ((n + len) % 18446744073709551616 < len) := by omega
        simp [this, h3]
    · simp [h2]

/-- core.rs `pythonic_index` on an arbitrary index object: an integer addresses `pyIndex len i`
— for EVERY integer, also beyond the machine word —, everything else raises -/
theorem index_obj_is_python (len : Int) (i : Val) (hl : lenOk len) :
    pythonicIndex len i = (match i with
      | .int n => (match pyIndex len n with
        | some k => .ok k
        | none => .throw)
      | _ => .throw) := by
  cases i with
  | int n =>
    simp only [pythonicIndex, isNum, toIsize, if_true]
    by_cases hn : inI64 n
    · simp only [hn, if_true]; exact index_is_python len n hl hn
    · simp only [hn, if_false]
      have : pyIndex len n = none := by
        rw [pyIndex_eq_none_iff len n hl.1]; unfold inI64 at hn; unfold lenOk at hl; omega
      simp [this]
  | num t => simp [pythonicIndex, isNum, toIsize]
  | _ => simp [pythonicIndex, isNum]

/-- indexing never panics, whatever the index -/
theorem index_never_panics (len : Int) (i : Val) (hl : lenOk len) : pythonicIndex len i ≠ .panic := by
  rw [index_obj_is_python len i hl]
  cases i <;> simp
  split <;> simp

/-- the position returned is in bounds (so the `xs[k]` that follows cannot panic) -/
theorem index_in_bounds (len : Int) (i : Val) (k : Int) (hl : lenOk len)
    (h : pythonicIndex len i = .ok k) : 0 ≤ k ∧ k < len := by
  rw [index_obj_is_python len i hl] at h
  cases i <;> simp at h
  split at h <;> simp at h
  subst h; exact pyIndex_range ‹_›

/-- F11: the code at the pinned commit computes `n + len` for every out-of-range `n` and
overflows: `[1,2,3][2^63-1]` panics instead of raising an index error. -/
theorem f11_old_code_panics : pythonicIndexIsizeOld 3 9223372036854775807 = .panic := by decide

/-- the pinned code was right whenever the sum does not overflow -/
theorem index_is_python_old_partial (len n : Int) (hl : lenOk len) (hn : inI64 n)
    (hsum : n + len ≤ 9223372036854775807) :
    pythonicIndexIsizeOld len n = pythonicIndexIsize len n := by
  unfold lenOk at hl; unfold inI64 at hn
  unfold pythonicIndexIsizeOld pythonicIndexIsize addIsize asUsize inI64
  by_cases h1 : n ≥ 0 ∧ n < len
  · simp [h1]
  · simp only [h1, if_false]
    by_cases h2 : n < 0
    · simp [h2]
    · have hs : -9223372036854775808 ≤ n + len ∧ n + len ≤ 9223372036854775807 := by omega
      have : ¬ ((n + len) % 18446744073709551616 < len) := by omega
      simp [h2, hs, this]

example : lenOk 3 ∧ inI64 (-1) ∧ pythonicIndexIsize 3 (-1) = .ok 2 := by decide

/-! ## 3. `slice_is_python`: clamping is Python's, for every combination of present/absent bounds -/

theorem clamped_is_python (len i : Int) (hl : lenOk len) (hi : inI64 i) :
    clampedPythonicIndex len i = .ok (pyClamp len i) := by
  unfold lenOk at hl; unfold inI64 at hi
  unfold clampedPythonicIndex pyClamp addIsize asUsize inI64
  by_cases h : i ≥ 0
  · have h' : ¬ i < 0 := by omega
    have e : i % 18446744073709551616 = i := by omega
    simp [h, h', e]
  · have h' : i < 0 := by omega
    have hs : -9223372036854775808 ≤ i + len ∧ i + len ≤ 9223372036854775807 := by omega
    simp only [h, h', hs, and_self, if_true, if_false, bind_ok]
    by_cases h2 : i + len < 0
    · simp [h2]; omega
    · have e : (i + len) % 18446744073709551616 = i + len := by omega
      simp [h2, e]; omega

/-- a slice bound that is present fits a machine word -/
def boundOk : Option Int → Prop
  | none => True
  | some a => inI64 a

/-- core.rs `pythonic_slice` = Python's `slice.indices`, never fails -/
theorem slice_is_python (len : Int) (lo hi : Option Int) (hl : lenOk len)
    (hlo : boundOk lo) (hhi : boundOk hi) :
    pythonicSlice len lo hi = .ok (pySlice len lo hi) := by
  unfold pythonicSlice pySlice
  cases lo <;> cases hi <;> simp only [boundOk] at hlo hhi <;>
    simp [clamped_is_python, hl, hlo, hhi]

/-- the object-level bound conversion: Impl `obj_to_isize_slice_index` = Spec `bound` -/
theorem bound_conv (b : Option Val) : objToIsizeSliceIndex b = bound b := by
  cases b with
  | none => rfl
  | some x =>
    cases x with
    | int v => by_cases h : inI64 v <;> simp [objToIsizeSliceIndex, bound, isNum, toIsize, h]
    | _ => simp [objToIsizeSliceIndex, bound, isNum, toIsize]

theorem bound_ok {b : Option Val} {r : Option Int} (h : bound b = .ok r) : boundOk r := by
  cases b with
  | none => simp [bound] at h; subst h; trivial
  | some x =>
    cases x <;> simp [bound] at h
    split at h <;> simp at h
    subst h; assumption

/-- core.rs `pythonic_slice_obj`: raises exactly when a bound is not a machine-word integer,
otherwise Python's range -/
theorem slice_obj_is_python (len : Int) (lo hi : Option Val) (hl : lenOk len) :
    pythonicSliceObj len lo hi =
      (bound lo).bind fun l => (bound hi).bind fun h => .ok (pySlice len l h) := by
  unfold pythonicSliceObj
  rw [bound_conv, bound_conv]
  cases h1 : bound lo <;> simp
  cases h2 : bound hi <;> simp
  exact slice_is_python len _ _ hl (bound_ok h1) (bound_ok h2)

theorem bound_ne_panic (b : Option Val) : bound b ≠ .panic := by
  cases b with
  | none => simp [bound]
  | some x => cases x <;> simp [bound]; split <;> simp

theorem slice_never_panics (len : Int) (lo hi : Option Val) (hl : lenOk len) :
    pythonicSliceObj len lo hi ≠ .panic := by
  rw [slice_obj_is_python len lo hi hl]
  cases h1 : bound lo with
  | ok l =>
    cases h2 : bound hi with
    | ok h => simp
    | throw => simp
    | panic => exact absurd h2 (bound_ne_panic hi)
  | throw => simp
  | panic => exact absurd h1 (bound_ne_panic lo)

/-! ## 4. list level: the element returned is `xs[pyIndex]`, the slice returned is
`(xs.drop l).take (h - l)`; Rust's slice accesses never go out of bounds -/

theorem ofOpt_ne_panic {α} (o : Option α) : ofOpt o ≠ .panic := by cases o <;> simp [ofOpt]

/-- `xs[k]` with `k` in bounds is the list element -/
theorem elemAt_eq {α} (xs : List α) (k : Int) (h0 : 0 ≤ k) (h1 : k < xs.length) :
    elemAt xs k = ofOpt xs[k.toNat]? := by
  have hk : k.toNat < xs.length := by omega
  have : ¬ k < 0 := by omega
  simp [elemAt, this, List.getElem?_eq_getElem hk, ofOpt]

/-- `xs[l..h]` with `0 ≤ l ≤ h ≤ len` is drop/take -/
theorem subRange_eq {α} (xs : List α) (l h : Int) (h0 : 0 ≤ l) (h1 : l ≤ h) (h2 : h ≤ xs.length) :
    subRange xs l h = .ok ((xs.drop l.toNat).take (h - l).toNat) := by
  simp [subRange, h0, h1, h2]

/-- the one-element range `xs[k..k+1]` -/
theorem subRange_single {α} (xs : List α) (k : Int) (h0 : 0 ≤ k) (h1 : k < xs.length) :
    subRange xs k (k + 1) = (ofOpt xs[k.toNat]?).map fun x => [x] := by
  have hk : k.toNat < xs.length := by omega
  have e : (k + 1 - k).toNat = 1 := by omega
  have t : (xs.drop k.toNat).take 1 = [xs[k.toNat]] := by
    simp [List.take_one, List.head?_drop, List.getElem?_eq_getElem hk]
  rw [subRange_eq xs k (k + 1) h0 (by omega) (by omega), e, t, List.getElem?_eq_getElem hk]
  simp [ofOpt]

/-- the generic read: normalise the index object, then access -/
theorem pick_eq {α} (xs : List α) (i : Val) (hl : lenOk xs.length) :
    (pythonicIndex xs.length i).bind (fun k => elemAt xs k) = (match i with
      | .int n => ofOpt (elemOf xs n)
      | _ => .throw) := by
  rw [index_obj_is_python _ i hl]
  cases i <;> simp
  rename_i n
  unfold elemOf
  cases h : pyIndex (xs.length : Int) n with
  | none => simp [ofOpt]
  | some k =>
    have := pyIndex_range h
    simp [elemAt_eq xs k this.1 this.2]

/-- the generic slice: convert the bounds, clamp, cut -/
theorem cut_eq {α β} (xs : List α) (lo hi : Option Val) (f : List α → β) (hl : lenOk xs.length) :
    ((pythonicSliceObj xs.length lo hi).bind fun p => (subRange xs p.1 p.2).map f) =
      (bound lo).bind fun l => (bound hi).bind fun h => .ok (f (sliceOf xs l h)) := by
  rw [slice_obj_is_python _ lo hi hl]
  cases bound lo <;> simp
  cases bound hi <;> simp
  rename_i l h
  have hb := pySlice_bounds xs.length l h hl.1
  rw [subRange_eq xs _ _ hb.1 hb.2.1 hb.2.2]
  simp [sliceOf]

/-- a slice has exactly `h - l` elements … -/
theorem length_sliceOf {α} (xs : List α) (lo hi : Option Int) :
    ((sliceOf xs lo hi).length : Int) = (pySlice xs.length lo hi).2 - (pySlice xs.length lo hi).1 := by
  have hb := pySlice_bounds xs.length lo hi (by omega)
  simp only [sliceOf, List.length_take, List.length_drop]
  omega

/-- … and its `j`-th element is element `l + j` of the sequence -/
theorem sliceOf_getElem {α} (xs : List α) (lo hi : Option Int) (j : Nat)
    (hj : (j : Int) < (pySlice xs.length lo hi).2 - (pySlice xs.length lo hi).1) :
    (sliceOf xs lo hi)[j]? = xs[(pySlice xs.length lo hi).1.toNat + j]? := by
  have hb := pySlice_bounds xs.length lo hi (by omega)
  simp only [sliceOf, List.getElem?_take, List.getElem?_drop]
  have : j < ((pySlice (↑xs.length) lo hi).2 - (pySlice (↑xs.length) lo hi).1).toNat := by omega
  simp [this]

/-- `xs[:]` is the whole sequence -/
theorem sliceOf_all {α} (xs : List α) : sliceOf xs none none = xs := by
  simp [sliceOf, pySlice]

/-! ## 5. every sequence kind: `Impl.index = Spec.index`, `Impl.slice = Spec.slice` -/

/-- the length invariant Rust guarantees for the top-level sequence (`Vec::len() ≤ isize::MAX`);
for a `Cycle` also its own invariants (non-empty, position inside) -/
def seqOk : Val → Prop
  | .str bs => lenOk bs.length
  | .bytes bs => lenOk bs.length
  | .list xs => lenOk xs.length
  | .vec xs => lenOk xs.length
  | .stream xs => lenOk xs.length
  | .cyc xs pos => lenOk xs.length ∧ xs.length ≠ 0 ∧ pos < xs.length
  | _ => True

theorem streamWalk_eq (xs : List Val) (n : Int) (hn : 0 ≤ n) :
    streamWalk xs n = ofOpt xs[n.toNat]? := by
  induction xs generalizing n with
  | nil => simp [streamWalk, ofOpt]
  | cons e rest ih =>
    unfold streamWalk
    by_cases h0 : n = 0
    · subst h0; simp [ofOpt]
    · have : n.toNat = (n - 1).toNat + 1 := by omega
      simp only [h0, if_false]
      rw [ih (n - 1) (by omega), this, List.getElem?_cons_succ]

/-- the default `Stream::pythonic_index_isize` returns the element a list of the same elements
would (`stream_index_is_list_index`, isize level) -/
theorem streamIndex_eq (xs : List Val) (n : Int) (hl : lenOk xs.length) (hn : inI64 n) :
    streamIndexIsize xs n = ofOpt (elemOf xs n) := by
  unfold streamIndexIsize elemOf
  unfold lenOk at hl; unfold inI64 at hn
  by_cases h : n ≥ 0
  · simp only [h, if_true]
    rw [streamWalk_eq xs n h]
    unfold pyIndex
    by_cases h2 : n < xs.length
    · have : 0 ≤ n ∧ n < xs.length := by omega
      simp [this]
    · have h3 : ¬ (0 ≤ n ∧ n < (xs.length : Int)) := by omega
      have h4 : ¬ (-(xs.length : Int) ≤ n ∧ n < 0) := by omega
      have : xs.length ≤ n.toNat := by omega
      simp [h3, h4, List.getElem?_eq_none this]
  · simp only [h, if_false]
    unfold addIsize asUsize inI64 pyIndex
    have hs : -9223372036854775808 ≤ n + xs.length ∧ n + xs.length ≤ 9223372036854775807 := by omega
    have h3 : ¬ (0 ≤ n ∧ n < (xs.length : Int)) := by omega
    simp only [hs, and_self, if_true, bind_ok, h3, if_false]
    by_cases h5 : -(xs.length : Int) ≤ n
    · have e : (n + xs.length) % 18446744073709551616 = n + xs.length := by omega
      have h6 : n + (xs.length : Int) < xs.length := by omega
      have h7 : -(xs.length : Int) ≤ n ∧ n < 0 := by omega
      simp only [e, h6, if_true, h7, and_self]
      rw [elemAt_eq xs _ (by omega) h6]
      congr 2; omega
    · have : ¬ ((n + xs.length) % 18446744073709551616 < (xs.length : Int)) := by omega
      have h7 : ¬ (-(xs.length : Int) ≤ n ∧ n < 0) := by omega
      simp [this, h7, ofOpt]

theorem ofOpt_getElem_map {α β} (xs : List α) (f : α → β) (k : Nat) :
    ofOpt (xs.map f)[k]? = (ofOpt xs[k]?).map f := by
  rw [List.getElem?_map]; cases xs[k]? <;> simp [ofOpt]

theorem elemOf_map {α β} (xs : List α) (f : α → β) (n : Int) :
    elemOf (xs.map f) n = (elemOf xs n).map f := by
  unfold elemOf
  simp only [List.length_map]
  cases pyIndex (xs.length : Int) n <;> simp

theorem ofOpt_map {α β} (o : Option α) (f : α → β) : ofOpt (o.map f) = (ofOpt o).map f := by
  cases o <;> simp [ofOpt]

theorem map_bind {α β γ} (x : Out α) (g : α → Out β) (f : β → γ) :
    (x.bind g).map f = x.bind fun k => (g k).map f := by cases x <;> rfl

/-- reading through an element conversion `f` (bytes → ints, string bytes → one-byte items) -/
theorem pick_map {α} (xs : List α) (f : α → Val) (i : Val) (hl : lenOk xs.length) :
    (pythonicIndex xs.length i).bind (fun k => (elemAt xs k).map f) = (match i with
      | .int n => ofOpt (elemOf (xs.map f) n)
      | _ => .throw) := by
  rw [← map_bind, pick_eq xs i hl]
  cases i <;> simp [elemOf_map, ofOpt_map]

/-- `weird_string_as_bytes_index` at a valid position is the one-byte item -/
theorem weird_eq (bs : List Nat) (k : Int) (h0 : 0 ≤ k) (h1 : k < bs.length) :
    weirdStringAsBytesIndex bs k = (elemAt bs k).map byteItem := by
  unfold weirdStringAsBytesIndex
  rw [subRange_single bs k h0 h1, elemAt_eq bs k h0 h1]
  cases bs[k.toNat]? <;> simp [ofOpt, byteItem]

theorem pick_weird (bs : List Nat) (i : Val) (hl : lenOk bs.length) :
    (pythonicIndex bs.length i).bind (fun k => weirdStringAsBytesIndex bs k) =
    (pythonicIndex bs.length i).bind (fun k => (elemAt bs k).map byteItem) := by
  cases h : pythonicIndex (bs.length : Int) i <;> simp
  have := index_in_bounds _ i _ hl h
  exact weird_eq bs _ this.1 this.2

/-- **index_refines** — on every finite sequence kind, for every index object, `s[i]` of the code
is `s[i]` of the Spec: element `pyIndex len i`, an index error for every other integer however
large, an error for every non-integer; never a panic. -/
theorem index_refines (s i : Val) (hs : seqOk s) (hfin : isFinite s = true) :
    Index.index s i = PyIndex.index s i := by
  cases s with
  | list xs =>
    simp only [Index.index, PyIndex.index, seqOk] at *
    rw [pick_eq xs i hs]; cases i <;> simp [asInt, items]
  | vec xs =>
    simp only [Index.index, PyIndex.index, seqOk] at *
    rw [pick_eq xs i hs]; cases i <;> simp [asInt, items]
  | bytes bs =>
    simp only [Index.index, PyIndex.index, seqOk] at *
    rw [pick_map bs _ i hs]; cases i <;> simp [asInt, items]
  | str bs =>
    simp only [Index.index, PyIndex.index, seqOk] at *
    rw [pick_weird bs i hs, pick_map bs _ i hs]; cases i <;> simp [asInt, items]
  | stream xs =>
    simp only [Index.index, PyIndex.index, seqOk] at *
    cases i with
    | int n =>
      simp only [isNum, toIsize, if_true, asInt, items]
      by_cases hn : inI64 n
      · simp only [hn, if_true]; exact streamIndex_eq xs n hs hn
      · have : pyIndex xs.length n = none := by
          rw [pyIndex_eq_none_iff _ n hs.1]; unfold inI64 at hn; unfold lenOk at hs; omega
        simp [hn, elemOf, this, ofOpt]
    | num t => simp [isNum, toIsize, asInt]
    | _ => simp [isNum, asInt]
  | _ => simp [isFinite, items] at hfin

theorem take_drop_clamp {α} (xs : List α) (A B : Nat) :
    (xs.drop (min A xs.length)).take (max (min B xs.length) (min A xs.length) - min A xs.length)
      = (xs.drop A).take (B - A) := by
  apply List.ext_getElem?
  intro j
  simp only [List.getElem?_take, List.getElem?_drop]
  split <;> split
  · congr 1; omega
  · omega
  · exact (List.getElem?_eq_none (by omega)).symm
  · rfl

/-- with two non-negative bounds a slice is plain drop/take (no clamping visible) -/
theorem sliceOf_nonneg {α} (xs : List α) (a b : Int) (ha : 0 ≤ a) (hb : 0 ≤ b) :
    sliceOf xs (some a) (some b) = (xs.drop a.toNat).take (b - a).toNat := by
  have ha' : ¬ a < 0 := by omega
  have hb' : ¬ b < 0 := by omega
  simp only [sliceOf, pySlice, pyClamp, ha', hb', if_false]
  have e1 : (min a (xs.length : Int)).toNat = min a.toNat xs.length := by omega
  have e2 : (max (min b (xs.length : Int)) (min a (xs.length : Int)) - min a (xs.length : Int)).toNat
      = max (min b.toNat xs.length) (min a.toNat xs.length) - min a.toNat xs.length := by omega
  have e3 : (b - a).toNat = b.toNat - a.toNat := by omega
  rw [e1, e2, e3, take_drop_clamp]

/-- a suffix from a non-negative position is plain drop -/
theorem sliceOf_suffix {α} (xs : List α) (a : Int) (ha : 0 ≤ a) :
    sliceOf xs (some a) none = xs.drop a.toNat := by
  have ha' : ¬ a < 0 := by omega
  simp only [sliceOf, pySlice, pyClamp, ha', if_false]
  apply List.ext_getElem?
  intro j
  simp only [List.getElem?_take, List.getElem?_drop]
  split
  · congr 1; omega
  · exact (List.getElem?_eq_none (by omega)).symm

/-- the default `Stream::pythonic_slice` selects the elements Python selects; the result is a
stream exactly for a suffix from a non-negative position -/
theorem streamSlice_eq (xs : List Val) (lo hi : Option Int) (hl : lenOk xs.length)
    (hlo : boundOk lo) (hhi : boundOk hi) :
    streamSlice xs lo hi =
      (if hi.isNone ∧ 0 ≤ lo.getD 0 then .ok (.stream (sliceOf xs lo hi))
       else .ok (.list (sliceOf xs lo hi))) := by
  have forced : ∀ a : Int, inI64 a →
      ((pythonicSlice xs.length (some a) hi).bind fun p => (subRange xs p.1 p.2).map Val.list)
        = .ok (.list (sliceOf xs (some a) hi)) := by
    intro a ha
    rw [slice_is_python _ (some a) hi hl (show boundOk (some a) from ha) hhi]
    have hb := pySlice_bounds xs.length (some a) hi hl.1
    simp [subRange_eq xs _ _ hb.1 hb.2.1 hb.2.2, sliceOf]
  have lo0 : sliceOf xs none hi = sliceOf xs (some 0) hi := by
    have : min (0 : Int) (xs.length : Int) = 0 := by omega
    simp [sliceOf, pySlice, pyClamp, this]
  unfold streamSlice
  cases hi with
  | none =>
    cases lo with
    | none => simp [lo0, sliceOf_suffix]
    | some a =>
      by_cases h : 0 ≤ a
      · simp [h, sliceOf_suffix xs a h]
      · simp [h, forced a hlo]
  | some b =>
    cases lo with
    | none =>
      by_cases h : 0 ≤ b
      · simp [h, lo0, sliceOf_nonneg xs 0 b (by omega) h]
      · simp [h, lo0, forced 0 (by decide)]
    | some a =>
      by_cases h : 0 ≤ a ∧ 0 ≤ b
      · simp [h, sliceOf_nonneg xs a b h.1 h.2]
      · have h' : ¬ (a ≥ 0 ∧ b ≥ 0) := by omega
        simp [h', forced a hlo]

/-- **slice_refines** — on every finite sequence kind and for every combination of present / absent
bounds, `s[a:b]` of the code is Python's slice re-wrapped in the sequence's kind; it raises only for
a bound that is not a machine-word integer and never panics. -/
theorem slice_refines (s : Val) (lo hi : Option Val) (hs : seqOk s) (hfin : isFinite s = true) :
    Index.slice s lo hi = PyIndex.slice s lo hi := by
  cases s with
  | list xs => simp only [Index.slice, PyIndex.slice, seqOk] at *; rw [cut_eq xs lo hi _ hs]
  | vec xs => simp only [Index.slice, PyIndex.slice, seqOk] at *; rw [cut_eq xs lo hi _ hs]
  | bytes bs => simp only [Index.slice, PyIndex.slice, seqOk] at *; rw [cut_eq bs lo hi _ hs]
  | str bs => simp only [Index.slice, PyIndex.slice, seqOk] at *; rw [cut_eq bs lo hi _ hs]
  | stream xs =>
    simp only [Index.slice, PyIndex.slice, seqOk] at *
    rw [bound_conv, bound_conv]
    cases h1 : bound lo <;> simp
    cases h2 : bound hi <;> simp
    rw [streamSlice_eq xs _ _ hs (bound_ok h1) (bound_ok h2)]
    simp
  | _ => simp [isFinite, items] at hfin

/-- the elements of a sequence value (what a `for` loop would see) -/
def elems : Val → List Val
  | .list xs => xs
  | .stream xs => xs
  | _ => []

/-- `stream_index_is_list_index`: a finite stream indexes like the list of its elements -/
theorem stream_index_is_list_index (xs : List Val) (i : Val) (hl : lenOk xs.length) :
    Index.index (.stream xs) i = Index.index (.list xs) i := by
  rw [index_refines (.stream xs) i hl rfl, index_refines (.list xs) i hl rfl]
  cases i <;> simp [PyIndex.index, asInt, items]

/-- `stream_slice_is_list_slice`: a finite stream slices to the same elements as the list of its
elements (as a stream or as a list) -/
theorem stream_slice_is_list_slice (xs : List Val) (lo hi : Option Val) (hl : lenOk xs.length) :
    (Index.slice (.stream xs) lo hi).map elems = (Index.slice (.list xs) lo hi).map elems := by
  rw [slice_refines (.stream xs) lo hi hl rfl, slice_refines (.list xs) lo hi hl rfl]
  simp only [PyIndex.slice]
  cases bound lo <;> simp
  cases bound hi <;> simp
  split <;> simp [elems]

/-- no indexing or slicing operation on a finite sequence panics -/
theorem specIndex_ne_panic (s i : Val) (hfin : isFinite s = true) : PyIndex.index s i ≠ .panic := by
  unfold PyIndex.index
  cases s <;> simp [isFinite, items] at hfin <;> cases i <;> simp [asInt, items] <;>
    exact ofOpt_ne_panic _

theorem index_no_panic (s i : Val) (hs : seqOk s) (hfin : isFinite s = true) :
    Index.index s i ≠ .panic := by
  rw [index_refines s i hs hfin]; exact specIndex_ne_panic s i hfin

theorem slice_no_panic (s : Val) (lo hi : Option Val) (hs : seqOk s) (hfin : isFinite s = true) :
    Index.slice s lo hi ≠ .panic := by
  rw [slice_refines s lo hi hs hfin]
  unfold PyIndex.slice
  cases h1 : bound lo with
  | panic => exact absurd h1 (bound_ne_panic lo)
  | throw => simp
  | ok l =>
    cases h2 : bound hi with
    | panic => exact absurd h2 (bound_ne_panic hi)
    | throw => simp
    | ok h =>
      cases s <;> simp [isFinite, items] at hfin <;> simp
      split <;> simp

end Noulith.C10
