/-
C11, part 6 — the successor step lemma of `Permutations` (`perm_step_statement`):
the scan of `Permutations::next` finds the last ascent and the last larger entry behind it; swapping
them and reversing the suffix decreases the factorial-number-system closed form of
`Permutations::len` by exactly one.
-/
import NoulithModel.Theorems.C11Perm

namespace Noulith.C11
open Noulith Noulith.Stream Noulith.StreamSpec

namespace PermT

/-! ### the closed form as a recursion over the list -/

/-- number of entries of `l` larger than `x` -/
def above (x : Nat) (l : List Nat) : Nat := (l.filter fun y => decide (y > x)).length

/-- rank from the end in the factorial number system -/
def rk : List Nat → Nat
  | [] => 0
  | x :: xs => above x xs * fact xs.length + rk xs

theorem filter_range_getD (xs : List Nat) (p : Nat → Bool) :
    ((List.range xs.length).filter fun j => p (xs.getD j 0)).length = (xs.filter p).length := by
  induction xs with
  | nil => rfl
  | cons x xs ih =>
    simp only [List.length_cons, List.range_succ_eq_map, List.filter_cons, List.filter_map,
      List.getD_cons_zero, Function.comp_def, List.getD_cons_succ]
    split <;> simpa [List.getD_eq_getElem?_getD] using ih

theorem laterLarger_cons_lt (x : Nat) (xs : List Nat) (i : Nat) (hi : i < xs.length) :
    Perm.laterLarger (x :: xs) i = Perm.laterLarger xs i := by
  unfold Perm.laterLarger
  have h1 : (x :: xs).length - i = 1 + (xs.length - i) := by simp; omega
  have h2 : (x :: xs).length - 1 - i = (xs.length - 1 - i) + 1 := by simp; omega
  rw [h1, h2, ← List.map_add_range', List.filter_map, List.length_map]
  congr 2
  funext j
  simp only [Function.comp, List.getD_cons_succ, Nat.add_comm 1 j]

theorem laterLarger_cons_top (x : Nat) (xs : List Nat) :
    Perm.laterLarger (x :: xs) xs.length = above x xs := by
  unfold Perm.laterLarger above
  have h1 : (x :: xs).length - xs.length = 1 + 0 := by simp
  have h2 : (x :: xs).length - 1 - xs.length = 0 := by simp
  rw [h1, h2, ← List.map_add_range', List.filter_map, List.length_map, ← filter_range_getD xs]
  congr 2
  · funext j
    simp only [Function.comp, List.getD_cons_zero, Nat.add_comm 1 j, List.getD_cons_succ]
  · exact (List.range_eq_range' ).symm

theorem terms_cons (x : Nat) (xs : List Nat) :
    terms (x :: xs) (List.range' 1 xs.length) =
      terms xs (List.range' 1 (xs.length - 1)) + (if xs.length = 0 then 0 else fact xs.length * above x xs) := by
  cases hn : xs.length with
  | zero => simp [terms]
  | succ m =>
    have : List.range' 1 (m + 1) = List.range' 1 m ++ [m + 1] := by
      rw [List.range'_concat]; simp [Nat.add_comm]
    rw [this]
    simp only [terms, List.map_append, List.sum_append, List.map_cons, List.map_nil, List.sum_cons,
      List.sum_nil, Nat.add_zero, Nat.add_sub_cancel]
    have htop := laterLarger_cons_top x xs
    rw [hn] at htop
    rw [htop]
    simp only [Nat.add_one_ne_zero, if_false]
    congr 1
    congr 1
    apply List.map_congr_left
    intro i hi
    have : i < xs.length := by
      rw [List.mem_range'_1] at hi; omega
    rw [laterLarger_cons_lt x xs i this]

/-- the closed form of `Permutations::len` is `1 + rk` -/
theorem lenNat_eq_rk (v : List Nat) : Perm.lenNat v = 1 + rk v := by
  induction v with
  | nil => rfl
  | cons x xs ih =>
    rw [lenNat_eq_terms] at ih ⊢
    simp only [List.length_cons, Nat.add_sub_cancel, rk]
    rw [terms_cons]
    split
    · rename_i h0
      have : xs = [] := List.eq_nil_of_length_eq_zero h0
      subst this
      simp [terms, rk, above]
    · rw [Nat.mul_comm]; omega

/-! ### rank arithmetic -/

theorem above_append (x : Nat) (a b : List Nat) : above x (a ++ b) = above x a + above x b := by
  simp [above, List.filter_append]

theorem above_perm (x : Nat) {l1 l2 : List Nat} (h : l1.Perm l2) : above x l1 = above x l2 :=
  (h.filter _).length_eq

theorem above_all_gt (x : Nat) (l : List Nat) (h : ∀ a ∈ l, a > x) : above x l = l.length := by
  unfold above
  rw [List.filter_eq_self.mpr]
  intro a ha
  simpa using h a ha

theorem above_none_gt (x : Nat) (l : List Nat) (h : ∀ a ∈ l, ¬ a > x) : above x l = 0 := by
  unfold above
  rw [List.length_eq_zero_iff, List.filter_eq_nil_iff]
  intro a ha
  simpa using h a ha

/-- the contribution of a prefix depends on the rest only up to permutation -/
theorem rk_prefix (p : List Nat) {t t' : List Nat} (h : t.Perm t') :
    ∃ c, rk (p ++ t) = c + rk t ∧ rk (p ++ t') = c + rk t' := by
  induction p with
  | nil => exact ⟨0, by simp, by simp⟩
  | cons a p ih =>
    obtain ⟨c, h1, h2⟩ := ih
    refine ⟨(above a p + above a t) * fact (p.length + t.length) + c, ?_, ?_⟩
    · simp only [List.cons_append, rk, above_append, List.length_append, h1]; omega
    · simp only [List.cons_append, rk, above_append, List.length_append, h2, above_perm a h,
        h.length_eq]; omega

theorem rk_desc (l : List Nat) (h : l.Pairwise (· > ·)) : rk l = 0 := by
  induction l with
  | nil => rfl
  | cons x xs ih =>
    rw [List.pairwise_cons] at h
    have : above x xs = 0 := above_none_gt x xs (fun a ha => by have := h.1 a ha; omega)
    simp [rk, this, ih h.2]

theorem rk_asc (l : List Nat) (h : l.Pairwise (· < ·)) : rk l + 1 = fact l.length := by
  induction l with
  | nil => rfl
  | cons x xs ih =>
    rw [List.pairwise_cons] at h
    have : above x xs = xs.length := above_all_gt x xs (fun a ha => h.1 a ha)
    have ih' := ih h.2
    simp only [rk, this, List.length_cons, fact]
    rw [Nat.add_mul, Nat.one_mul]
    omega

/-- the heart of the step lemma: replacing `x :: (d1 ++ y :: d2)` (descending tail, `y` the
smallest entry above `x`) by `y :: reverse (d1 ++ x :: d2)` lowers the rank by one -/
theorem rk_step (p d1 d2 : List Nat) (x y : Nat)
    (hd1 : ∀ a ∈ d1, a > y) (hyx : y > x) (hd2 : ∀ b ∈ d2, b < x)
    (hdesc : (d1 ++ y :: d2).Pairwise (· > ·)) :
    rk (p ++ x :: (d1 ++ y :: d2)) = rk (p ++ y :: (d1 ++ x :: d2).reverse) + 1 := by
  have hperm : (x :: (d1 ++ y :: d2)).Perm (y :: (d1 ++ x :: d2).reverse) := by
    have h1 : (d1 ++ x :: d2).reverse.Perm (d1 ++ x :: d2) := List.reverse_perm _
    have h2 : (d1 ++ x :: d2).Perm (x :: (d1 ++ d2)) := List.perm_middle
    have h3 : (d1 ++ y :: d2).Perm (y :: (d1 ++ d2)) := List.perm_middle
    have h4 : (y :: (d1 ++ x :: d2).reverse).Perm (y :: x :: (d1 ++ d2)) :=
      (h1.trans h2).cons y
    have h5 : (x :: (d1 ++ y :: d2)).Perm (x :: y :: (d1 ++ d2)) := h3.cons x
    exact h5.trans ((List.Perm.swap y x _).trans h4.symm)
  obtain ⟨c, e1, e2⟩ := rk_prefix p hperm
  rw [e1, e2]
  -- the two tails
  rw [List.pairwise_append] at hdesc
  obtain ⟨hp1, hp2, hcross⟩ := hdesc
  rw [List.pairwise_cons] at hp2
  have hdesc' : (d1 ++ x :: d2).Pairwise (· > ·) := by
    rw [List.pairwise_append]
    refine ⟨hp1, ?_, ?_⟩
    · rw [List.pairwise_cons]
      exact ⟨fun b hb => hd2 b hb, hp2.2⟩
    · intro a ha b hb
      rcases List.mem_cons.mp hb with rfl | hb
      · have := hd1 a ha; omega
      · exact hcross a ha b (List.mem_cons_of_mem _ hb)
  have hasc : (d1 ++ x :: d2).reverse.Pairwise (· < ·) := by
    rw [List.pairwise_reverse]
    exact hdesc'
  have hm : (d1 ++ x :: d2).reverse.length = (d1 ++ y :: d2).length := by simp; omega
  have hA : above x (d1 ++ y :: d2) = d1.length + 1 := by
    rw [above_append, above_all_gt x d1 (fun a ha => by have := hd1 a ha; omega)]
    have : above x (y :: d2) = 1 := by
      have h0 : above x d2 = 0 := above_none_gt x d2 (fun b hb => by have := hd2 b hb; omega)
      have : above x (y :: d2) = above x [y] + above x d2 := above_append x [y] d2
      rw [this, h0]
      simp [above, hyx]
    omega
  have hB : above y (d1 ++ x :: d2).reverse = d1.length := by
    rw [above_perm y (List.reverse_perm _), above_append, above_all_gt y d1 hd1]
    have : above y (x :: d2) = 0 :=
      above_none_gt y (x :: d2) (fun b hb => by
        rcases List.mem_cons.mp hb with rfl | hb
        · omega
        · have := hd2 b hb; omega)
    omega
  have hD : rk (d1 ++ y :: d2) = 0 := by
    apply rk_desc
    rw [List.pairwise_append]
    exact ⟨hp1, List.pairwise_cons.mpr hp2, hcross⟩
  have hAsc := rk_asc _ hasc
  simp only [rk, hA, hB, hD, hm] at hAsc ⊢
  rw [Nat.add_mul, Nat.one_mul]
  omega

theorem rk_nonasc (l : List Nat) (h : l.Pairwise (· ≥ ·)) : rk l = 0 := by
  induction l with
  | nil => rfl
  | cons x xs ih =>
    rw [List.pairwise_cons] at h
    have : above x xs = 0 := above_none_gt x xs (fun a ha => by have := h.1 a ha; omega)
    simp [rk, this, ih h.2]

/-! ### what the scan of `Permutations::next` finds -/

/-- loop invariant of `for i in 0..k`: `up` is the last ascent before `k` and the last position
up to `k` holding something larger than the ascent's left entry -/
def ScanInv (v : List Nat) (k : Nat) : Option (Nat × Nat) → Prop
  | none => ∀ i, i < k → ¬ v.getD i 0 < v.getD (i + 1) 0
  | some (inc, linc) =>
    inc < k ∧ v.getD inc 0 < v.getD (inc + 1) 0 ∧
    (∀ i, inc < i → i < k → ¬ v.getD i 0 < v.getD (i + 1) 0) ∧
    inc < linc ∧ linc ≤ k ∧ v.getD linc 0 > v.getD inc 0 ∧
    (∀ j, linc < j → j ≤ k → ¬ v.getD j 0 > v.getD inc 0)

theorem scan_inv (v : List Nat) : ∀ k, ScanInv v k ((List.range k).foldl (Perm.scanStep v) none) := by
  intro k
  induction k with
  | zero => intro i hi; omega
  | succ k ih =>
    rw [List.range_succ, List.foldl_append, List.foldl_cons, List.foldl_nil]
    generalize (List.range k).foldl (Perm.scanStep v) none = S at ih
    unfold Perm.scanStep
    by_cases hasc : v.getD k 0 < v.getD (k + 1) 0
    · simp only [hasc, if_true]
      refine ⟨by omega, hasc, ?_, by omega, by omega, hasc, ?_⟩
      · intro i h1 h2; omega
      · intro j h1 h2; omega
    · simp only [hasc, if_false]
      cases S with
      | none =>
        intro i hi
        by_cases hik : i = k
        · subst hik; exact hasc
        · exact ih i (by omega)
      | some pr =>
        obtain ⟨inc, linc⟩ := pr
        obtain ⟨h1, h2, h3, h4, h5, h6, h7⟩ := ih
        by_cases hgt : v.getD (k + 1) 0 > v.getD inc 0
        · simp only [hgt, if_true]
          refine ⟨by omega, h2, ?_, by omega, by omega, hgt, ?_⟩
          · intro i hi1 hi2
            by_cases hik : i = k
            · subst hik; exact hasc
            · exact h3 i hi1 (by omega)
          · intro j hj1 hj2; omega
        · simp only [hgt, if_false]
          refine ⟨by omega, h2, ?_, h4, by omega, h6, ?_⟩
          · intro i hi1 hi2
            by_cases hik : i = k
            · subst hik; exact hasc
            · exact h3 i hi1 (by omega)
          · intro j hj1 hj2
            by_cases hjk : j = k + 1
            · subst hjk; exact hgt
            · exact h7 j hj1 (by omega)

/-- no adjacent ascent means non-increasing -/
theorem pairwise_of_adjacent (l : List Nat)
    (h : ∀ i, i + 1 < l.length → ¬ l.getD i 0 < l.getD (i + 1) 0) : l.Pairwise (· ≥ ·) := by
  induction l with
  | nil => exact List.Pairwise.nil
  | cons x xs ih =>
    have hxs : xs.Pairwise (· ≥ ·) := by
      apply ih
      intro i hi
      have := h (i + 1) (by simp; omega)
      simpa using this
    rw [List.pairwise_cons]
    refine ⟨?_, hxs⟩
    cases xs with
    | nil => intro a ha; simp at ha
    | cons y ys =>
      have hxy : x ≥ y := by
        have := h 0 (by simp)
        simp at this
        omega
      rw [List.pairwise_cons] at hxs
      intro a ha
      rcases List.mem_cons.mp ha with rfl | ha
      · exact hxy
      · have := hxs.1 a ha; omega

/-- at the last permutation (the scan finds no ascent) the closed form is 1 -/
theorem lenNat_of_scan_none (v : List Nat) (h : Perm.scan v = none) : Perm.lenNat v = 1 := by
  have inv := scan_inv v (v.length - 1)
  unfold Perm.scan at h
  rw [h] at inv
  have hp : v.Pairwise (· ≥ ·) := by
    apply pairwise_of_adjacent
    intro i hi
    exact inv i (by omega)
  rw [lenNat_eq_rk, rk_nonasc v hp]

theorem getD_append_len (p : List Nat) (x : Nat) (r : List Nat) : (p ++ x :: r).getD p.length 0 = x := by
  simp [List.getD_eq_getElem?_getD]

theorem getD_append_len_add (p : List Nat) (x : Nat) (d1 : List Nat) (y : Nat) (d2 : List Nat) :
    (p ++ x :: (d1 ++ y :: d2)).getD (p.length + 1 + d1.length) 0 = y := by
  have h : p.length + 1 + d1.length = (p ++ x :: d1).length := by simp; omega
  have e : p ++ x :: (d1 ++ y :: d2) = (p ++ x :: d1) ++ y :: d2 := by simp
  rw [h, e]
  exact getD_append_len _ _ _

theorem swap_decomp (p d1 d2 : List Nat) (x y : Nat) :
    Perm.swap (p ++ x :: (d1 ++ y :: d2)) p.length (p.length + 1 + d1.length) =
      p ++ y :: (d1 ++ x :: d2) := by
  unfold Perm.swap
  rw [getD_append_len, getD_append_len_add]
  have h1 : (p ++ x :: (d1 ++ y :: d2)).set p.length y = p ++ y :: (d1 ++ y :: d2) := by
    simp
  rw [h1]
  have e : p ++ y :: (d1 ++ y :: d2) = (p ++ y :: d1) ++ y :: d2 := by simp
  have h : p.length + 1 + d1.length = (p ++ y :: d1).length := by simp; omega
  rw [e, h]
  simp

theorem advance_decomp (p d1 d2 : List Nat) (x y : Nat)
    (hs : Perm.scan (p ++ x :: (d1 ++ y :: d2)) = some (p.length, p.length + 1 + d1.length)) :
    Perm.advance (p ++ x :: (d1 ++ y :: d2)) = some (p ++ y :: (d1 ++ x :: d2).reverse) := by
  unfold Perm.advance
  rw [hs]
  simp only [swap_decomp]
  have e : p ++ y :: (d1 ++ x :: d2) = (p ++ [y]) ++ (d1 ++ x :: d2) := by simp
  have h : p.length + 1 = (p ++ [y]).length := by simp
  rw [e, h, List.take_left, List.drop_left]
  simp

theorem mem_drop_getD {l : List Nat} {k b : Nat} (h : b ∈ l.drop k) :
    ∃ t, k ≤ t ∧ t < l.length ∧ l.getD t 0 = b := by
  rw [List.mem_iff_getElem] at h
  obtain ⟨i, hi, rfl⟩ := h
  rw [List.length_drop] at hi
  refine ⟨k + i, by omega, by omega, ?_⟩
  rw [List.getElem_drop]
  simp [List.getD_eq_getElem?_getD, List.getElem?_eq_getElem (show k + i < l.length by omega)]

/-- **the successor step lemma**: for an index vector without repetition, the successor computed by
`Permutations::next` has the closed form smaller by exactly one; at the last permutation it is 1 -/
theorem stepOk (v : List Nat) (hnd : v.Nodup) : StepOk v := by
  constructor
  · intro v' hv'
    -- the scan found an ascent
    cases hs : Perm.scan v with
    | none => simp [Perm.advance, hs] at hv'
    | some pr =>
      obtain ⟨inc, linc⟩ := pr
      have inv := scan_inv v (v.length - 1)
      have hs' := hs
      unfold Perm.scan at hs'
      rw [hs'] at inv
      obtain ⟨h1, h2, h3, h4, h5, h6, h7⟩ := inv
      have hinc : inc < v.length := by omega
      have hlinc : linc < v.length := by omega
      -- decompose v = p ++ x :: rest, rest = d1 ++ y :: d2
      have e1 : v = v.take inc ++ v[inc] :: v.drop (inc + 1) := by
        rw [← List.drop_eq_getElem_cons hinc, List.take_append_drop]
      have hj : linc - inc - 1 < (v.drop (inc + 1)).length := by rw [List.length_drop]; omega
      have e2 : v.drop (inc + 1) =
          (v.drop (inc + 1)).take (linc - inc - 1) ++
            (v.drop (inc + 1))[linc - inc - 1] :: (v.drop (inc + 1)).drop (linc - inc - 1 + 1) := by
        rw [← List.drop_eq_getElem_cons hj, List.take_append_drop]
      obtain ⟨rest, hrest⟩ : ∃ rest, v.drop (inc + 1) = rest := ⟨_, rfl⟩
      simp only [hrest] at e1 e2 hj
      obtain ⟨p, hp⟩ : ∃ p, v.take inc = p := ⟨_, rfl⟩
      obtain ⟨x, hx⟩ : ∃ x, v[inc] = x := ⟨_, rfl⟩
      obtain ⟨d1, hd1⟩ : ∃ d1, rest.take (linc - inc - 1) = d1 := ⟨_, rfl⟩
      obtain ⟨y, hy⟩ : ∃ y, rest[linc - inc - 1] = y := ⟨_, rfl⟩
      obtain ⟨d2, hd2⟩ : ∃ d2, rest.drop (linc - inc - 1 + 1) = d2 := ⟨_, rfl⟩
      rw [hp, hx] at e1
      rw [hd1, hy, hd2] at e2
      have hpl : p.length = inc := by rw [← hp, List.length_take]; omega
      have hd1l : d1.length = linc - inc - 1 := by rw [← hd1, List.length_take]; omega
      have hxg : v.getD inc 0 = x := by
        rw [← hx]; simp [List.getD_eq_getElem?_getD, List.getElem?_eq_getElem hinc]
      have hrestg : ∀ t, rest.getD t 0 = v.getD (inc + 1 + t) 0 := by
        intro t
        rw [← hrest]
        simp [List.getD_eq_getElem?_getD, List.getElem?_drop]
      have hyg : v.getD linc 0 = y := by
        rw [← hy]
        have := hrestg (linc - inc - 1)
        rw [show inc + 1 + (linc - inc - 1) = linc by omega] at this
        rw [← this]
        simp [List.getD_eq_getElem?_getD, List.getElem?_eq_getElem hj]
      -- the tail is strictly descending
      have hrl : rest.length = v.length - (inc + 1) := by rw [← hrest, List.length_drop]
      have hge : rest.Pairwise (· ≥ ·) := by
        apply pairwise_of_adjacent
        intro t ht
        rw [hrestg t, hrestg (t + 1)]
        have := h3 (inc + 1 + t) (by omega) (by omega)
        rw [show inc + 1 + t + 1 = inc + 1 + (t + 1) by omega] at this
        exact this
      have hndrest : rest.Nodup := by
        rw [← hrest]; exact hnd.sublist (List.drop_sublist _ _)
      have hdesc : rest.Pairwise (· > ·) := by
        have := hge.and hndrest
        exact this.imp (fun h => by omega)
      -- x does not occur in the tail
      have hxrest : x ∉ rest := by
        have hnd' := hnd
        rw [e1, List.nodup_append] at hnd'
        have := hnd'.2.1
        rw [List.nodup_cons] at this
        exact this.1
      rw [e2] at hdesc hxrest
      have hdesc2 := hdesc
      rw [List.pairwise_append] at hdesc2
      have hA : ∀ a ∈ d1, a > y := fun a ha => hdesc2.2.2 a ha y (List.mem_cons_self ..)
      have hB : y > x := by rw [← hyg, ← hxg]; exact h6
      have hC : ∀ b ∈ d2, b < x := by
        intro b hb
        have hbr : b ∈ rest.drop (linc - inc - 1 + 1) := by rw [hd2]; exact hb
        obtain ⟨t, ht1, ht2, ht3⟩ := mem_drop_getD hbr
        have hnot := h7 (inc + 1 + t) (by omega) (by omega)
        rw [← hrestg t, ht3, hxg] at hnot
        have hne : b ≠ x := by
          intro hbx
          apply hxrest
          rw [← hbx]
          exact List.mem_append_right _ (List.mem_cons_of_mem _ hb)
        omega
      -- assemble
      rw [e2] at e1
      have hscan : Perm.scan (p ++ x :: (d1 ++ y :: d2)) = some (p.length, p.length + 1 + d1.length) := by
        rw [← e1, hs, hpl, hd1l]
        congr 2
        omega
      have hadv := advance_decomp p d1 d2 x y hscan
      rw [← e1, hv'] at hadv
      simp only [Option.some.injEq] at hadv
      subst hadv
      refine ⟨?_, ?_, ?_⟩
      · rw [lenNat_eq_rk, lenNat_eq_rk]
        conv => lhs; rw [e1]
        rw [rk_step p d1 d2 x y hA hB hC hdesc]
        omega
      · have hperm : (p ++ y :: (d1 ++ x :: d2).reverse).Perm v := by
          conv => rhs; rw [e1]
          apply List.Perm.append_left
          have h1 : (d1 ++ x :: d2).reverse.Perm (d1 ++ x :: d2) := List.reverse_perm _
          have h2 : (d1 ++ x :: d2).Perm (x :: (d1 ++ d2)) := List.perm_middle
          have h3 : (d1 ++ y :: d2).Perm (y :: (d1 ++ d2)) := List.perm_middle
          exact ((h1.trans h2).cons y).trans ((List.Perm.swap x y _).trans (h3.cons x).symm)
        exact hperm.nodup_iff.mpr hnd
      · conv => rhs; rw [e1]
        simp
        omega
  · intro h
    have hs : Perm.scan v = none := by
      unfold Perm.advance at h
      cases hs : Perm.scan v with
      | none => rfl
      | some pr => simp [hs] at h
    exact lenNat_of_scan_none v hs

end PermT

/-- `perm_step_statement` holds -/
theorem perm_step : perm_step_statement := fun v hnd => PermT.stepOk v hnd

/-- **len_is_count for `Permutations`**: in every reachable state (base of length ≤ 20, any drop
position) `permutations(xs)` is coherent with the list it unfolds to, whose length is the closed
form `Permutations::len` computes -/
theorem perm_coherent {α : Type} (p : Idx α) (hwf : PermT.WF p) (hn : ∀ v, p.idx = some v → v.length ≤ 20) :
    ∃ l, Coherent Perm.ops p l ∧ l.length = PermT.cnt p :=
  perm_coherent_of_step perm_step p hwf hn

theorem perm_len_is_count : perm_len_is_count_statement := perm_len_is_count_of_step perm_step

/-- permutations are hereditarily finite (what `lazy_map` / `lazy_filter` / `lazy_zip` over
`permutations(xs)` need) -/
theorem perm_unfoldsB {α : Type} (p : Idx α) (hwf : PermT.WF p) : ∃ l, UnfoldsB Perm.ops p l := by
  obtain ⟨l, hu, _⟩ := PermT.unfolds_of_step perm_step p hwf
  refine ⟨l, unfoldsB_of_family (o := Perm.ops) PermT.WF
    (fun s v s' hw h => PermT.wf_next perm_step s v s' hw h) ?_ _ _ hwf hu⟩
  intro s l' hw hl
  obtain ⟨l'', hu', hlen⟩ := PermT.unfolds_of_step perm_step s hw
  have := Unfolds.functional hl hu'
  subst this
  refine ⟨PermT.cnt s, ?_, by omega⟩
  obtain ⟨base, idx⟩ := s
  cases idx <;> rfl

/-- example: `lazy_map(permutations(xs), f)` is coherent with the mapped list of permutations, in
every reachable state -/
theorem map_perm_coherent {α γ : Type} (f : List α → γ) (p : Idx α) (hwf : PermT.WF p) :
    ∃ l : List (List α), Coherent (mapOps Perm.ops f) p (l.map f) := by
  obtain ⟨l, h⟩ := perm_unfoldsB p hwf
  exact ⟨l, map_coherent perm_peekNext f h⟩

/-- **Permutations, every derived position**: `s drop k` has `len = len s - k` -/
theorem perm_drop_len {α : Type} (p : Idx α) (hwf : PermT.WF p)
    (hn : ∀ v, p.idx = some v → v.length ≤ 20) (l : List (List α)) (h : Coherent Perm.ops p l) (k : Nat) :
    Coherent Perm.ops (dropN Perm.next k p) (l.drop k) ∧
      Perm.ops.len (dropN Perm.next k p) = .ok (some (l.length - k)) := by
  refine coherent_drop_of_family (o := Perm.ops)
    (fun p => PermT.WF p ∧ ∀ v, p.idx = some v → v.length ≤ 20) ?_ ?_ ⟨hwf, hn⟩ h k
  · intro s v s' hs hnx
    refine ⟨PermT.wf_next perm_step s v s' hs.1 hnx, ?_⟩
    obtain ⟨base, idx⟩ := s
    cases idx with
    | none =>
      have : Perm.next ⟨base, none⟩ = some (v, s') := hnx
      simp [Perm.next] at this
    | some w =>
      have hnx' : Perm.next ⟨base, some w⟩ = some (v, s') := hnx
      simp only [Perm.next, Option.some.injEq, Prod.mk.injEq] at hnx'
      obtain ⟨_, rfl⟩ := hnx'
      intro v' hv'
      simp only at hv'
      rw [((perm_step w (hs.1 w rfl)).1 v' hv').2.2]
      exact hs.2 w rfl
  · intro s hs
    obtain ⟨l', h', _⟩ := perm_coherent s hs.1 hs.2
    exact ⟨l', h'⟩

end Noulith.C11
