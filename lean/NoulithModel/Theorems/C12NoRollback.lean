/-
C12, part 5 — `assign` against the documented (no-rollback) behaviour, for EVERY pattern.

`assign_eq_specNR`: for every environment, pattern (any `or` nodes), declared-type context and value,
`assign` accepts exactly when `specAssignNR` does and leaves exactly the same environment — also
when it refuses — and never panics.  `specNR_transactional_of_orClean` recovers the transactional
reading where it is valid; `no_rollback_divergence` is the single place where the two readings are
shown to differ (the known finding `or-no-rollback`).
-/
import NoulithModel.Theorems.C12
import NoulithModel.Spec.MatchNR

namespace Noulith.C12

def stepNR (r : Env × Bool) (k : Env → Env × Bool) : Env × Bool :=
  match r with
  | (e', true) => k e'
  | r => r

theorem nrOut_step (r : Env × Bool) (k : Env → Env × Bool) :
    nrOut (stepNR r k) = stepItems (nrOut r) (fun e => nrOut (k e)) := by
  obtain ⟨e, b⟩ := r
  cases b <;> rfl

theorem specAssignItemsNR_nil (e : Env) (rt : Option Ty) (vs : List Val) :
    specAssignItemsNR e [] rt vs = (e, true) := by cases vs <;> rfl
theorem specAssignItemsNR_cons_nil (e : Env) (p : Pat) (ps : List Pat) (rt : Option Ty) :
    specAssignItemsNR e (p :: ps) rt [] = (e, false) := rfl
theorem specAssignItemsNR_splat (e : Env) (inner : Pat) (ps : List Pat) (rt : Option Ty) (v : Val) (vs : List Val) :
    specAssignItemsNR e (.splat inner :: ps) rt (v :: vs) =
      stepNR (specAssignNR e inner rt v) (fun e' => specAssignItemsNR e' ps rt vs) := by
  show (match specAssignNR e inner rt v with | (e', true) => specAssignItemsNR e' ps rt vs | r => r) = _
  rcases specAssignNR e inner rt v with ⟨e', b⟩; cases b <;> rfl
theorem specAssignItemsNR_annoSplat (e : Env) (inner : Pat) (ann : Option Val) (ps : List Pat) (rt : Option Ty) (v : Val) (vs : List Val) :
    specAssignItemsNR e (.anno (.splat inner) ann :: ps) rt (v :: vs) =
      stepNR (match ann with
         | none => specAssignNR e inner (some .any) v
         | some t =>
           match toType t with
           | .ok T' => specAssignNR e inner (some T') v
           | _ => (e, false)) (fun e' => specAssignItemsNR e' ps rt vs) := by
  have h1 : specAssignItemsNR e (.anno (.splat inner) ann :: ps) rt (v :: vs) =
      (match (match ann with
         | none => specAssignNR e inner (some .any) v
         | some t =>
           match toType t with
           | .ok T' => specAssignNR e inner (some T') v
           | _ => (e, false)) with
       | (e', true) => specAssignItemsNR e' ps rt vs | r => r) := rfl
  rw [h1]
  generalize (match ann with
         | none => specAssignNR e inner (some .any) v
         | some t =>
           match toType t with
           | .ok T' => specAssignNR e inner (some T') v
           | _ => (e, false)) = r
  rcases r with ⟨e', b⟩; cases b <;> rfl
theorem specAssignItemsNR_other (e : Env) (p : Pat) (ps : List Pat) (rt : Option Ty) (v : Val) (vs : List Val)
    (h : isSplatItem p = false) :
    specAssignItemsNR e (p :: ps) rt (v :: vs) =
      stepNR (specAssignNR e p rt v) (fun e' => specAssignItemsNR e' ps rt vs) := by
  have key : ∀ q, (match specAssignNR e q rt v with | (e', true) => specAssignItemsNR e' ps rt vs | r => r)
      = stepNR (specAssignNR e q rt v) (fun e' => specAssignItemsNR e' ps rt vs) := by
    intro q; rcases specAssignNR e q rt v with ⟨e', b⟩; cases b <;> rfl
  cases p with
  | anno q t => cases q <;> first | exact key _ | simp [isSplatItem] at h
  | splat q => simp [isSplatItem] at h
  | _ => exact key _

theorem stepItems_congr (r r' : Env × Out Unit) (k k' : Env → Env × Out Unit)
    (h : r = r') (hk : ∀ e, k e = k' e) : stepItems r k = stepItems r' k' := by
  subst h
  obtain ⟨e, o⟩ := r
  cases o <;> simp [stepItems, hk]

theorem tail_nr (e : Env) (ss : List Pat) (rt' : Option Ty) (items : List Val)
    (ih : ∀ arr : List Val, assignItems e ss rt' arr = nrOut (specAssignItemsNR e ss rt' arr)) :
    (match arrange ss items.length items with
      | .ok arranged => assignItems e ss rt' arranged
      | .throw => (e, .throw)
      | .panic => (e, .panic)) =
    nrOut (match specArrange ss items with
      | some arr => specAssignItemsNR e ss rt' arr
      | none => (e, false)) := by
  rcases arrange_cases ss items with ⟨arr, h1, h2, _⟩ | ⟨h1, h2⟩
  · rw [h1, h2]; exact ih arr
  · rw [h1, h2]; rfl

mutual
/-- **`assign` = the documented behaviour, for every pattern** (no restriction on `or`): same
acceptance, same environment afterwards — also after a refusal — and never a panic. -/
theorem assign_eq_specNR (e : Env) : ∀ (p : Pat) (rt : Option Ty) (v : Val),
    assign e p rt v = nrOut (specAssignNR e p rt v)
  | .underscore, rt, v => by
      unfold assign specAssignNR
      cases rt with
      | none => rfl
      | some T =>
        simp only []
        cases hty : isType T v with
        | ok b => cases b <;> simp [nrOut]
        | throw => simp [nrOut]
        | panic => exact absurd hty (isType_no_panic _ _)
  | .ident x ixs, rt, v => by
      unfold assign specAssignNR
      cases rt with
      | some T =>
        cases ixs with
        | nil =>
          simp only [List.isEmpty_nil, true_and]
          unfold insertDeclare
          cases hty : isType T v with
          | ok b =>
            cases b with
            | true =>
              simp only [if_true]
              have hnp := insert_no_panic e x T v
              rcases hi : e.insert x T v with ⟨e', o⟩
              rw [hi] at hnp
              cases o with
              | ok u => rfl
              | throw =>
                -- `Env::insert` refuses without changing anything
                have : e' = e := by
                  unfold Env.insert at hi
                  cases e with
                  | nil => simp at hi; exact hi
                  | cons f rest =>
                    simp only [] at hi
                    split at hi <;> simp at hi
                    exact hi.symm
                subst this; rfl
              | panic => simp at hnp
            | false => simp [nrOut]
          | throw => simp [nrOut]
          | panic => exact absurd hty (isType_no_panic _ _)
        | cons i is => simp [nrOut]
      | none =>
        simp only []
        have hnp := assignRespectingType_no_panic e x ixs v
        rcases hr : assignRespectingType e x ixs v with ⟨e', o⟩
        rw [hr] at hnp
        cases o with
        | ok u => rfl
        | throw => rfl
        | panic => simp at hnp
  | .anno s ann, rt, v => by
      unfold assign
      cases ann with
      | none => simp only [specAssignNR]; exact assign_eq_specNR e s _ v
      | some t =>
        simp only [specAssignNR]
        cases ht : toType t with
        | ok ty => exact assign_eq_specNR e s _ v
        | throw => rfl
        | panic => cases t <;> simp [toType] at ht
  | .withDefault s _, rt, v => by
      unfold assign specAssignNR; exact assign_eq_specNR e s rt v
  | .seq ss d, rt, v => by
      unfold assign specAssignNR
      cases d with
      | false =>
        simp only [Bool.false_eq_true, if_false]
        rcases seq_view_cases v with ⟨items, h1, h2⟩ | ⟨h1, h2⟩
        · simp only [h1, h2, seqView]
          exact tail_nr e ss rt items (fun arr => assignItems_eq_specNR e ss rt arr)
        · simp [h1, h2, seqView, nrOut]
      | true =>
        cases rt with
        | none =>
          simp only [if_true, Option.map_none]
          rcases seq_view_cases v with ⟨items, h1, h2⟩ | ⟨h1, h2⟩
          · simp only [h1, h2, seqView]
            exact tail_nr e ss none items (fun arr => assignItems_eq_specNR e ss none arr)
          · simp [h1, h2, seqView, nrOut]
        | some T =>
          cases hty : isType T v with
          | ok b =>
            cases b with
            | true =>
              simp only [hty, if_true, Option.map_some, decide_true]
              rcases seq_view_cases v with ⟨items, h1, h2⟩ | ⟨h1, h2⟩
              · simp only [h1, h2, seqView]
                exact tail_nr e ss (some Ty.any) items (fun arr => assignItems_eq_specNR e ss (some Ty.any) arr)
              · simp [h1, h2, seqView, nrOut]
            | false => simp only [hty]; simp [nrOut]
          | throw => simp only [hty]; simp [nrOut]
          | panic => exact absurd hty (isType_no_panic _ _)
  | .splat _, _, _ => by unfold assign specAssignNR; rfl
  | .or a b, rt, v => by
      unfold assign specAssignNR
      rw [assign_eq_specNR e a rt v]
      rcases specAssignNR e a rt v with ⟨e', ok⟩
      cases ok with
      | true => rfl
      | false => simp only [nrOut]; exact assign_eq_specNR e' b rt v
  | .and a b, rt, v => by
      unfold assign specAssignNR
      rw [assign_eq_specNR e a rt v]
      rcases specAssignNR e a rt v with ⟨e', ok⟩
      cases ok with
      | true => simp only [nrOut]; exact assign_eq_specNR e' b rt v
      | false => rfl
  | .lit l, _, v => by
      unfold assign specAssignNR
      by_cases hv : veq l v = true <;> simp [hv, nrOut]
  | .destr f args, rt, v => by
      unfold assign specAssignNR
      cases hd : destructure f v (args.map knownOf) with
      | ok res =>
        simp only []
        by_cases hl : res.length = args.length
        · simp only [hl, beq_self_eq_true, if_true]
          rw [← hl]
          exact tail_nr e args rt res (fun arr => assignItems_eq_specNR e args rt arr)
        · simp [hl, nrOut]
      | throw => rfl
      | panic => exact absurd hd (destructure_no_panic _ _ _)
  | .destrStruct sid args, rt, v => by
      unfold assign specAssignNR
      cases v with
      | inst sid' fields =>
        simp only []
        by_cases hs : sid = sid'
        · simp only [hs, beq_self_eq_true, if_true]
          exact tail_nr e args rt fields (fun arr => assignItems_eq_specNR e args rt arr)
        · simp [hs, nrOut]
      | _ => rfl
theorem assignItems_eq_specNR (e : Env) : ∀ (ps : List Pat) (rt : Option Ty) (vs : List Val),
    assignItems e ps rt vs = nrOut (specAssignItemsNR e ps rt vs)
  | [], rt, vs => by rw [assignItems_nil, specAssignItemsNR_nil]; rfl
  | _ :: _, _, [] => by rw [assignItems_cons_nil, specAssignItemsNR_cons_nil]; rfl
  | p :: ps, rt, v :: vs => by
      have rest : ∀ e', assignItems e' ps rt vs = nrOut (specAssignItemsNR e' ps rt vs) :=
        fun e' => assignItems_eq_specNR e' ps rt vs
      cases p with
      | splat inner =>
        rw [assignItems_splat, specAssignItemsNR_splat, nrOut_step]
        exact stepItems_congr _ _ _ _ (assign_eq_specNR e inner rt v) rest
      | anno q ann =>
        cases q with
        | splat inner =>
          rw [assignItems_annoSplat, specAssignItemsNR_annoSplat, nrOut_step]
          apply stepItems_congr _ _ _ _ _ rest
          cases ann with
          | none => exact assign_eq_specNR e inner _ v
          | some t =>
            simp only []
            cases ht : toType t with
            | ok ty => exact assign_eq_specNR e inner _ v
            | throw => rfl
            | panic => cases t <;> simp [toType] at ht
        | _ =>
          rw [assignItems_other _ _ _ _ _ _ (by simp [isSplatItem]),
            specAssignItemsNR_other _ _ _ _ _ _ (by simp [isSplatItem]), nrOut_step]
          exact stepItems_congr _ _ _ _ (assign_eq_specNR e _ rt v) rest
      | _ =>
        rw [assignItems_other _ _ _ _ _ _ (by simp [isSplatItem]),
          specAssignItemsNR_other _ _ _ _ _ _ (by simp [isSplatItem]), nrOut_step]
        exact stepItems_congr _ _ _ _ (assign_eq_specNR e _ rt v) rest
end

/-- for patterns whose `or` nodes bind nothing in their first alternative the documented behaviour
*is* the transactional reading -/
theorem specNR_transactional_of_orClean (e : Env) (p : Pat) (rt : Option Ty) (v : Val)
    (h : orClean p = true) :
    ((specAssignNR e p rt v).2 = true → specAssign e p rt v = some (specAssignNR e p rt v).1) ∧
    ((specAssignNR e p rt v).2 = false → specAssign e p rt v = none) := by
  have hr := assign_ref e p rt v h
  rw [assign_eq_specNR] at hr
  rcases hq : specAssignNR e p rt v with ⟨e', b⟩
  rw [hq] at hr
  cases b with
  | true => simp [nrOut, Ref] at hr; simp [hr]
  | false => simp [nrOut, Ref] at hr; simp [hr]

/-- **the one place where the documented behaviour and the transactional reading part ways**
(known finding `or-no-rollback`): `(x, 1) or (x, 2)` against `[5, 2]` is refused by the interpreter
— the second alternative finds `x` already declared by the failed first one — although the second
alternative on its own accepts the value. -/
theorem no_rollback_divergence :
    ¬ ∀ (e : Env) (p : Pat) (rt : Option Ty) (v : Val),
      ((specAssignNR e p rt v).2 = true ↔ (specAssign e p rt v).isSome = true) := by
  intro h
  have w := or_no_rollback_witness
  have h1 := h [[]] orWitness (some .any) (.list [.int 5, .int 2])
  have h2 : (specAssignNR [[]] orWitness (some .any) (.list [.int 5, .int 2])).2 = false := by
    have := assign_eq_specNR [[]] orWitness (some .any) (.list [.int 5, .int 2])
    rcases hq : specAssignNR [[]] orWitness (some .any) (.list [.int 5, .int 2]) with ⟨e', b⟩
    rw [hq] at this
    cases b with
    | false => rfl
    | true => rw [this] at w; simp [nrOut] at w
  rw [h2] at h1
  have := h1.mpr w.2
  simp at this

end Noulith.C12
