/-
C08 — Numeric equality and ordering are exact and coherent across types.

Property theorems about the Impl model of the comparison code (Impl/NNumCmp.lean, Impl/ObjCmp.lean)
against the Spec (Spec/OrdSpec.lean: every number denotes a pair of points of the extended rational
line; `==` is equality and the order is the lexicographic order of the denoted pairs).
All statements quantify over every integer (both representations, any size), every rational, every
float value `m·2^e` / ±0 / ±inf / NaN and every complex number — no size bound.
-/
import NoulithModel.Spec.OrdSpec
namespace Noulith.C08
open Noulith OrdSpec

theorem ratCmp_lt {a b : Rat} : ratCmp a b = .lt ↔ a < b := by
  unfold ratCmp; split
  · simp [*]
  · split <;> simp [*]

theorem ratCmp_eq {a b : Rat} : ratCmp a b = .eq ↔ a = b := by
  unfold ratCmp; split
  · rename_i h; simp; exact Rat.ne_of_lt h
  · split <;> simp [*]

theorem ratCmp_gt {a b : Rat} : ratCmp a b = .gt ↔ b < a := by
  unfold ratCmp; split
  · rename_i h; simp; grind
  · split
    · rename_i h; simp; grind
    · simp; grind

theorem ratCmp_swap (a b : Rat) : (ratCmp a b).swap = ratCmp b a := by
  cases h : ratCmp a b
  · have := ratCmp_lt.mp h; exact (ratCmp_gt.mpr this).symm
  · have := ratCmp_eq.mp h; subst this; simp [ratCmp]
  · have := ratCmp_gt.mp h; exact (ratCmp_lt.mpr this).symm

theorem ratCmp_intCast (a b : Int) : ratCmp (a : Rat) (b : Rat) = compare a b := by
  unfold ratCmp
  rcases Int.lt_trichotomy a b with h | h | h
  · have : (a : Rat) < b := Rat.intCast_lt_intCast.mpr h
    simp [this, Int.compare_eq_lt.mpr h]
  · subst h; simp [Rat.lt_irrefl]
  · have : (b : Rat) < a := Rat.intCast_lt_intCast.mpr h
    have h1 : ¬ (a : Rat) < b := by grind
    have h2 : ¬ (a : Rat) = b := by grind
    simp [h1, h2, Int.compare_eq_gt.mpr h]

namespace ERatL
theorem cmp_eq {a b : ERat} : ERat.cmp a b = .eq ↔ a = b := by
  cases a <;> cases b <;> simp [ERat.cmp, ratCmp_eq]
theorem cmp_swap (a b : ERat) : (ERat.cmp a b).swap = ERat.cmp b a := by
  cases a <;> cases b <;> simp [ERat.cmp, ratCmp_swap]
theorem cmp_refl (a : ERat) : ERat.cmp a a = .eq := cmp_eq.mpr rfl
theorem cmp_lt_trans {a b c : ERat} (h1 : ERat.cmp a b = .lt) (h2 : ERat.cmp b c = .lt) : ERat.cmp a c = .lt := by
  cases a <;> cases b <;> cases c <;> simp_all [ERat.cmp, ratCmp_lt] <;> grind
end ERatL

/-! floats -/
theorem isInt_iff (q : Rat) : q.isInt = true ↔ q = ((q.floor : Int) : Rat) := by
  constructor
  · intro h
    have hd : q.den = 1 := by simpa [Rat.isInt] using h
    have hq : q = (q.num : Rat) := by apply Rat.ext <;> simp [hd]
    rw [Rat.floor_def, hd]; simpa using hq
  · intro h
    rw [h]; simp [Rat.isInt]

theorem ratTrunc_intCast (n : Int) : F64.ratTrunc (n : Rat) = n := by
  unfold F64.ratTrunc; split <;> simp [Rat.floor_intCast, Rat.ceil_intCast]

theorem finVal_zero_exp (n : Int) : F64.finVal n 0 = n := by simp [F64.finVal]


theorem toNIntIfInt_fin_int (m e : Int) (h : (F64.finVal m e).isInt = true) :
    toNIntIfInt (.fin m e) = some (.big (F64.finVal m e).floor) := by
  have hq := (isInt_iff _).mp h
  simp only [toNIntIfInt, F64.eqTrunc, F64.toBigInt?, h, if_true, Option.map]
  congr 2
  conv => lhs; rw [hq]
  exact ratTrunc_intCast _

theorem toNIntIfInt_fin_nonint (m e : Int) (h : ¬ (F64.finVal m e).isInt = true) :
    toNIntIfInt (.fin m e) = none := by
  simp only [toNIntIfInt, F64.eqTrunc, h]; rfl

theorem cmp_floor (x : Int) (q : Rat) (h : ¬ q.isInt = true) :
    (match compare x q.floor with
      | .lt => Ordering.lt
      | .eq => Ordering.lt
      | .gt => Ordering.gt) = ratCmp (x : Rat) q := by
  have hne : ∀ n : Int, q ≠ (n : Rat) := by
    intro n hn
    apply h; rw [hn]; simp [Rat.isInt]
  rcases Int.lt_trichotomy x q.floor with hlt | heq | hgt
  · rw [Int.compare_eq_lt.mpr hlt]
    have : (x : Rat) ≤ q := Rat.le_floor_iff.mp (Int.le_of_lt hlt)
    have : (x : Rat) < q := Rat.lt_of_le_of_ne this (fun h => hne _ h.symm)
    exact (ratCmp_lt.mpr this).symm
  · rw [Int.compare_eq_eq.mpr heq]
    have : (x : Rat) ≤ q := Rat.le_floor_iff.mp (Int.le_of_eq heq)
    have : (x : Rat) < q := Rat.lt_of_le_of_ne this (fun h => hne _ h.symm)
    exact (ratCmp_lt.mpr this).symm
  · rw [Int.compare_eq_gt.mpr hgt]
    have : q < (x : Rat) := Rat.floor_lt_iff.mp hgt
    exact (ratCmp_gt.mpr this).symm

theorem cmp_nint_f64_exact (a : NInt) (b : F64) :
    cmpNIntF64 a b = optCmp (realValue (.int a)) (realValue (.float b)) := by
  cases b with
  | nan => simp [cmpNIntF64, toNIntIfInt, F64.eqTrunc, F64.isInfinite, F64.floor, F64.toBigInt?, realValue, optCmp]
  | inf neg =>
    cases neg <;>
    simp [cmpNIntF64, toNIntIfInt, F64.eqTrunc, F64.isInfinite, F64.toBigInt?, F64.isSignPositive,
      realValue, optCmp, ERat.cmp]
  | nzero =>
    simp only [cmpNIntF64, toNIntIfInt, F64.eqTrunc, F64.toBigInt?, realValue, optCmp, ERat.cmp, NInt.cmp,
      if_true, Option.map]
    rw [← ratCmp_intCast]; simp [NInt.val]
  | fin m e =>
    simp only [realValue, optCmp, ERat.cmp]
    have hv : ((m : Rat) * (2 : Rat) ^ e) = F64.finVal m e := rfl
    rw [hv]
    by_cases h : (F64.finVal m e).isInt = true
    · simp only [cmpNIntF64, toNIntIfInt_fin_int m e h, NInt.cmp]
      have hq := (isInt_iff _).mp h
      conv => rhs; rw [hq]
      rw [ratCmp_intCast]; rfl
    · simp only [cmpNIntF64, toNIntIfInt_fin_nonint m e h, F64.isInfinite, F64.floor, F64.toBigInt?,
        Option.map, finVal_zero_exp, ratTrunc_intCast, NInt.cmp, Bool.false_eq_true, if_false]
      congr 1
      exact cmp_floor a.val _ h


theorem beq_exact (a b : NInt) (ha : a.WF) (hb : b.WF) : NInt.beq a b = decide (a.val = b.val) := by
  cases a <;> cases b <;> simp only [NInt.beq, NInt.val, NInt.WF] at * <;> (try split) <;>
    first
    | rfl
    | exact beq_eq_decide _ _
    | (symm; apply decide_eq_false; intro h; subst h; contradiction)

def NRealWF : NReal → Prop
  | .int a => a.WF
  | _ => True

theorem f64_partialCmp_exact (a b : F64) :
    F64.partialCmp a b = optCmp (realValue (.float a)) (realValue (.float b)) := by
  rcases a with _ | ⟨_ | _⟩ | ⟨m, e⟩ | _ <;> rcases b with _ | ⟨_ | _⟩ | ⟨m', e'⟩ | _ <;>
    simp [F64.partialCmp, F64.isNan, F64.ext, realValue, optCmp, F64.finVal]

theorem f64_feq_exact (a b : F64) :
    F64.feq a b = optEq (realValue (.float a)) (realValue (.float b)) := by
  rcases a with _ | ⟨_ | _⟩ | ⟨m, e⟩ | _ <;> rcases b with _ | ⟨_ | _⟩ | ⟨m', e'⟩ | _ <;>
    simp [F64.feq, F64.isNan, F64.ext, realValue, optEq, F64.finVal]


theorem optCmp_swap (x y : Option ERat) : (optCmp x y).map Ordering.swap = optCmp y x := by
  cases x <;> cases y <;> simp [optCmp, ERatL.cmp_swap]

theorem nreal_partialCmp_exact (a b : NReal) :
    NReal.partialCmp a b = optCmp (realValue a) (realValue b) := by
  cases a with
  | int a =>
    cases b with
    | int b => simp [NReal.partialCmp, realValue, optCmp, ERat.cmp, ratCmp_intCast, NInt.cmp]
    | float f => simp only [NReal.partialCmp]; exact cmp_nint_f64_exact a f
    | rat q => simp [NReal.partialCmp, NReal.exactCmp, NReal.exactToRational, realValue, optCmp, ERat.cmp]
  | float f =>
    cases b with
    | int b =>
      simp only [NReal.partialCmp]
      rw [cmp_nint_f64_exact, optCmp_swap]
    | float g => simp only [NReal.partialCmp]; exact f64_partialCmp_exact f g
    | rat q =>
      rcases f with _ | ⟨_ | _⟩ | ⟨m, e⟩ | _ <;>
        simp [NReal.partialCmp, NReal.exactCmp, NReal.exactToRational, F64.toRat?, NReal.infiniteSignum,
          realValue, optCmp, ERat.cmp, F64.finVal] <;> decide
  | rat q =>
    cases b with
    | int b => simp [NReal.partialCmp, NReal.exactCmp, NReal.exactToRational, realValue, optCmp, ERat.cmp]
    | float f =>
      rcases f with _ | ⟨_ | _⟩ | ⟨m, e⟩ | _ <;>
        simp [NReal.partialCmp, NReal.exactCmp, NReal.exactToRational, F64.toRat?, NReal.infiniteSignum,
          realValue, optCmp, ERat.cmp, F64.finVal] <;> decide
    | rat r => simp [NReal.partialCmp, NReal.exactCmp, NReal.exactToRational, realValue, optCmp, ERat.cmp]


theorem toNIntIfInt_beq (f : F64) (a : NInt) (ha : a.WF) :
    (match toNIntIfInt f with
      | some x => NInt.beq x a
      | none => false) = optEq (realValue (.float f)) (realValue (.int a)) := by
  rcases f with _ | ⟨_ | _⟩ | ⟨m, e⟩ | _
  · simp [toNIntIfInt, F64.eqTrunc, realValue, optEq]
  · simp [toNIntIfInt, F64.eqTrunc, F64.toBigInt?, realValue, optEq]
  · simp [toNIntIfInt, F64.eqTrunc, F64.toBigInt?, realValue, optEq]
  · have hv : ((m : Rat) * (2 : Rat) ^ e) = F64.finVal m e := rfl
    simp only [realValue, optEq, hv]
    by_cases h : (F64.finVal m e).isInt = true
    · rw [toNIntIfInt_fin_int m e h]
      simp only
      rw [beq_exact _ _ (by simp [NInt.WF]) ha]
      have hq := (isInt_iff _).mp h
      show decide ((F64.finVal m e).floor = a.val) = _
      apply decide_eq_decide.mpr
      constructor
      · intro h1; rw [hq, h1]
      · intro h1; rw [hq] at h1; simpa using h1
    · rw [toNIntIfInt_fin_nonint m e h]
      symm; apply decide_eq_false
      intro h1
      apply h
      have : F64.finVal m e = (a.val : Rat) := by simpa using h1
      rw [this]; simp [Rat.isInt]
  · simp only [toNIntIfInt, F64.eqTrunc, F64.toBigInt?, if_true, Option.map, realValue, optEq]
    rw [beq_exact _ _ (by simp [NInt.WF]) ha]
    show decide ((0 : Int) = a.val) = _
    apply decide_eq_decide.mpr
    constructor
    · intro h; rw [← h]; simp
    · intro h
      have : (0 : Rat) = (a.val : Rat) := by simpa using h
      have : ((0 : Int) : Rat) = (a.val : Rat) := by simpa using this
      exact Rat.intCast_inj.mp this

theorem optEq_comm (x y : Option ERat) : optEq x y = optEq y x := by
  cases x <;> cases y <;> simp [optEq, eq_comm]

theorem nreal_eq_exact (a b : NReal) (ha : NRealWF a) (hb : NRealWF b) :
    NReal.eq a b = optEq (realValue a) (realValue b) := by
  cases a with
  | int a =>
    cases b with
    | int b =>
      simp only [NReal.eq, realValue, optEq]
      rw [beq_exact a b ha hb]
      simp
    | float f =>
      simp only [NReal.eq]
      have key := toNIntIfInt_beq f a ha
      rw [optEq_comm]
      cases h : toNIntIfInt f <;> rw [h] at key <;> exact key
    | rat q => simp [NReal.eq, NReal.exactToRational, realValue, optEq]
  | float f =>
    cases b with
    | int b =>
      simp only [NReal.eq]
      have key := toNIntIfInt_beq f b hb
      cases h : toNIntIfInt f <;> rw [h] at key <;> exact key
    | float g => simp only [NReal.eq]; exact f64_feq_exact f g
    | rat q =>
      rcases f with _ | ⟨_ | _⟩ | ⟨m, e⟩ | _ <;>
        simp [NReal.eq, NReal.exactToRational, F64.toRat?, realValue, optEq, F64.finVal]
  | rat q =>
    cases b with
    | int b => simp [NReal.eq, NReal.exactToRational, realValue, optEq]
    | float f =>
      rcases f with _ | ⟨_ | _⟩ | ⟨m, e⟩ | _ <;>
        simp [NReal.eq, NReal.exactToRational, F64.toRat?, realValue, optEq, F64.finVal]
    | rat r => simp [NReal.eq, NReal.exactToRational, realValue, optEq]


theorem re_project (a : NNum) : realValue a.projectToReals.1 = reVal a := by
  cases a <;> rfl
theorem im_project (a : NNum) : realValue a.projectToReals.2 = imVal a := by
  cases a <;> simp [NNum.projectToReals, realValue, imVal]
theorem wf_project (a : NNum) (h : a.WF) : NRealWF a.projectToReals.1 ∧ NRealWF a.projectToReals.2 := by
  cases a <;> simp_all [NNum.projectToReals, NRealWF, NNum.WF]

/-- **Impl = Spec for the order on numbers** (all numbers, all levels, NaNs included) -/
theorem num_partialCmp_exact (a b : NNum) : NNum.partialCmp a b = numCmp a b := by
  unfold NNum.partialCmp numCmp
  rw [← re_project a, ← re_project b, ← im_project a, ← im_project b]
  simp only [nreal_partialCmp_exact]
  rfl

/-- **Impl = Spec for `==` on numbers** -/
theorem num_eq_exact (a b : NNum) (ha : a.WF) (hb : b.WF) : NNum.eq a b = numEq a b := by
  unfold NNum.eq numEq
  rw [← re_project a, ← re_project b, ← im_project a, ← im_project b]
  obtain ⟨h1, h2⟩ := wf_project a ha
  obtain ⟨h3, h4⟩ := wf_project b hb
  simp only [nreal_eq_exact _ _ h1 h3, nreal_eq_exact _ _ h2 h4]

/-! ## generic laws of a partial three-way comparison -/
/-- antisymmetry: swapping the operands swaps the answer (and keeps "no answer") -/
def SwapLaw {α : Type} (c : α → α → Option Ordering) : Prop :=
  ∀ a b, c b a = (c a b).map Ordering.swap
/-- transitivity in all its forms: `==` composes with everything, `<` with `<`, `>` with `>` -/
def TransLaw {α : Type} (c : α → α → Option Ordering) : Prop :=
  ∀ a b z o1 o2, c a b = some o1 → c b z = some o2 → (o1 = .eq ∨ o2 = .eq ∨ o1 = o2) →
    c a z = some (o1.then o2)

theorem optCmp_swapLaw : SwapLaw optCmp := fun a b => (optCmp_swap a b).symm

theorem ratCmp_trans (p q r : Rat)
    (hc : ratCmp p q = .eq ∨ ratCmp q r = .eq ∨ ratCmp p q = ratCmp q r) :
    ratCmp p r = (ratCmp p q).then (ratCmp q r) := by
  cases h1 : ratCmp p q <;> cases h2 : ratCmp q r <;> simp only [h1, h2, Ordering.then] at hc ⊢ <;>
    (try (have := ratCmp_lt.mp h1)) <;> (try (have := ratCmp_eq.mp h1)) <;> (try (have := ratCmp_gt.mp h1)) <;>
    (try (have := ratCmp_lt.mp h2)) <;> (try (have := ratCmp_eq.mp h2)) <;> (try (have := ratCmp_gt.mp h2)) <;>
    first
    | (exfalso; simp at hc; done)
    | (apply ratCmp_lt.mpr; grind)
    | (apply ratCmp_eq.mpr; grind)
    | (apply ratCmp_gt.mpr; grind)

theorem erat_cmp_trans (a b z : ERat)
    (hc : ERat.cmp a b = .eq ∨ ERat.cmp b z = .eq ∨ ERat.cmp a b = ERat.cmp b z) :
    ERat.cmp a z = (ERat.cmp a b).then (ERat.cmp b z) := by
  cases a <;> cases b <;> cases z <;>
    first
    | exact ratCmp_trans _ _ _ hc
    | (simp_all [ERat.cmp, Ordering.then]; done)
    | (simp only [ERat.cmp, Ordering.then] at hc ⊢; rcases hc with h | h | h <;> simp_all)

theorem optCmp_transLaw : TransLaw optCmp := by
  intro a b z o1 o2 h1 h2 hc
  cases a <;> cases b <;> cases z <;> simp_all [optCmp]
  subst h1; subst h2
  exact erat_cmp_trans _ _ _ hc


theorem then_cases (o1 o2 : Ordering) (hc : o1 = .eq ∨ o2 = .eq ∨ o1 = o2) :
    (o1 = .eq ∧ o1.then o2 = o2) ∨ (o1 ≠ .eq ∧ o1.then o2 = o1) := by
  cases o1 <;> cases o2 <;> simp_all [Ordering.then]

/-- lexicographic combination of two lawful comparisons (first decides unless `Some(Equal)`) -/
def lex2 {α : Type} (c1 c2 : α → α → Option Ordering) (a b : α) : Option Ordering :=
  match c1 a b with
  | some .eq => c2 a b
  | o => o

theorem lex2_swap {α : Type} {c1 c2 : α → α → Option Ordering} (h1 : SwapLaw c1) (h2 : SwapLaw c2) :
    SwapLaw (lex2 c1 c2) := by
  intro a b
  unfold lex2
  rw [h1 a b]
  cases h : c1 a b with
  | none => rfl
  | some o => cases o <;> simp [h2 a b]

theorem lex2_trans {α : Type} {c1 c2 : α → α → Option Ordering} (h1 : TransLaw c1) (h2 : TransLaw c2) :
    TransLaw (lex2 c1 c2) := by
  intro a b z o1 o2 hab hbz hc
  unfold lex2 at *
  cases e1 : c1 a b with
  | none => simp [e1] at hab
  | some p1 =>
    cases e2 : c1 b z with
    | none => simp [e2] at hbz
    | some p2 =>
      by_cases hp1 : p1 = .eq
      · subst hp1
        simp only [e1] at hab
        by_cases hp2 : p2 = .eq
        · subst hp2
          simp only [e2] at hbz
          have := h1 a b z _ _ e1 e2 (Or.inl rfl)
          simp only [this, Ordering.then]
          exact h2 a b z o1 o2 hab hbz hc
        · have hbz' : some p2 = some o2 := by cases p2 <;> simp_all
          have hp : p2 = o2 := by simpa using hbz'
          subst hp
          have := h1 a b z _ _ e1 e2 (Or.inl rfl)
          simp only [Ordering.then] at this
          rw [this]
          have : o1.then p2 = p2 := by
            rcases hc with h | h | h
            · subst h; rfl
            · exact absurd h hp2
            · subst h; cases o1 <;> simp_all [Ordering.then]
          rw [this]
          cases p2 <;> simp_all
      · have hab' : some p1 = some o1 := by cases p1 <;> simp_all
        have hp : p1 = o1 := by simpa using hab'
        subst hp
        by_cases hp2 : p2 = .eq
        · subst hp2
          have := h1 a b z _ _ e1 e2 (Or.inr (Or.inl rfl))
          have ht : p1.then Ordering.eq = p1 := by cases p1 <;> rfl
          rw [ht] at this
          rw [this]
          have : p1.then o2 = p1 := by cases p1 <;> simp_all [Ordering.then]
          rw [this]
          cases p1 <;> simp_all
        · have hbz' : some p2 = some o2 := by cases p2 <;> simp_all
          have hq : p2 = o2 := by simpa using hbz'
          subst hq
          have hcc : p1 = p2 := by
            rcases hc with h | h | h
            · exact absurd h hp1
            · exact absurd h hp2
            · exact h
          subst hcc
          have := h1 a b z _ _ e1 e2 (Or.inr (Or.inr rfl))
          rw [this]
          cases p1 <;> simp_all [Ordering.then]

theorem numCmp_eq_lex2 : numCmp = lex2 (fun a b => optCmp (reVal a) (reVal b)) (fun a b => optCmp (imVal a) (imVal b)) := by
  funext a b; rfl

theorem numCmp_swap : SwapLaw numCmp := by
  rw [numCmp_eq_lex2]
  exact lex2_swap (fun a b => optCmp_swapLaw _ _) (fun a b => optCmp_swapLaw _ _)

theorem numCmp_trans : TransLaw numCmp := by
  rw [numCmp_eq_lex2]
  exact lex2_trans (fun a b z => optCmp_transLaw _ _ _) (fun a b z => optCmp_transLaw _ _ _)


theorem optCmp_eq_iff (x y : Option ERat) : optCmp x y = some .eq ↔ optEq x y = true := by
  cases x <;> cases y <;> simp [optCmp, optEq, ERatL.cmp_eq]

theorem numCmp_eq_iff (a b : NNum) : numCmp a b = some .eq ↔ numEq a b = true := by
  unfold numCmp numEq
  rw [Bool.and_eq_true, ← optCmp_eq_iff, ← optCmp_eq_iff]
  cases h : optCmp (reVal a) (reVal b) with
  | none => simp
  | some o => cases o <;> simp

theorem then_eq_right (o : Ordering) : o.then .eq = o := by cases o <;> rfl

/-- `==`-equal operands can be exchanged in any comparison -/
theorem congr_of_laws {α : Type} {c : α → α → Option Ordering} (hs : SwapLaw c) (ht : TransLaw c)
    {a a' b b' : α} (ha : c a a' = some .eq) (hb : c b b' = some .eq) : c a b = c a' b' := by
  have ha' : c a' a = some .eq := by rw [hs a a', ha]; rfl
  have hb' : c b' b = some .eq := by rw [hs b b', hb]; rfl
  have fwd : ∀ {x x' y y' : α} o, c x x' = some .eq → c x' x = some .eq → c y y' = some .eq →
      c x y = some o → c x' y' = some o := by
    intro x x' y y' o hx hx' hy hxy
    have h1 := ht x' x y _ _ hx' hxy (Or.inl rfl)
    simp only [Ordering.then] at h1
    have h2 := ht x' y y' _ _ h1 hy (Or.inr (Or.inl rfl))
    rwa [then_eq_right] at h2
  cases h : c a b with
  | some o => exact (fwd o ha ha' hb h).symm
  | none =>
    cases h' : c a' b' with
    | none => rfl
    | some o => have := fwd o ha' ha hb' h'; rw [h] at this; cases this

def nanFree (a : NNum) : Prop := hasNan a = false

theorem optCmp_isSome {x y : Option ERat} (hx : x.isSome) (hy : y.isSome) : (optCmp x y).isSome := by
  cases x <;> cases y <;> simp_all [optCmp]

theorem numCmp_total {a b : NNum} (ha : nanFree a) (hb : nanFree b) : ∃ o, numCmp a b = some o := by
  unfold nanFree hasNan at *
  simp only [Bool.or_eq_false_iff, Option.isNone_eq_false_iff] at ha hb
  unfold numCmp
  have h1 := optCmp_isSome ha.1 hb.1
  have h2 := optCmp_isSome ha.2 hb.2
  cases h : optCmp (reVal a) (reVal b) with
  | none => simp [h] at h1
  | some o =>
    cases o
    · exact ⟨_, rfl⟩
    · simp only; exact Option.isSome_iff_exists.mp h2
    · exact ⟨_, rfl⟩

theorem numCmp_none {a b : NNum} (h : numCmp a b = none) : hasNan a = true ∨ hasNan b = true := by
  cases ha : hasNan a
  · cases hb : hasNan b
    · obtain ⟨o, ho⟩ := numCmp_total ha hb; rw [h] at ho; cases ho
    · exact Or.inr rfl
  · exact Or.inl rfl

theorem optEq_refl {x : Option ERat} (h : x.isSome) : optEq x x = true := by
  cases x <;> simp_all [optEq]

theorem numEq_refl {a : NNum} (ha : nanFree a) : numEq a a = true := by
  unfold nanFree hasNan at ha
  simp only [Bool.or_eq_false_iff, Option.isNone_eq_false_iff] at ha
  simp [numEq, optEq_refl ha.1, optEq_refl ha.2]


/-! ## the property's statements about numbers, on the Impl model -/

/-- the pair of points a NaN-free number denotes -/
def val2 (a : NNum) : ERat × ERat := ((reVal a).getD (.fin 0), (imVal a).getD (.fin 0))
/-- the mathematical order on pairs: lexicographic -/
def pairCmp (x y : ERat × ERat) : Ordering := (ERat.cmp x.1 y.1).then (ERat.cmp x.2 y.2)
/-- the point a NaN-free real denotes -/
def rval (a : NNum) : ERat := (reVal a).getD (.fin 0)
def isReal : NNum → Bool
  | .complex _ _ => false
  | _ => true

theorem nanFree_some {a : NNum} (ha : nanFree a) : reVal a = some (val2 a).1 ∧ imVal a = some (val2 a).2 := by
  unfold nanFree hasNan at ha
  simp only [Bool.or_eq_false_iff, Option.isNone_eq_false_iff] at ha
  obtain ⟨h1, h2⟩ := ha
  obtain ⟨x, hx⟩ := Option.isSome_iff_exists.mp h1
  obtain ⟨y, hy⟩ := Option.isSome_iff_exists.mp h2
  simp [val2, hx, hy]

/-- numbers of ANY two levels (also complex) compare by the exact values they denote -/
theorem num_cmp_exact (a b : NNum) (ha : nanFree a) (hb : nanFree b) :
    NNum.partialCmp a b = some (pairCmp (val2 a) (val2 b)) := by
  rw [num_partialCmp_exact]
  obtain ⟨h1, h2⟩ := nanFree_some ha
  obtain ⟨h3, h4⟩ := nanFree_some hb
  unfold numCmp pairCmp
  rw [h1, h2, h3, h4]
  simp only [optCmp]
  cases ERat.cmp (val2 a).1 (val2 b).1 <;> rfl

theorem num_eq_val (a b : NNum) (hwa : a.WF) (hwb : b.WF) (ha : nanFree a) (hb : nanFree b) :
    NNum.eq a b = true ↔ val2 a = val2 b := by
  rw [num_eq_exact a b hwa hwb]
  obtain ⟨h1, h2⟩ := nanFree_some ha
  obtain ⟨h3, h4⟩ := nanFree_some hb
  unfold numEq
  rw [h1, h2, h3, h4]
  simp only [optEq, Bool.and_eq_true, decide_eq_true_eq]
  constructor
  · intro ⟨p, q⟩; exact Prod.ext p q
  · intro h; rw [h]; exact ⟨rfl, rfl⟩

theorem im_real {a : NNum} (h : isReal a = true) : imVal a = some (.fin 0) := by
  cases a <;> simp_all [isReal, imVal]

/-- **real_cmp_exact**: non-NaN reals of any two levels (int of any size and representation,
fraction, float incl. ±0 and ±inf) compare by exact mathematical value, and `==` holds iff the
values are equal. -/
theorem real_cmp_exact (a b : NNum) (hwa : a.WF) (hwb : b.WF) (ra : isReal a = true) (rb : isReal b = true)
    (ha : nanFree a) (hb : nanFree b) :
    NNum.partialCmp a b = some (ERat.cmp (rval a) (rval b)) ∧ (NNum.eq a b = true ↔ rval a = rval b) := by
  obtain ⟨h1, h2⟩ := nanFree_some ha
  obtain ⟨h3, h4⟩ := nanFree_some hb
  have i1 := im_real ra
  have i2 := im_real rb
  constructor
  · rw [num_cmp_exact a b ha hb]
    unfold pairCmp
    have e1 : (val2 a).2 = .fin 0 := by rw [i1] at h2; exact (Option.some.inj h2).symm
    have e2 : (val2 b).2 = .fin 0 := by rw [i2] at h4; exact (Option.some.inj h4).symm
    rw [e1, e2, ERatL.cmp_refl, then_eq_right]; rfl
  · rw [num_eq_val a b hwa hwb ha hb]
    have e1 : (val2 a).2 = .fin 0 := by rw [i1] at h2; exact (Option.some.inj h2).symm
    have e2 : (val2 b).2 = .fin 0 := by rw [i2] at h4; exact (Option.some.inj h4).symm
    constructor
    · intro h; exact congrArg Prod.fst h
    · intro h; exact Prod.ext h (by rw [e1, e2])

/-- **trichotomy**: on non-NaN numbers exactly one of `a < b`, `a == b`, `a > b` holds -/
theorem trichotomy (a b : NNum) (hwa : a.WF) (hwb : b.WF) (ha : nanFree a) (hb : nanFree b) :
    (NNum.partialCmp a b = some .lt ∧ NNum.eq a b = false) ∨
    (NNum.partialCmp a b = some .eq ∧ NNum.eq a b = true) ∨
    (NNum.partialCmp a b = some .gt ∧ NNum.eq a b = false) := by
  rw [num_partialCmp_exact, num_eq_exact a b hwa hwb]
  obtain ⟨o, ho⟩ := numCmp_total ha hb
  have key := numCmp_eq_iff a b
  rw [ho] at key ⊢
  cases o
  · left; refine ⟨rfl, ?_⟩; cases h : numEq a b <;> simp_all
  · right; left; exact ⟨rfl, key.mp rfl⟩
  · right; right; refine ⟨rfl, ?_⟩; cases h : numEq a b <;> simp_all

/-- **eq_equivalence** -/
theorem eq_refl (a : NNum) (hwa : a.WF) (ha : nanFree a) : NNum.eq a a = true := by
  rw [num_eq_exact a a hwa hwa]; exact numEq_refl ha

theorem eq_symm (a b : NNum) (hwa : a.WF) (hwb : b.WF) : NNum.eq a b = NNum.eq b a := by
  rw [num_eq_exact a b hwa hwb, num_eq_exact b a hwb hwa]
  unfold numEq; rw [optEq_comm (reVal a), optEq_comm (imVal a)]

theorem eq_trans (a b c : NNum) (hwa : a.WF) (hwb : b.WF) (hwc : c.WF)
    (h1 : NNum.eq a b = true) (h2 : NNum.eq b c = true) : NNum.eq a c = true := by
  rw [num_eq_exact _ _ hwa hwb] at h1
  rw [num_eq_exact _ _ hwb hwc] at h2
  rw [num_eq_exact _ _ hwa hwc]
  rw [← numCmp_eq_iff] at *
  exact numCmp_trans a b c _ _ h1 h2 (Or.inl rfl)

/-- **lt_trans** (no side condition: whenever both comparisons have an answer) -/
theorem lt_trans (a b c : NNum) (h1 : NNum.partialCmp a b = some .lt) (h2 : NNum.partialCmp b c = some .lt) :
    NNum.partialCmp a c = some .lt := by
  rw [num_partialCmp_exact] at *
  exact numCmp_trans a b c _ _ h1 h2 (Or.inr (Or.inr rfl))

/-- **lt_congr_eq**: `<`, `>`, `<=>` are compatible with `==` -/
theorem lt_congr_eq (a a' b b' : NNum) (hwa : a.WF) (hwa' : a'.WF) (hwb : b.WF) (hwb' : b'.WF)
    (h1 : NNum.eq a a' = true) (h2 : NNum.eq b b' = true) :
    NNum.partialCmp a b = NNum.partialCmp a' b' := by
  rw [num_eq_exact _ _ hwa hwa', ← numCmp_eq_iff] at h1
  rw [num_eq_exact _ _ hwb hwb', ← numCmp_eq_iff] at h2
  rw [num_partialCmp_exact, num_partialCmp_exact]
  exact congr_of_laws numCmp_swap numCmp_trans h1 h2

/-- **cmp_antisym**: `a <=> b` is the negation of `b <=> a` (and one raises iff the other does) -/
theorem cmp_antisym (a b : NNum) : NNum.partialCmp b a = (NNum.partialCmp a b).map Ordering.swap := by
  rw [num_partialCmp_exact, num_partialCmp_exact]; exact numCmp_swap a b

/-- a comparison of numbers has no answer only if a NaN is involved -/
theorem incomparable_nan (a b : NNum) (h : NNum.partialCmp a b = none) : hasNan a = true ∨ hasNan b = true := by
  rw [num_partialCmp_exact] at h; exact numCmp_none h

/-! ## lexicographic comparison of sequences -/

theorem lexCmp_swap {α : Type} {c : α → α → Option Ordering} (h : SwapLaw c) : SwapLaw (lexCmp c) := by
  intro xs
  induction xs with
  | nil => intro ys; cases ys <;> rfl
  | cons x xs ih =>
    intro ys
    cases ys with
    | nil => rfl
    | cons y ys =>
      simp only [lexCmp]
      rw [h x y]
      cases hc : c x y with
      | none => rfl
      | some o => cases o <;> simp [ih ys]

theorem lexCmp_trans {α : Type} {c : α → α → Option Ordering} (h : TransLaw c) : TransLaw (lexCmp c) := by
  intro xs
  induction xs with
  | nil =>
    intro ys zs o1 o2 h1 h2 hc
    cases ys with
    | nil =>
      cases zs with
      | nil =>
        simp only [lexCmp, Option.some.injEq] at h1 h2 ⊢
        subst h1; subst h2; rfl
      | cons z zs =>
        simp only [lexCmp, Option.some.injEq] at h1 h2 ⊢
        subst h1; subst h2; rfl
    | cons y ys =>
      cases zs with
      | nil =>
        simp only [lexCmp, Option.some.injEq] at h1 h2
        subst h1; subst h2; simp at hc
      | cons z zs =>
        simp only [lexCmp, Option.some.injEq] at h1 ⊢
        subst h1; rfl
  | cons x xs ih =>
    intro ys zs o1 o2 h1 h2 hc
    cases ys with
    | nil =>
      cases zs with
      | nil =>
        simp only [lexCmp, Option.some.injEq] at h1 h2 ⊢
        subst h1; subst h2; rfl
      | cons z zs =>
        simp only [lexCmp, Option.some.injEq] at h1 h2
        subst h1; subst h2; simp at hc
    | cons y ys =>
      cases zs with
      | nil =>
        simp only [lexCmp, Option.some.injEq] at h2 ⊢
        subst h2
        have : o1.then Ordering.gt = Ordering.gt := by
          rcases hc with h | h | h
          · subst h; rfl
          · cases h
          · subst h; rfl
        rw [this]
      | cons z zs =>
        -- same structure as `lex2_trans` with the tails as second component
        simp only [lexCmp] at h1 h2 ⊢
        cases e1 : c x y with
        | none => simp [e1] at h1
        | some p1 =>
          cases e2 : c y z with
          | none => simp [e2] at h2
          | some p2 =>
            rw [e1] at h1; rw [e2] at h2
            by_cases hp1 : p1 = .eq
            · subst hp1
              simp only at h1
              by_cases hp2 : p2 = .eq
              · subst hp2
                simp only at h2
                have := h x y z _ _ e1 e2 (Or.inl rfl)
                simp only [this, Ordering.then]
                exact ih ys zs o1 o2 h1 h2 hc
              · have hbz' : some p2 = some o2 := by cases p2 <;> simp_all
                have hp : p2 = o2 := by simpa using hbz'
                subst hp
                have := h x y z _ _ e1 e2 (Or.inl rfl)
                simp only [Ordering.then] at this
                rw [this]
                have : o1.then p2 = p2 := by
                  rcases hc with h | h | h
                  · subst h; rfl
                  · exact absurd h hp2
                  · subst h; cases o1 <;> simp_all [Ordering.then]
                rw [this]
                cases p2 <;> simp_all
            · have hab' : some p1 = some o1 := by cases p1 <;> simp_all
              have hp : p1 = o1 := by simpa using hab'
              subst hp
              by_cases hp2 : p2 = .eq
              · subst hp2
                have := h x y z _ _ e1 e2 (Or.inr (Or.inl rfl))
                rw [then_eq_right] at this
                rw [this]
                have : p1.then o2 = p1 := by cases p1 <;> simp_all [Ordering.then]
                rw [this]
                cases p1 <;> simp_all
              · have hbz' : some p2 = some o2 := by cases p2 <;> simp_all
                have hq : p2 = o2 := by simpa using hbz'
                subst hq
                have hcc : p1 = p2 := by
                  rcases hc with h | h | h
                  · exact absurd h hp1
                  · exact absurd h hp2
                  · exact h
                subst hcc
                have := h x y z _ _ e1 e2 (Or.inr (Or.inr rfl))
                rw [this]
                cases p1 <;> simp_all [Ordering.then]


theorem natCmp_swap : SwapLaw natCmp := by
  intro a b
  simp only [natCmp, Option.map]
  congr 1
  exact (Nat.compare_swap a b).symm

theorem natCmp_trans : TransLaw natCmp := by
  intro a b z o1 o2 h1 h2 hc
  simp only [natCmp, Option.some.injEq] at *
  subst h1; subst h2
  rcases Nat.lt_trichotomy a b with h | h | h <;> rcases Nat.lt_trichotomy b z with h' | h' | h' <;>
    simp_all [Nat.compare_eq_lt, Nat.compare_eq_gt, Ordering.then,
      Nat.compare_eq_lt.mpr, Nat.compare_eq_gt.mpr] <;> omega

mutual
theorem valCmp_swap (a b : Val) : valCmp b a = (valCmp a b).map Ordering.swap := by
  cases a with
  | null => cases b <;> simp [valCmp]
  | num x =>
    cases b <;> simp only [valCmp, Option.map]
    rename_i y
    rw [num_partialCmp_exact, num_partialCmp_exact]; exact numCmp_swap x y
  | str x =>
    cases b <;> simp only [valCmp, Option.map]
    exact lexCmp_swap natCmp_swap _ _
  | bytes x =>
    cases b <;> simp only [valCmp, Option.map]
    exact lexCmp_swap natCmp_swap _ _
  | vec x =>
    cases b <;> simp only [valCmp, Option.map]
    exact lexCmp_swap (fun p q => by rw [num_partialCmp_exact, num_partialCmp_exact]; exact numCmp_swap p q) _ _
  | list xs =>
    cases b <;> simp only [valCmp, Option.map]
    exact valCmpList_swap xs _
  | dict kvs d => cases b <;> simp [valCmp]
  | func i => cases b <;> simp [valCmp]
theorem valCmpList_swap (xs ys : List Val) : valCmpList ys xs = (valCmpList xs ys).map Ordering.swap := by
  cases xs with
  | nil => cases ys <;> simp [valCmpList]
  | cons x xs =>
    cases ys with
    | nil => simp [valCmpList]
    | cons y ys =>
      simp only [valCmpList]
      rw [valCmp_swap x y]
      cases hc : valCmp x y with
      | none => rfl
      | some o => cases o <;> simp [valCmpList_swap xs ys]
end


/-- one lexicographic step: the head decides unless it is `Some(Equal)` -/
def stepRes (h t : Option Ordering) : Option Ordering :=
  match h with
  | some .eq => t
  | o => o

theorem stepRes_trans {hxy hyz hxz txy tyz txz : Option Ordering}
    (head : ∀ p1 p2, hxy = some p1 → hyz = some p2 → (p1 = .eq ∨ p2 = .eq ∨ p1 = p2) → hxz = some (p1.then p2))
    (tail : ∀ q1 q2, txy = some q1 → tyz = some q2 → (q1 = .eq ∨ q2 = .eq ∨ q1 = q2) → txz = some (q1.then q2))
    (o1 o2 : Ordering) (h1 : stepRes hxy txy = some o1) (h2 : stepRes hyz tyz = some o2)
    (hc : o1 = .eq ∨ o2 = .eq ∨ o1 = o2) : stepRes hxz txz = some (o1.then o2) := by
  unfold stepRes at *
  cases e1 : hxy with
  | none => simp [e1] at h1
  | some p1 =>
    cases e2 : hyz with
    | none => simp [e2] at h2
    | some p2 =>
      rw [e1] at h1; rw [e2] at h2
      by_cases hp1 : p1 = .eq
      · subst hp1
        simp only at h1
        by_cases hp2 : p2 = .eq
        · subst hp2
          simp only at h2
          have := head _ _ e1 e2 (Or.inl rfl)
          simp only [this, Ordering.then]
          exact tail o1 o2 h1 h2 hc
        · have hbz' : some p2 = some o2 := by cases p2 <;> simp_all
          have hp : p2 = o2 := by simpa using hbz'
          subst hp
          have := head _ _ e1 e2 (Or.inl rfl)
          simp only [Ordering.then] at this
          rw [this]
          have : o1.then p2 = p2 := by
            rcases hc with h | h | h
            · subst h; rfl
            · exact absurd h hp2
            · subst h; cases o1 <;> simp_all [Ordering.then]
          rw [this]
          cases p2 <;> simp_all
      · have hab' : some p1 = some o1 := by cases p1 <;> simp_all
        have hp : p1 = o1 := by simpa using hab'
        subst hp
        by_cases hp2 : p2 = .eq
        · subst hp2
          have := head _ _ e1 e2 (Or.inr (Or.inl rfl))
          rw [then_eq_right] at this
          rw [this]
          have : p1.then o2 = p1 := by cases p1 <;> simp_all [Ordering.then]
          rw [this]
          cases p1 <;> simp_all
        · have hbz' : some p2 = some o2 := by cases p2 <;> simp_all
          have hq : p2 = o2 := by simpa using hbz'
          subst hq
          have hcc : p1 = p2 := by
            rcases hc with h | h | h
            · exact absurd h hp1
            · exact absurd h hp2
            · exact h
          subst hcc
          have := head _ _ e1 e2 (Or.inr (Or.inr rfl))
          rw [this]
          cases p1 <;> simp_all [Ordering.then]

theorem partialCmp_trans : TransLaw NNum.partialCmp := by
  intro a b z o1 o2 h1 h2 hc
  rw [num_partialCmp_exact] at *
  exact numCmp_trans a b z o1 o2 h1 h2 hc

mutual
theorem valCmp_trans (a b z : Val) (o1 o2 : Ordering) (h1 : valCmp a b = some o1) (h2 : valCmp b z = some o2)
    (hc : o1 = .eq ∨ o2 = .eq ∨ o1 = o2) : valCmp a z = some (o1.then o2) := by
  cases a with
  | null =>
    cases b <;> simp only [valCmp, reduceCtorEq] at h1
    cases z <;> simp only [valCmp, reduceCtorEq] at h2 ⊢
    simp only [Option.some.injEq] at h1 h2 ⊢
    subst h1; subst h2; rfl
  | num x =>
    cases b <;> simp only [valCmp, reduceCtorEq] at h1
    cases z <;> simp only [valCmp, reduceCtorEq] at h2 ⊢
    exact partialCmp_trans _ _ _ _ _ h1 h2 hc
  | str x =>
    cases b <;> simp only [valCmp, reduceCtorEq] at h1
    cases z <;> simp only [valCmp, reduceCtorEq] at h2 ⊢
    exact lexCmp_trans natCmp_trans _ _ _ _ _ h1 h2 hc
  | bytes x =>
    cases b <;> simp only [valCmp, reduceCtorEq] at h1
    cases z <;> simp only [valCmp, reduceCtorEq] at h2 ⊢
    exact lexCmp_trans natCmp_trans _ _ _ _ _ h1 h2 hc
  | vec x =>
    cases b <;> simp only [valCmp, reduceCtorEq] at h1
    cases z <;> simp only [valCmp, reduceCtorEq] at h2 ⊢
    exact lexCmp_trans partialCmp_trans _ _ _ _ _ h1 h2 hc
  | list xs =>
    cases b <;> simp only [valCmp, reduceCtorEq] at h1
    cases z <;> simp only [valCmp, reduceCtorEq] at h2 ⊢
    exact valCmpList_trans xs _ _ _ _ h1 h2 hc
  | dict kvs d => cases b <;> simp [valCmp] at h1
  | func i => cases b <;> simp [valCmp] at h1
theorem valCmpList_trans (xs ys zs : List Val) (o1 o2 : Ordering) (h1 : valCmpList xs ys = some o1)
    (h2 : valCmpList ys zs = some o2) (hc : o1 = .eq ∨ o2 = .eq ∨ o1 = o2) :
    valCmpList xs zs = some (o1.then o2) := by
  cases xs with
  | nil =>
    cases ys with
    | nil =>
      cases zs <;> (simp only [valCmpList, Option.some.injEq] at h1 h2 ⊢; subst h1; subst h2; rfl)
    | cons y ys =>
      cases zs with
      | nil =>
        simp only [valCmpList, Option.some.injEq] at h1 h2
        subst h1; subst h2; simp at hc
      | cons z zs =>
        simp only [valCmpList, Option.some.injEq] at h1 ⊢
        subst h1; rfl
  | cons x xs =>
    cases ys with
    | nil =>
      cases zs with
      | nil =>
        simp only [valCmpList, Option.some.injEq] at h1 h2 ⊢
        subst h1; subst h2; rfl
      | cons z zs =>
        simp only [valCmpList, Option.some.injEq] at h1 h2
        subst h1; subst h2; simp at hc
    | cons y ys =>
      cases zs with
      | nil =>
        simp only [valCmpList, Option.some.injEq] at h2 ⊢
        subst h2
        have : o1.then Ordering.gt = Ordering.gt := by
          rcases hc with h | h | h
          · subst h; rfl
          · cases h
          · subst h; rfl
        rw [this]
      | cons z zs =>
        have e : ∀ (p q : Val) (ps qs : List Val), valCmpList (p :: ps) (q :: qs) = stepRes (valCmp p q) (valCmpList ps qs) := by
          intro p q ps qs; simp only [valCmpList, stepRes]
          cases valCmp p q with
          | none => rfl
          | some o => cases o <;> rfl
        rw [e] at h1 h2 ⊢
        exact stepRes_trans (fun p1 p2 e1 e2 c => valCmp_trans x y z p1 p2 e1 e2 c)
          (fun q1 q2 e1 e2 c => valCmpList_trans xs ys zs q1 q2 e1 e2 c) o1 o2 h1 h2 hc
end

/-! ## `sort`: the stable sorted permutation -/
section SortSec
variable {α : Type} {c : α → α → Option Ordering}

/-- `a ≤ b` in the order the comparison defines -/
def LE (c : α → α → Option Ordering) (a b : α) : Prop := c a b = some .lt ∨ c a b = some .eq

theorem le_of_le_of_le (ht : TransLaw c) {a b z : α} (h1 : LE c a b) (h2 : LE c b z) : LE c a z := by
  unfold LE at *
  rcases h1 with h1 | h1 <;> rcases h2 with h2 | h2
  · left; exact ht a b z _ _ h1 h2 (Or.inr (Or.inr rfl))
  · left; exact ht a b z _ _ h1 h2 (Or.inr (Or.inl rfl))
  · left; exact ht a b z _ _ h1 h2 (Or.inl rfl)
  · right; exact ht a b z _ _ h1 h2 (Or.inl rfl)

theorem leOf_of_isSome {a b : α} (h : (c a b).isSome) : leOf c a b = true ↔ LE c a b := by
  unfold leOf LE
  cases hc : c a b with
  | none => simp [hc] at h
  | some o => cases o <;> simp

theorem not_leOf {a b : α} (hs : SwapLaw c) (h : leOf c a b = false) : c b a = some .lt := by
  unfold leOf at h
  cases hc : c a b with
  | none => simp [hc] at h
  | some o =>
    cases o <;> simp [hc] at h
    rw [hs a b, hc]; rfl

theorem insertFront_perm (x : α) (l : List α) : (sortWith.insertFront c x l).Perm (x :: l) := by
  induction l with
  | nil => exact List.Perm.refl _
  | cons y ys ih =>
    simp only [sortWith.insertFront]
    split
    · exact List.Perm.refl _
    · exact (List.Perm.cons y ih).trans (List.Perm.swap x y ys)

/-- the result of `sort` is a permutation of the input -/
theorem sortWith_perm (l : List α) : (sortWith c l).Perm l := by
  induction l with
  | nil => exact List.Perm.refl _
  | cons x xs ih =>
    simp only [sortWith]
    exact (insertFront_perm x _).trans (List.Perm.cons x ih)

theorem insertFront_sorted (hs : SwapLaw c) (ht : TransLaw c) (x : α) (l : List α)
    (hcomp : ∀ y ∈ l, (c x y).isSome) (hl : l.Pairwise (LE c)) :
    (sortWith.insertFront c x l).Pairwise (LE c) := by
  induction l with
  | nil => simp [sortWith.insertFront]
  | cons y ys ih =>
    simp only [sortWith.insertFront]
    have hy := List.pairwise_cons.mp hl
    cases hle : leOf c x y with
    | true =>
      simp only [if_true]
      have hxy : LE c x y := (leOf_of_isSome (hcomp y (List.mem_cons_self ..))).mp hle
      refine List.pairwise_cons.mpr ⟨?_, hl⟩
      intro z hz
      rcases List.mem_cons.mp hz with rfl | hz
      · exact hxy
      · exact le_of_le_of_le ht hxy (hy.1 z hz)
    | false =>
      simp only [Bool.false_eq_true, if_false]
      have hyx : LE c y x := Or.inl (not_leOf hs hle)
      refine List.pairwise_cons.mpr ⟨?_, ih (fun z hz => hcomp z (List.mem_cons_of_mem _ hz)) hy.2⟩
      intro z hz
      have := (insertFront_perm (c := c) x ys).mem_iff.mp hz
      rcases List.mem_cons.mp this with rfl | hz
      · exact hyx
      · exact hy.1 z hz

theorem allComparable_mem {l : List α} (h : allComparable c l = true) (hrefl : ∀ x ∈ l, (c x x).isSome) :
    ∀ x ∈ l, ∀ y ∈ l, (c x y).isSome := by
  induction l with
  | nil => intro x hx; cases hx
  | cons a as ih =>
    simp only [allComparable, Bool.and_eq_true, List.all_eq_true] at h
    intro x hx y hy
    rcases List.mem_cons.mp hx with hxa | hxs <;> rcases List.mem_cons.mp hy with hya | hys
    · subst hxa; subst hya; exact hrefl _ (List.mem_cons_self ..)
    · subst hxa; exact (h.1 y hys).1
    · subst hya; exact (h.1 x hxs).2
    · exact ih h.2 (fun z hz => hrefl z (List.mem_cons_of_mem _ hz)) x hxs y hys

/-- … sorted by the order … -/
theorem sortWith_sorted (hs : SwapLaw c) (ht : TransLaw c) (l : List α)
    (hcomp : ∀ x ∈ l, ∀ y ∈ l, (c x y).isSome) : (sortWith c l).Pairwise (LE c) := by
  induction l with
  | nil => simp [sortWith]
  | cons x xs ih =>
    simp only [sortWith]
    apply insertFront_sorted hs ht
    · intro y hy
      have := (sortWith_perm (c := c) xs).mem_iff.mp hy
      exact hcomp x (List.mem_cons_self ..) y (List.mem_cons_of_mem _ this)
    · exact ih (fun a ha b hb => hcomp a (List.mem_cons_of_mem _ ha) b (List.mem_cons_of_mem _ hb))

/-- … and stable: elements that compare equal keep their input order -/
theorem insertFront_stable (hs : SwapLaw c) (p : α → Bool)
    (hp : ∀ a b, p a = true → p b = true → c a b ≠ some .lt) (x : α) (l : List α) :
    (sortWith.insertFront c x l).filter p = (x :: l).filter p := by
  induction l with
  | nil => rfl
  | cons y ys ih =>
    simp only [sortWith.insertFront]
    cases hle : leOf c x y with
    | true => rfl
    | false =>
      simp only [Bool.false_eq_true, if_false]
      have hyx := not_leOf hs hle
      by_cases hpy : p y = true
      · by_cases hpx : p x = true
        · exact absurd hyx (hp y x hpy hpx)
        · rw [List.filter_cons_of_pos hpy, ih, List.filter_cons_of_neg hpx, List.filter_cons_of_neg hpx,
            List.filter_cons_of_pos hpy]
      · rw [List.filter_cons_of_neg hpy, ih]
        by_cases hpx : p x = true
        · rw [List.filter_cons_of_pos hpx, List.filter_cons_of_pos hpx, List.filter_cons_of_neg hpy]
        · rw [List.filter_cons_of_neg hpx, List.filter_cons_of_neg hpx, List.filter_cons_of_neg hpy]

theorem sortWith_filter (hs : SwapLaw c) (p : α → Bool)
    (hp : ∀ a b, p a = true → p b = true → c a b ≠ some .lt) (l : List α) :
    (sortWith c l).filter p = l.filter p := by
  induction l with
  | nil => rfl
  | cons x xs ih =>
    simp only [sortWith]
    rw [insertFront_stable hs p hp]
    by_cases hpx : p x = true
    · rw [List.filter_cons_of_pos hpx, List.filter_cons_of_pos hpx, ih]
    · rw [List.filter_cons_of_neg hpx, List.filter_cons_of_neg hpx, ih]

theorem eqClass_not_lt (hs : SwapLaw c) (ht : TransLaw c) (w a b : α)
    (ha : (c a w == some .eq) = true) (hb : (c b w == some .eq) = true) : c a b ≠ some .lt := by
  have e1 : c a w = some .eq := by simpa using ha
  have e2 : c b w = some .eq := by simpa using hb
  have e3 : c w b = some .eq := by rw [hs b w, e2]; rfl
  have := ht a w b _ _ e1 e3 (Or.inl rfl)
  rw [this]; simp [Ordering.then]

theorem sortWith_stable (hs : SwapLaw c) (ht : TransLaw c) (w : α) (l : List α) :
    (sortWith c l).filter (fun y => c y w == some .eq) = l.filter (fun y => c y w == some .eq) :=
  sortWith_filter hs _ (fun a b ha hb => eqClass_not_lt hs ht w a b ha hb) l

/-- **sort_sorted_perm_stable**: whenever `sort` succeeds its result is a permutation of the input,
ascending in the comparison order, with equal elements in input order; it raises exactly when two
of the (≥ 2) elements are incomparable. -/
theorem sort_sorted_perm_stable (hs : SwapLaw c) (ht : TransLaw c) (l r : List α)
    (hrefl : ∀ x ∈ l, (c x x).isSome) (h : sorted c l = .ok r) :
    r.Perm l ∧ r.Pairwise (LE c) ∧ ∀ w, r.filter (fun y => c y w == some .eq) = l.filter (fun y => c y w == some .eq) := by
  unfold sorted at h
  split at h
  · rename_i hlen
    cases h
    refine ⟨List.Perm.refl _, ?_, fun _ => rfl⟩
    match l, hlen with
    | [], _ => exact List.Pairwise.nil
    | [x], _ => exact List.pairwise_singleton _ _
  · split at h
    · rename_i hall
      cases h
      exact ⟨sortWith_perm l, sortWith_sorted hs ht l (allComparable_mem hall hrefl), fun w => sortWith_stable hs ht w l⟩
    · cases h

theorem sort_raises_iff (l : List α) :
    sorted c l = .throw ↔ (1 < l.length ∧ allComparable c l = false) := by
  unfold sorted
  split
  · rename_i h; simp; omega
  · rename_i h
    split
    · rename_i h2; simp [h2]
    · rename_i h2; simp at h2; simp [h2]; omega

end SortSec
/-! ## `ncmp`, the operators, `min` / `max` -/

/-- `ncmp` as a partial comparison (`none` = raises) -/
def pc (a b : Val) : Option Ordering :=
  match ncmp a b with
  | .ok o => some o
  | _ => none

/-- the operand classes `ncmp` accepts: numbers (1) and sequences (2); everything else is 0 -/
def cls : Val → Nat
  | .num _ => 1
  | .str _ => 2
  | .bytes _ => 2
  | .list _ => 2
  | .vec _ => 2
  | .dict _ _ => 2
  | _ => 0

theorem pc_eq (a b : Val) : pc a b = if cls a = cls b ∧ cls a ≠ 0 then valCmp a b else none := by
  unfold pc ncmp
  cases a <;> cases b <;> simp [cls, Val.isSeq, valCmp] <;>
    first
    | (generalize NNum.partialCmp _ _ = o; cases o <;> rfl)
    | (generalize lexCmp _ _ _ = o; cases o <;> rfl)
    | (generalize valCmpList _ _ = o; cases o <;> rfl)


theorem valCmp_swapLaw : SwapLaw valCmp := fun a b => valCmp_swap a b
theorem valCmp_transLaw : TransLaw valCmp := fun a b z o1 o2 h1 h2 hc => valCmp_trans a b z o1 o2 h1 h2 hc

theorem pc_swap : SwapLaw pc := by
  intro a b
  rw [pc_eq, pc_eq]
  by_cases h : cls a = cls b ∧ cls a ≠ 0
  · have h' : cls b = cls a ∧ cls b ≠ 0 := ⟨h.1.symm, by omega⟩
    rw [if_pos h, if_pos h']; exact valCmp_swap a b
  · have h' : ¬ (cls b = cls a ∧ cls b ≠ 0) := by intro hh; exact h ⟨hh.1.symm, by omega⟩
    rw [if_neg h, if_neg h']; rfl

theorem pc_trans : TransLaw pc := by
  intro a b z o1 o2 h1 h2 hc
  rw [pc_eq] at *
  by_cases hab : cls a = cls b ∧ cls a ≠ 0
  · by_cases hbz : cls b = cls z ∧ cls b ≠ 0
    · rw [if_pos hab] at h1; rw [if_pos hbz] at h2
      rw [if_pos ⟨hab.1.trans hbz.1, hab.2⟩]
      exact valCmp_trans a b z o1 o2 h1 h2 hc
    · rw [if_neg hbz] at h2; cases h2
  · rw [if_neg hab] at h1; cases h1

/-- **cmp_antisym** for all values: `a <=> b` is the negation of `b <=> a`, and one raises iff the
other does -/
theorem ncmp_antisym (a b : Val) : pc b a = (pc a b).map Ordering.swap := pc_swap a b

theorem swap_ne_eq {bias : Ordering} (hb : bias ≠ .eq) : bias.swap ≠ .eq := by cases bias <;> simp_all
theorem swap_ne_self {bias : Ordering} (hb : bias ≠ .eq) : bias.swap ≠ bias := by cases bias <;> simp_all

/-- the loop of `Extremum::run` keeps, as running result, the FIRST element that nothing seen so
far strictly beats -/
theorem extremumLoop_spec (bias : Ordering) (hb : bias ≠ .eq) (l : List Val) :
    ∀ (r : Val) (pre0 post0 : List Val) (m : Val),
      (∀ y ∈ pre0, pc y r = some bias.swap) →
      (∀ y ∈ post0, pc y r = some .eq ∨ pc y r = some bias.swap) →
      extremumLoop bias (some r) l = .ok (some m) →
      ∃ pre post, pre0 ++ r :: (post0 ++ l) = pre ++ m :: post ∧
        (∀ y ∈ pre, pc y m = some bias.swap) ∧
        (∀ y ∈ post, pc y m = some .eq ∨ pc y m = some bias.swap) := by
  induction l with
  | nil =>
    intro r pre0 post0 m h1 h2 h
    simp only [extremumLoop, Out.ok.injEq, Option.some.injEq] at h
    subst h
    exact ⟨pre0, post0, by simp, h1, h2⟩
  | cons b rest ih =>
    intro r pre0 post0 m h1 h2 h
    simp only [extremumLoop] at h
    cases hn : ncmp b r with
    | throw => rw [hn] at h; cases h
    | panic => rw [hn] at h; cases h
    | ok o =>
      rw [hn] at h
      simp only at h
      have hpc : pc b r = some o := by unfold pc; rw [hn]
      by_cases ho : o = bias
      · subst ho
        simp only [beq_self_eq_true, if_true] at h
        have hrb : pc r b = some o.swap := by rw [pc_swap b r, hpc]; rfl
        obtain ⟨pre, post, e, p1, p2⟩ := ih b (pre0 ++ r :: post0) [] m
          (by
            intro y hy
            rcases List.mem_append.mp hy with hy | hy
            · have := pc_trans y r b _ _ (h1 y hy) hrb (Or.inr (Or.inr rfl))
              rw [this]; cases o <;> rfl
            · rcases List.mem_cons.mp hy with hy | hy
              · subst hy; exact hrb
              · rcases h2 y hy with h | h
                · have := pc_trans y r b _ _ h hrb (Or.inl rfl)
                  rw [this]; rfl
                · have := pc_trans y r b _ _ h hrb (Or.inr (Or.inr rfl))
                  rw [this]; cases o <;> rfl)
          (by intro y hy; cases hy) h
        refine ⟨pre, post, ?_, p1, p2⟩
        rw [← e]; simp
      · have hne : (o == bias) = false := by simpa using ho
        rw [hne] at h
        simp only [Bool.false_eq_true, if_false] at h
        obtain ⟨pre, post, e, p1, p2⟩ := ih r pre0 (post0 ++ [b]) m h1
          (by
            intro y hy
            rcases List.mem_append.mp hy with hy | hy
            · exact h2 y hy
            · simp only [List.mem_singleton] at hy
              subst hy
              rw [hpc]
              cases o <;> cases bias <;> simp_all)
          h
        refine ⟨pre, post, ?_, p1, p2⟩
        rw [← e]; simp

/-- **min_max_agree**: whenever `min` / `max` return, the result is the first element of the
argument list that no element strictly beats in the comparison order: everything before it is
strictly worse, everything after it is worse or equal.  (`bias = .lt` is `min`, `.gt` is `max`.) -/
theorem min_max_agree (bias : Ordering) (hb : bias ≠ .eq) (xs : List Val) (m : Val)
    (h : extremum bias xs = .ok m) :
    ∃ pre post, xs = pre ++ m :: post ∧
      (∀ y ∈ pre, pc y m = some bias.swap) ∧
      (∀ y ∈ post, pc y m = some .eq ∨ pc y m = some bias.swap) := by
  unfold extremum at h
  cases xs with
  | nil => simp [extremumLoop] at h
  | cons x rest =>
    simp only [extremumLoop] at h
    cases hl : extremumLoop bias (some x) rest with
    | throw => rw [hl] at h; cases h
    | panic => rw [hl] at h; cases h
    | ok r =>
      rw [hl] at h
      cases r with
      | none => cases h
      | some r =>
        simp only [Out.ok.injEq] at h
        subst h
        have := extremumLoop_spec bias hb rest x [] [] r (by intro y hy; cases hy) (by intro y hy; cases hy) hl
        simpa using this


/-! ### the operators on numbers -/
theorem ncmp_num (a b : NNum) : ncmp (.num a) (.num b) = match numCmp a b with
    | some o => .ok o
    | none => .throw := by
  simp only [ncmp]; rw [num_partialCmp_exact]
  cases numCmp a b <;> rfl

def T : Out Val := .ok (ofBool true)
def F : Out Val := .ok (ofBool false)

theorem ofBool_inj (x y : Bool) : ofBool x = ofBool y ↔ x = y := by
  cases x <;> cases y <;> simp [ofBool]

/-- **le_iff_lt_or_eq** (and the same for `>=`): on numbers `a <= b` is true exactly when `a < b`
or `a == b` is -/
theorem le_iff_lt_or_eq (a b : NNum) (hwa : a.WF) (hwb : b.WF) :
    (cmpOp "<=" (.num a) (.num b) = T ↔ (cmpOp "<" (.num a) (.num b) = T ∨ cmpOp "==" (.num a) (.num b) = T)) ∧
    (cmpOp ">=" (.num a) (.num b) = T ↔ (cmpOp ">" (.num a) (.num b) = T ∨ cmpOp "==" (.num a) (.num b) = T)) := by
  have hk := numCmp_eq_iff a b
  simp only [cmpOp, T, ncmp_num, valEq, num_eq_exact a b hwa hwb]
  cases h : numCmp a b with
  | none =>
    rw [h] at hk
    have : numEq a b = false := by cases hq : numEq a b <;> simp_all
    simp [Out.map, this, ofBool_inj]
  | some o =>
    rw [h] at hk
    cases o <;> simp [Out.map, ofBool_inj] <;> simp_all

/-- operator form of **trichotomy**: on non-NaN numbers exactly one of `<`, `==`, `>` is true,
none raises -/
theorem trichotomy_ops (a b : NNum) (hwa : a.WF) (hwb : b.WF) (ha : nanFree a) (hb : nanFree b) :
    let lt := cmpOp "<" (.num a) (.num b)
    let eq := cmpOp "==" (.num a) (.num b)
    let gt := cmpOp ">" (.num a) (.num b)
    (lt = T ∧ eq = F ∧ gt = F) ∨ (lt = F ∧ eq = T ∧ gt = F) ∨ (lt = F ∧ eq = F ∧ gt = T) := by
  have hk := numCmp_eq_iff a b
  obtain ⟨o, ho⟩ := numCmp_total ha hb
  simp only [cmpOp, T, F, ncmp_num, valEq, num_eq_exact a b hwa hwb, ho]
  rw [ho] at hk
  cases o
  · have : numEq a b = false := by cases hq : numEq a b <;> simp_all
    simp [Out.map, this]
  · have : numEq a b = true := hk.mp rfl
    simp [Out.map, this]
  · have : numEq a b = false := by cases hq : numEq a b <;> simp_all
    simp [Out.map, this]

/-- `ncmp` never panics -/
theorem ncmp_no_panic (a b : Val) : ncmp a b ≠ .panic := by
  unfold ncmp
  split
  · split <;> simp
  · split
    · split <;> simp
    · simp

/-- `<=>` and `>=<` are negations of each other and of themselves with swapped operands -/
theorem spaceship_antisym (a b : Val) :
    cmpOp ">=<" a b = cmpOp "<=>" b a := by
  simp only [cmpOp]
  have := pc_swap a b
  unfold pc at this
  have np1 := ncmp_no_panic a b
  have np2 := ncmp_no_panic b a
  cases h1 : ncmp a b <;> cases h2 : ncmp b a <;> rw [h1, h2] at this <;> simp [Out.map] at this ⊢ <;>
    (try contradiction)
  rename_i o1 o2
  subst this; cases o1 <;> rfl

/-! ### incomparable kinds raise -/
def kind : Val → Nat
  | .null => 0
  | .num _ => 1
  | .str _ => 2
  | .bytes _ => 3
  | .list _ => 4
  | .vec _ => 5
  | .dict _ _ => 6
  | .func _ => 7

/-- **incomparable_raises** (kinds): number vs sequence, different sequence kinds, and anything
involving `null`, a dictionary or a function raise — for `<`, `<=`, `>`, `>=`, `<=>`, `>=<`, `min`,
`max` alike, since all go through `ncmp` -/
theorem incomparable_raises (a b : Val) (h : kind a ≠ kind b ∨ kind a = 0 ∨ kind a = 6 ∨ kind a = 7) :
    ncmp a b = .throw := by
  cases a <;> cases b <;> simp [kind] at h <;> simp [ncmp, Val.isSeq, valCmp]

/-- … and between numbers exactly when a NaN is met -/
theorem incomparable_raises_num (a b : NNum) :
    (ncmp (.num a) (.num b) = .throw ↔ numCmp a b = none) ∧
    (numCmp a b = none → hasNan a = true ∨ hasNan b = true) ∧
    (nanFree a → nanFree b → ∃ o, ncmp (.num a) (.num b) = .ok o) := by
  refine ⟨?_, numCmp_none, ?_⟩
  · rw [ncmp_num]; cases numCmp a b <;> simp
  · intro ha hb
    obtain ⟨o, ho⟩ := numCmp_total ha hb
    exact ⟨o, by rw [ncmp_num, ho]⟩


/-! ## strings: UTF-8 byte order is code point order -/

theorem lex_cons (x y : Nat) (xs ys : List Nat) :
    lexCmp natCmp (x :: xs) (y :: ys) =
      if x < y then some .lt else if x = y then lexCmp natCmp xs ys else some .gt := by
  simp only [lexCmp, natCmp]
  rcases Nat.lt_trichotomy x y with h | h | h
  · simp [Nat.compare_eq_lt.mpr h, h]
  · subst h; simp
  · have h1 : ¬ x < y := by omega
    have h2 : ¬ x = y := by omega
    simp [Nat.compare_eq_gt.mpr h, h1, h2]

theorem lex_append_same (p x y : List Nat) : lexCmp natCmp (p ++ x) (p ++ y) = lexCmp natCmp x y := by
  induction p with
  | nil => rfl
  | cons a p ih => simp [lex_cons, ih]

theorem utf8Char_lt (c d : Nat) (hcd : c < d) (hd : d < 0x110000) (x y : List Nat) :
    lexCmp natCmp (utf8Char c ++ x) (utf8Char d ++ y) = some .lt := by
  unfold utf8Char
  repeat' split
  all_goals simp only [List.cons_append, List.nil_append, lex_cons]
  all_goals (repeat' split)
  all_goals first | rfl | omega


theorem utf8Char_ne_nil (c : Nat) : utf8Char c ≠ [] := by
  unfold utf8Char; repeat' split
  all_goals simp

theorem utf8_cons (c : Nat) (cs : List Nat) : utf8 (c :: cs) = utf8Char c ++ utf8 cs := by
  simp [utf8, List.flatMap_cons]

theorem lex_nil_left (l : List Nat) (h : l ≠ []) : lexCmp natCmp [] l = some .lt := by
  cases l with
  | nil => exact absurd rfl h
  | cons _ _ => rfl

theorem lex_nil_right (l : List Nat) (h : l ≠ []) : lexCmp natCmp l [] = some .gt := by
  cases l with
  | nil => exact absurd rfl h
  | cons _ _ => rfl

/-- **Rust compares strings by their UTF-8 bytes; that is the order by code point** (for Unicode
scalar values: UTF-8 is order preserving) -/
theorem utf8_order (a b : List Nat) (ha : ∀ c ∈ a, c < 0x110000) (hb : ∀ c ∈ b, c < 0x110000) :
    lexCmp natCmp (utf8 a) (utf8 b) = lexCmp natCmp a b := by
  induction a generalizing b with
  | nil =>
    cases b with
    | nil => rfl
    | cons d ds =>
      rw [utf8_cons]
      simp only [utf8, List.flatMap_nil]
      rw [lex_nil_left]
      · rfl
      · intro h; exact utf8Char_ne_nil d (List.append_eq_nil_iff.mp h).1
  | cons c cs ih =>
    cases b with
    | nil =>
      rw [utf8_cons]
      simp only [utf8, List.flatMap_nil]
      rw [lex_nil_right]
      · rfl
      · intro h; exact utf8Char_ne_nil c (List.append_eq_nil_iff.mp h).1
    | cons d ds =>
      have hc : c < 0x110000 := ha c (List.mem_cons_self ..)
      have hd : d < 0x110000 := hb d (List.mem_cons_self ..)
      rw [utf8_cons, utf8_cons, lex_cons]
      rcases Nat.lt_trichotomy c d with h | h | h
      · rw [utf8Char_lt c d h hd, if_pos h]
      · subst h
        rw [lex_append_same, ih ds (fun x hx => ha x (List.mem_cons_of_mem _ hx))
          (fun x hx => hb x (List.mem_cons_of_mem _ hx))]
        simp
      · have := lexCmp_swap natCmp_swap (utf8Char d ++ utf8 ds) (utf8Char c ++ utf8 cs)
        rw [utf8Char_lt d c h hc] at this
        rw [this]
        have h1 : ¬ c < d := by omega
        have h2 : ¬ c = d := by omega
        simp [h1, h2]


/-! ## Impl = Spec on values -/

/- well-formed values without dictionaries (`==` on dictionaries is C09's subject): `Small`
integers hold an i64, string elements are Unicode scalar values -/
mutual
def ValOK : Val → Prop
  | .null => True
  | .num n => n.WF
  | .str cs => ∀ c ∈ cs, c < 0x110000
  | .bytes _ => True
  | .vec xs => ∀ n ∈ xs, NNum.WF n
  | .list xs => ValOKList xs
  | .dict _ _ => False
  | .func _ => True
def ValOKList : List Val → Prop
  | [] => True
  | x :: xs => ValOK x ∧ ValOKList xs
end

theorem partialCmp_funext : NNum.partialCmp = numCmp := by
  funext a b; exact num_partialCmp_exact a b

theorem listEq_numEq (xs ys : List NNum) (hx : ∀ n ∈ xs, NNum.WF n) (hy : ∀ n ∈ ys, NNum.WF n) :
    listEq NNum.eq xs ys = listEq numEq xs ys := by
  induction xs generalizing ys with
  | nil => cases ys <;> rfl
  | cons x xs ih =>
    cases ys with
    | nil => rfl
    | cons y ys =>
      simp only [listEq]
      rw [num_eq_exact x y (hx x (List.mem_cons_self ..)) (hy y (List.mem_cons_self ..)),
        ih ys (fun n hn => hx n (List.mem_cons_of_mem _ hn)) (fun n hn => hy n (List.mem_cons_of_mem _ hn))]

mutual
/-- **lex_cmp_correct / Impl = Spec for the order on values**: numbers by exact value, strings by
code point, bytes / vectors / lists lexicographically by the same element order -/
theorem valCmp_eq_spec (a b : Val) (ha : ValOK a) (hb : ValOK b) : valCmp a b = OrdSpec.cmp a b := by
  cases a with
  | null => cases b <;> rfl
  | num x => cases b <;> simp only [valCmp, OrdSpec.cmp]; exact num_partialCmp_exact x _
  | str x => cases b <;> simp only [valCmp, OrdSpec.cmp]; exact utf8_order x _ ha hb
  | bytes x => cases b <;> rfl
  | vec x => cases b <;> simp only [valCmp, OrdSpec.cmp]; rw [partialCmp_funext]
  | list xs => cases b <;> simp only [valCmp, OrdSpec.cmp]; exact valCmpList_eq_spec xs _ ha hb
  | dict kvs d => cases b <;> rfl
  | func i => cases b <;> rfl
theorem valCmpList_eq_spec (xs ys : List Val) (hx : ValOKList xs) (hy : ValOKList ys) :
    valCmpList xs ys = OrdSpec.cmpList xs ys := by
  cases xs with
  | nil => cases ys <;> rfl
  | cons x xs =>
    cases ys with
    | nil => rfl
    | cons y ys =>
      simp only [ValOKList] at hx hy
      simp only [valCmpList, OrdSpec.cmpList]
      rw [valCmp_eq_spec x y hx.1 hy.1, valCmpList_eq_spec xs ys hx.2 hy.2]
      cases OrdSpec.cmp x y with
      | none => rfl
      | some o => cases o <;> rfl
end

mutual
/-- **Impl = Spec for `==` on values** -/
theorem valEq_eq_spec (a b : Val) (ha : ValOK a) (hb : ValOK b) : valEq a b = OrdSpec.eq a b := by
  cases a with
  | null => cases b <;> rfl
  | num x => cases b <;> simp only [valEq, OrdSpec.eq]; exact num_eq_exact x _ ha hb
  | str x => cases b <;> rfl
  | bytes x => cases b <;> rfl
  | vec x => cases b <;> simp only [valEq, OrdSpec.eq]; exact listEq_numEq x _ ha hb
  | list xs => cases b <;> simp only [valEq, OrdSpec.eq]; exact valEqList_eq_spec xs _ ha hb
  | dict kvs d => exact absurd ha (by simp [ValOK])
  | func i => cases b <;> rfl
theorem valEqList_eq_spec (xs ys : List Val) (hx : ValOKList xs) (hy : ValOKList ys) :
    valEqList xs ys = OrdSpec.eqList xs ys := by
  cases xs with
  | nil => cases ys <;> rfl
  | cons x xs =>
    cases ys with
    | nil => rfl
    | cons y ys =>
      simp only [ValOKList] at hx hy
      simp only [valEqList, OrdSpec.eqList]
      rw [valEq_eq_spec x y hx.1 hy.1, valEqList_eq_spec xs ys hx.2 hy.2]
end

theorem ncmp_eq_spec (a b : Val) (ha : ValOK a) (hb : ValOK b) : ncmp a b = OrdSpec.ncmp a b := by
  have h := valCmp_eq_spec a b ha hb
  cases a <;> cases b <;> simp only [ncmp, OrdSpec.ncmp, Val.isSeq, Bool.and_self, Bool.and_false, Bool.false_and,
    if_true, Bool.false_eq_true, if_false] <;> (try rw [← h]) <;> (try simp only [valCmp]) <;> (try rfl)

/-- every comparison operator, `<=>` and `>=<` of the real code is the Spec's -/
theorem cmpOp_eq_spec (op : String) (a b : Val) (ha : ValOK a) (hb : ValOK b) :
    cmpOp op a b = OrdSpec.cmpOp op a b := by
  unfold cmpOp OrdSpec.cmpOp
  rw [valEq_eq_spec a b ha hb, ncmp_eq_spec a b ha hb]
  split <;> (try rfl) <;>
    (cases OrdSpec.ncmp a b <;> simp only [Out.map] <;> (try rfl) <;> (rename_i o; cases o <;> rfl))


/-! ## `NNum::min` / `NNum::max` (total orders with NaN as largest / smallest) -/

theorem isNan_realValue (a : NReal) : a.isNan = (realValue a).isNone := by
  cases a with
  | int a => rfl
  | rat q => rfl
  | float f => rcases f with _ | ⟨_ | _⟩ | ⟨m, e⟩ | _ <;> rfl

theorem getD_big (x y : Option ERat) :
    (optCmp x y).getD (NReal.boolCmp x.isNone y.isNone) = compTotalCmp false x y := by
  cases x <;> cases y <;> simp [optCmp, NReal.boolCmp, compTotalCmp, compKey, Ordering.then, ERatL.cmp_refl] <;> rfl

theorem getD_small (x y : Option ERat) :
    (optCmp x y).getD (NReal.boolCmp y.isNone x.isNone) = compTotalCmp true x y := by
  cases x <;> cases y <;> simp [optCmp, NReal.boolCmp, compTotalCmp, compKey, Ordering.then, ERatL.cmp_refl] <;> rfl

theorem totalCmpBigNan_eq (a b : NReal) :
    NReal.totalCmpBigNan a b = (NReal.partialCmp a b).getD (NReal.boolCmp a.isNan b.isNan) := by
  cases a <;> cases b <;> simp only [NReal.totalCmpBigNan, NReal.partialCmp, NReal.isNan, Option.getD_some]
  · rename_i a f
    cases h : cmpNIntF64 a f with
    | some o => rfl
    | none =>
      rw [cmp_nint_f64_exact] at h
      rcases f with _ | ⟨_ | _⟩ | ⟨m, e⟩ | _ <;> simp [realValue, optCmp] at h
      rfl
  · rename_i f b
    cases h : cmpNIntF64 b f with
    | some o => rfl
    | none =>
      rw [cmp_nint_f64_exact] at h
      rcases f with _ | ⟨_ | _⟩ | ⟨m, e⟩ | _ <;> simp [realValue, optCmp] at h
      rfl

theorem totalCmpSmallNan_eq (a b : NReal) :
    NReal.totalCmpSmallNan a b = (NReal.partialCmp a b).getD (NReal.boolCmp b.isNan a.isNan) := by
  cases a <;> cases b <;> simp only [NReal.totalCmpSmallNan, NReal.partialCmp, NReal.isNan, Option.getD_some]
  · rename_i a f
    cases h : cmpNIntF64 a f with
    | some o => rfl
    | none =>
      rw [cmp_nint_f64_exact] at h
      rcases f with _ | ⟨_ | _⟩ | ⟨m, e⟩ | _ <;> simp [realValue, optCmp] at h
      rfl
  · rename_i f b
    cases h : cmpNIntF64 b f with
    | some o => rfl
    | none =>
      rw [cmp_nint_f64_exact] at h
      rcases f with _ | ⟨_ | _⟩ | ⟨m, e⟩ | _ <;> simp [realValue, optCmp] at h
      rfl

theorem nreal_totalCmpBigNan_exact (a b : NReal) :
    NReal.totalCmpBigNan a b = compTotalCmp false (realValue a) (realValue b) := by
  rw [totalCmpBigNan_eq, nreal_partialCmp_exact, isNan_realValue, isNan_realValue, getD_big]

theorem nreal_totalCmpSmallNan_exact (a b : NReal) :
    NReal.totalCmpSmallNan a b = compTotalCmp true (realValue a) (realValue b) := by
  rw [totalCmpSmallNan_eq, nreal_partialCmp_exact, isNan_realValue, isNan_realValue, getD_small]

/-- `NNum::min` / `NNum::max` (Rust API; the language's `min`/`max` are `min_max_agree`) pick by
the exact values, a NaN loses against every number, ties go left (`min`) / right (`max`) -/
theorem num_min_max_exact (a b : NNum) : NNum.min a b = numMin a b ∧ NNum.max a b = numMax a b := by
  unfold NNum.min NNum.max numMin numMax NNum.totalCmpBigNan NNum.totalCmpSmallNan numTotalCmp
  simp only [nreal_totalCmpBigNan_exact, nreal_totalCmpSmallNan_exact, re_project, im_project]
  constructor
  · cases (compTotalCmp false (reVal a) (reVal b)).then (compTotalCmp false (imVal a) (imVal b)) <;> rfl
  · cases (compTotalCmp true (reVal a) (reVal b)).then (compTotalCmp true (imVal a) (imVal b)) <;> rfl


/-! ## non-vacuity: the hypotheses are met by the boundary cases the property names -/
example : NNum.partialCmp (.int (.small 9007199254740993)) (.float (.fin 1 53)) = some .gt := by decide +kernel
example : NNum.eq (.int (.small 9007199254740993)) (.float (.fin 1 53)) = false := by decide +kernel
example : NNum.partialCmp (.rat (1/3)) (.float (.fin 6004799503160661 (-54))) = some .gt := by decide +kernel
example : NNum.partialCmp (.int (.big (2^1024))) (.float (.inf false)) = some .lt := by decide +kernel
example : NNum.partialCmp (.rat (1/2)) (.float (.inf true)) = some .gt := by decide +kernel
example : NNum.eq (.rat 1) (.complex (.fin 1 0) .nzero) = true := by decide +kernel
example : nanFree (.complex (.fin 1 0) (.inf true)) ∧ (NNum.int (.big (2^64))).WF ∧ isReal (.rat (1/2)) = true := by
  refine ⟨by unfold nanFree; decide +kernel, trivial, rfl⟩
def numOf : Val → Option NNum
  | .num n => some n
  | _ => none
example : (extremum .gt [.num (.int (.small 1)), .num (.float (.fin 1 0)), .num (.rat (1/2))]).map numOf
    = .ok (some (.int (.small 1))) := by decide +kernel
example : (sorted valCmp [.num (.int (.small 3)), .num (.float (.fin 5 (-1))), .num (.rat (1/3))]).map (List.map numOf)
    = .ok [some (.rat (1/3)), some (.float (.fin 5 (-1))), some (.int (.small 3))] := by decide +kernel
example : ncmp (.num (.float .nan)) (.num (.int (.small 1))) = .throw := by decide +kernel

example : ValOK (.list [.str [0xe9, 0x10000], .num (.int (.big (2^64))), .vec [.rat (1/2)]]) := by
  simp [ValOK, ValOKList, NNum.WF, NInt.WF]
example : valCmp (.str [0xffff]) (.str [0x10000]) = some .lt := by decide +kernel

end Noulith.C08
