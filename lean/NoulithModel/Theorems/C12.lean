/-
C12 — Patterns, destructuring, switch and runtime type annotations: property theorems.
(Helper lemmas live in `Lemmas/C12.lean`; the annotation invariant in `Theorems/C12Invariant.lean`;
the operator patterns as constructor inverses in `Theorems/C12Inverse.lean`.)

  §1  types: `v is type(v)`, `v is anything`, `is_type` = the classification `HasType`
  §3  `assign_all`'s pre-pass and drain arithmetic = the declarative arrangement (`arrange_eq_spec`)
  §4  `assign` refines the transactional reference `specAssign` (`assign_ref`, `assign_eq_spec`) for
      patterns whose `or` alternatives bind nothing in their first branch; `assign` never panics,
      for every pattern (`assign_no_panic`)
  §6  `switch` runs the first arm that matches (`switch_first_match`), `catch`, lambda parameters
  §7  the recorded defect: `or` does not roll back — the unrestricted statement is refuted
  §10 the statements of the relational layer (`…_statement`; discharged in C12Matches0 / C12Matches)
-/
import NoulithModel.Lemmas.C12

namespace Noulith.C12

/-! ## §1 types -/

/-- `is_type_of` (first half): every value is of the type `type` reports for it. -/
theorem isType_typeOf (v : Val) : isType (typeOf v) v = .ok true := by
  cases v <;> rfl

/-- `is_type_of` (second half): every value is `anything`. -/
theorem isType_any (v : Val) : isType .any v = .ok true := by
  cases v <;> rfl

theorem isType_eq_specIs (T : Ty) (v : Val) : isType T v = specIs v T := by
  cases T <;> cases v <;> simp [isType, specIs, typeOf, isNum] <;> exact eq_comm

theorem specIs_iff_HasType (T : Ty) (v : Val) : specIs v T = .ok true ↔ HasType v T := by
  cases T <;> cases v <;> simp [specIs, HasType, typeOf] <;> exact eq_comm

theorem arrange_eq_spec (ps : List Pat) (items : List Val) :
    arrange ps items.length items = optToOut (specArrange ps items) := by
  have hlen := splatIdxs_length ps 0
  have hpp := prePass_init items.length ps
  unfold specArrange
  cases hs : splatIdxs ps 0 with
  | nil =>
    rw [hs] at hlen
    obtain ⟨hns, hfs⟩ := splatIdxs_nil ps 0 hs
    have fl := fill_lemma items.length ps 0 hns
    simp only [Nat.sub_zero] at fl
    have hn0 : nSplat ps = 0 := by simpa using hlen.symm
    have hn2 : ¬ nSplat ps ≥ 2 := by omega
    cases hm : (ps.drop items.length).mapM defaultOf with
    | some ds =>
      simp only [hm] at fl
      have hpp' : prePass items.length ps 0 none [] = .ok { splat := none, defaults := ds } := by
        rw [hpp]; simp [hn2, fl.1, fl.2, hfs]
      rw [arrange_noSplat ps items.length items ds hpp']
      by_cases hl : (items ++ ds).length = ps.length
      · have h1 : ps.length = items.length + ds.length := by simp at hl; omega
        simp [hl, h1, optToOut]
      · have h1 : ¬ ps.length = (items ++ ds).length := fun h => hl h.symm
        have h2 : ¬ ps.length = items.length + ds.length := by simpa using h1
        simp only [hl, if_false, optToOut]
        simp [h2]
    | none =>
      simp only [hm] at fl
      simp only [optToOut]
      by_cases hv : violP items.length ps 0 false = true
      · exact arrange_throw _ _ _ (by rw [hpp]; simp [hv])
      · have hlt : (inPlayP items.length ps 0).length + items.length < ps.length := by
          rcases fl with h | h
          · exact absurd h hv
          · exact h
        have hpp' : prePass items.length ps 0 none [] =
            .ok { splat := none, defaults := inPlayP items.length ps 0 } := by
          rw [hpp]; simp [hn2, hv, hfs]
        rw [arrange_noSplat ps items.length items _ hpp']
        have : ¬ ps.length = items.length + (inPlayP items.length ps 0).length := by omega
        simp [this]
  | cons si rest =>
    cases rest with
    | nil =>
      rw [hs] at hlen
      have hn1 : nSplat ps = 1 := by simpa using hlen.symm
      have hn2 : ¬ nSplat ps ≥ 2 := by omega
      obtain ⟨j, hj1, hj2, hj3, hj4, hj5, hj6⟩ := splatIdxs_single items.length ps 0 si hs
      have hj : j = si := by omega
      subst hj
      have fl := fill_lemma items.length (ps.take j ++ ps.drop (j + 1)) 0 hj4
      simp only [Nat.sub_zero] at fl
      have hql : (ps.take j ++ ps.drop (j + 1)).length = ps.length - 1 := by
        simp; omega
      cases hm : ((ps.take j ++ ps.drop (j + 1)).drop items.length).mapM defaultOf with
      | some ds =>
        simp only [hm] at fl
        have hpp' : prePass items.length ps 0 none [] = .ok { splat := some j, defaults := ds } := by
          rw [hpp]; simp [hn2, hj6, hj5, fl.1, fl.2, hj3]
        rw [arrange_splat ps items.length items ds j hpp' hj2]
        simp only [hql, hm]
        by_cases hl : (items ++ ds).length + 1 < ps.length
        · have : (items ++ ds).length < ps.length - 1 := by omega
          simp only [hl, this, if_true, optToOut]
        · have : ¬ (items ++ ds).length < ps.length - 1 := by omega
          simp only [hl, this, if_false, optToOut]
      | none =>
        simp only [hm] at fl
        simp only [hm, optToOut]
        by_cases hv : violP items.length ps 0 false = true
        · exact arrange_throw _ _ _ (by rw [hpp]; simp [hv])
        · have hlt : (inPlayP items.length ps 0).length + items.length < ps.length - 1 := by
            rcases fl with h | h
            · rw [← hj6] at h; exact absurd h hv
            · rw [← hj5, hql] at h; exact h
          have hpp' : prePass items.length ps 0 none [] =
              .ok { splat := some j, defaults := inPlayP items.length ps 0 } := by
            rw [hpp]; simp [hn2, hv, hj3]
          rw [arrange_splat ps items.length items _ j hpp' hj2]
          have : (items ++ inPlayP items.length ps 0).length + 1 < ps.length := by simp; omega
          simp only [this, if_true]
    | cons sj rest' =>
      rw [hs] at hlen
      have : nSplat ps ≥ 2 := by simp at hlen; omega
      simp only [optToOut]
      exact arrange_throw _ _ _ (by rw [hpp]; simp [this])

/-! ## §4 `assign` refines `specAssign` -/

mutual
def noIdents : Pat → Bool
  | .underscore => true
  | .ident _ _ => false
  | .anno p _ => noIdents p
  | .withDefault p _ => noIdents p
  | .seq ps _ => noIdentsL ps
  | .splat p => noIdents p
  | .or a b => noIdents a && noIdents b
  | .and a b => noIdents a && noIdents b
  | .lit _ => true
  | .destr _ ps => noIdentsL ps
  | .destrStruct _ ps => noIdentsL ps
def noIdentsL : List Pat → Bool
  | [] => true
  | p :: ps => noIdents p && noIdentsL ps
end

mutual
/-- the first alternative of every `or` binds nothing (so that a failing alternative cannot leave
anything behind) -/
def orClean : Pat → Bool
  | .underscore => true
  | .ident _ _ => true
  | .anno p _ => orClean p
  | .withDefault p _ => orClean p
  | .seq ps _ => orCleanL ps
  | .splat p => orClean p
  | .or a b => noIdents a && orClean a && orClean b
  | .and a b => orClean a && orClean b
  | .lit _ => true
  | .destr _ ps => orCleanL ps
  | .destrStruct _ ps => orCleanL ps
def orCleanL : List Pat → Bool
  | [] => true
  | p :: ps => orClean p && orCleanL ps
end

mutual
theorem assign_noIdents_env (e : Env) : ∀ (p : Pat) (rt : Option Ty) (v : Val),
    noIdents p = true → (assign e p rt v).1 = e
  | .underscore, rt, v, _ => by
      unfold assign; cases rt <;> simp
      split <;> rfl
  | .ident _ _, _, _, h => by simp [noIdents] at h
  | .anno s ann, rt, v, h => by
      unfold assign
      cases ann with
      | none => exact assign_noIdents_env e s _ v (by simpa [noIdents] using h)
      | some t =>
        simp only []
        split
        · exact assign_noIdents_env e s _ v (by simpa [noIdents] using h)
        · rfl
        · rfl
  | .withDefault s _, rt, v, h => by
      unfold assign; exact assign_noIdents_env e s rt v (by simpa [noIdents] using h)
  | .seq ss d, rt, v, h => by
      unfold assign
      simp only []
      split
      · rfl
      · rfl
      · split
        · split
          · exact assignItems_noIdents_env e ss _ _ (by simpa [noIdents] using h)
          · rfl
          · rfl
        · rfl
  | .splat _, _, _, _ => by unfold assign; rfl
  | .or a b, rt, v, h => by
      unfold assign
      simp [noIdents] at h
      have ha := assign_noIdents_env e a rt v h.1
      split
      · next e' heq => rw [heq] at ha; exact ha
      · next e' heq => rw [heq] at ha; exact ha
      · next e' heq =>
        rw [heq] at ha; simp at ha; rw [ha]
        exact assign_noIdents_env e b rt v h.2
  | .and a b, rt, v, h => by
      unfold assign
      simp [noIdents] at h
      have ha := assign_noIdents_env e a rt v h.1
      split
      · next e' heq =>
        rw [heq] at ha; simp at ha; rw [ha]
        exact assign_noIdents_env e b rt v h.2
      · exact ha
  | .lit l, _, v, _ => by unfold assign; split <;> rfl
  | .destr f args, rt, v, h => by
      unfold assign
      split
      · split
        · split
          · exact assignItems_noIdents_env e args _ _ (by simpa [noIdents] using h)
          · rfl
          · rfl
        · rfl
      · rfl
      · rfl
  | .destrStruct sid args, rt, v, h => by
      unfold assign
      split
      · split
        · split
          · exact assignItems_noIdents_env e args _ _ (by simpa [noIdents] using h)
          · rfl
          · rfl
        · rfl
      · rfl
theorem assignItems_noIdents_env (e : Env) : ∀ (ps : List Pat) (rt : Option Ty) (vs : List Val),
    noIdentsL ps = true → (assignItems e ps rt vs).1 = e
  | [], _, _, _ => by rw [assignItems_nil]
  | _ :: _, _, [], _ => by rw [assignItems_cons_nil]
  | p :: ps, rt, v :: vs, h => by
      simp [noIdentsL] at h
      have key : ∀ (r : Env × Out Unit), r.1 = e →
          (stepItems r (fun e' => assignItems e' ps rt vs)).1 = e := by
        intro r hr
        obtain ⟨e', o⟩ := r
        simp at hr
        rw [hr]
        cases o with
        | ok u => exact assignItems_noIdents_env e ps rt vs h.2
        | throw => rfl
        | panic => rfl
      cases p with
      | splat inner =>
        rw [assignItems_splat]
        exact key _ (assign_noIdents_env e inner rt v (by simpa [noIdents] using h.1))
      | anno q ann =>
        cases q with
        | splat inner =>
          rw [assignItems_annoSplat]
          apply key
          have hi : noIdents inner = true := by simpa [noIdents] using h.1
          cases ann with
          | none => exact assign_noIdents_env e inner _ v hi
          | some t =>
            simp only []
            split
            · exact assign_noIdents_env e inner _ v hi
            · rfl
            · rfl
        | _ =>
          rw [assignItems_other _ _ _ _ _ _ (by simp [isSplatItem])]
          exact key _ (assign_noIdents_env e _ rt v h.1)
      | _ =>
        rw [assignItems_other _ _ _ _ _ _ (by simp [isSplatItem])]
        exact key _ (assign_noIdents_env e _ rt v h.1)
end

theorem destructure_no_panic (f : Bi) (v : Val) (known : List (Option Val)) :
    destructure f v known ≠ .panic := by
  cases f with
  | plus =>
    simp only [destructure]
    have key : ∀ (a : Val) (mk : Val → List Val),
        (match arith (· - ·) v a with
          | .ok diff => (match exactNum diff with
              | some d => if d ≥ 0 then Out.ok (mk diff) else .throw
              | none => .throw)
          | r => r.map fun _ => []) ≠ Out.panic := by
      intro a mk
      cases ha : arith (· - ·) v a with
      | ok diff => simp only []; split <;> (try split) <;> simp
      | throw => simp [Out.map]
      | panic => exact absurd ha (arith_no_panic _ _ _)
    split
    · split
      · exact key _ _
      · simp
    · split
      · exact key _ _
      · simp
    · simp
  | minus =>
    simp only [destructure]
    split
    · exact Out.map_ne_panic _ _ (negVal_no_panic v)
    · simp
  | times =>
    simp only [destructure]
    have key : ∀ (a : Val) (mk : Val → List Val), isNonzero a = true →
        (match remNum v a with
          | .ok r => if isNonzero r then Out.throw else (divFloorNum v a).map mk
          | r => r.map fun _ => []) ≠ Out.panic := by
      intro a mk hnz
      cases ha : remNum v a with
      | ok r =>
        simp only []
        split
        · simp
        · exact Out.map_ne_panic _ _ (divFloorNum_no_panic _ _ hnz)
      | throw => simp [Out.map]
      | panic => exact absurd ha (remNum_no_panic _ _ hnz)
    split
    · split
      · split
        · simp
        · next hnz => exact key _ _ (by simpa using hnz)
      · simp
    · split
      · split
        · simp
        · next hnz => exact key _ _ (by simpa using hnz)
      · simp
    · simp
  | divide => simp only [destructure]; split <;> simp
  | append =>
    simp only [destructure]
    split <;> simp
    next h => exact unsnoc_no_panic v h
  | prepend =>
    simp only [destructure]
    split <;> simp
    next h => exact uncons_no_panic v h
  | cmp ops =>
    simp only [destructure]
    split
    · simp
    · split
      · simp
      · split
        · simp
        · split
          · simp
          · split <;> simp
            next h => exact cmpChain_no_panic _ _ h
  | other t => simp [destructure]

/-- what it means for the interpreter's `assign` to implement the reference: same success, same
resulting environment; raising exactly when the reference has no result; never a panic -/
def Ref (r : Env × Out Unit) (s : Option Env) : Prop :=
  match r.2 with
  | .ok _ => s = some r.1
  | .throw => s = none
  | .panic => False

theorem specArrange_length (ps : List Pat) (items arr : List Val)
    (h : specArrange ps items = some arr) : arr.length = ps.length := by
  unfold specArrange at h
  cases hs : splatIdxs ps 0 with
  | nil =>
    simp only [hs] at h
    split at h
    · split at h
      · next hl => simp at h; subst h; exact hl
      · simp at h
    · simp at h
  | cons si rest =>
    cases rest with
    | nil =>
      simp only [hs] at h
      obtain ⟨j, hj1, hj2, _⟩ := splatIdxs_single 0 ps 0 si hs
      have hj : j = si := by omega
      subst hj
      split at h
      · next ds hm =>
        split at h
        · simp at h
        · next hlt =>
          simp at h
          subst h
          simp at hlt ⊢
          omega
      · simp at h
    | cons sj r => simp [hs] at h

theorem arrange_length (ps : List Pat) (items arr : List Val)
    (h : arrange ps items.length items = .ok arr) : arr.length = ps.length := by
  rw [arrange_eq_spec] at h
  cases hs : specArrange ps items with
  | none => simp [hs, optToOut] at h
  | some a =>
    simp [hs, optToOut] at h
    subst h
    exact specArrange_length ps items a hs

theorem arrange_cases (ps : List Pat) (items : List Val) :
    (∃ arr, arrange ps items.length items = .ok arr ∧ specArrange ps items = some arr ∧ arr.length = ps.length)
    ∨ (arrange ps items.length items = .throw ∧ specArrange ps items = none) := by
  rw [arrange_eq_spec]
  cases hs : specArrange ps items with
  | none => right; simp [optToOut]
  | some a => left; exact ⟨a, by simp [optToOut], rfl, specArrange_length ps items a hs⟩

theorem ref_insertDeclare (e : Env) (x : Nat) (T : Ty) (v : Val) :
    Ref (insertDeclare e x T v)
      (if isType T v = .ok true then outToOption (match e.insert x T v with | (e', r) => r.map fun _ => e') else none) := by
  unfold insertDeclare Ref
  cases hty : isType T v with
  | ok b =>
    cases b with
    | true =>
      simp only [if_true]
      unfold Env.insert
      cases e with
      | nil => simp [outToOption, Out.map]
      | cons f rest =>
        simp only []
        by_cases hf : f.has x = true <;> simp [hf, outToOption, Out.map]
    | false => simp
  | throw => simp
  | panic => exact absurd hty (isType_no_panic _ _)

theorem ref_step (r : Env × Out Unit) (s : Option Env) (k : Env → Env × Out Unit) (ks : Env → Option Env)
    (h : Ref r s) (hk : ∀ e', Ref (k e') (ks e')) : Ref (stepItems r k) (s.bind ks) := by
  obtain ⟨e', o⟩ := r
  cases o with
  | ok u =>
    simp [Ref] at h
    subst h
    simp [stepItems]
    exact hk e'
  | throw =>
    simp [Ref] at h
    subst h
    simp [stepItems, Ref]
  | panic => simp [Ref] at h

theorem tail_ref (e : Env) (ss : List Pat) (rt' : Option Ty) (items : List Val)
    (ih : ∀ arr : List Val, ss.length = arr.length → Ref (assignItems e ss rt' arr) (specAssignItems e ss rt' arr)) :
    Ref (match arrange ss items.length items with
          | .ok arranged => assignItems e ss rt' arranged
          | .throw => (e, .throw)
          | .panic => (e, .panic))
        (match specArrange ss items with
          | some arr => specAssignItems e ss rt' arr
          | none => none) := by
  rcases arrange_cases ss items with ⟨arr, h1, h2, h3⟩ | ⟨h1, h2⟩
  · rw [h1, h2]; exact ih arr h3.symm
  · rw [h1, h2]; simp [Ref]

mutual
theorem assign_ref (e : Env) : ∀ (p : Pat) (rt : Option Ty) (v : Val), orClean p = true →
    Ref (assign e p rt v) (specAssign e p rt v)
  | .underscore, rt, v, _ => by
      unfold assign specAssign
      cases rt with
      | none => simp [Ref]
      | some T =>
        simp only []
        cases hty : isType T v with
        | ok b => cases b <;> simp [Ref]
        | throw => simp [Ref]
        | panic => exact absurd hty (isType_no_panic _ _)
  | .ident x ixs, rt, v, _ => by
      unfold assign specAssign
      cases rt with
      | some T =>
        cases ixs with
        | nil =>
          simp only [List.isEmpty_nil, true_and]
          exact ref_insertDeclare e x T v
        | cons i is => simp [Ref]
      | none =>
        simp only []
        have hnp := assignRespectingType_no_panic e x ixs v
        rcases hr : assignRespectingType e x ixs v with ⟨e', o⟩
        cases o with
        | ok u => simp [Ref]
        | throw => simp [Ref]
        | panic => simp [hr] at hnp
  | .anno s ann, rt, v, h => by
      unfold assign
      cases ann with
      | none =>
        simp only [specAssign]
        exact assign_ref e s _ v (by simpa [orClean] using h)
      | some t =>
        simp only [specAssign]
        cases ht : toType t with
        | ok ty => exact assign_ref e s _ v (by simpa [orClean] using h)
        | throw => simp [Ref]
        | panic => cases t <;> simp [toType] at ht
  | .withDefault s _, rt, v, h => by
      unfold assign specAssign
      exact assign_ref e s rt v (by simpa [orClean] using h)
  | .seq ss d, rt, v, h => by
      have hss : orCleanL ss = true := by simpa [orClean] using h
      unfold assign specAssign
      cases d with
      | false =>
        simp only [Bool.false_eq_true, if_false]
        rcases seq_view_cases v with ⟨items, h1, h2⟩ | ⟨h1, h2⟩
        · simp only [h1, h2, seqView]
          exact tail_ref e ss (rt) items (fun arr hl => assignItems_ref e ss (rt) arr hss hl)
        · simp [h1, h2, seqView, Ref]
      | true =>
        cases rt with
        | none =>
          simp only [if_true, Option.map_none]
          rcases seq_view_cases v with ⟨items, h1, h2⟩ | ⟨h1, h2⟩
          · simp only [h1, h2, seqView]
            exact tail_ref e ss (none) items (fun arr hl => assignItems_ref e ss (none) arr hss hl)
          · simp [h1, h2, seqView, Ref]
        | some T =>
          cases hty : isType T v with
          | ok b =>
            cases b with
            | true =>
              simp only [hty, if_true, Option.map_some, decide_true]
              rcases seq_view_cases v with ⟨items, h1, h2⟩ | ⟨h1, h2⟩
              · simp only [h1, h2, seqView]
                exact tail_ref e ss (some Ty.any) items (fun arr hl => assignItems_ref e ss (some Ty.any) arr hss hl)
              · simp [h1, h2, seqView, Ref]
            | false => simp only [hty]; simp [Ref]
          | throw => simp only [hty]; simp [Ref]
          | panic => exact absurd hty (isType_no_panic _ _)
  | .splat _, _, _, _ => by unfold assign specAssign; simp [Ref]
  | .or a b, rt, v, h => by
      unfold assign specAssign
      simp [orClean] at h
      have ha := assign_ref e a rt v h.1.2
      have hfr := assign_noIdents_env e a rt v h.1.1
      rcases hr : assign e a rt v with ⟨e', o⟩
      rw [hr] at ha hfr
      simp at hfr
      subst hfr
      cases o with
      | ok u =>
        simp [Ref] at ha
        simp [Ref, ha]
      | throw =>
        simp [Ref] at ha
        simp only [ha]
        exact assign_ref e' b rt v h.2
      | panic => simp [Ref] at ha
  | .and a b, rt, v, h => by
      unfold assign specAssign
      simp [orClean] at h
      have ha := assign_ref e a rt v h.1
      rcases hr : assign e a rt v with ⟨e', o⟩
      rw [hr] at ha
      cases o with
      | ok u =>
        simp [Ref] at ha
        simp only [ha]
        exact assign_ref e' b rt v h.2
      | throw =>
        simp [Ref] at ha
        simp [Ref, ha]
      | panic => simp [Ref] at ha
  | .lit l, _, v, _ => by
      unfold assign specAssign
      by_cases hv : veq l v = true <;> simp [hv, Ref]
  | .destr f args, rt, v, h => by
      have hss : orCleanL args = true := by simpa [orClean] using h
      unfold assign specAssign
      cases hd : destructure f v (args.map knownOf) with
      | ok res =>
        simp only []
        by_cases hl : res.length = args.length
        · simp only [hl, beq_self_eq_true, if_true]
          rw [← hl]
          exact tail_ref e args rt res (fun arr hl' => assignItems_ref e args rt arr hss hl')
        · simp [hl, Ref]
      | throw => simp [Ref]
      | panic => exact absurd hd (destructure_no_panic _ _ _)
  | .destrStruct sid args, rt, v, h => by
      have hss : orCleanL args = true := by simpa [orClean] using h
      unfold assign specAssign
      cases v with
      | inst sid' fields =>
        simp only []
        by_cases hs : sid = sid'
        · simp only [hs, beq_self_eq_true, if_true]
          exact tail_ref e args rt fields (fun arr hl' => assignItems_ref e args rt arr hss hl')
        · simp [hs, Ref]
      | _ => simp [Ref]
theorem assignItems_ref (e : Env) : ∀ (ps : List Pat) (rt : Option Ty) (vs : List Val),
    orCleanL ps = true → ps.length = vs.length →
    Ref (assignItems e ps rt vs) (specAssignItems e ps rt vs)
  | [], rt, [], _, _ => by rw [assignItems_nil, specAssignItems_nil]; simp [Ref]
  | [], _, _ :: _, _, hl => by simp at hl
  | _ :: _, _, [], _, hl => by simp at hl
  | p :: ps, rt, v :: vs, h, hl => by
      simp [orCleanL] at h
      have hl' : ps.length = vs.length := by simpa using hl
      have rest : ∀ e', Ref (assignItems e' ps rt vs) (specAssignItems e' ps rt vs) :=
        fun e' => assignItems_ref e' ps rt vs h.2 hl'
      cases p with
      | splat inner =>
        rw [assignItems_splat, specAssignItems_splat]
        exact ref_step _ _ _ _ (assign_ref e inner rt v (by simpa [orClean] using h.1)) rest
      | anno q ann =>
        cases q with
        | splat inner =>
          rw [assignItems_annoSplat, specAssignItems_annoSplat]
          apply ref_step _ _ _ _ _ rest
          have hi : orClean inner = true := by simpa [orClean] using h.1
          cases ann with
          | none => exact assign_ref e inner _ v hi
          | some t =>
            simp only []
            cases ht : toType t with
            | ok ty => exact assign_ref e inner _ v hi
            | throw => simp [Ref]
            | panic => cases t <;> simp [toType] at ht
        | _ =>
          rw [assignItems_other _ _ _ _ _ _ (by simp [isSplatItem]), specAssignItems_other _ _ _ _ _ _ (by simp [isSplatItem])]
          exact ref_step _ _ _ _ (assign_ref e _ rt v h.1) rest
      | _ =>
        rw [assignItems_other _ _ _ _ _ _ (by simp [isSplatItem]), specAssignItems_other _ _ _ _ _ _ (by simp [isSplatItem])]
        exact ref_step _ _ _ _ (assign_ref e _ rt v h.1) rest
end

theorem arrange_no_panic (ps : List Pat) (items : List Val) : arrange ps items.length items ≠ .panic := by
  rw [arrange_eq_spec]; cases specArrange ps items <;> simp [optToOut]

theorem stepItems_no_panic (r : Env × Out Unit) (k : Env → Env × Out Unit)
    (h : r.2 ≠ .panic) (hk : ∀ e', (k e').2 ≠ .panic) : (stepItems r k).2 ≠ .panic := by
  obtain ⟨e', o⟩ := r
  cases o with
  | ok u => exact hk e'
  | throw => simp [stepItems]
  | panic => simp at h

theorem tail_no_panic (e : Env) (ss : List Pat) (rt' : Option Ty) (items : List Val)
    (ih : ∀ arr : List Val, (assignItems e ss rt' arr).2 ≠ .panic) :
    (match arrange ss items.length items with
      | .ok arranged => assignItems e ss rt' arranged
      | .throw => (e, .throw)
      | .panic => (e, .panic)).2 ≠ .panic := by
  cases h : arrange ss items.length items with
  | ok arr => exact ih arr
  | throw => simp
  | panic => exact absurd h (arrange_no_panic ss items)

mutual
/-- `assign` never panics: every unchecked machine operation in `assign_all` (the usize
subtractions, the drain bounds) and in the destructuring builtins (`%` and `div_floor` by zero) is
unreachable, for every pattern, declared type and value. -/
theorem assign_no_panic (e : Env) : ∀ (p : Pat) (rt : Option Ty) (v : Val), (assign e p rt v).2 ≠ .panic
  | .underscore, rt, v => by
      unfold assign
      cases rt with
      | none => simp
      | some T =>
        simp only []
        cases hty : isType T v with
        | ok b => cases b <;> simp
        | throw => simp
        | panic => exact absurd hty (isType_no_panic _ _)
  | .ident x ixs, rt, v => by
      unfold assign
      cases rt with
      | some T =>
        cases ixs with
        | nil => exact insertDeclare_no_panic e x T v
        | cons i is => simp
      | none => exact assignRespectingType_no_panic e x ixs v
  | .anno s ann, rt, v => by
      unfold assign
      cases ann with
      | none => exact assign_no_panic e s _ v
      | some t =>
        simp only []
        cases ht : toType t with
        | ok ty => exact assign_no_panic e s _ v
        | throw => simp
        | panic => cases t <;> simp [toType] at ht
  | .withDefault s _, rt, v => by
      unfold assign; exact assign_no_panic e s rt v
  | .seq ss d, rt, v => by
      have fin : ∀ rt' : Option Ty, (match patLen v, seqItems v with
            | some len, some items =>
              (match arrange ss len items with
               | .ok arranged => assignItems e ss rt' arranged
               | .throw => (e, .throw)
               | .panic => (e, .panic))
            | _, _ => (e, .throw)).2 ≠ .panic := by
        intro rt'
        rcases seq_view_cases v with ⟨items, h1, h2⟩ | ⟨h1, h2⟩
        · rw [h1, h2]; exact tail_no_panic e ss rt' items (fun arr => assignItems_no_panic e ss rt' arr)
        · rw [h1, h2]; simp
      unfold assign
      cases d with
      | false => simp only [Bool.false_eq_true, if_false]; exact fin rt
      | true =>
        cases rt with
        | none => simp only [if_true]; exact fin none
        | some T =>
          cases hty : isType T v with
          | ok b =>
            cases b with
            | true => simp only [hty, if_true]; exact fin _
            | false => simp only [hty]; simp
          | throw => simp only [hty]; simp
          | panic => exact absurd hty (isType_no_panic _ _)
  | .splat _, _, _ => by unfold assign; simp
  | .or a b, rt, v => by
      unfold assign
      have ha := assign_no_panic e a rt v
      rcases hr : assign e a rt v with ⟨e', o⟩
      rw [hr] at ha
      cases o with
      | ok u => simp
      | throw => exact assign_no_panic e' b rt v
      | panic => simp at ha
  | .and a b, rt, v => by
      unfold assign
      have ha := assign_no_panic e a rt v
      rcases hr : assign e a rt v with ⟨e', o⟩
      rw [hr] at ha
      cases o with
      | ok u => exact assign_no_panic e' b rt v
      | throw => simp
      | panic => simp at ha
  | .lit l, _, v => by unfold assign; split <;> simp
  | .destr f args, rt, v => by
      unfold assign
      cases hd : destructure f v (args.map knownOf) with
      | ok res =>
        simp only []
        by_cases hl : res.length = args.length
        · simp only [hl, beq_self_eq_true, if_true]
          rw [← hl]
          exact tail_no_panic e args rt res (fun arr => assignItems_no_panic e args rt arr)
        · simp [hl]
      | throw => simp
      | panic => exact absurd hd (destructure_no_panic _ _ _)
  | .destrStruct sid args, rt, v => by
      unfold assign
      cases v with
      | inst sid' fields =>
        simp only []
        by_cases hs : sid = sid'
        · simp only [hs, beq_self_eq_true, if_true]
          exact tail_no_panic e args rt fields (fun arr => assignItems_no_panic e args rt arr)
        · simp [hs]
      | _ => simp
theorem assignItems_no_panic (e : Env) : ∀ (ps : List Pat) (rt : Option Ty) (vs : List Val),
    (assignItems e ps rt vs).2 ≠ .panic
  | [], rt, vs => by rw [assignItems_nil]; simp
  | _ :: _, _, [] => by rw [assignItems_cons_nil]; simp
  | p :: ps, rt, v :: vs => by
      have rest : ∀ e', (assignItems e' ps rt vs).2 ≠ .panic := fun e' => assignItems_no_panic e' ps rt vs
      cases p with
      | splat inner =>
        rw [assignItems_splat]
        exact stepItems_no_panic _ _ (assign_no_panic e inner rt v) rest
      | anno q ann =>
        cases q with
        | splat inner =>
          rw [assignItems_annoSplat]
          apply stepItems_no_panic _ _ _ rest
          cases ann with
          | none => exact assign_no_panic e inner _ v
          | some t =>
            simp only []
            cases ht : toType t with
            | ok ty => exact assign_no_panic e inner _ v
            | throw => simp
            | panic => cases t <;> simp [toType] at ht
        | _ =>
          rw [assignItems_other _ _ _ _ _ _ (by simp [isSplatItem])]
          exact stepItems_no_panic _ _ (assign_no_panic e _ rt v) rest
      | _ =>
        rw [assignItems_other _ _ _ _ _ _ (by simp [isSplatItem])]
        exact stepItems_no_panic _ _ (assign_no_panic e _ rt v) rest
end

/-- **Impl = Spec for binding** (`assign_sound_complete`, executable form).  For every environment,
declared-type context and value, and every pattern whose `or` nodes bind nothing in their first
alternative: `assign` succeeds exactly when the transactional reference does, with the same
resulting environment; otherwise it raises. -/
theorem assign_eq_spec (e : Env) (p : Pat) (rt : Option Ty) (v : Val) (h : orClean p = true) :
    (∀ e', specAssign e p rt v = some e' → assign e p rt v = (e', .ok ())) ∧
    (specAssign e p rt v = none → (assign e p rt v).2 = .throw) := by
  have hr := assign_ref e p rt v h
  rcases hq : assign e p rt v with ⟨e1, o⟩
  rw [hq] at hr
  cases o with
  | ok u =>
    simp [Ref] at hr
    constructor
    · intro e' he; rw [hr] at he; simp at he; subst he; rfl
    · intro hn; rw [hr] at hn; simp at hn
  | throw =>
    simp [Ref] at hr
    constructor
    · intro e' he; rw [hr] at he; simp at he
    · intro _; rfl
  | panic => simp [Ref] at hr

def orCleanAll (ps : List Pat) : Prop := ∀ p ∈ ps, orClean p = true

/-- `switch` on the code side = `specSwitch` (first arm whose pattern accepts) -/
theorem switchArm_eq_spec (e : Env) (s : Val) : ∀ (arms : List Pat) (i : Nat), orCleanAll arms →
    switchArm e s arms i = optToOut (specSwitch e s arms i) := by
  intro arms
  induction arms with
  | nil => intro i _; rfl
  | cons p arms ih =>
    intro i h
    have hp : orClean p = true := h p (by simp)
    have hr := assign_ref ([] :: e) p (some .any) s hp
    unfold switchArm specSwitch
    rcases hq : assign ([] :: e) p (some .any) s with ⟨e1, o⟩
    rw [hq] at hr
    cases o with
    | ok u => simp [Ref] at hr; simp [hr, optToOut]
    | throw =>
      simp [Ref] at hr
      simp only [hr]
      exact ih (i + 1) (fun q hq => h q (by simp [hq]))
    | panic => simp [Ref] at hr

/-- what `specSwitch` computes: the least index whose arm accepts -/
theorem specSwitch_some (e : Env) (s : Val) : ∀ (arms : List Pat) (i k : Nat) (ee : Env),
    specSwitch e s arms i = some (k, ee) ↔
      ∃ j, k = i + j ∧ j < arms.length ∧
        (∃ p, arms[j]? = some p ∧ specAssign ([] :: e) p (some .any) s = some ee) ∧
        ∀ j' < j, ∀ q, arms[j']? = some q → specAssign ([] :: e) q (some .any) s = none := by
  intro arms
  induction arms with
  | nil => intro i k ee; simp [specSwitch]
  | cons p arms ih =>
    intro i k ee
    unfold specSwitch
    cases hp : specAssign ([] :: e) p (some .any) s with
    | some e1 =>
      simp only []
      constructor
      · intro h
        simp at h
        obtain ⟨rfl, rfl⟩ := h
        exact ⟨0, by simp, by simp, ⟨p, by simp, hp⟩, by intro j' hj'; omega⟩
      · rintro ⟨j, hk, hj, ⟨q, hq, hqs⟩, hall⟩
        cases j with
        | zero => simp at hq; subst hq; rw [hp] at hqs; simp at hqs; subst hqs; simp [hk]
        | succ j =>
          have := hall 0 (by omega) p (by simp)
          rw [hp] at this; simp at this
    | none =>
      simp only []
      rw [ih (i + 1) k ee]
      constructor
      · rintro ⟨j, hk, hj, ⟨q, hq, hqs⟩, hall⟩
        refine ⟨j + 1, by omega, by simp; omega, ⟨q, by simpa using hq, hqs⟩, ?_⟩
        intro j' hj' q' hq'
        cases j' with
        | zero => simp at hq'; subst hq'; exact hp
        | succ j' => exact hall j' (by omega) q' (by simpa using hq')
      · rintro ⟨j, hk, hj, ⟨q, hq, hqs⟩, hall⟩
        cases j with
        | zero => simp at hq; subst hq; rw [hp] at hqs; simp at hqs
        | succ j =>
          refine ⟨j, by omega, by simp at hj; omega, ⟨q, by simpa using hq, hqs⟩, ?_⟩
          intro j' hj' q' hq'
          exact hall (j' + 1) (by omega) q' (by simpa using hq')

theorem specSwitch_none (e : Env) (s : Val) : ∀ (arms : List Pat) (i : Nat),
    specSwitch e s arms i = none ↔ ∀ p ∈ arms, specAssign ([] :: e) p (some .any) s = none := by
  intro arms
  induction arms with
  | nil => intro i; simp [specSwitch]
  | cons p arms ih =>
    intro i
    unfold specSwitch
    cases hp : specAssign ([] :: e) p (some .any) s with
    | some e1 => simp [hp]
    | none => simp [hp, ih (i + 1)]

/-- **`switch_first_match`**: `switch` runs arm `k` (with the bindings of that arm's pattern, in a
fresh frame) iff arm `k` accepts the scrutinee and no earlier arm does; it raises iff no arm
accepts; it never panics. -/
theorem switch_first_match (e : Env) (s : Val) (arms : List Pat) (h : orCleanAll arms) :
    (∀ k ee, switchArm e s arms 0 = .ok (k, ee) ↔
      k < arms.length ∧
      (∃ p, arms[k]? = some p ∧ specAssign ([] :: e) p (some .any) s = some ee) ∧
      ∀ j < k, ∀ q, arms[j]? = some q → specAssign ([] :: e) q (some .any) s = none) ∧
    (switchArm e s arms 0 = .throw ↔ ∀ p ∈ arms, specAssign ([] :: e) p (some .any) s = none) ∧
    switchArm e s arms 0 ≠ .panic := by
  rw [switchArm_eq_spec e s arms 0 h]
  refine ⟨?_, ?_, ?_⟩
  · intro k ee
    cases hs : specSwitch e s arms 0 with
    | none =>
      simp only [optToOut]
      constructor
      · intro h'; simp at h'
      · rintro ⟨hk, ⟨p, hp, hps⟩, _⟩
        have := (specSwitch_none e s arms 0).mp hs p (List.mem_of_getElem? hp)
        rw [this] at hps; simp at hps
    | some r =>
      obtain ⟨k', ee'⟩ := r
      simp only [optToOut]
      have := specSwitch_some e s arms 0 k' ee'
      constructor
      · intro h'
        simp at h'
        obtain ⟨rfl, rfl⟩ := h'
        obtain ⟨j, hj1, hj2, hj3, hj4⟩ := this.mp hs
        have : j = k' := by omega
        subst this
        exact ⟨hj2, hj3, hj4⟩
      · rintro ⟨hk, hp, hall⟩
        have h2 := (specSwitch_some e s arms 0 k ee).mpr ⟨k, by omega, hk, hp, hall⟩
        rw [hs] at h2
        simp at h2
        simp [h2]
  · cases hs : specSwitch e s arms 0 with
    | none => simp [optToOut, ← specSwitch_none e s arms 0, hs]
    | some r =>
      simp only [optToOut]
      constructor
      · intro h'; simp at h'
      · intro h'
        have := (specSwitch_none e s arms 0).mpr h'
        rw [hs] at this; simp at this
  · cases specSwitch e s arms 0 <;> simp [optToOut]

/-- the catch clause: the handler runs iff the pattern accepts the thrown value -/
theorem catchClause_eq_spec (e : Env) (p : Pat) (thrown : Val) (h : orClean p = true) :
    catchClause e p thrown = optToOut (specAssign ([] :: e) p (some .any) thrown) := by
  have hr := assign_ref ([] :: e) p (some .any) thrown h
  unfold catchClause
  rcases hq : assign ([] :: e) p (some .any) thrown with ⟨e1, o⟩
  rw [hq] at hr
  cases o with
  | ok u => simp [Ref] at hr; simp [hr, optToOut]
  | throw => simp [Ref] at hr; simp [hr, optToOut]
  | panic => simp [Ref] at hr

/-- lambda parameters -/
theorem bindParams_ref (e : Env) (params : List Pat) (args : List Val) (h : orCleanL params = true) :
    Ref (bindParams e params args) (specBindParams e params args) := by
  unfold bindParams specBindParams
  rcases arrange_cases params args with ⟨arr, h1, h2, h3⟩ | ⟨h1, h2⟩
  · rw [h1, h2]; exact assignItems_ref ([] :: e) params (some .any) arr h h3.symm
  · rw [h1, h2]; simp [Ref]

/-- `switch`, `catch` and parameter binding never panic, for arbitrary patterns -/
theorem switchArm_no_panic (e : Env) (s : Val) : ∀ (arms : List Pat) (i : Nat), switchArm e s arms i ≠ .panic := by
  intro arms
  induction arms with
  | nil => intro i; simp [switchArm]
  | cons p arms ih =>
    intro i
    unfold switchArm
    have := assign_no_panic ([] :: e) p (some .any) s
    rcases hq : assign ([] :: e) p (some .any) s with ⟨e1, o⟩
    rw [hq] at this
    cases o with
    | ok u => simp
    | throw => exact ih (i + 1)
    | panic => simp at this

/-! ## §7 the recorded defect: `or` does not roll back -/

/-- the full-strength statement: `assign` implements the transactional reference for *every* pattern -/
def assign_sound_complete_statement : Prop :=
  ∀ (e : Env) (p : Pat) (rt : Option Ty) (v : Val), Ref (assign e p rt v) (specAssign e p rt v)

/-- `(x, 1) or (x, 2)` -/
def orWitness : Pat :=
  .or (.seq [.ident 0 [], .lit (.int 1)] false) (.seq [.ident 0 [], .lit (.int 2)] false)

/-- the code refuses `[5, 2]` for `(x, 1) or (x, 2)` (the second alternative finds `x` already
declared by the failed first one) although the second alternative accepts it -/
theorem or_no_rollback_witness :
    (assign [[]] orWitness (some .any) (.list [.int 5, .int 2])).2 = .throw ∧
    (specAssign [[]] orWitness (some .any) (.list [.int 5, .int 2])).isSome = true := by
  constructor <;> decide

theorem assign_sound_complete_statement_refuted : ¬ assign_sound_complete_statement := by
  intro h
  have := h [[]] orWitness (some .any) (.list [.int 5, .int 2])
  have w := or_no_rollback_witness
  unfold Ref at this
  rw [w.1] at this
  simp only [] at this
  rw [this] at w
  simp at w

/-- non-vacuity of `assign_eq_spec`: `(1 or 2), ...xs` against `[2, 7, 8]` binds `xs = [7, 8]` -/
example :
    orClean (.seq [.or (.lit (.int 1)) (.lit (.int 2)), .splat (.ident 0 [])] false) = true ∧
    (assign [[]] (.seq [.or (.lit (.int 1)) (.lit (.int 2)), .splat (.ident 0 [])] false) (some .any)
      (.list [.int 2, .int 7, .int 8])).2 = .ok () := by
  constructor <;> decide

/-! ## §10 statements of the relational layer (proved in `Theorems/C12Matches0.lean` / `C12Matches.lean`:
`specArrange_iff_Arranged_holds`, `specAssign_iff_Matches_holds`, `destructure_iff_Inverts_holds`) -/

/-- the executable arrangement is exactly the relation `Arranged` of `Spec/Match.lean` -/
def specArrange_iff_Arranged_statement : Prop :=
  ∀ (ps : List Pat) (items arr : List Val), specArrange ps items = some arr ↔ Arranged ps items arr

/-- in declaring contexts the transactional reference is the relational matcher followed by the
declarations: `specAssign e p (some T) v = some e' ↔ ∃ β, Matches p T v β ∧ declareAll e β = some e'` -/
def specAssign_iff_Matches_statement : Prop :=
  ∀ (e e' : Env) (p : Pat) (T : Ty) (v : Val), orClean p = true →
    (specAssign e p (some T) v = some e' ↔ ∃ β, Matches p T v β ∧ declareAll e β = some e')

/-- each destructuring builtin computes exactly the inverse image `Inverts` of its constructor
(proved for every value, without the side condition, as `destructure_iff_Inverts`) -/
def destructure_iff_Inverts_statement : Prop :=
  ∀ (f : Bi) (known : List (Option Val)) (v : Val) (parts : List Val),
    exactNum v ≠ none ∨ isSeqVal v = true →
    (destructure f v known = .ok parts ↔ Inverts f known v parts)

end Noulith.C12
