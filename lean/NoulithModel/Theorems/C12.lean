/-
C12 — Patterns, destructuring, switch and runtime type annotations: property theorems.
-/
import NoulithModel.Spec.Match

namespace Noulith.C12

/-! ## `v is type(v)` and `v is anything` -/

/-- `is_type_of` (first half): every value is of the type `type` reports for it. -/
theorem isType_typeOf (v : Val) : isType (typeOf v) v = .ok true := by
  cases v <;> rfl

/-- `is_type_of` (second half): every value is `anything`. -/
theorem isType_any (v : Val) : isType .any v = .ok true := by
  cases v <;> rfl

end Noulith.C12
